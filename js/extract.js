// E3 fact extractor: parses JavaScript files with Node's bundled acorn and
// prints the ESTree as JSON. Parse only -- nothing of the input is executed.
// usage: node --expose-internals extract.js  (reads JSON {files:[{name,source}]} on stdin)
'use strict';
const acorn = require('internal/deps/acorn/acorn/dist/acorn');
let input = '';
process.stdin.setEncoding('utf8');
process.stdin.on('data', d => { input += d; });
process.stdin.on('end', () => {
  const req = JSON.parse(input);
  const out = { acorn: acorn.version, files: [] };
  for (const f of req.files) {
    const rec = { name: f.name };
    try {
      const comments = [];
      rec.ast = acorn.parse(f.source, { ecmaVersion: 'latest', sourceType: 'script', locations: true, allowReturnOutsideFunction: !!f.fragment, onComment: comments });
      rec.comments = comments.map(c => ({ type: c.type, value: c.value, start: c.start, end: c.end }));
    } catch (e) {
      rec.error = String(e && e.message || e);
    }
    out.files.push(rec);
  }
  const replacer = (k, v) => (typeof v === 'bigint' ? v.toString() : (v instanceof RegExp ? String(v) : v));
  process.stdout.write(JSON.stringify(out, replacer));
});
