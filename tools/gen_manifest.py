#!/usr/bin/env python3
"""Regenerates /verif/MANIFEST.json from the table below (single source of truth)."""
import json, os
HERE = os.path.dirname(os.path.dirname(os.path.abspath(__file__)))

# property id -> (technique, claim text, level note, design ref); None = not claimed
CLAIMS = {}
NA = {}

def claim(pid, technique, text, note, ref):
    CLAIMS[pid] = dict(technique=technique, text=text, note=note, ref=ref)

exec(open(os.path.join(HERE, "tools", "claims.py")).read())

props = [json.loads(l)["id"] for l in open(os.path.join(HERE, "properties.jsonl"))]
checks = []
for pid in props:
    if pid not in CLAIMS:
        continue
    c = CLAIMS[pid]
    checks.append({
        "property_id": pid,
        "quick_cmd": f"./bin/gjscheck -property {pid} -tier quick",
        "thorough_cmd": f"./bin/gjscheck -property {pid} -tier thorough",
        "evidence_file": f"evidence/{pid}.json",
        "replay_cmd_template": "./bin/gjscheck -replay {path}",
        "engine": "gjscheck",
        "level_claimed": {"category": "other", "text": c["text"], "design_ref": c["ref"]},
        "level_note": c["note"],
        "technique": c["technique"],
    })
na = [{"property_id": pid, "reason": NA.get(pid, "no static rule built yet for this property; not claimed")} for pid in props if pid not in CLAIMS]
baseline = json.load(open("/root/.vp/BASELINE.json"))["cmd"] if os.path.exists("/root/.vp/BASELINE.json") else ""
m = {
    "version": 1,
    "setup_cmd": "cd checker && GOFLAGS=-mod=mod GOPROXY=off GOSUMDB=off GOTOOLCHAIN=local GOWORK=off go build -o ../bin/gjscheck ./cmd/gjscheck",
    "hooks": {
        "guard": "verif",
        "enable": "no hooks: static analysis reads /repo's sources directly; the build tag `verif` is unused",
        "baseline_off_cmd": baseline,
        "source_commits": [],
        "add_only": True,
    },
    "engines": [
        {"name": "gjscheck", "path": "checker/", "serves_properties": [c["property_id"] for c in checks],
         "kind_free_text": "custom static analyser: go/packages+go/types typed syntax of the whole module, go/cfg path rules, template-corpus extraction and JS tokenisation, acorn-parsed prelude (parse only), go/parser over the natives overlay; rules are repo-specific tables and must-call/who-may-call/exhaustiveness/key-flow checks"},
    ],
    "checks": checks,
    "not_applicable": na,
    "notes": "Technique family: static analysis only. Every check inspects /repo's current sources on each run, decides named structural clauses (level 'other') and reports a specific construct; the behavioural remainder of each property is declared undecided in DESIGN.md. Known genuine defects are listed in known_findings.json.",
}
json.dump(m, open(os.path.join(HERE, "MANIFEST.json"), "w"), indent=1)
print("claimed:", [c["property_id"] for c in checks])
print("not_applicable:", [n["property_id"] for n in na])
