#!/bin/bash
# lists stored seeded changes whose patch no longer applies to /repo HEAD (they must be rebased after a fix: commit)
for s in /verif/seeded/*/; do git -C /repo apply --check $s/patch.diff 2>/dev/null || echo "NOAPPLY $(basename $s)"; done
