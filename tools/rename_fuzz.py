#!/usr/bin/env python3
"""rename_fuzz.py <property> [max] -- robustness fuzzing of a property's rules: every local variable of every
Go function that carries an obligation is renamed (one at a time, through an in-memory overlay; /repo is never
touched) and the check must stay silent. Prints the renamings that raise an alarm."""
import json, subprocess, sys, os, tempfile, concurrent.futures as cf
prop = sys.argv[1]
limit = int(sys.argv[2]) if len(sys.argv) > 2 else 10**9
os.chdir('/verif')
REPO = os.environ.get('FUZZ_REPO', '/repo')
out = subprocess.run([os.environ.get('GJSCHECK', './bin/gjscheck'), '-verif', '/verif', '-repo', REPO, '-property', prop, '-no-evidence', '-renames'], capture_output=True, text=True).stdout
cands = [json.loads(l) for l in out.splitlines() if l.startswith('{')]
cands = cands[:limit]
tmp = tempfile.mkdtemp(prefix='renfuzz-')
def run(i_c):
    i, c = i_c
    src = open(REPO + '/' + c['file'], 'rb').read()
    new = (c['name'] + 'Q').encode()
    old = c['name'].encode()
    for off in sorted(c['offsets'], reverse=True):
        assert src[off:off+len(old)] == old, (c, src[off:off+20])
        src = src[:off] + new + src[off+len(old):]
    f = os.path.join(tmp, f'{i}.go')
    open(f, 'wb').write(src)
    p = subprocess.run([os.environ.get('GJSCHECK', './bin/gjscheck'), '-verif', '/verif', '-repo', REPO, '-property', prop, '-no-evidence', '-overlay', f"{c['file']}={f}"], capture_output=True, text=True)
    os.remove(f)
    bad = [l for l in p.stdout.splitlines() if ' violated ' in l or ' undecided ' in l]
    return c, p.returncode, bad
alarms = 0
with cf.ThreadPoolExecutor(max_workers=6) as ex:
    for c, code, bad in ex.map(run, enumerate(cands)):
        if code != 0:
            alarms += 1
            keys = sorted({b.split('] ')[1].split(':')[0] + ':' + b.split('] ')[1].split(' ')[1] for b in bad if '] ' in b})
            print(f"ALARM {prop} {c['func']} {c['name']}: exit={code} {keys[:4]}", flush=True)
print(f"{prop}: {len(cands)} renamings, {alarms} alarms")
os.rmdir(tmp)
