#!/bin/bash
# usage: confirm_seed.sh <ID> [property]   -- confirms a seeded change produced in /tmp/seed/<ID> and stores it under /verif/seeded/<ID>
ID=$1; PROP=${2:-${ID:0:3}}
W=/tmp/seed/$ID; OUT=/tmp/seed/$ID.out
export GOFLAGS=-mod=mod GOPROXY=off GOSUMDB=off GOTOOLCHAIN=local
set -u
echo "== worktree diff equals patch.diff?"; diff <(git -C $W diff) $OUT/patch.diff >/dev/null && echo same || echo DIFFERENT
echo "== build patched compiler"; (cd $W && go build -o /tmp/seed/$ID.patched .) || exit 1
if [ -f $OUT/demo/main.go ]; then
  D=$(mktemp -d /tmp/seed/demo.XXXX); cp -r $OUT/demo/. $D/; cd $D; rm -f out.js
  [ -f go.mod ] || printf 'module p\n\ngo 1.20\n' > go.mod
  go run . > ref.txt 2>&1; echo "== go run vs expected.txt: $(diff -q ref.txt expected.txt >/dev/null && echo same || echo DIFFERENT)"
  GOPHERJS_SKIP_VERSION_CHECK=1 /tmp/gjs/gopherjs build -o out.js . >b0.txt 2>&1; node out.js > unpatched.txt 2>&1
  echo "== unpatched gopherjs vs expected: $(diff -q unpatched.txt expected.txt >/dev/null && echo same || echo DIFFERENT)"
  rm -f out.js; GOPHERJS_SKIP_VERSION_CHECK=1 /tmp/seed/$ID.patched build -o out.js . >b1.txt 2>&1; node out.js > patched.txt 2>&1
  echo "== patched gopherjs vs expected: $(diff -q patched.txt expected.txt >/dev/null && echo same || echo DIFFERENT)"; diff patched.txt expected.txt | head -8
  cd /; rm -rf $D
fi
echo "== baseline tests with patch"; /verif/tools/run_baseline.sh $W | head -5
[ -n "${SKIP_CHECK:-}" ] && exit 0
echo "== checks against /repo with patch applied"
git -C /repo apply $OUT/patch.diff || exit 1
for p in $PROP; do (cd /verif && ./bin/gjscheck -property $p -no-evidence | grep -v "replay=" | cut -c1-260 | tail -6); done
git -C /repo checkout -- .
git -C /repo status --short | head -3
