#!/bin/bash
# usage: test_mutants.sh <property> [id-substring]  -- runs catalogue mutants one by one and prints whether the expected rule fired
P=$1; F=${2:-}
cd /verif
for m in $(./bin/gjscheck -property $P -list-mutants | grep -- "$F"); do
  out=$(./bin/gjscheck -property $P -mutant $m 2>&1); code=$?
  echo "$P $m exit=$code $(echo "$out" | grep -E ' violated | undecided ' | sed -E 's/.*\[([A-Za-z0-9.]+)\] (violated|undecided) ([^ ]+).*/\1:\3/' | sort -u | head -4 | tr '\n' ' ')"
  [ $code = 3 ] && echo "   $out" | head -2
done
