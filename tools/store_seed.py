#!/usr/bin/env python3
"""store_seed.py <src-id> <seed-name> <property> <status> <caught_by> <needs...>  -- copies /tmp/seed/<src-id>.out into /verif/seeded/<seed-name>"""
import sys, os, shutil, json
src, name, prop, status, caught = sys.argv[1:6]
needs = " ".join(sys.argv[6:])
out = f"/tmp/seed/{src}.out"
dst = f"/verif/seeded/{name}"
os.makedirs(dst, exist_ok=True)
shutil.copy(f"{out}/patch.diff", f"{dst}/patch.diff")
if os.path.isdir(f"{out}/demo"):
    shutil.rmtree(f"{dst}/demo", ignore_errors=True)
    shutil.copytree(f"{out}/demo", f"{dst}/demo", ignore=shutil.ignore_patterns("out.js*", "*.map"))
if os.path.exists(f"{out}/notes.md"):
    shutil.copy(f"{out}/notes.md", f"{dst}/notes.md")
meta = {
    "property": prop,
    "breaks": open(f"{out}/notes.md").read().split("\n")[0][:300] if os.path.exists(f"{out}/notes.md") else "",
    "needs_to_manifest": needs,
    "origin": "independent sub-agent given only the property text and a scratch worktree",
    "confirmed": "tools/confirm_seed.sh: patch applies to /repo HEAD, compiler builds, demo output equals `go run .` reference on the unpatched compiler and differs on the patched one, the 777 baseline tests pass with the patch",
    "detection": status,
    "caught_by": caught,
    "how_to_run": f"git -C /repo apply /verif/seeded/{name}/patch.diff && (cd /verif && ./bin/gjscheck -property {prop}); git -C /repo checkout -- .",
}
json.dump(meta, open(f"{dst}/meta.json", "w"), indent=1)
print("stored", dst)
