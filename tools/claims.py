# edited as rules are built; executed by gen_manifest.py
TB = "Trusted base: go/types+go/packages (Go 1.23.5, x/tools v0.29.0) for the compiler's own typed syntax, acorn 8.16 as parser of the prelude, go/parser for the natives overlay (cannot be type-checked here). Spec-derived tables (which operators overflow, Go 1.20 node/type kinds, ECMAScript host names) are frozen in the checker with reasons. The behavioural remainder of the property is NOT decided."

claim("C01", "link-closure, exhaustiveness, must-call and lexical lints over the template corpus, prelude AST and natives",
      "Decides structural necessary conditions: every $name/arity/property the compiler or natives reference exists in the prelude; every totality-claiming dispatch (statements, expressions, operators, builtins, type kinds) covers its computed domain; Compile converts panics to errors; templates lex as JavaScript and cannot glue -- / ++; program assembly order; 32-bit sizes. A one-line edit that breaks one of these breaks whole classes of programs while the 777 tests (which never execute generated JavaScript) stay green.",
      TB, "DESIGN.md §3 C01, §2.1, §2.2")
claim("C06", "finite-domain abstract interpretation of operator arms over (operator, kind) pairs + coercion/constant tables",
      "Decides that fixNumber/$internalize implement the width table, that every (operator, kind) pair whose JavaScript result can overflow returns a correctly coerced expression (all 11 small kinds x all operators enumerated), helper dispatch and mode flags, divide-by-zero throws, radix constants of the 64-bit helpers, operator totality. Does not decide numeric values.",
      TB, "DESIGN.md §3 C06")
