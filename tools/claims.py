# edited as rules are built; executed by gen_manifest.py
TB = "Trusted base: go/types+go/packages (Go 1.23.5, x/tools v0.29.0) for the compiler's own typed syntax, acorn 8.16 as parser of the prelude, go/parser for the natives overlay (cannot be type-checked here). Spec-derived tables (which operators overflow, Go 1.20 node/type kinds, ECMAScript host names) are frozen in the checker with reasons. The behavioural remainder of the property is NOT decided."

claim("C01", "link-closure, exhaustiveness, must-call and lexical lints over the template corpus, prelude AST and natives",
      "Decides structural necessary conditions: every $name/arity/property the compiler or natives reference exists in the prelude; every totality-claiming dispatch (statements, expressions, operators, builtins, type kinds) covers its computed domain; Compile converts panics to errors; templates lex as JavaScript and cannot glue -- / ++; program assembly order; 32-bit sizes. A one-line edit that breaks one of these breaks whole classes of programs while the 777 tests (which never execute generated JavaScript) stay green.",
      TB, "DESIGN.md §3 C01, §2.1, §2.2")
claim("C06", "finite-domain abstract interpretation of operator arms over (operator, kind) pairs + coercion/constant tables",
      "Decides that fixNumber/$internalize implement the width table, that every (operator, kind) pair whose JavaScript result can overflow returns a correctly coerced expression (all 11 small kinds x all operators enumerated), helper dispatch and mode flags, divide-by-zero throws, radix constants of the 64-bit helpers, operator totality. Does not decide numeric values.",
      TB, "DESIGN.md §3 C06")

claim("C09", "key-flow (taint) analysis on the prelude AST, constructor-key completeness against Go's type-identity rules, record-schema agreement, method-name mangling agreement",
      "Decides that no type display string reaches a run-time table key (165 key positions examined), that each canonicalising constructor keys on every identity-relevant parameter/record key, that $assertType compares name/pkg/typ, that emitted method/field records contain every key the prelude reads, that every emitted method-name lookup is mangled, and totality of $equal. These are the places where distinct types were conflated or methods lost in the defects found and repaired. Does not decide promotion results for arbitrary embedding graphs.",
      TB, "DESIGN.md §3 C09")
claim("C15", "exhaustiveness over $kind arms, escape-chain recognition on the keyFor closures, template-argument provenance",
      "Decides that every comparable kind installs keyFor and only func/map/slice are non-comparable, that composite keys escape the escape character then the separator before joining, that interface keys are keyed by type identity (shared taint rule), and that literal/index/store/delete use the map's key type and {k,v} records; nil-map arms present. Does not decide operation histories.",
      TB, "DESIGN.md §3 C15")

claim("C03", "pairing/must-follow analysis on the acorn AST of the channel runtime, FIFO-discipline lint, template-to-runtime encoding agreement",
      "Decides the shape of the channel protocol: every wait-queue enqueue is followed by $block() and a continuation return, every queued closure reschedules the captured goroutine, select registrations are paired with deregistration, queues are push/shift only, $close rejects nil/closed channels and drains both queues, the compiler's select encoding matches $select's dispatch. Does not decide behaviour under interleavings (schedules, fairness, deadlock detection).",
      TB, "DESIGN.md §3 C03")

claim("C07", "who-may-call / must-call table over resolved call sites keyed by enclosing case arms, guard-ordered reachability in the boxing arm, $kind exhaustiveness of the run-time copiers",
      "Decides that every copying context of the translator converts through the cloning helper (9 contexts, counted by resolved callee and case path), that array/struct assignment emits $clone/T.copy before the aliasing stores, that boxing an array or struct into an interface clones, and that the run-time copiers recurse into both value kinds. Does not decide run-time aliasing of pointers/slices/maps.",
      TB, "DESIGN.md §3 C07")
claim("C08", "must-contain-check table over translation arms and prelude helpers, read/write sibling agreement, syntactic analysis of the runtime overlay",
      "Decides that each arm translating an operation that must be able to panic carries its check (index read/write incl. strings and nil array pointers, slicing, nil-map store, division, make bounds, conversions, assertions, channel close/send, uncomparable comparison), that run-time errors are runtime.Error values installed by runtime.init, and the defer prologue/epilogue/evaluation-order shape. Does not decide $callDeferred/$recover stack logic.",
      TB, "DESIGN.md §3 C08")
claim("C14", "abstract evaluation of the literal encoder over all 256 byte values, rune/byte dispatch table, bounds obligations, encoding boundary constants",
      "Decides exactly which bytes encodeString emits raw (256 obligations), that conversions/range/copy/append pick rune vs byte helpers by element type, that string index/slice are bounds-checked, and that the UTF-8/UTF-16 routines contain every boundary constant with matching widths. Does not decide decoder correctness on all byte sequences.",
      TB, "DESIGN.md §3 C14")

claim("C17", "determinism lint: classification of every map-iteration body on the compile/link path, nondeterminism-source scan, sort obligations",
      "Decides that every iteration over a map or hash-ordered container in the packages producing compiler output is order-insensitive (keyed stores, monotone marking, appends sorted before use, existence tests), that no clock/random/process source is consulted there, and that files/imports/sources/local names/dependency names are sorted. This is the rule that found the map-ordered instance propagation repaired in e9e4887. Does not decide byte identity across runs as such.",
      TB, "DESIGN.md §2.3, §3 C17")

claim("C02", "must-call analysis of the blocking analysis arms, fixpoint-shape and pipeline-order checks, template/token checks of the resume protocol, def-use of the saved frame, escape-scope table",
      "Decides that every suspension source reaches markBlocking (or the callee registration resolved by the fixpoint) under the right guard, that the fixpoint and the return/continue propagation run over all packages before compilation, that the resume protocol template is complete, that every JS local is saved and restored, that Blocking implies Flattened and the translator consults the flags in every resumable construct, and that escape boxing looks for captured variables in the right scopes. Does not decide that a flattened function computes what the direct form computes.",
      TB, "DESIGN.md §3 C02")
claim("C04", "must-call/never-prune checks of the instance collector, key-completeness of instance identity against the Instance struct, who-may-read rule for raw types.Info accessors",
      "Decides that instance collection cannot skip code, iterates to exhaustion before analysis, that lookup/equality/hash use every field of Instance and ids are insertion indices shared by declaration and reference, that every instance is emitted and analysed separately, that unsubstituted reads of types.Info happen only in the substitution wrappers, and that a leftover type parameter fail-stops. Does not decide the substitution itself.",
      TB, "DESIGN.md §3 C04")
claim("C05", "root/must-call table, effect-kind exhaustiveness of the initialiser side-effect test, lexical scoping of Decl code-field assignments in CollectDCEDeps, sibling agreement of filter names",
      "Decides that entry points, effectful or possibly-panicking initialisers and linkname implementations are roots, that every reference-producing helper records its dependency first, that translated code fields are filled inside the dependency collector, that names and dependencies share getFilters and the selector's bookkeeping is symmetric, that only alive decls are emitted with all fields, and that prelude references into packages are rooted or guarded. Does not decide completeness of dependencies for every program.",
      TB, "DESIGN.md §3 C05")

claim("C10", "order obligations over statement sequences of the assembly functions, rejection-path analysis of the linkname parser, template order in WritePkgCode",
      "Decides the declaration/initialiser/link order obligations (imports-types-vars-funcs, zero values then InitOrder, main call last, self-replacing $init, post-order linking with runtime first, program-level chain), file ordering by name, the three linkname rejections on error paths that reach the caller, and registration-before-binding of linkname implementations with the receiver-kind flag. Does not decide the run-time order for every import DAG.",
      TB, "DESIGN.md §3 C10")
claim("C18", "configuration-table check with constants folded by go/types against the repository's documentation and version sources",
      "Decides that the build context uses gc, no cgo, user tags plus exactly the four always-on tags, release tags truncated at the supported version (agreeing across GoVersion, Version, version_check.go, go.mod, versionhack), js/ecmascript defaults, js/wasm exactly for standard-library packages, and suffix-only .inc.js discovery. go/build's own constraint evaluation is trusted.",
      TB, "DESIGN.md §3 C18")
claim("C19", "who-may-write rule for the hint byte, encoder/decoder sibling agreement, must-precede checks on position flushing, def-use of the filtered slice",
      "Decides that 0x08 can only enter the stream through Hint.WriteTo, that WriteTo/ReadHint and Pack/Unpack agree and the filter and the minifier skip exactly the encoded length, that positions are set and flushed before code, and that line/column accounting runs over the forwarded bytes with foreign mappings offset. Does not decide column arithmetic of esbuild maps.",
      TB, "DESIGN.md §3 C19")
claim("C20", "key-completeness against the struct type, statement-order (must-precede) rules on Store/Load/deserialize, who-may-write rule for package cache, gob registration exhaustiveness computed from go/ast, encode/decode sequence agreement",
      "Decides that every configuration field and the import path reach the key, that entries appear only by rename of a closed temporary and failures clean up, that staleness is checked before decoding and Load hits only on the clean path with gzip close errors propagated, that the test package bypasses the cache before any file operation, that every AST node type is gob-registered and Write/Read agree, and that callers discard failed loads. gzip/gob/rename are trusted.",
      TB, "DESIGN.md §3 C20")

claim("C11", "method-set exhaustiveness against the type-checked js package, documentation-table agreement with $nativeArray/$internalize, $kind exhaustiveness of the conversion functions, finite-domain evaluation of the compiler's identity fast paths, class-boundary evaluation of the surrogate comparisons and corner-point inverse check of the surrogate-pair maps",
      "Decides that every js.Object method and special name has a translation with the declared result type, that the documented conversion table matches the typed-array and constructor dispatch tables, that $externalize/$internalize/$needsExternalization cover every kind or reach the documented error and agree with the compiler's fast paths, that integer arms wrap, and that function wrappers are cached. Does not decide value round trips.",
      TB, "DESIGN.md §3 C11")
claim("C12", "directive-table agreement with doc/pargma.md, shape exhaustiveness of the augment functions, mark-implies-finalize pairing (nil store or subtree replacement ⇒ change flag ⇒ finalizeRemovals ⇒ squeeze of every list), import-pruning candidate rules",
      "Decides that documented directives are the implemented ones, that every overridable declaration shape is handled on both sides, that every removal mark is finalised (no nil entries reach the type checker), that blank/dot/directive imports are never pruned from non-empty files, and that overlays are scanned before originals are rewritten. Does not decide the merged declaration set for arbitrary inputs.",
      TB, "DESIGN.md §3 C12")
claim("C16", "key-flow rules on the short-name allocator, byte-class evaluation of needsSpace over all 256 values, drop-condition and verbatim-copy obligations of the whitespace remover, lexical lint of the template corpus for shapes the remover mishandles",
      "Decides that allocated names are recorded before use, inherited by nested scopes and seeded with all reserved words, that a separator survives exactly between identifier-class bytes and between two minus signs, that strings and hints are copied verbatim and hint bytes never influence whitespace decisions, and that no template contains a shape the remover would change the meaning of. Does not decide behavioural equivalence of minified output or esbuild.",
      TB, "DESIGN.md §3 C16")

claim("C13", "syntactic sibling comparison and effect (yield-point) scan over the natives overlay, delegation table for math, typed signature agreement nosync vs sync, typestate analysis of the finite-state nosync types (transition functions derived from the method bodies, bisimulation with the specified sync automata)",
      "NARROW claim: decides only that the sync/atomic overlay families are structurally identical and yield-free, that pure delegations to JavaScript Math use the matching method and argument order and the bit-pattern pairs use the same buffer words, that nosync mirrors the signatures of sync without yield points, and that nosync.Mutex/RWMutex/WaitGroup/Once follow the sync automata on every uncontended operation sequence (counters explored to 3) and panic on contended or fatal ones. Value equality with the upstream implementations — the bulk of the property — is NOT decided by this technique family.",
      TB + " The natives overlay cannot be type-checked here (GOROOT mismatch): rules on it are syntactic.", "DESIGN.md §3 C13")

# rules added after the fourth and fifth round of seeded changes (DESIGN.md §8); appended to the claim texts
def more(pid, text):
    CLAIMS[pid]["text"] += " Also decided (rules added after seeded changes, DESIGN.md §8): " + text

more("C01", "the nil slice for an empty variadic argument list (guards of the slice-literal site), named results assigned by `return v`, argument evaluation order across suspension points, one product per carry column of $mul64, comment delimiters opened and closed in one literal with sanitised holes, Go labels kept apart from the dispatch loop's label; plus the sequential-semantics rules of C02/C04/C05/C06/C07/C08/C09/C10/C14/C15.")
more("C02", "labelled break/continue re-dispatch through the labelled dispatch loop; every Go label site goes through the helper that renames the compiler's own label; all non-constant arguments saved when a later one suspends.")
more("C04", "the shared, syntax-keyed type tables are only extended under nodes created on the spot (who-may-write rule, 22 sites); type-argument text inside a comment is sanitised.")
more("C05", "the go:linkname set is filled completely before the dead-code selector queries it (phase order); the side-effect visitor prunes only after an effect was found.")
more("C07", "range over an array (with a value variable) goes through the cloning helper.")
more("C08", "array and struct types answer .comparable on demand from ALL component types (accessor shape; no copy at init time).")
more("C09", "blank fields are skipped by $equal's struct arm and by the struct keyFor (sibling agreement); every `{}` table probed with a computed key is keyed by ids / prefixed keys or has no prototype, and presence tests on prototype objects are own-property tests.")
more("C10", "the package path of a linkname target is cut at a position that data-depends on the last '/'; symbol.IsMethod inverts symbol.New.")
more("C11", "getJsTag skips the separating spaces in every iteration of its pair loop; $sliceToNativeArray hands out the raw backing array only under a full-length test.")
more("C12", "a blank overlay function or variable is not an override; the purge decision is taken per specification.")
more("C13", "Ldexp's fast-path guard evaluated at the boundary exponents.")
more("C14", "subarray bounds relative to $offset.")
more("C15", "range over a map re-reads each entry and skips deleted ones, every read of the Map object set up for a range is nil-guarded; NaN-carrying components go through $floatKey and element keys stay strings; delete/lookup keys are converted to the key type.")
more("C16", "WriteJS forwards esbuild's output verbatim.")
more("C19", "the text handed to WriteJS and the file name are fields of one file record; the first-line test of the mapping offset uses the line number of the sourcemap decoder (read from the dependency's source).")
more("C20", "the staleness bound covers .inc.js files.")

# sixth round
more("C01", "(sixth round) compound assignment parenthesises its right operand; every expression operand reaches a template once; the integer remainder is coerced after its NaN test; slice conversions keep the capacity.")
more("C02", "(sixth round) nothing is translated after pkgCtx.escapingVars is restored.")
more("C04", "(sixth round) the concrete selection takes index path and object from one lookup on the instantiated receiver.")
more("C05", "(sixth round) nested DCE filters inherit the outer type-parameter replacements.")
more("C06", "(sixth round) remainder yields no negative zero; compound assignment keeps the grouping of its right operand.")
more("C07", "(sixth round) $convertSliceType derives offset, length and capacity from the operand.")
more("C09", "(sixth round) pointer-receiver methods promoted from non-struct embedded fields are forwarded through a pointer to the field; dispatch on structural types looks through defined types (EXH.named).")
more("C11", "(sixth round) $parseFloat returns Number operands unchanged.")
more("C12", "(sixth round) no source is parsed with SkipObjectResolution while pruneImports reads Ident.Obj.")
more("C13", "(sixth round) Signbit/Copysign evaluated on the six sign classes of a float64.")
more("C17", "(sixth round) files are sorted by their physical name.")
more("C19", "(sixth round) no constant shift in the codecs reaches the width of its operand type; header reader/writer accept library and hand-coded big-endian forms.")
more("C20", "(sixth round) prepareFile never writes through a slice that aliases its argument.")

# seventh round
more("C01", "(seventh round) the channel value-flow rules of C03, the deferred-call order of $callDeferred and the literal-analysis lookup are evaluated for C01 as well.")
more("C02", "(seventh round) Blocking/Flattened sets only grow; $callDeferred examines a suspended deferred call before a recovered panic.")
more("C04", "(seventh round) function-literal analyses are looked up with the enclosing instance's type arguments and returned only on equality.")
more("C08", "(seventh round) arguments of deferred builtins are parameters of the proxy lambda.")
more("C10", "(seventh round) an exported go:linkname reference is exported where it is bound; blocking marks of body-less functions are never cleared.")
more("C11", "(seventh round) the cycle cache of $internalize is keyed by type, then value.")
more("C12", "(seventh round) an all-blank specification is removed only if one of its names was overridden.")
more("C13", "(seventh round) nosync.Pool.Put drops nil like sync.Pool.Put.")
more("C14", "(seventh round) the minifier's string-literal scan (C16.space) is evaluated for C14.")
more("C15", "(seventh round) $idKey assigns an id exactly once.")
more("C16", "(seventh round) KeepNames accompanies identifier minification.")
more("C17", "(seventh round) no sort orders files by token.Pos.")
more("C18", "(seventh round) no build context carries tool tags.")
more("C20", "(seventh round) LoadPackages only raises SrcModTime.")
more("C08", "(seventh round) the builtin recover is deferred as $recover itself, never inside the proxy lambda.")
more("C13", "(seventh round) the math.Modf overlay evaluated on representatives of every class of operand against Go's math.Modf.")

# eighth round
more("C01", "(eighth round) left-hand operands of a parallel assignment are stored in temporaries before the right-hand sides are evaluated.")
more("C01", "(eighth round) two-operand expression templates evaluate the left operand first and unconditionally (hoisted arguments count in argument order).")
more("C02", "(eighth round) each dispatch line of a flattened if/switch ladder follows the translation of its own condition; the recovered branch of $callDeferred does not return.")
more("C04", "(eighth round) code that can name types of later-loaded packages is emitted inside $finishSetup.")
more("C08", "(eighth round) panic values of the runtime overlay have RuntimeError(); remaining deferred calls run after a resumed recovery.")
more("C10", "(eighth round) the local symbol of a go:linkname directive is looked up among functions without a receiver.")
more("C11", "(eighth round) every $array[…] element access adds the same operand's $offset.")
more("C11", "(eighth round) a js tag takes the dot notation only when every character may be part of a JavaScript identifier.")
more("C11", "(eighth round) js.NewArrayBuffer adds the byteOffset of the backing view to the slice offset.")
more("C12", "(eighth round) the directive-import table is consulted with the import path.")
more("C13", "(eighth round) nosync.Map reads its map with comma-ok only.")
more("C13", "(eighth round) atomic.Value.CompareAndSwap compares the types of old and new only when old is not nil.")
more("C13", "(eighth round) every panic message of the sync/atomic overlay is a message of the original package.")
more("C18", "(eighth round) isStd answers true only from the located package's Goroot flag.")
more("C18", "(eighth round) the --tags value is split at commas as well as white space in every command.")
more("C15", "(eighth round) $ifaceKeyFor rejects unhashable dynamic types with a run-time error before calling keyFor.")
more("C17", "(eighth round) a session prepares and compiles each program from the dependency closure of its root, without archives of earlier builds.")
more("C06", "(eighth round) 64-bit integers convert to float32 through a sticky-bit helper (one rounding).")
more("C06", "(eighth round) integer constants reach %f operands with all their digits.")
more("C06", "(eighth round) every non-constant shift tests a count of signed type for negativity (32-bit templates through a throwing helper, the 64-bit helpers themselves).")
more("C08", "(eighth round) a negative shift count raises a run-time error (C06.negative-shift).")
more("C07", "(eighth round) value-receiver methods clone a struct/array receiver on entry when a may-modify analysis of the body holds; individually passed variadic arguments are cloned; the clone of a pointer-called value method is decided by the method's receiver type.")
more("C03", "(eighth round) a goroutine taken off the run queue is run before the scheduling loop can be left.")
more("C05", "(eighth round) object-naming helpers run only inside the CollectDCEDeps callback.")
more("C16", "(eighth round) every statement template ends explicitly.")
more("C09", "(eighth round) receiver copies (C07.receiver-copy, C09.receiver-clone).")
