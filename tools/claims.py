# edited as rules are built; executed by gen_manifest.py
