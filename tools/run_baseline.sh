#!/bin/bash
# Runs the repository test suite (guard off) and compares with BASELINE.json's stable_pass list.
# usage: run_baseline.sh [repo-dir]
REPO=${1:-/repo}
export GOFLAGS=-mod=mod GOPROXY=off GOSUMDB=off GOTOOLCHAIN=local
OUT=$(mktemp /tmp/baseline.XXXXXX.json)
(cd "$REPO" && go test -mod=mod -json -vet=off -count=1 -timeout 25m ./... > "$OUT" 2>/dev/null)
python3 - "$OUT" <<'PY'
import json, sys
want = set(json.load(open('/root/.vp/BASELINE.json'))['stable_pass'])
res = {}
for line in open(sys.argv[1]):
    try: e = json.loads(line)
    except Exception: continue
    if e.get('Test') and e.get('Action') in ('pass','fail','skip'):
        res[e['Package']+'::'+e['Test']] = e['Action']
missing = sorted(t for t in want if res.get(t) != 'pass')
print(f"stable_pass={len(want)} passing_now={sum(1 for t in want if res.get(t)=='pass')} not_passing={len(missing)}")
for t in missing[:40]: print("  NOT PASSING:", t, res.get(t))
sys.exit(1 if missing else 0)
PY
rc=$?
rm -f "$OUT"
exit $rc
