#!/usr/bin/env python3
"""prep_seed.py <prop> <suffix> [extra hint...] -- creates worktree /tmp/seed/<prop><suffix> and prompt /tmp/seed/<prop><suffix>.prompt.txt
The prompt contains only the property text (from properties.jsonl) and, for later rounds, one-line descriptions of
changes already collected for this property (so that the new change is a different one). Nothing from /verif's checks."""
import json, sys, os, subprocess, glob
prop, suffix = sys.argv[1], sys.argv[2]
extra = " ".join(sys.argv[3:])
ID = prop + suffix
d = None
for l in open('/verif/properties.jsonl'):
    x = json.loads(l)
    if x['id'] == prop: d = x
a = d['anchors']
text = f"{ID} — {d['title']}\n\nStatement: {d['statement']}\n\nQuantified over: {d['quantifier']['text']}\n\nWhy the existing tests cannot settle it: {d['why_tests_cant']}\n\nAnchor files: {', '.join(a['files'])}\nMechanisms: " + "; ".join(f"{m['name']} @ {m['where']}" for m in a['mechanism']) + "\n"
prev = []
for mf in sorted(glob.glob(f'/verif/seeded/{prop}-*/meta.json')):
    name = os.path.basename(os.path.dirname(mf))
    patch = open(os.path.join(os.path.dirname(mf), 'patch.diff')).read()
    files = sorted({l[6:] for l in patch.split('\n') if l.startswith('+++ b/')})
    prev.append(f"- {name} (in {', '.join(files)})")
t = open('/tmp/seed/PROMPT.tmpl').read().replace('WORKTREE', f'/tmp/seed/{ID}').replace('PROPERTY', text).replace('ID', ID)
if prev:
    t += "\n\nChanges already collected for this property — yours must use a DIFFERENT mechanism and preferably a different function or file:\n" + "\n".join(prev) + "\n"
if extra:
    t += "\n" + extra + "\n"
open(f'/tmp/seed/{ID}.prompt.txt', 'w').write(t)
subprocess.run(['git', '-C', '/repo', 'worktree', 'add', '--detach', f'/tmp/seed/{ID}', 'HEAD'], check=True, capture_output=True)
print(f'/tmp/seed/{ID}.prompt.txt')
