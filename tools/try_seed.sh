#!/bin/bash
# usage: try_seed.sh <ID> [properties...]  -- applies /tmp/seed/<ID>.out/patch.diff to /repo, runs the named checks, undoes it
ID=$1; shift; PROPS=${@:-${ID:0:3}}
git -C /repo apply /tmp/seed/$ID.out/patch.diff || exit 1
for p in $PROPS; do (cd /verif && ./bin/gjscheck -property $p -no-evidence | grep -v "replay=" | cut -c1-300 | tail -5); done
git -C /repo checkout -- .
git -C /repo status --short | head -3
