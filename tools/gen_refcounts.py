#!/usr/bin/env python3
"""gen_refcounts.py -- records, per rule, the number of obligations found on the current (reference) tree.
Run after the quick checks of all properties; writes /verif/reference_counts.json.
Rules whose instances are individual templates or identifiers (they come and go with ordinary edits of the
compiler) keep 90 % slack; all others must not lose a single instance."""
import json, glob, math
VOLATILE = ("LINK.", "C16.lex", "C01.lex", "C01.adj", "C19.magic", "C14.literal", "C16.space", "C16.stmt-end", "C01.once-operands")
ref = {}
for f in sorted(glob.glob('/verif/evidence/C*.json')):
    e = json.load(open(f))
    for r in e['coverage']['rules']:
        name, n = r['rule'], r['obligations']
        if name.startswith(('selftest.', 'internal.')):
            continue
        if name.startswith(VOLATILE):
            n = math.floor(n * 0.9)
        ref[name] = min(ref.get(name, n), n)
json.dump(dict(sorted(ref.items())), open('/verif/reference_counts.json', 'w'), indent=1)
print(len(ref), 'rules')
