// gjscheck decides structural clauses of the gopherjs properties by static
// analysis of /repo's current working tree. It never runs code of the repository.
package main

import (
	"encoding/json"
	"flag"
	"fmt"
	"os"
	"path/filepath"
	"runtime/debug"
	"strconv"
	"strings"
	"time"

	"verif/checker/internal/core"
	"verif/checker/internal/ctx"
	"verif/checker/internal/rules"
)

func main() {
	prop := flag.String("property", "", "property id (C01..C20)")
	tier := flag.String("tier", "quick", "quick|thorough")
	repo := flag.String("repo", "/repo", "repository root")
	verif := flag.String("verif", "", "verif root (default: directory above the binary)")
	replay := flag.String("replay", "", "replay file: re-evaluate that obligation")
	dump := flag.String("dump", "", "debug: templates|jsfree")
	mutant := flag.String("mutant", "", "self-test: apply mutant <id> through an in-memory overlay")
	noEvidence := flag.Bool("no-evidence", false, "do not write evidence/replay files (self-test)")
	dumpLocals := flag.Bool("dump-locals", false, "print the reference table of local variable names (reference_locals.json)")
	renames := flag.Bool("renames", false, "debug: list local variables of the functions carrying obligations (input of tools/rename_fuzz.py)")
	listObs := flag.Bool("list", false, "debug: print every obligation (rule, key, verdict, site)")
	listMutants := flag.Bool("list-mutants", false, "list mutant ids for -property")
	var overlays multiFlag
	flag.Var(&overlays, "overlay", "debug: <repo-relative file>=<replacement file>; analysed instead of the file on disk (repeatable)")
	flag.Parse()
	start := time.Now()

	if *verif == "" {
		exe, _ := os.Executable()
		*verif = filepath.Dir(filepath.Dir(exe))
	}
	if t := os.Getenv("VERIF_TIER"); t != "" && !isFlagSet("tier") {
		*tier = t
	}
	seed := int64(0)
	if s := os.Getenv("VERIF_SEED"); s != "" {
		seed, _ = strconv.ParseInt(s, 10, 64)
	}

	c := ctx.New(*repo, *verif, *tier)
	rules.LoadSeedMutants(c.Verif)
	if *dumpLocals {
		c.NoAlpha = true
	}
	for _, o := range overlays {
		i := strings.Index(o, "=")
		if i < 0 {
			fmt.Println("bad -overlay", o)
			os.Exit(2)
		}
		b, err := os.ReadFile(o[i+1:])
		if err != nil {
			fmt.Println(err)
			os.Exit(2)
		}
		c.Overlay[filepath.Join(*repo, o[:i])] = b
		*noEvidence = true
	}

	var wantKey string
	if *replay != "" {
		b, err := os.ReadFile(*replay)
		if err != nil {
			fmt.Println("cannot read replay file:", err)
			os.Exit(2)
		}
		var o core.Obligation
		if err := json.Unmarshal(b, &o); err != nil {
			fmt.Println("bad replay file:", err)
			os.Exit(2)
		}
		*prop = o.Property
		wantKey = o.Rule + "|" + o.Key
		*noEvidence = true
	}

	if *dump != "" {
		if err := rules.Dump(c, *dump); err != nil {
			fmt.Println(err)
			os.Exit(2)
		}
		return
	}
	if *listMutants {
		for _, m := range rules.Mutants(*prop) {
			fmt.Println(m.ID)
		}
		return
	}

	p := rules.Get(*prop)
	if p == nil {
		fmt.Printf("unknown property %q; known: %s\n", *prop, strings.Join(rules.IDs(), " "))
		os.Exit(2)
	}
	if *mutant != "" {
		if err := rules.ApplyMutant(c, *prop, *mutant); err != nil {
			fmt.Println("SELFTEST-SKIP:", err)
			os.Exit(3)
		}
		*noEvidence = true
	}
	if *tier == "thorough" && *mutant == "" && *replay == "" {
		// self-validation runs in sub-processes (one mutant each)
		defer func() {}()
	}

	r := core.NewReporter(*prop)
	runRules := func() {
		defer func() {
			if e := recover(); e != nil {
				r.Begin("internal.panic", "internal", "the analyser itself must not crash", 0)
				r.Undecided("analyser-panic", "", fmt.Sprintf("%v\n%s", e, debug.Stack()))
			}
		}()
		if err := c.Load(); err != nil {
			r.Begin("internal.load", "internal", "every package of the module loads and type-checks", 1)
			r.Undecided("load", "", err.Error())
			return
		}
		r.Count("root packages", len(c.Roots))
		r.Count("packages type-checked from source", len(c.All))
		for _, rf := range p.Rules {
			rf(c, r)
		}
		if *tier == "thorough" {
			for _, rf := range p.Thorough {
				rf(c, r)
			}
			if *mutant == "" && *replay == "" {
				rules.SelfValidate(c, r, *prop)
			}
		}
	}
	runRules()
	if *dumpLocals {
		b, _ := json.MarshalIndent(c.DumpLocals(), "", " ")
		fmt.Println(string(b))
		return
	}
	if *renames {
		rules.DumpRenames(c, r.Obs)
		return
	}
	if *listObs {
		for _, o := range r.Obs {
			fmt.Printf("%s\t%s\t%s\t%s\n", o.Rule, o.Key, o.Verdict, o.Site)
		}
	}

	if *replay != "" {
		found := false
		for _, o := range r.Obs {
			if o.FullKey() == wantKey {
				found = true
				b, _ := json.MarshalIndent(o, "", " ")
				fmt.Println(string(b))
				if o.Verdict == core.Violated || o.Verdict == core.Undecided {
					fmt.Printf("VIOLATION property=%s replay=%s\n", *prop, *replay)
					os.Exit(1)
				}
			}
		}
		if !found {
			fmt.Println("obligation no longer exists on the current tree:", wantKey)
		}
		return
	}

	if b, err := os.ReadFile(filepath.Join(*verif, "reference_counts.json")); err == nil && *replay == "" {
		ref := map[string]int{}
		if json.Unmarshal(b, &ref) == nil {
			r.ApplyReference(ref)
		}
	}
	known, err := core.LoadKnown(filepath.Join(*verif, "known_findings.json"))
	if err != nil {
		fmt.Println("known_findings.json:", err)
		os.Exit(2)
	}
	outDir := *verif
	if *noEvidence {
		d, _ := os.MkdirTemp("", "gjscheck-selftest-")
		defer os.RemoveAll(d)
		outDir = d
	}
	res := r.Finish(outDir, *tier, seed, start, known, p.Explanation, p.Assumptions)
	for _, l := range res.Lines {
		if *noEvidence {
			l = strings.ReplaceAll(l, outDir, "<selftest>")
		}
		fmt.Println(l)
	}
	if *noEvidence {
		os.RemoveAll(outDir)
	}
	os.Exit(res.ExitCode)
}

type multiFlag []string

func (m *multiFlag) String() string     { return strings.Join(*m, ",") }
func (m *multiFlag) Set(v string) error { *m = append(*m, v); return nil }

func isFlagSet(name string) bool {
	set := false
	flag.Visit(func(f *flag.Flag) {
		if f.Name == name {
			set = true
		}
	})
	return set
}
