// Package core holds the obligation / verdict / evidence machinery shared by
// all rules of gjscheck.
package core

import (
	"encoding/json"
	"fmt"
	"os"
	"path/filepath"
	"sort"
	"strings"
	"time"
)

// Verdict of one obligation.
type Verdict string

const (
	Discharged Verdict = "discharged"
	Violated   Verdict = "violated"
	Undecided  Verdict = "undecided"
	Info       Verdict = "info"
)

// Obligation is one instance of a rule at one construct.
type Obligation struct {
	Property string  `json:"property"`
	Rule     string  `json:"rule"`
	Key      string  `json:"key"`  // rule-local construct key, never a line number
	Site     string  `json:"site"` // file:line for diagnosis only
	Verdict  Verdict `json:"verdict"`
	Detail   string  `json:"detail,omitempty"`
	Known    bool    `json:"known_finding,omitempty"`
}

// FullKey identifies an obligation across runs.
func (o *Obligation) FullKey() string { return o.Rule + "|" + o.Key }

// RuleStat summarises one rule in a run.
type RuleStat struct {
	Rule        string `json:"rule"`
	Family      string `json:"family"`
	Doc         string `json:"doc"`
	Min         int    `json:"min_instances"`
	Obligations int    `json:"obligations"`
	Discharged  int    `json:"discharged"`
	Violated    int    `json:"violated"`
	Undecided   int    `json:"undecided"`
	Known       int    `json:"known_findings"`
	Infos       int    `json:"infos"`
}

// Reporter collects obligations for one property run.
type Reporter struct {
	Property string
	Obs      []*Obligation
	cur      *RuleStat
	Stats    []*RuleStat
	seen     map[string]bool
	Analysed map[string]int // free-form counters: packages, functions, templates ...
}

func NewReporter(property string) *Reporter {
	return &Reporter{Property: property, seen: map[string]bool{}, Analysed: map[string]int{}}
}

// ApplyReference raises each rule's minimum instance count to the count recorded for the reference
// tree (reference_counts.json): an obligation that silently disappears — because the construct it was
// attached to was deleted — must not make the check pass.
func (r *Reporter) ApplyReference(ref map[string]int) {
	for _, st := range r.Stats {
		if n, ok := ref[st.Rule]; ok && n > st.Min {
			st.Min = n
		}
	}
}

// Begin starts a rule.
func (r *Reporter) Begin(rule, family, doc string, min int) {
	r.cur = &RuleStat{Rule: rule, Family: family, Doc: doc, Min: min}
	r.Stats = append(r.Stats, r.cur)
}

func (r *Reporter) add(v Verdict, key, site, detail string) *Obligation {
	if r.cur == nil {
		panic("obligation outside rule")
	}
	o := &Obligation{Property: r.Property, Rule: r.cur.Rule, Key: key, Site: site, Verdict: v, Detail: detail}
	fk := o.FullKey()
	if r.seen[fk] && v != Info {
		// keys must be unique per rule: disambiguate deterministically
		for i := 2; ; i++ {
			k2 := fmt.Sprintf("%s#%d", key, i)
			if !r.seen[r.cur.Rule+"|"+k2] {
				o.Key = k2
				fk = o.FullKey()
				break
			}
		}
	}
	r.seen[fk] = true
	r.Obs = append(r.Obs, o)
	switch v {
	case Discharged:
		r.cur.Obligations++
		r.cur.Discharged++
	case Violated:
		r.cur.Obligations++
		r.cur.Violated++
	case Undecided:
		r.cur.Obligations++
		r.cur.Undecided++
	case Info:
		r.cur.Infos++
	}
	return o
}

// Check records a discharged (ok) or violated obligation.
func (r *Reporter) Check(ok bool, key, site, detail string) bool {
	if ok {
		r.add(Discharged, key, site, detail)
	} else {
		r.add(Violated, key, site, detail)
	}
	return ok
}

func (r *Reporter) OK(key, site, detail string)        { r.add(Discharged, key, site, detail) }
func (r *Reporter) Violation(key, site, detail string) { r.add(Violated, key, site, detail) }
func (r *Reporter) Undecided(key, site, detail string) { r.add(Undecided, key, site, detail) }
func (r *Reporter) Info(key, site, detail string)      { r.add(Info, key, site, detail) }

// Count adds to a free-form "what was analysed" counter.
func (r *Reporter) Count(what string, n int) { r.Analysed[what] += n }

// ---------------------------------------------------------------------------
// Known findings

type KnownFinding struct {
	Property string `json:"property"`
	Rule     string `json:"rule"`
	Key      string `json:"key"`
	What     string `json:"what"`
	Witness  string `json:"witness,omitempty"`
	Status   string `json:"status"` // "known" or "fixed:<commit>"
}

type KnownFile struct {
	Findings []KnownFinding `json:"findings"`
	Fixed    []string       `json:"fixed,omitempty"` // "fixed: property=<id> <commit> <what failed>"
}

func LoadKnown(path string) (*KnownFile, error) {
	kf := &KnownFile{}
	b, err := os.ReadFile(path)
	if err != nil {
		if os.IsNotExist(err) {
			return kf, nil
		}
		return nil, err
	}
	if err := json.Unmarshal(b, kf); err != nil {
		return nil, fmt.Errorf("%s: %w", path, err)
	}
	return kf, nil
}

// ---------------------------------------------------------------------------
// Finishing a run

type Result struct {
	ExitCode int
	Lines    []string
}

// Finish applies the known-findings file and vacuity minima, writes the
// evidence file and replay files and returns the lines to print.
func (r *Reporter) Finish(verifDir, tier string, seed int64, start time.Time, known *KnownFile, levelExplanation string, assumptions []string) Result {
	res := Result{}
	// vacuity: a rule below its confirmed instance count is undecided.
	for _, st := range r.Stats {
		if st.Obligations < st.Min {
			r.cur = st
			r.add(Undecided, "vacuity", "", fmt.Sprintf("rule matched %d constructs, fewer than the %d confirmed by hand on the reference tree: anchors moved or were deleted", st.Obligations, st.Min))
		}
	}
	// known findings
	kidx := map[string]*KnownFinding{}
	for i := range known.Findings {
		k := &known.Findings[i]
		if k.Status == "known" && k.Property == r.Property {
			kidx[k.Rule+"|"+k.Key] = k
		}
	}
	for _, o := range r.Obs {
		if o.Verdict == Violated {
			if k, ok := kidx[o.FullKey()]; ok {
				o.Known = true
				res.Lines = append(res.Lines, fmt.Sprintf("KNOWN-FINDING: property=%s rule=%s %s — %s", r.Property, o.Rule, o.Key, k.What))
				for _, st := range r.Stats {
					if st.Rule == o.Rule {
						st.Known++
					}
				}
			}
		}
	}
	replayDir := filepath.Join(verifDir, "replay")
	os.MkdirAll(replayDir, 0o755)
	// remove stale replay files of this property
	if old, _ := filepath.Glob(filepath.Join(replayDir, r.Property+"-*.json")); old != nil {
		for _, f := range old {
			os.Remove(f)
		}
	}
	nviol := 0
	for _, o := range r.Obs {
		bad := (o.Verdict == Violated && !o.Known) || o.Verdict == Undecided
		if !bad {
			continue
		}
		nviol++
		name := fmt.Sprintf("%s-%03d.json", r.Property, nviol)
		p := filepath.Join(replayDir, name)
		b, _ := json.MarshalIndent(o, "", " ")
		os.WriteFile(p, b, 0o644)
		res.Lines = append(res.Lines, fmt.Sprintf("%s: [%s] %s %s: %s", o.Site, o.Rule, o.Verdict, o.Key, o.Detail))
		res.Lines = append(res.Lines, fmt.Sprintf("VIOLATION property=%s replay=%s", r.Property, p))
	}
	if nviol > 0 {
		res.ExitCode = 1
	}

	// evidence
	total, disch, distinct, infos, knownN := 0, 0, 0, 0, 0
	for _, st := range r.Stats {
		total += st.Obligations
		disch += st.Discharged
		infos += st.Infos
		knownN += st.Known
		if st.Obligations > 0 {
			distinct++
		}
	}
	// distinct_nontrivial: distinct (rule, construct) keys that matched a real construct
	dk := map[string]bool{}
	for _, o := range r.Obs {
		if o.Verdict != Info && o.Key != "vacuity" {
			dk[o.FullKey()] = true
		}
	}
	samples := []any{}
	perRule := map[string]int{}
	for _, o := range r.Obs {
		if o.Verdict == Info {
			continue
		}
		if perRule[o.Rule] < 3 || o.Verdict != Discharged {
			perRule[o.Rule]++
			if len(samples) < 400 {
				samples = append(samples, o)
			}
		}
	}
	infoList := []any{}
	for _, o := range r.Obs {
		if o.Verdict == Info && len(infoList) < 200 {
			infoList = append(infoList, o)
		}
	}
	var rules []string
	for _, st := range r.Stats {
		rules = append(rules, st.Rule)
	}
	sort.Strings(rules)
	expl := fmt.Sprintf("%s Rules evaluated on /repo's current working tree: %s. Analysed: %s.", levelExplanation, strings.Join(rules, ", "), fmtCounts(r.Analysed))
	ev := map[string]any{
		"property_id": r.Property,
		"tier":        tier,
		"seed":        seed,
		"level":       "other",
		"coverage": map[string]any{
			"explanation":          expl,
			"obligations":          total,
			"discharged":           disch,
			"evaluations":          total,
			"distinct_nontrivial":  len(dk),
			"rule":                 "an obligation is one instance of a static rule at one resolved construct (function, case arm, template, JS function, table entry); distinct = distinct (rule, construct-key) pairs; every counted obligation matched a real construct of the tree (vacuity minima enforced per rule)",
			"samples":              samples,
			"exhaustive":           true,
			"rules":                r.Stats,
			"analysed":             r.Analysed,
			"known_findings":       knownN,
			"informational":        infoList,
			"rules_with_instances": distinct,
			"checker_cmd":          fmt.Sprintf("./bin/gjscheck -property %s -tier %s", r.Property, tier),
			"trusted_base":         []string{"go/types, go/packages, go/cfg (Go 1.23.5, x/tools v0.29.0)", "acorn 8.16 (bundled with Node 20) as parser only"},
		},
		"assumptions": assumptions,
		"wall_s":      time.Since(start).Seconds(),
		"violations":  nviol,
	}
	evDir := filepath.Join(verifDir, "evidence")
	os.MkdirAll(evDir, 0o755)
	b, _ := json.MarshalIndent(ev, "", " ")
	if err := os.WriteFile(filepath.Join(evDir, r.Property+".json"), b, 0o644); err != nil {
		res.Lines = append(res.Lines, "cannot write evidence: "+err.Error())
		res.ExitCode = 1
	}
	res.Lines = append(res.Lines, fmt.Sprintf("property=%s tier=%s rules=%d obligations=%d discharged=%d known=%d infos=%d violations=%d", r.Property, tier, len(r.Stats), total, disch, knownN, infos, nviol))
	return res
}

func fmtCounts(m map[string]int) string {
	var ks []string
	for k := range m {
		ks = append(ks, k)
	}
	sort.Strings(ks)
	var parts []string
	for _, k := range ks {
		parts = append(parts, fmt.Sprintf("%d %s", m[k], k))
	}
	return strings.Join(parts, ", ")
}
