package rules

import (
	"fmt"
	"go/ast"
	"go/types"
	"regexp"
	"sort"
	"strings"

	"verif/checker/internal/core"
	"verif/checker/internal/ctx"
	"verif/checker/internal/tmpl"
)

func init() {
	register(&Property{
		ID:          "C11",
		Explanation: "Decided: (methods) the compiler's dispatch on js.Object method names covers the method set of js.Object computed from the type-checked js package, each accessor internalises with exactly the method's declared result type, and the special package-level names of js are all handled; (doc) the conversion table in the js package comment agrees with $nativeArray (Go slice element kind → typed array) and with the constructor dispatch of $internalize's interface arm (JavaScript value → Go type); (kinds) $externalize, $internalize and $needsExternalization have an arm for every $kind or end in the documented cannot-externalize/internalize error, and the compiler's identity fast paths are a subset of the kinds the prelude passes through unchanged — evaluated over the finite set of basic kinds; (coerce) integer arms wrap like fixNumber (shared with C06); (cache) a Go function externalises to one cached wrapper; (guard) blocking inside a JavaScript callback throws. (utf16) in the string arms of $externalize/$internalize every comparison against a constant of the surrogate region splits at a UTF-16 class boundary, the surrogate-pair composition inverts the decomposition on the corner points of U+10000..U+10FFFF, the pair is composed exactly under the high-surrogate test and advances by two. NOT decided: value round trips (UTF-16 transcoding, 64-bit ranges, NaN/−0), nested composites.",
		Assumptions: []string{"the js package comment table is the documented conversion contract"},
		Rules:       []RuleFunc{ruleC11Methods, ruleC11Doc, ruleC11Kinds, ruleC11Misc, ruleC11UTF16, ruleC06Coerce, ruleRawBackingArray, ruleC11JsTag, ruleC11ParseFloat, ruleC11SeenCache, ruleSliceElemOffset, ruleC11TagIdentifier, ruleC11ArrayBufferOffset},
	})
}

func ruleC11Methods(c *ctx.Ctx, r *core.Reporter) {
	r.Begin("C11.methods", "F-EXH", "the compile-time dispatch on js.Object methods covers js.Object's method set; accessor methods internalise with their declared result type; special js names are handled", 25)
	jsp := c.Pkg("js")
	if jsp == nil {
		r.Undecided("js", "js", "package js not loaded")
		return
	}
	obj := jsp.Types.Scope().Lookup("Object")
	ms := types.NewMethodSet(types.NewPointer(obj.Type()))
	var sw *switchInfo
	for _, s := range switchesOf(c, "compiler") {
		if s.fn == "funcContext.translateExpr" && s.domain == "string" && strings.Contains(strings.Join(s.casePath, "/"), "_.Kind():types.MethodVal") {
			sw = s
		}
	}
	if sw == nil {
		r.Undecided("dispatch", "compiler/expressions.go", "switch on sel.Obj().Name() under the js.Object receiver test not found")
		return
	}
	have := map[string]bool{}
	for _, l := range sw.labels {
		have[l] = true
	}
	site := c.Pos(sw.node.Pos())
	for i := 0; i < ms.Len(); i++ {
		name := ms.At(i).Obj().Name()
		r.Check(have[name], "method:"+name, site, "js.Object."+name+" has a translation arm (the default arm panics: `Invalid js package object`)")
	}
	// guarded by IsJsObject(declaredFuncRecv)
	fd := c.FuncDecl("compiler", "funcContext.translateExpr")
	guard := false
	ast.Inspect(fd.Body, func(n ast.Node) bool {
		if is, ok := n.(*ast.IfStmt); ok && exprStr(is.Cond) == "typesutil.IsJsObject(declaredFuncRecv)" && is.Body.Pos() <= sw.node.Pos() && sw.node.End() <= is.Body.End() {
			guard = true
		}
		return true
	})
	r.Check(guard, "dispatch:guard", site, "the dispatch applies exactly to methods whose declared receiver is js.Object")
	// accessor result types
	sw2 := sw.node.(*ast.SwitchStmt)
	for _, st := range sw2.Body.List {
		cc := st.(*ast.CaseClause)
		// an arm shared by several methods is checked for each of them
		for _, lab := range cc.List {
			name := strings.Trim(exprStr(lab), `"`)
			for _, ce := range callsNamed(cc, "internalize") {
				if len(ce.Args) != 2 {
					continue
				}
				// declared result type of the method
				var want types.Type
				for i := 0; i < ms.Len(); i++ {
					if ms.At(i).Obj().Name() == name {
						want = ms.At(i).Obj().Type().(*types.Signature).Results().At(0).Type()
					}
				}
				got := exprStr(ce.Args[1])
				ok := false
				if want != nil {
					switch w := want.Underlying().(type) {
					case *types.Basic:
						ok = got == "types.Typ[types."+title(w.Name())+"]"
					case *types.Interface:
						ok = w.Empty() && got == "types.NewInterfaceType(nil, nil)"
					}
				}
				r.Check(ok, "accessor:"+name, c.Pos(ce.Pos()), fmt.Sprintf("js.Object.%s is declared to return %v; the translation internalises as %s", name, want, got))
			}
		}
	}
	// special names
	special := []string{}
	for _, n := range jsp.Types.Scope().Names() {
		o := jsp.Types.Scope().Lookup(n)
		if v, ok := o.(*types.Var); ok && v.Exported() {
			special = append(special, n)
		}
	}
	sort.Strings(special)
	src := nodeString(c, fd.Body)
	for _, n := range special {
		r.Check(strings.Contains(src, `case "`+n+`":`), "special:"+n, "compiler/expressions.go:translateExpr", "the package-level variable js."+n+" is translated to its JavaScript counterpart")
	}
	for _, n := range []string{"Debugger", "InternalObject"} {
		r.Check(jsp.Types.Scope().Lookup(n) != nil && strings.Contains(src, `"`+n+`"`), "special:"+n, "compiler/expressions.go:translateExpr", "js."+n+" is translated specially")
	}
	// templates of Global/Module/Undefined
	for n, want := range map[string]string{"Global": "$global", "Module": "$module", "Undefined": "undefined"} {
		t := hasTemplate(c, "funcContext.translateExpr", `_.Object.Name():"`+n+`"`, func(t *tmpl.Template) bool { return t.Text == want })
		r.Check(t != nil, "special-template:"+n, "compiler/expressions.go", "js."+n+" compiles to "+want)
	}
}

type docRow struct{ goType, jsType, back string }

func jsDocTable(c *ctx.Ctx) []docRow {
	b, err := c.ReadFile("js/js.go")
	if err != nil {
		return nil
	}
	var out []docRow
	for _, l := range strings.Split(string(b), "\n") {
		m := regexp.MustCompile(`^//\s*\|([^|]+)\|([^|]+)\|([^|]+)\|`).FindStringSubmatch(l)
		if m == nil {
			continue
		}
		g, j, k := strings.TrimSpace(m[1]), strings.TrimSpace(m[2]), strings.TrimSpace(m[3])
		if g == "Go type" || strings.HasPrefix(g, "---") {
			continue
		}
		out = append(out, docRow{g, j, k})
	}
	return out
}

func ruleC11Doc(c *ctx.Ctx, r *core.Reporter) {
	r.Begin("C11.doc", "F-TABLE", "the conversion table documented in package js agrees with $nativeArray and with the constructor dispatch of $internalize's interface arm", 20)
	if !needPrelude(c, r) {
		return
	}
	rows := jsDocTable(c)
	if len(rows) == 0 {
		r.Info("doc:table", "js/js.go", "conversion table not found in the package comment; agreement skipped")
		return
	}
	na := c.PreludeFunc("$nativeArray")
	in := c.PreludeFunc("$internalize")
	if na == nil || in == nil {
		r.Undecided("prelude", "compiler/prelude", "$nativeArray / $internalize not found")
		return
	}
	// $nativeArray: kind -> returned constructor
	naArms := map[string]string{}
	na.Walk(func(n *ctx.JSNode) bool {
		if n.Is("SwitchStatement") {
			for lab, arm := range switchArms(n) {
				if ret := firstReturn(arm); ret != nil {
					naArms[lab] = ret.Src()
				}
			}
		}
		return true
	})
	// $internalize: constructor -> sliceType element / type
	var ctorSwitch *ctx.JSNode
	in.Walk(func(n *ctx.JSNode) bool {
		if n.Is("SwitchStatement") && squash(n.N("discriminant").Src()) == "v.constructor" {
			ctorSwitch = n
		}
		return true
	})
	if ctorSwitch == nil {
		r.Undecided("$internalize:switch(v.constructor)", in.Pos(), "not found")
		return
	}
	inArms := map[string]string{}
	for lab, arm := range switchArms(ctorSwitch) {
		if ret := firstReturn(arm); ret != nil {
			inArms[lab] = squash(ret.Src())
		}
	}
	goKind := func(elem string) string { return "$kind" + title(elem) }
	for _, row := range rows {
		switch {
		case strings.HasSuffix(row.jsType, "Array") && row.jsType != "Array" && strings.HasPrefix(row.goType, "[]"):
			// typed array rows
			for _, g := range strings.Split(row.goType, ",") {
				elem := strings.TrimPrefix(strings.TrimSpace(g), "[]")
				got := naArms[goKind(elem)]
				r.Check(got == row.jsType, "doc:to-js:[]"+elem, na.Pos(), fmt.Sprintf("documented: []%s → %s; $nativeArray(%s) returns %q", elem, row.jsType, goKind(elem), got))
			}
			backElem := strings.TrimPrefix(row.back, "[]")
			want := "new($sliceType($" + title(backElem) + "))(v)"
			got := inArms[row.jsType]
			r.Check(got == want, "doc:from-js:"+row.jsType, ctorSwitch.Pos(), fmt.Sprintf("documented: %s → %s; $internalize returns %q", row.jsType, row.back, got))
		case row.jsType == "Boolean":
			r.Check(strings.HasPrefix(inArms["Boolean"], "new$Bool("), "doc:from-js:Boolean", ctorSwitch.Pos(), "documented: Boolean → bool; $internalize returns "+inArms["Boolean"])
		case row.jsType == "Number":
			r.Check(strings.HasPrefix(inArms["Number"], "new$Float64("), "doc:from-js:Number", ctorSwitch.Pos(), "documented: Number → float64; $internalize returns "+inArms["Number"])
		case row.jsType == "String":
			r.Check(strings.HasPrefix(inArms["String"], "new$String("), "doc:from-js:String", ctorSwitch.Pos(), "documented: String → string; $internalize returns "+inArms["String"])
		case row.jsType == "Array":
			r.Check(strings.Contains(inArms["Array"], "$sliceType($emptyInterface)"), "doc:from-js:Array", ctorSwitch.Pos(), "documented: Array → []any; $internalize returns "+inArms["Array"])
			def := naArms["default"]
			r.Check(def == "Array", "doc:to-js:other-slices", na.Pos(), "documented: all other slices → Array; $nativeArray default returns "+def)
		case row.jsType == "Function":
			var fn string
			for lab, v := range inArms {
				if strings.Contains(lab, "=>") || lab == "Function" {
					fn = v
				}
			}
			src := squash(ctorSwitch.Src())
			r.Check(fn != "" && strings.Contains(src, "$funcType([$sliceType($emptyInterface)],[$jsObjectPtr],true)"), "doc:from-js:Function", ctorSwitch.Pos(), "documented: Function → func(...any) *js.Object")
		case row.jsType == "Date":
			r.Check(strings.Contains(inArms["Date"], "timePkg") || strings.Contains(squash(ctorSwitch.Src()), "newtimePkg.Time("), "doc:from-js:Date", ctorSwitch.Pos(), "documented: Date → time.Time")
		case row.jsType == "instanceof Node":
			r.Check(strings.Contains(squash(ctorSwitch.Src()), "vinstanceof$global.Node){returnnew$jsObjectPtr(v);}"), "doc:from-js:Node", ctorSwitch.Pos(), "documented: DOM Node → *js.Object")
		case row.jsType == "instanceof Object":
			r.Check(strings.Contains(squash(ctorSwitch.Src()), "$mapType($String,$emptyInterface)"), "doc:from-js:Object", ctorSwitch.Pos(), "documented: other objects → map[string]any")
		}
	}
	r.Count("documented conversion rows", len(rows))
}

func ruleC11Kinds(c *ctx.Ctx, r *core.Reporter) {
	r.Begin("C11.kinds", "F-EXH", "$externalize, $internalize and $needsExternalization handle every $kind or fall through to the documented error; the compiler's identity fast paths are a subset of the prelude's pass-through kinds", 60)
	if !needPrelude(c, r) {
		return
	}
	var kinds []string
	for name := range c.PreludeDecls() {
		if strings.HasPrefix(name, "$kind") {
			kinds = append(kinds, name)
		}
	}
	sort.Strings(kinds)
	r.Count("$kind constants", len(kinds))
	pass := map[string]map[string]bool{} // fn -> kinds returned unchanged
	for _, fnName := range []string{"$externalize", "$internalize"} {
		fn := c.PreludeFunc(fnName)
		if fn == nil {
			r.Undecided(fnName, "compiler/prelude/jsmapping.js", "not found")
			continue
		}
		arms := kindSwitchArms(fn, "t")
		if arms == nil {
			r.Undecided(fnName+":switch", fn.Pos(), "switch (t.kind) not found")
			continue
		}
		// after the switch: a throw of "cannot externalize/internalize"
		body := fn.N("body").L("body")
		last := squash(body[len(body)-1].Src())
		throws := strings.HasPrefix(last, "$throwRuntimeError(\"cannot"+strings.TrimPrefix(fnName, "$"))
		r.Check(throws, "kinds:"+fnName+":fallthrough-throws", fn.Pos(), fnName+" ends with the documented `cannot "+strings.TrimPrefix(fnName, "$")+"` run-time error for kinds without an arm")
		documentedUnsupported := map[string]string{
			"$externalize": "$kindChan $kindComplex64 $kindComplex128 $kindUnsafePointer",
			"$internalize": "$kindChan $kindComplex64 $kindComplex128 $kindUnsafePointer",
		}
		pass[fnName] = map[string]bool{}
		for _, k := range kinds {
			arm := arms[k]
			if arm == nil || arm == arms["default"] {
				ok := strings.Contains(documentedUnsupported[fnName], k) && throws
				r.Check(ok, "kinds:"+fnName+":"+k, fn.Pos(), fmt.Sprintf("%s has no arm for %s: allowed only for the kinds that cannot cross the boundary (%s), which reach the error", fnName, k, documentedUnsupported[fnName]))
				continue
			}
			r.OK("kinds:"+fnName+":"+k, arm.Pos(), "arm present")
			// unconditional pass-through: the arm's first statement is `return v`
			if cons := arm.L("consequent"); len(cons) > 0 && cons[0].Is("ReturnStatement") && cons[0].N("argument").IdentName() == "v" {
				pass[fnName][k] = true
			}
		}
	}
	if ne := c.PreludeFunc("$needsExternalization"); ne != nil {
		arms := kindSwitchArms(ne, "t")
		// kinds returning false must be exactly the kinds $externalize returns unchanged
		var falseKinds []string
		for _, k := range kinds {
			if arm := arms[k]; arm != nil && arm != arms["default"] {
				if ret := firstReturn(arm); ret != nil && ret.Src() == "false" {
					falseKinds = append(falseKinds, k)
				}
			}
		}
		var passKinds []string
		for k := range pass["$externalize"] {
			passKinds = append(passKinds, k)
		}
		sort.Strings(passKinds)
		r.Check(strings.Join(falseKinds, ",") == strings.Join(passKinds, ","), "kinds:$needsExternalization-agrees", ne.Pos(), fmt.Sprintf("$needsExternalization is false for %v; $externalize returns its argument unchanged for %v", falseKinds, passKinds))
	}
	// compiler fast paths: externalize() returns s unchanged for numeric && !64bit && !complex; internalize() handles bool/ints/floats itself
	ke := newKindEval(c)
	if fd := c.FuncDecl("compiler", "funcContext.externalize"); fd != nil {
		var cond ast.Expr
		ast.Inspect(fd.Body, func(n ast.Node) bool {
			if is, ok := n.(*ast.IfStmt); ok && strings.Contains(exprStr(is.Cond), "isNumeric(u)") && cond == nil {
				cond = is.Cond
			}
			return true
		})
		if cond == nil {
			r.Undecided("fastpath:externalize", c.Pos(fd.Pos()), "identity fast path not found")
		} else {
			ke.basicVars["u"] = true
			for k := types.Bool; k <= types.UnsafePointer; k++ {
				v := ke.evalBool(cond, "u", okPair{0, k})
				if v == triTrue {
					name := "$kind" + jsKindName(k)
					r.Check(pass["$externalize"][name], "fastpath:externalize:"+kindName(k), c.Pos(fd.Pos()), fmt.Sprintf("the compiler passes %s values to JavaScript unchanged; $externalize also returns %s values unchanged (both sides agree on the representation)", kindName(k), name))
				}
			}
		}
	}
	if fd := c.FuncDecl("compiler", "funcContext.internalize"); fd != nil {
		// arms: isBoolean -> !!, isInteger && !is64Bit -> fixNumber($parseInt), isFloat -> $parseFloat; else $internalize(...)
		_ = squash
		r.Check(hasGoPattern(fd.Body, `switch { case isBoolean(µu): return µfc.formatExpr("!!(%s)", µs); µµrest }`) || armReturns(fd, `isBoolean(µu)`, `return µfc.formatExpr("!!(%s)", µs)`), "fastpath:internalize:bool", c.Pos(fd.Pos()), "bool results are coerced with !!, like $internalize's $kindBool arm")
		r.Check(armReturns(fd, `isInteger(µu) && !is64Bit(µu)`, `return µfc.fixNumber(µfc.formatExpr("$parseInt(%s)", µs), µu)`), "fastpath:internalize:int", c.Pos(fd.Pos()), "small integers are parsed and wrapped to their width")
		r.Check(armReturns(fd, `isFloat(µu)`, `return µfc.formatExpr("$parseFloat(%s)", µs)`), "fastpath:internalize:float", c.Pos(fd.Pos()), "floats are parsed with $parseFloat")
		r.Check(hasGoPattern(fd.Body, `return µfc.formatExpr("$internalize(%s, %s)", µs, µfc.typeName(µt))`), "fastpath:internalize:general", c.Pos(fd.Pos()), "every other type goes through $internalize with its run-time type")
	}
}

func jsKindName(k types.BasicKind) string {
	switch k {
	case types.UnsafePointer:
		return "UnsafePointer"
	}
	return title(types.Typ[k].Name())
}

func ruleC11Misc(c *ctx.Ctx, r *core.Reporter) {
	r.Begin("C11.misc", "F-PAIR", "a Go function externalises to one cached wrapper; exposing a function disables deadlock detection; $makeFunc exists for js.MakeFunc; internal objects unwrap through $assertType", 4)
	if !needPrelude(c, r) {
		return
	}
	if ef := c.PreludeFunc("$externalizeFunction"); ef != nil {
		s := squash(ef.Src())
		iTest := strings.Index(s, "if(v.$externalizeWrapper===undefined){")
		iSet := strings.Index(s, "v.$externalizeWrapper=function(){")
		iRet := strings.LastIndex(s, "returnv.$externalizeWrapper;")
		r.Check(iTest >= 0 && iSet > iTest && iRet > iSet, "cache:wrapper", ef.Pos(), "the wrapper is created once, stored on the Go function and returned on every call (same Go function ⇒ same JavaScript function)")
		r.Check(strings.Contains(s, "$checkForDeadlock=false;"), "exposed:no-deadlock-check", ef.Pos(), "handing a Go function to JavaScript disables the all-goroutines-asleep check")
		r.Check(strings.Contains(s, "if(v===$throwNilPointerError){returnnull;}"), "nil-func:null", ef.Pos(), "a nil func externalises to null")
	}
	if in := c.PreludeFunc("$internalize"); in != nil {
		r.Check(strings.Contains(squash(in.Src()), "if(v&&v.__internal_object__!==undefined){return$assertType(v.__internal_object__,t,false);}"), "wrapper:unwrap", in.Pos(), "a wrapped Go value coming back from JavaScript is unwrapped to the original value")
	}
}

// armReturns: fd contains an expression-switch arm whose single label matches labelPat and whose body is
// the single statement matching stmtPat (metavariables are not shared between the two patterns).
func armReturns(fd *ast.FuncDecl, labelPat, stmtPat string) bool {
	found := false
	ast.Inspect(fd.Body, func(n ast.Node) bool {
		cc, ok := n.(*ast.CaseClause)
		if !ok || len(cc.List) != 1 || len(cc.Body) != 1 {
			return true
		}
		lp := compileGoPattern(labelPat)
		if lp.expr == nil || !matchExprPat(lp.expr, cc.List[0], patEnv{}) {
			return true
		}
		if len(findGoPattern(&ast.BlockStmt{List: cc.Body}, stmtPat)) > 0 {
			found = true
		}
		return true
	})
	return found
}
