package rules

import (
	"encoding/json"
	"fmt"
	"go/ast"
	"go/types"
	"os"
	"sort"
	"strconv"
	"strings"

	"verif/checker/internal/core"
	"verif/checker/internal/ctx"
)

// DumpRenames lists, for every Go function that carries an obligation of the run, the local variables
// (parameters, receivers, locals) with the byte offsets of all their occurrences. The robustness
// driver (tools/rename_fuzz.py) renames one variable at a time through an overlay and expects the
// check to stay silent: a behaviour-preserving renaming must never raise an alarm.
func DumpRenames(c *ctx.Ctx, obs []*core.Obligation) {
	type cand struct {
		File    string `json:"file"`
		Func    string `json:"func"`
		Name    string `json:"name"`
		Offsets []int  `json:"offsets"`
	}
	lines := map[string]map[int]bool{}
	for _, o := range obs {
		i := strings.LastIndex(o.Site, ":")
		if i < 0 || !strings.HasSuffix(o.Site[:i], ".go") {
			continue
		}
		ln, err := strconv.Atoi(o.Site[i+1:])
		if err != nil {
			continue
		}
		if lines[o.Site[:i]] == nil {
			lines[o.Site[:i]] = map[int]bool{}
		}
		lines[o.Site[:i]][ln] = true
	}
	enc := json.NewEncoder(os.Stdout)
	for _, p := range c.ModulePkgs() {
		rel := ctx.RelPkg(p.PkgPath)
		for _, f := range p.Syntax {
			fname := c.Fset.Position(f.Pos()).Filename
			relFile := strings.TrimPrefix(fname, c.Repo+"/")
			want := lines[relFile]
			if want == nil || strings.HasSuffix(relFile, "_test.go") {
				continue
			}
			for _, d := range f.Decls {
				fd, ok := d.(*ast.FuncDecl)
				if !ok || fd.Body == nil {
					continue
				}
				a, b := c.Fset.Position(fd.Pos()).Line, c.Fset.Position(fd.End()).Line
				hit := false
				for ln := range want {
					if ln >= a && ln <= b {
						hit = true
					}
				}
				if !hit {
					continue
				}
				// local objects and their occurrences
				occ := map[types.Object][]int{}
				ast.Inspect(fd, func(n ast.Node) bool {
					id, ok := n.(*ast.Ident)
					if !ok || id.Name == "_" {
						return true
					}
					obj := p.TypesInfo.ObjectOf(id)
					v, isVar := obj.(*types.Var)
					if !isVar || v.IsField() || v.Pkg() != p.Types || v.Parent() == nil || v.Parent() == p.Types.Scope() {
						return true
					}
					if !(v.Pos() >= fd.Pos() && v.Pos() < fd.End()) {
						return true
					}
					if fd.Recv != nil && v.Pos() >= fd.Recv.Pos() && v.Pos() < fd.Recv.End() {
						return true // receivers are conventionally named per type (fc, fi, bc …): not fuzzed
					}
					occ[obj] = append(occ[obj], c.Fset.Position(id.Pos()).Offset)
					return true
				})
				// type-switch symbolic variables have one object per clause: group them by name and declaration
				var objs []types.Object
				for o := range occ {
					objs = append(objs, o)
				}
				sort.Slice(objs, func(i, j int) bool { return objs[i].Pos() < objs[j].Pos() })
				names := map[string]int{}
				for _, o := range objs {
					names[o.Name()]++
				}
				for _, o := range objs {
					if names[o.Name()] > 1 {
						continue // shadowing or clause-wise objects: skipped, renaming one of them alone could capture
					}
					sort.Ints(occ[o])
					enc.Encode(cand{relFile, rel + "|" + ctx.FuncName(fd), o.Name(), occ[o]})
				}
			}
		}
	}
	fmt.Fprintln(os.Stderr, "done")
}
