package rules

import (
	"fmt"
	"go/ast"
	"go/types"

	"verif/checker/internal/core"
	"verif/checker/internal/ctx"
)

// ruleNamedLookThrough: dispatching on "is this type the predeclared type K" must look through defined
// types (`type myRune rune`, `type Celsius float64`): the comparison operand has to be an Underlying()
// call. Exempt are the two predeclared types that are compared as themselves on purpose: the type of
// untyped nil and unsafe.Pointer (conversions are recognised by the spelled type).
func ruleNamedLookThrough(c *ctx.Ctx, r *core.Reporter) {
	r.Begin("EXH.named", "F-CLASS", "a comparison of a type with a predeclared basic type (types.Identical(t, types.Typ[K])) that selects a translation is made on the underlying type, so that defined types (type myRune rune) take the same translation as the predeclared one", 3)
	for _, rel := range []string{"compiler", "compiler/internal/analysis", "compiler/internal/typeparams", "compiler/typesutil"} {
		p := c.Pkg(rel)
		if p == nil {
			continue
		}
		for _, fd := range c.AllFuncDecls(rel) {
			if fd.Body == nil || c.IsTestFile(fd.Pos()) {
				continue
			}
			n, nb, nt := 0, 0, 0
			ast.Inspect(fd.Body, func(x ast.Node) bool {
				// the type OF AN EXPRESSION (info.TypeOf(e), fc.typeOf(e)) may be a defined type: asserting it to a
				// structural type without Underlying() silently takes the "not that kind" path for defined types
				if ta, ok := x.(*ast.TypeAssertExpr); ok && ta.Type != nil {
					if st, isStar := ta.Type.(*ast.StarExpr); isStar {
						if sel, isSel := st.X.(*ast.SelectorExpr); isSel && exprStr(sel.X) == "types" && structuralKinds[sel.Sel.Name] {
							subjectCalls := []*ast.CallExpr{}
							if call, isCall := ast.Unparen(ta.X).(*ast.CallExpr); isCall {
								subjectCalls = append(subjectCalls, call)
							} else if id, isIdent := ast.Unparen(ta.X).(*ast.Ident); isIdent {
								// a local that holds the type of an expression: every definition is typeOf(e)/TypeOf(e)
								defs := localAssignments(fd, id.Name)
								all := len(defs) > 0
								for _, d := range defs {
									dc, ok := ast.Unparen(d.rhs).(*ast.CallExpr)
									if !ok {
										all = false
										break
									}
									if _, _, cn := callee(p.TypesInfo, dc); cn != "TypeOf" && cn != "typeOf" {
										all = false
										break
									}
									subjectCalls = append(subjectCalls, dc)
								}
								if !all {
									subjectCalls = nil
								} else {
									subjectCalls = subjectCalls[:1]
								}
							}
							for _, call := range subjectCalls {
								if _, _, cn := callee(p.TypesInfo, call); cn == "TypeOf" || cn == "typeOf" {
									nt++
									key := fmt.Sprintf("exprtype:%s|%s#%d:%s", rel, ctx.FuncName(fd), nt, sel.Sel.Name)
									if why, reviewed := exprTypeAssertReviewed[rel+"|"+ctx.FuncName(fd)+":"+sel.Sel.Name]; reviewed {
										r.OK(key, c.Pos(ta.Pos()), "reviewed: "+why)
									} else {
										r.Violation(key, c.Pos(ta.Pos()), fmt.Sprintf("`%s` asserts the type of an expression to *types.%s without Underlying(): a defined type with that underlying type takes the other path", exprStr(ta), sel.Sel.Name))
									}
								}
							}
						}
					}
				}
				// X.(*types.Basic) and `switch X.(type) { case *types.Basic: … }`
				var subject ast.Expr
				switch y := x.(type) {
				case *ast.TypeAssertExpr:
					if y.Type != nil && exprStr(y.Type) == "*types.Basic" {
						subject = y.X
					}
				case *ast.TypeSwitchStmt:
					hasBasic, hasNamed := false, false
					for _, st := range y.Body.List {
						for _, l := range st.(*ast.CaseClause).List {
							switch exprStr(l) {
							case "*types.Basic":
								hasBasic = true
							case "*types.Named":
								hasNamed = true // the switch treats defined types in an arm of their own
							}
						}
					}
					if hasBasic && !hasNamed {
						switch a := y.Assign.(type) {
						case *ast.AssignStmt:
							subject = a.Rhs[0].(*ast.TypeAssertExpr).X
						case *ast.ExprStmt:
							subject = a.X.(*ast.TypeAssertExpr).X
						}
					}
				}
				if subject != nil {
					nb++
					ok, how := isUnderlyingValue(p.TypesInfo, fd, subject, 0)
					r.Check(ok, fmt.Sprintf("basic:%s|%s#%d", rel, ctx.FuncName(fd), nb), c.Pos(subject.Pos()), fmt.Sprintf("`%s` is tested for *types.Basic on its underlying type (%s)", exprStr(subject), how))
					return true
				}
				call, ok := x.(*ast.CallExpr)
				if !ok || len(call.Args) != 2 {
					return true
				}
				if pkg, _, name := callee(p.TypesInfo, call); pkg != "go/types" || name != "Identical" {
					return true
				}
				// which argument is types.Typ[K]?
				kind, other := "", ast.Expr(nil)
				for i, a := range call.Args {
					if ix, ok := a.(*ast.IndexExpr); ok && exprStr(ix.X) == "types.Typ" {
						kind = exprStr(ix.Index)
						other = call.Args[1-i]
					}
				}
				if kind == "" || kind == "types.UntypedNil" || kind == "types.UnsafePointer" {
					return true
				}
				n++
				under := false
				if oc, ok := ast.Unparen(other).(*ast.CallExpr); ok {
					if sel, ok := oc.Fun.(*ast.SelectorExpr); ok && sel.Sel.Name == "Underlying" && len(oc.Args) == 0 {
						under = true
					}
				}
				r.Check(under, fmt.Sprintf("named:%s|%s#%d:%s", rel, ctx.FuncName(fd), n, kind), c.Pos(call.Pos()), fmt.Sprintf("`%s` compares the underlying type with %s (a defined type with that underlying type must take the same path)", exprStr(call), kind))
				return true
			})
		}
	}
}

// isUnderlyingValue: e is an Underlying() call, or a variable whose single definition is one (directly,
// or as the binding of a type switch over one).
func isUnderlyingValue(info *types.Info, fd *ast.FuncDecl, e ast.Expr, depth int) (bool, string) {
	e = ast.Unparen(e)
	if oc, ok := e.(*ast.CallExpr); ok {
		if sel, ok := oc.Fun.(*ast.SelectorExpr); ok && sel.Sel.Name == "Underlying" && len(oc.Args) == 0 {
			return true, "Underlying() call"
		}
	}
	id, ok := e.(*ast.Ident)
	if !ok || depth > 2 {
		return false, "not an Underlying() call"
	}
	obj := info.ObjectOf(id)
	if obj == nil {
		// the symbolic variable of a type switch has no single object: find the switch that binds the name
		obj = nil
	}
	found, res, how := false, false, "definition of "+id.Name+" not found"
	ast.Inspect(fd, func(n ast.Node) bool {
		if found {
			return false
		}
		switch x := n.(type) {
		case *ast.AssignStmt:
			for i, l := range x.Lhs {
				if li, ok := l.(*ast.Ident); ok && obj != nil && info.Defs[li] == obj && len(x.Rhs) == len(x.Lhs) {
					found = true
					res, how = isUnderlyingValue(info, fd, x.Rhs[i], depth+1)
					how = id.Name + " := " + how
				}
			}
		case *ast.TypeSwitchStmt:
			if as, ok := x.Assign.(*ast.AssignStmt); ok && len(as.Lhs) == 1 {
				if li, ok := as.Lhs[0].(*ast.Ident); ok && li.Name == id.Name && x.Pos() <= id.Pos() && id.Pos() < x.End() {
					found = true
					res, how = isUnderlyingValue(info, fd, as.Rhs[0].(*ast.TypeAssertExpr).X, depth+1)
					how = id.Name + " bound by a type switch over " + how
				}
			}
		}
		return true
	})
	if !found {
		// a parameter documented to be an underlying type cannot be checked here
		return false, how
	}
	return res, how
}

var structuralKinds = map[string]bool{"Signature": true, "Slice": true, "Array": true, "Struct": true, "Map": true, "Pointer": true, "Chan": true, "Interface": true, "Basic": true}

// assertions on an expression's type that are right without Underlying()
var exprTypeAssertReviewed = map[string]string{
	"compiler|funcContext.literalFuncContext:Signature": "the type of a function literal is always an unnamed signature",
	"compiler|funcContext.translateConversion:Pointer":  "syscall-only special case for a conversion from an unnamed pointer type to uintptr",
}
