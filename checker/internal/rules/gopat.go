package rules

// A small structural pattern matcher for Go syntax ("semantic grep"), used by shape
// obligations so that they do not depend on the spelling of local names, on
// comments, on formatting or on unrelated neighbouring statements.
//
// A pattern is Go source: an expression, a statement, or a statement list.
// Identifiers starting with "µ" are metavariables:
//
//	µx        matches any expression (or identifier in a defining position); every
//	          occurrence of the same metavariable must match the same source text
//	µ_        matches any expression, binds nothing
//	µµrest    as a statement of its own: matches any run of zero or more statements
//	µµargs    as the last call argument / list element: matches any remaining elements
//
// Everything else must match node for node (positions, comments and resolved
// objects are ignored).

import (
	"fmt"
	"go/ast"
	"go/parser"
	"go/token"
	"reflect"
	"strings"
	"sync"
)

type goPattern struct {
	src   string
	expr  ast.Expr
	stmts []ast.Stmt
}

var (
	patCache   = map[string]*goPattern{}
	patCacheMu sync.Mutex
)

func compileGoPattern(src string) *goPattern {
	patCacheMu.Lock()
	defer patCacheMu.Unlock()
	if p, ok := patCache[src]; ok {
		return p
	}
	p := &goPattern{src: src}
	if e, err := parser.ParseExpr(src); err == nil {
		p.expr = e
	} else {
		f, err2 := parser.ParseFile(token.NewFileSet(), "pattern.go", "package p\nfunc _() {\n"+src+"\n}", 0)
		if err2 != nil {
			panic(fmt.Sprintf("bad pattern %q: %v", src, err2))
		}
		p.stmts = f.Decls[0].(*ast.FuncDecl).Body.List
	}
	patCache[src] = p
	return p
}

type patEnv map[string]string

func (e patEnv) clone() patEnv {
	o := patEnv{}
	for k, v := range e {
		o[k] = v
	}
	return o
}

func isMeta(n ast.Node) (string, bool) {
	if id, ok := n.(*ast.Ident); ok && id != nil && strings.HasPrefix(id.Name, "µ") && !strings.HasPrefix(id.Name, "µµ") {
		return id.Name, true
	}
	return "", false
}

func isSeqMeta(n ast.Node) bool {
	switch x := n.(type) {
	case *ast.ExprStmt:
		return isSeqMeta(x.X)
	case *ast.Ident:
		return x != nil && strings.HasPrefix(x.Name, "µµ")
	}
	return false
}

func bindMeta(name string, n ast.Node, env patEnv) bool {
	if name == "µ_" {
		return true
	}
	var text string
	switch x := n.(type) {
	case ast.Expr:
		text = exprStr(x)
	default:
		return false
	}
	if old, ok := env[name]; ok {
		return old == text
	}
	env[name] = text
	return true
}

var (
	posType     = reflect.TypeOf(token.NoPos)
	objPtrType  = reflect.TypeOf((*ast.Object)(nil))
	scopePtr    = reflect.TypeOf((*ast.Scope)(nil))
	commentsPtr = reflect.TypeOf((*ast.CommentGroup)(nil))
)

// matchValue compares pattern value p with target value t.
func matchValue(p, t reflect.Value, env patEnv) bool {
	if p.Type() != t.Type() {
		// interface-held nodes of different dynamic type: a metavariable may still match
		return false
	}
	switch p.Kind() {
	case reflect.Interface:
		if p.IsNil() || t.IsNil() {
			return p.IsNil() == t.IsNil()
		}
		if pn, ok := p.Interface().(ast.Node); ok {
			if name, isM := isMeta(pn); isM {
				tn, ok := t.Interface().(ast.Node)
				return ok && bindMeta(name, tn, env)
			}
			// a metavariable used as a statement: `µx` alone matches any single statement? no — only expressions
			if es, ok := pn.(*ast.ExprStmt); ok {
				if name, isM := isMeta(es.X); isM {
					if tes, ok := t.Interface().(*ast.ExprStmt); ok {
						return bindMeta(name, tes.X, env)
					}
					return false
				}
			}
		}
		if p.Elem().Type() != t.Elem().Type() {
			return false
		}
		return matchValue(p.Elem(), t.Elem(), env)
	case reflect.Ptr:
		if p.Type() == objPtrType || p.Type() == scopePtr || p.Type() == commentsPtr {
			return true
		}
		if p.IsNil() || t.IsNil() {
			return p.IsNil() == t.IsNil()
		}
		if pn, ok := p.Interface().(ast.Node); ok {
			if name, isM := isMeta(pn); isM {
				tn, ok := t.Interface().(ast.Node)
				return ok && bindMeta(name, tn, env)
			}
		}
		return matchValue(p.Elem(), t.Elem(), env)
	case reflect.Struct:
		for i := 0; i < p.NumField(); i++ {
			if p.Field(i).Type() == posType {
				continue
			}
			if !matchValue(p.Field(i), t.Field(i), env) {
				return false
			}
		}
		return true
	case reflect.Slice:
		return matchSlice(p, t, 0, 0, env)
	case reflect.String:
		return p.String() == t.String()
	case reflect.Int, reflect.Int64, reflect.Int32:
		return p.Int() == t.Int()
	case reflect.Bool:
		return p.Bool() == t.Bool()
	}
	return p.Interface() == t.Interface()
}

func matchSlice(p, t reflect.Value, i, j int, env patEnv) bool {
	if i == p.Len() {
		return j == t.Len()
	}
	if pn, ok := p.Index(i).Interface().(ast.Node); ok && isSeqMeta(pn) {
		for k := j; k <= t.Len(); k++ {
			e2 := env.clone()
			if matchSlice(p, t, i+1, k, e2) {
				for a, b := range e2 {
					env[a] = b
				}
				return true
			}
		}
		return false
	}
	if j == t.Len() {
		return false
	}
	e2 := env.clone()
	if !matchValue(p.Index(i), t.Index(j), e2) {
		return false
	}
	if matchSlice(p, t, i+1, j+1, e2) {
		for a, b := range e2 {
			env[a] = b
		}
		return true
	}
	return false
}

func matchExprPat(p ast.Expr, t ast.Expr, env patEnv) bool {
	if name, ok := isMeta(p); ok {
		return bindMeta(name, t, env)
	}
	pv, tv := reflect.ValueOf(p), reflect.ValueOf(t)
	if pv.Type() != tv.Type() {
		return false
	}
	return matchValue(pv, tv, env)
}

// goMatch is one occurrence of a pattern.
type goMatch struct {
	Node ast.Node // the expression, or the first matched statement
	Env  patEnv
}

// findGoPattern returns every occurrence of the pattern below root. A statement-list
// pattern matches a contiguous run inside any statement list.
func findGoPattern(root ast.Node, src string) []goMatch {
	if root == nil || reflect.ValueOf(root).IsNil() {
		return nil
	}
	p := compileGoPattern(src)
	var out []goMatch
	if p.expr != nil {
		ast.Inspect(root, func(n ast.Node) bool {
			if e, ok := n.(ast.Expr); ok {
				env := patEnv{}
				if matchExprPat(p.expr, e, env) {
					out = append(out, goMatch{e, env})
				}
			}
			return true
		})
		return out
	}
	pat := reflect.ValueOf(p.stmts)
	try := func(list []ast.Stmt) {
		if len(list) == 0 {
			return
		}
		tv := reflect.ValueOf(list)
		for start := 0; start < len(list); start++ {
			// the run may end anywhere: append an implicit trailing sequence wildcard by trying every end
			for end := start; end <= len(list); end++ {
				env := patEnv{}
				if matchSlice(pat, tv.Slice(start, end), 0, 0, env) {
					var node ast.Node = list[start]
					out = append(out, goMatch{node, env})
					break
				}
			}
		}
	}
	ast.Inspect(root, func(n ast.Node) bool {
		switch x := n.(type) {
		case *ast.BlockStmt:
			try(x.List)
		case *ast.CaseClause:
			try(x.Body)
		case *ast.CommClause:
			try(x.Body)
		}
		return true
	})
	return out
}

// hasGoPattern reports whether the pattern occurs below root.
func hasGoPattern(root ast.Node, src string) bool { return len(findGoPattern(root, src)) > 0 }

// goPatternPos returns the position of the first occurrence (or NoPos).
func goPatternPos(root ast.Node, src string) token.Pos {
	if ms := findGoPattern(root, src); len(ms) > 0 {
		return ms[0].Node.Pos()
	}
	return token.NoPos
}
