package rules

import (
	"fmt"
	"go/ast"
	"go/constant"
	"go/types"
	"regexp"
	"sort"
	"strconv"
	"strings"

	"verif/checker/internal/core"
	"verif/checker/internal/ctx"
)

func init() {
	register(&Property{
		ID:          "C18",
		Explanation: "Decided (configuration table, constants folded by go/types and compared with the repository's own documentation): the go/build.Context used for user packages has Compiler gc, cgo disabled, the user tags followed by exactly the always-on tags netgo, purego, math_big_pure_go, gopherjs, and release tags truncated at the supported Go version, which agrees between the GoVersion constant, the Version string, the version_check build constraint, the go directive of go.mod and the versionhack package; the default environment is js/ecmascript unless overridden; standard-library packages are loaded as js/wasm exactly under the isStd test; user tags flow from the options into the context; .inc.js discovery filters by suffix and leading _ or . only. NOT decided: go/build's evaluation of constraint expressions and file-name suffixes (trusted).",
		Assumptions: []string{"go/build evaluates //go:build expressions and _GOOS/_GOARCH suffixes as documented"},
		Rules:       []RuleFunc{ruleC18Config, ruleC18CLI, ruleC18ToolTags, ruleC18IsStdByLookup, ruleC18TagsSplit},
	})
}

func constStringsOf(info *types.Info, e ast.Expr) ([]string, bool) {
	cl, ok := e.(*ast.CompositeLit)
	if !ok {
		return nil, false
	}
	var out []string
	for _, el := range cl.Elts {
		tv, ok := info.Types[el]
		if !ok || tv.Value == nil || tv.Value.Kind() != constant.String {
			return nil, false
		}
		out = append(out, constant.StringVal(tv.Value))
	}
	return out, true
}

func ruleC18Config(c *ctx.Ctx, r *core.Reporter) {
	r.Begin("C18.config", "F-TABLE", "the build context's compiler, cgo flag, tag list, release tags, default GOOS/GOARCH and standard-library override match the documented configuration", 16)
	p := c.Pkg("build")
	if p == nil {
		r.Undecided("package", "build", "not loaded")
		return
	}
	info := p.TypesInfo
	gc := c.FuncDecl("build", "goCtx")
	if gc == nil {
		r.Undecided("goCtx", "build/context.go", "not found")
		return
	}
	// the build.Context literal
	var lit *ast.CompositeLit
	ast.Inspect(gc.Body, func(n ast.Node) bool {
		if cl, ok := n.(*ast.CompositeLit); ok && exprStr(cl.Type) == "build.Context" {
			lit = cl
		}
		return true
	})
	if lit == nil {
		r.Undecided("goCtx:literal", c.Pos(gc.Pos()), "no build.Context literal")
		return
	}
	fields := map[string]ast.Expr{}
	for _, e := range lit.Elts {
		if kv, ok := e.(*ast.KeyValueExpr); ok {
			fields[exprStr(kv.Key)] = kv.Value
		}
	}
	cv := func(name string) (constant.Value, bool) {
		e, ok := fields[name]
		if !ok {
			return nil, false
		}
		tv, ok := info.Types[e]
		if !ok || tv.Value == nil {
			return nil, false
		}
		return tv.Value, true
	}
	if v, ok := cv("Compiler"); ok {
		r.Check(constant.StringVal(v) == "gc", "context:Compiler", c.Pos(lit.Pos()), "Compiler is "+v.ExactString()+" (files constrained on the gc compiler are selected)")
	} else {
		r.Violation("context:Compiler", c.Pos(lit.Pos()), "Compiler is not a constant of the context literal")
	}
	if v, ok := cv("CgoEnabled"); ok {
		r.Check(!constant.BoolVal(v), "context:CgoEnabled", c.Pos(lit.Pos()), "CgoEnabled is "+v.ExactString()+" (cgo files are never used)")
	} else {
		r.Violation("context:CgoEnabled", c.Pos(lit.Pos()), "CgoEnabled is not set to a constant in the context literal (go/build's zero value would be false, but an expression could enable it)")
	}
	param := gc.Type.Params.List[0].Names[0].Name
	for _, f := range []string{"GOOS", "GOARCH", "GOROOT", "GOPATH", "InstallSuffix"} {
		e, ok := fields[f]
		r.Check(ok && exprStr(e) == param+"."+f, "context:"+f, c.Pos(lit.Pos()), fmt.Sprintf("%s of the context is the environment's %s", f, f))
	}
	// BuildTags = user tags ++ defaultBuildTags
	if e, ok := fields["BuildTags"]; ok {
		ok, why := tagsUnion(c, e, param+".BuildTags", 0)
		r.Check(ok, "context:BuildTags", c.Pos(e.Pos()), "BuildTags is a fresh slice holding, unconditionally, the user's tags and the always-on tags: "+exprStr(e)+" — "+why)
	} else {
		r.Violation("context:BuildTags", c.Pos(lit.Pos()), "BuildTags not set")
	}
	// defaultBuildTags content
	wantTags := []string{"gopherjs", "math_big_pure_go", "netgo", "purego"}
	var gotTags []string
	for _, f := range p.Syntax {
		for _, d := range f.Decls {
			if gd, ok := d.(*ast.GenDecl); ok {
				for _, sp := range gd.Specs {
					if vs, ok := sp.(*ast.ValueSpec); ok && len(vs.Names) == 1 && vs.Names[0].Name == "defaultBuildTags" && len(vs.Values) == 1 {
						gotTags, _ = constStringsOf(info, vs.Values[0])
					}
				}
			}
		}
	}
	sort.Strings(gotTags)
	r.Check(strings.Join(gotTags, ",") == strings.Join(wantTags, ","), "tags:always-on", "build/context.go", fmt.Sprintf("always-on tags are %v (want exactly %v: the set named by the property and doc/compatibility.md)", gotTags, wantTags))
	// no other writer of defaultBuildTags
	writes := 0
	for _, fd := range c.AllFuncDecls("build") {
		if fd.Body == nil {
			continue
		}
		ast.Inspect(fd.Body, func(n ast.Node) bool {
			if as, ok := n.(*ast.AssignStmt); ok {
				for _, l := range as.Lhs {
					if rootIdent(l) == "defaultBuildTags" {
						writes++
					}
				}
			}
			return true
		})
	}
	r.Check(writes == 0, "tags:not-mutated", "build", "defaultBuildTags is never assigned after its declaration")
	// ReleaseTags
	goVersion := int64(-1)
	if o, ok := c.Pkg("compiler").Types.Scope().Lookup("GoVersion").(*types.Const); ok {
		goVersion, _ = constant.Int64Val(o.Val())
	}
	if e, ok := fields["ReleaseTags"]; ok {
		s := squash(exprStr(e))
		r.Check(s == "build.Default.ReleaseTags[:compiler.GoVersion]", "context:ReleaseTags", c.Pos(e.Pos()), "ReleaseTags are go1.1 … go1.<GoVersion>: "+exprStr(e))
	} else {
		r.Violation("context:ReleaseTags", c.Pos(lit.Pos()), "ReleaseTags not set (go/build would use the release tags of the toolchain that built gopherjs)")
	}
	// version agreement
	ver := ""
	if o, ok := c.Pkg("compiler").Types.Scope().Lookup("Version").(*types.Const); ok {
		ver = constant.StringVal(o.Val())
	}
	m := regexp.MustCompile(`go1\.(\d+)`).FindStringSubmatch(ver)
	r.Check(m != nil && m[1] == strconv.FormatInt(goVersion, 10), "version:Version-string", "compiler/version_check.go", fmt.Sprintf("compiler.Version %q names go1.%d", ver, goVersion))
	m2 := regexp.MustCompile(`^(\d+)\.(\d+)`).FindStringSubmatch(ver)
	r.Check(m2 != nil && m2[2] == strconv.FormatInt(goVersion, 10), "version:Version-prefix", "compiler/version_check.go", fmt.Sprintf("the GopherJS version %q is 1.%d.x", ver, goVersion))
	if b, err := c.ReadFile("compiler/version_check.go"); err == nil {
		mm := regexp.MustCompile(`(?m)^//go:build go1\.(\d+)\s*$`).FindStringSubmatch(string(b))
		r.Check(mm != nil && mm[1] == strconv.FormatInt(goVersion, 10), "version:build-constraint", "compiler/version_check.go", fmt.Sprintf("version_check.go requires go1.%d to build", goVersion))
	}
	if b, err := c.ReadFile("go.mod"); err == nil {
		mm := regexp.MustCompile(`(?m)^go 1\.(\d+)`).FindStringSubmatch(string(b))
		r.Check(mm != nil && mm[1] == strconv.FormatInt(goVersion, 10), "version:go.mod", "go.mod", fmt.Sprintf("go.mod declares go 1.%d", goVersion))
	}
	if vh := c.Pkg("build/versionhack"); vh != nil {
		ok := false
		for _, fd := range c.AllFuncDecls("build/versionhack") {
			if fd.Name.Name == "init" && fd.Body != nil {
				ok = strings.Contains(squash(nodeString(c, fd.Body)), "releaseTags=build.Default.ReleaseTags[:compiler.GoVersion]")
			}
		}
		r.Check(ok, "version:versionhack", "build/versionhack/versionhack.go", "versionhack truncates go/build's default release tags at the same bound")
	}
	// DefaultEnv
	if de := c.FuncDecl("build", "DefaultEnv"); de != nil {
		s := squash(nodeString(c, de.Body))
		r.Check(strings.Contains(s, `ifval:=os.Getenv("GOOS");val!=""{e.GOOS=val}else{e.GOOS="js"}`), "env:GOOS", c.Pos(de.Pos()), "GOOS defaults to js unless the environment overrides it")
		r.Check(strings.Contains(s, `ifval:=os.Getenv("GOARCH");val!=""{e.GOARCH=val}else{e.GOARCH="ecmascript"}`), "env:GOARCH", c.Pos(de.Pos()), "GOARCH defaults to ecmascript unless the environment overrides it")
	}
	// documentation agreement (soft on absence)
	if b, err := c.ReadFile("doc/compatibility.md"); err == nil {
		if strings.Contains(string(b), "GOOS=") {
			r.Check(strings.Contains(string(b), "GOOS=js GOARCH=ecmascript"), "doc:compatibility", "doc/compatibility.md", "doc/compatibility.md documents GOOS=js GOARCH=ecmascript")
		}
	}
	// natives runtime constants
	nat := c.Natives()
	for _, f := range nat.PkgFiles("runtime") {
		ast.Inspect(f.AST, func(n ast.Node) bool {
			if vs, ok := n.(*ast.ValueSpec); ok {
				for i, nm := range vs.Names {
					if i < len(vs.Values) {
						if bl, ok := vs.Values[i].(*ast.BasicLit); ok {
							switch nm.Name {
							case "GOOS":
								r.Check(bl.Value == `"js"`, "runtime:GOOS", nat.Pos(c, nm.Pos()), "runtime.GOOS is "+bl.Value)
							case "GOARCH":
								r.Check(bl.Value == `"ecmascript"`, "runtime:GOARCH", nat.Pos(c, nm.Pos()), "runtime.GOARCH is "+bl.Value)
							}
						}
					}
				}
			}
			return true
		})
	}
	// std override
	if pt := c.FuncDecl("build", "simpleCtx.applyPreloadTweaks"); pt != nil {
		s := squash(nodeString(c, pt.Body))
		r.Check(strings.Contains(s, `ifsc.isStd(importPath,srcDir){bctx.GOOS="js"bctx.GOARCH="wasm"}`), "std:js-wasm", c.Pos(pt.Pos()), "standard-library packages, and only they, are loaded with GOOS=js GOARCH=wasm")
		// bctx is a copy
		r.Check(strings.Contains(s, "bctx:=sc.bctx"), "std:copy", c.Pos(pt.Pos()), "the override is applied to a copy of the context (user packages keep js/ecmascript)")
	}
	// user tags flow
	if nb := c.FuncDecl("build", "NewBuildContext"); nb != nil {
		s := squash(nodeString(c, nb.Body))
		r.Check(strings.Contains(s, "e:=DefaultEnv()") && strings.Contains(s, "e.BuildTags=buildTags"), "tags:user-flow", c.Pos(nb.Pos()), "the -tags given by the user are stored into the environment that goCtx reads")
	}
	// inc.js discovery
	if ff := c.FuncDecl("compiler/incjs", "fromFileInfo"); ff != nil {
		var conds []string
		ast.Inspect(ff.Body, func(n ast.Node) bool {
			if is, ok := n.(*ast.IfStmt); ok && strings.Contains(nodeString(c, is.Body), "return nil, nil") {
				conds = append(conds, squash(exprStr(is.Cond)))
			}
			return true
		})
		sort.Strings(conds)
		want := []string{"!isIncJS(file.Name())||file.IsDir()", "file.Name()[0]=='_'||file.Name()[0]=='.'"}
		r.Check(strings.Join(conds, "&") == strings.Join(want, "&"), "incjs:filters", c.Pos(ff.Pos()), fmt.Sprintf("a directory entry is skipped only if it is not a *.inc.js file, is a directory, or starts with _ or . (found %v): no build constraint applies to .inc.js files", conds))
	}
	if ij := c.FuncDecl("compiler/incjs", "isIncJS"); ij != nil {
		r.Check(strings.Contains(nodeString(c, ij.Body), "strings.HasSuffix(filename, Ext)"), "incjs:suffix", c.Pos(ij.Pos()), ".inc.js files are recognised by their suffix")
	}
}

// ruleC18CLI: the --tags flag value reaches Options.BuildTags completely.
func ruleC18CLI(c *ctx.Ctx, r *core.Reporter) {
	r.Begin("C18.cli", "F-KEY", "every command stores all tags of the --tags flag into Options.BuildTags: the flag string is split with strings.Fields, or by a helper that uses only unbounded splitting/replacing operations", 5)
	p := c.Pkg("")
	if p == nil {
		r.Undecided("main", "tool.go", "package main not loaded")
		return
	}
	info := p.TypesInfo
	helpers := map[string]*ast.FuncDecl{}
	for _, fd := range c.AllFuncDecls("") {
		helpers[fd.Name.Name] = fd
	}
	// the variable bound to the "tags" flag
	flagVar := ""
	for _, fd := range c.AllFuncDecls("") {
		if fd.Body == nil {
			continue
		}
		ast.Inspect(fd.Body, func(n ast.Node) bool {
			if ce, ok := n.(*ast.CallExpr); ok && len(ce.Args) >= 2 {
				if _, _, nm := callee(info, ce); nm == "StringVar" {
					if tv, ok := info.Types[ce.Args[1]]; ok && tv.Value != nil && tv.Value.ExactString() == `"tags"` {
						flagVar = strings.TrimPrefix(exprStr(ce.Args[0]), "&")
					}
				}
			}
			return true
		})
	}
	r.Check(flagVar != "", "cli:flag", "tool.go", "the --tags flag is bound to variable "+flagVar)
	n := 0
	for _, fd := range c.AllFuncDecls("") {
		if fd.Body == nil {
			continue
		}
		ast.Inspect(fd.Body, func(x ast.Node) bool {
			as, ok := x.(*ast.AssignStmt)
			if !ok || len(as.Lhs) != 1 || !strings.HasSuffix(exprStr(as.Lhs[0]), ".BuildTags") || len(as.Rhs) != 1 {
				return true
			}
			n++
			rhs := as.Rhs[0]
			key := fmt.Sprintf("cli:assign#%d", n)
			ce, isCall := rhs.(*ast.CallExpr)
			if !isCall || len(ce.Args) != 1 || exprStr(ce.Args[0]) != flagVar {
				r.Undecided(key, c.Pos(as.Pos()), "BuildTags is assigned from "+exprStr(rhs)+", not from a function of the flag value")
				return true
			}
			pkg, _, nm := callee(info, ce)
			if pkg == "strings" && nm == "Fields" {
				r.OK(key, c.Pos(as.Pos()), "BuildTags = strings.Fields("+flagVar+"): every whitespace-separated tag is kept")
				return true
			}
			h := helpers[nm]
			if h == nil || h.Body == nil {
				r.Undecided(key, c.Pos(as.Pos()), "BuildTags is computed by "+exprStr(ce.Fun)+", which the checker cannot analyse")
				return true
			}
			// helper: only unbounded operations
			splits, bounded := false, ""
			ast.Inspect(h.Body, func(m ast.Node) bool {
				switch y := m.(type) {
				case *ast.CallExpr:
					hp, _, hn := callee(info, y)
					if hp == "strings" {
						switch hn {
						case "Fields", "FieldsFunc", "Split":
							splits = true
						case "SplitN", "SplitAfterN", "Cut", "Index", "IndexByte":
							bounded = "strings." + hn
						case "Replace":
							if len(y.Args) == 4 {
								if tv, ok := info.Types[y.Args[3]]; !ok || tv.Value == nil || !strings.HasPrefix(tv.Value.ExactString(), "-") {
									bounded = "strings.Replace with a non-negative count"
								}
							}
						}
					}
				case *ast.SliceExpr:
					if y.High != nil {
						if tv, ok := info.Types[y.High]; ok && tv.Value != nil {
							bounded = "a slice with a constant upper bound"
						}
					}
				}
				return true
			})
			switch {
			case bounded != "":
				r.Violation(key, c.Pos(as.Pos()), fmt.Sprintf("BuildTags is computed by %s, which uses %s: only part of the flag value is processed, so some of the user's tags are silently dropped", nm, bounded))
			case !splits:
				r.Undecided(key, c.Pos(as.Pos()), nm+" does not split the flag value with strings.Fields/Split")
			default:
				r.OK(key, c.Pos(as.Pos()), nm+" splits the whole flag value with unbounded operations")
			}
			return true
		})
	}
	if n < 4 {
		r.Undecided("cli:assignments", "tool.go", fmt.Sprintf("expected BuildTags assignments in build/install/run/test/serve; found %d", n))
	}
}

// tagsUnion decides whether expression e is a fresh slice that contains, on every path, the elements of
// `user` and of defaultBuildTags. Accepted shapes: nested appends starting from a fresh slice literal
// (or make), and a call of a package-local helper with `user` as an argument whose single return
// statement has such a shape over its parameter.
func tagsUnion(c *ctx.Ctx, e ast.Expr, user string, depth int) (bool, string) {
	var parts []string
	fresh := false
	var walk func(x ast.Expr) bool
	walk = func(x ast.Expr) bool {
		call, ok := ast.Unparen(x).(*ast.CallExpr)
		if !ok {
			switch y := ast.Unparen(x).(type) {
			case *ast.CompositeLit:
				fresh = len(y.Elts) == 0 || true
				return true
			}
			return false
		}
		if id, ok := call.Fun.(*ast.Ident); ok && id.Name == "append" && len(call.Args) >= 1 {
			if !walk(call.Args[0]) {
				return false
			}
			if call.Ellipsis.IsValid() && len(call.Args) == 2 {
				parts = append(parts, squash(exprStr(call.Args[1])))
			}
			return true
		}
		if id, ok := call.Fun.(*ast.Ident); ok && id.Name == "make" {
			fresh = true
			return true
		}
		return false
	}
	if walk(e) && fresh {
		have := map[string]bool{}
		for _, p := range parts {
			have[p] = true
		}
		if have[squash(user)] && have["defaultBuildTags"] {
			return true, "append chain over a fresh slice"
		}
		return false, fmt.Sprintf("append chain lacks %s or defaultBuildTags (has %v)", user, parts)
	}
	// helper call
	call, ok := ast.Unparen(e).(*ast.CallExpr)
	if !ok || depth > 0 {
		return false, "not an append chain over a fresh slice"
	}
	id, ok := call.Fun.(*ast.Ident)
	if !ok {
		return false, "not an append chain over a fresh slice, nor a call of a local helper"
	}
	argIdx := -1
	for i, a := range call.Args {
		if squash(exprStr(a)) == squash(user) {
			argIdx = i
		}
	}
	fd := c.FuncDecl("build", id.Name)
	if fd == nil || fd.Body == nil || argIdx < 0 {
		return false, "helper " + id.Name + " not found or not given the user's tags"
	}
	// parameter name at argIdx
	k := 0
	pname := ""
	for _, f := range fd.Type.Params.List {
		for _, nm := range f.Names {
			if k == argIdx {
				pname = nm.Name
			}
			k++
		}
	}
	var rets []*ast.ReturnStmt
	ast.Inspect(fd.Body, func(n ast.Node) bool {
		if _, isLit := n.(*ast.FuncLit); isLit {
			return false
		}
		if rs, ok := n.(*ast.ReturnStmt); ok {
			rets = append(rets, rs)
		}
		return true
	})
	if len(rets) != 1 || len(rets[0].Results) != 1 {
		return false, fmt.Sprintf("helper %s has %d return statements: the always-on tags must be added on every path", id.Name, len(rets))
	}
	ok2, why := tagsUnion(c, rets[0].Results[0], pname, depth+1)
	return ok2, "helper " + id.Name + ": " + why
}
