package rules

// kindflow: a finite-domain abstract interpretation of the operator arms of
// translateExpr. The abstract state is the set of (operator, basic kind) pairs
// that may reach a statement; guards such as isUnsigned(basic),
// basic.Kind() == types.Int32 or e.Op == token.SHR are evaluated on every pair
// (three-valued: unknown sub-terms keep the pair on both sides). No code of
// the repository is run: helper predicates are evaluated by interpreting
// their single return expression over go/types' own kind table.

import (
	"go/ast"
	"go/constant"
	"go/token"
	"go/types"
	"sort"
	"strings"

	"verif/checker/internal/ctx"
)

type okPair struct {
	op   token.Token
	kind types.BasicKind
}

type pairSet map[okPair]bool

func (s pairSet) clone() pairSet {
	o := pairSet{}
	for k := range s {
		o[k] = true
	}
	return o
}

func (s pairSet) kinds() []types.BasicKind {
	m := map[types.BasicKind]bool{}
	for p := range s {
		m[p.kind] = true
	}
	var out []types.BasicKind
	for k := range m {
		out = append(out, k)
	}
	sort.Slice(out, func(i, j int) bool { return out[i] < out[j] })
	return out
}

type tri int

const (
	triFalse tri = iota
	triTrue
	triUnknown
)

func triNot(a tri) tri {
	switch a {
	case triTrue:
		return triFalse
	case triFalse:
		return triTrue
	}
	return triUnknown
}
func triAnd(a, b tri) tri {
	if a == triFalse || b == triFalse {
		return triFalse
	}
	if a == triTrue && b == triTrue {
		return triTrue
	}
	return triUnknown
}
func triOr(a, b tri) tri {
	if a == triTrue || b == triTrue {
		return triTrue
	}
	if a == triFalse && b == triFalse {
		return triFalse
	}
	return triUnknown
}

type kindEval struct {
	c    *ctx.Ctx
	info *types.Info
	// names of the variables holding the basic type and the operator in the analysed function
	basicVars map[string]bool
	opExprs   map[string]bool // rendered expressions denoting the operator: "e.Op"
	preds     map[string]*ast.FuncDecl
}

func newKindEval(c *ctx.Ctx) *kindEval {
	ke := &kindEval{c: c, info: c.Pkg("compiler").TypesInfo, basicVars: map[string]bool{"basic": true, "t": true, "u": true}, opExprs: map[string]bool{"e.Op": true}, preds: map[string]*ast.FuncDecl{}}
	for _, fd := range c.AllFuncDecls("compiler") {
		if fd.Recv == nil && fd.Body != nil && len(fd.Body.List) == 1 && fd.Type.Params != nil && len(fd.Type.Params.List) == 1 {
			if _, ok := fd.Body.List[0].(*ast.ReturnStmt); ok {
				if pt := ke.info.TypeOf(fd.Type.Params.List[0].Type); pt != nil && pt.String() == "*go/types.Basic" {
					ke.preds[fd.Name.Name] = fd
				}
			}
		}
	}
	return ke
}

// evalInt evaluates an integer-valued expression of a predicate body for kind k.
func (ke *kindEval) evalInt(e ast.Expr, param string, k types.BasicKind) (int64, bool) {
	if tv, ok := ke.info.Types[e]; ok && tv.Value != nil {
		if v, ok := constant.Int64Val(constant.ToInt(tv.Value)); ok {
			return v, true
		}
	}
	switch x := e.(type) {
	case *ast.ParenExpr:
		return ke.evalInt(x.X, param, k)
	case *ast.CallExpr:
		if sel, ok := x.Fun.(*ast.SelectorExpr); ok && len(x.Args) == 0 {
			if id, ok := sel.X.(*ast.Ident); ok && id.Name == param {
				switch sel.Sel.Name {
				case "Kind":
					return int64(k), true
				case "Info":
					return int64(types.Typ[k].Info()), true
				}
			}
		}
	case *ast.BinaryExpr:
		a, ok1 := ke.evalInt(x.X, param, k)
		b, ok2 := ke.evalInt(x.Y, param, k)
		if ok1 && ok2 {
			switch x.Op {
			case token.AND:
				return a & b, true
			case token.OR:
				return a | b, true
			}
		}
	}
	return 0, false
}

// evalBool evaluates a boolean expression for one (op, kind) pair.
func (ke *kindEval) evalBool(e ast.Expr, param string, p okPair) tri {
	switch x := e.(type) {
	case *ast.ParenExpr:
		return ke.evalBool(x.X, param, p)
	case *ast.UnaryExpr:
		if x.Op == token.NOT {
			return triNot(ke.evalBool(x.X, param, p))
		}
	case *ast.BinaryExpr:
		switch x.Op {
		case token.LAND:
			return triAnd(ke.evalBool(x.X, param, p), ke.evalBool(x.Y, param, p))
		case token.LOR:
			return triOr(ke.evalBool(x.X, param, p), ke.evalBool(x.Y, param, p))
		case token.EQL, token.NEQ:
			// operator comparison
			if ke.opExprs[exprStr(x.X)] {
				if tv, ok := ke.info.Types[x.Y]; ok && tv.Value != nil {
					v, _ := constant.Int64Val(tv.Value)
					r := triFalse
					if token.Token(v) == p.op {
						r = triTrue
					}
					if x.Op == token.NEQ {
						r = triNot(r)
					}
					return r
				}
			}
			a, ok1 := ke.evalInt(x.X, param, p.kind)
			b, ok2 := ke.evalInt(x.Y, param, p.kind)
			if ok1 && ok2 {
				r := triFalse
				if a == b {
					r = triTrue
				}
				if x.Op == token.NEQ {
					r = triNot(r)
				}
				return r
			}
		}
	case *ast.CallExpr:
		if id, ok := x.Fun.(*ast.Ident); ok && len(x.Args) == 1 {
			if fd, ok := ke.preds[id.Name]; ok {
				if a, ok := x.Args[0].(*ast.Ident); ok && (ke.basicVars[a.Name] || a.Name == param) {
					ret := fd.Body.List[0].(*ast.ReturnStmt).Results[0]
					return ke.evalBool(ret, fd.Type.Params.List[0].Names[0].Name, p)
				}
			}
		}
	}
	return triUnknown
}

// filter splits s by guard g: may-true and may-false subsets.
func (ke *kindEval) filter(s pairSet, g ast.Expr) (yes, no pairSet) {
	yes, no = pairSet{}, pairSet{}
	for p := range s {
		switch ke.evalBool(g, "basic", p) {
		case triTrue:
			yes[p] = true
		case triFalse:
			no[p] = true
		default:
			yes[p] = true
			no[p] = true
		}
	}
	return
}

// retSite is a return statement reached by a set of pairs.
type retSite struct {
	pairs pairSet
	ret   *ast.ReturnStmt
	expr  ast.Expr
}

// alwaysExits reports whether a statement list always returns or panics.
func alwaysExits(list []ast.Stmt) bool {
	if len(list) == 0 {
		return false
	}
	switch s := list[len(list)-1].(type) {
	case *ast.ReturnStmt:
		return true
	case *ast.ExprStmt:
		if ce, ok := s.X.(*ast.CallExpr); ok {
			if id, ok := ce.Fun.(*ast.Ident); ok && id.Name == "panic" {
				return true
			}
		}
	case *ast.BlockStmt:
		return alwaysExits(s.List)
	case *ast.IfStmt:
		if s.Else == nil {
			return false
		}
		eb, ok := s.Else.(*ast.BlockStmt)
		if !ok {
			if ei, ok := s.Else.(*ast.IfStmt); ok {
				return alwaysExits(s.Body.List) && alwaysExits([]ast.Stmt{ei})
			}
			return false
		}
		return alwaysExits(s.Body.List) && alwaysExits(eb.List)
	case *ast.SwitchStmt:
		hasDefault := false
		for _, c := range s.Body.List {
			cc := c.(*ast.CaseClause)
			if cc.List == nil {
				hasDefault = true
			}
			if !alwaysExits(cc.Body) {
				return false
			}
		}
		return hasDefault
	}
	return false
}

// flow walks statements with the given state and collects return sites.
func (ke *kindEval) flow(list []ast.Stmt, s pairSet, out *[]retSite) pairSet {
	for _, st := range list {
		if len(s) == 0 {
			return s
		}
		switch x := st.(type) {
		case *ast.ReturnStmt:
			var e ast.Expr
			if len(x.Results) > 0 {
				e = x.Results[0]
			}
			*out = append(*out, retSite{s.clone(), x, e})
			return pairSet{}
		case *ast.BlockStmt:
			s = ke.flow(x.List, s, out)
		case *ast.IfStmt:
			yes, no := ke.filter(s, x.Cond)
			afterThen := ke.flow(x.Body.List, yes, out)
			var afterElse pairSet
			if x.Else != nil {
				switch e := x.Else.(type) {
				case *ast.BlockStmt:
					afterElse = ke.flow(e.List, no, out)
				case *ast.IfStmt:
					afterElse = ke.flow([]ast.Stmt{e}, no, out)
				}
			} else {
				afterElse = no
			}
			s = pairSet{}
			for p := range afterThen {
				s[p] = true
			}
			for p := range afterElse {
				s[p] = true
			}
		case *ast.SwitchStmt:
			rest := s
			after := pairSet{}
			var def *ast.CaseClause
			for _, c := range x.Body.List {
				cc := c.(*ast.CaseClause)
				if cc.List == nil {
					def = cc
					continue
				}
				arm := pairSet{}
				newRest := rest.clone()
				for p := range rest {
					matched := triFalse
					for _, l := range cc.List {
						var r tri
						if x.Tag == nil {
							r = ke.evalBool(l, "basic", p)
						} else {
							r = ke.evalCase(x.Tag, l, p)
						}
						matched = triOr(matched, r)
					}
					if matched != triFalse {
						arm[p] = true
					}
					if matched == triTrue {
						delete(newRest, p)
					}
				}
				rest = newRest
				for p := range ke.flow(cc.Body, arm, out) {
					after[p] = true
				}
			}
			if def != nil {
				for p := range ke.flow(def.Body, rest, out) {
					after[p] = true
				}
			} else {
				for p := range rest {
					after[p] = true
				}
			}
			s = after
		case *ast.ExprStmt:
			if ce, ok := x.X.(*ast.CallExpr); ok {
				if id, ok := ce.Fun.(*ast.Ident); ok && id.Name == "panic" {
					return pairSet{}
				}
			}
		}
	}
	return s
}

// evalCase evaluates `switch tag { case label: }` for a pair.
func (ke *kindEval) evalCase(tag, label ast.Expr, p okPair) tri {
	tv, ok := ke.info.Types[label]
	if !ok || tv.Value == nil {
		return triUnknown
	}
	v, _ := constant.Int64Val(constant.ToInt(tv.Value))
	ts := exprStr(tag)
	if ke.opExprs[ts] {
		if token.Token(v) == p.op {
			return triTrue
		}
		return triFalse
	}
	if strings.HasSuffix(ts, ".Kind()") {
		if id, ok := tag.(*ast.CallExpr).Fun.(*ast.SelectorExpr).X.(*ast.Ident); ok && ke.basicVars[id.Name] {
			if types.BasicKind(v) == p.kind {
				return triTrue
			}
			return triFalse
		}
	}
	return triUnknown
}

var numericKinds = []types.BasicKind{types.Int, types.Int8, types.Int16, types.Int32, types.Int64, types.Uint, types.Uint8, types.Uint16, types.Uint32, types.Uint64, types.Uintptr, types.Float32, types.Float64, types.Complex64, types.Complex128}

var binaryOps = []token.Token{token.ADD, token.SUB, token.MUL, token.QUO, token.REM, token.AND, token.OR, token.XOR, token.SHL, token.SHR, token.AND_NOT, token.EQL, token.LSS, token.GTR, token.LEQ, token.GEQ}

func kindName(k types.BasicKind) string { return types.Typ[k].Name() }
