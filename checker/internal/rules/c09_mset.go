package rules

import (
	"fmt"

	"verif/checker/internal/core"
	"verif/checker/internal/ctx"
)

// C09.mset: the run-time method set ($methodSet) is a breadth-first walk over embedded fields. Whether
// the pointer-receiver methods of an embedded type are promoted depends on an attribute that is
// inherited along the embedding path ("some step so far went through a pointer, or the root is a
// pointer"). The rule checks the shape of that inherited attribute and of the walk.
func ruleC09MethodSet(c *ctx.Ctx, r *core.Reporter) {
	r.Begin("C09.mset", "F-KEY", "$methodSet: the indirection attribute starts as 'the root is a pointer', is inherited along every embedding step (own attribute OR the embedded field is a pointer), pointer-receiver methods are added exactly under it, shallower methods shadow deeper ones, and embedded pointers are walked through their element type", 6)
	if !needPrelude(c, r) {
		return
	}
	fn := c.PreludeFunc("$methodSet")
	if fn == nil {
		r.Undecided("anchor", "compiler/prelude/types.js", "$methodSet not found")
		return
	}
	// the work-list variables: `current = [ {typ:…, indirect:…} ]` and `next.push({typ:…, indirect:…})`
	var rootEntry, stepEntry *ctx.JSNode
	var stepFn *ctx.JSNode // the forEach callback over the current level
	attr := ""
	fn.Walk(func(x *ctx.JSNode) bool {
		if x.Is("ObjectExpression") && len(x.L("properties")) == 2 {
			names := []string{x.L("properties")[0].N("key").IdentName(), x.L("properties")[1].N("key").IdentName()}
			if names[0] != "typ" {
				return true
			}
			p := x.Parent
			switch {
			case p != nil && p.Is("ArrayExpression") && rootEntry == nil:
				rootEntry = x
				attr = names[1]
			case p != nil && p.Is("CallExpression") && p.N("callee").Is("MemberExpression") && p.N("callee").MemberName() == "push":
				stepEntry = x
			}
		}
		return true
	})
	if rootEntry == nil || stepEntry == nil || attr == "" {
		r.Undecided("worklist", fn.Pos(), "work-list entries {typ, <attribute>} not found")
		return
	}
	prop := func(o *ctx.JSNode, name string) *ctx.JSNode {
		for _, p := range o.L("properties") {
			if p.N("key").IdentName() == name {
				return p.N("value")
			}
		}
		return nil
	}
	inits := localInits(fn)
	isKindPtrTest := func(e *ctx.JSNode, of string) bool {
		// (<of>.kind === $kindPtr), directly or through a local variable
		e = unparen(e)
		if e.Is("Identifier") {
			for _, in := range inits[e.IdentName()] {
				e = unparen(in)
			}
		}
		if !e.Is("BinaryExpression") || e.S("operator") != "===" {
			return false
		}
		l, rr := e.N("left"), e.N("right")
		return l.Is("MemberExpression") && l.MemberName() == "kind" && (of == "" || squash(l.N("object").Src()) == of) && rr.IdentName() == "$kindPtr"
	}
	param := ""
	if ps := funcParams(fn); len(ps) == 1 {
		param = ps[0]
	}
	// root: attribute is "the root type is a pointer", typ is the element type of a pointer root
	rootAttr := prop(rootEntry, attr)
	r.Check(rootAttr != nil && isKindPtrTest(rootAttr, param), "mset:root-attribute", rootEntry.Pos(), fmt.Sprintf("the walk starts with %s = (the type itself is a pointer): `%s`", attr, squash(rootEntry.Src())))
	rt := prop(rootEntry, "typ")
	r.Check(rt != nil && rt.Is("ConditionalExpression") && isKindPtrTest(rt.N("test"), param) && squash(rt.N("consequent").Src()) == param+".elem" && squash(rt.N("alternate").Src()) == param, "mset:root-type", rootEntry.Pos(), "a pointer root is walked through its element type")
	// step: inherited attribute
	stepFn = stepEntry.EnclosingFunc() // f => {…} over fields
	var levelFn *ctx.JSNode
	if stepFn != nil {
		levelFn = stepFn.Parent
		for levelFn != nil && !levelFn.IsFunc() {
			levelFn = levelFn.Parent
		}
	}
	elem := ""
	if levelFn != nil {
		if ps := funcParams(levelFn); len(ps) == 1 {
			elem = ps[0]
		}
	}
	sa := prop(stepEntry, attr)
	okInherit := false
	fieldTyp := ""
	if sa != nil && sa.Is("LogicalExpression") && sa.S("operator") == "||" && elem != "" {
		l, rr := sa.N("left"), sa.N("right")
		isOwn := func(e *ctx.JSNode) bool { return squash(e.Src()) == elem+"."+attr }
		switch {
		case isOwn(l) && isKindPtrTest(rr, ""):
			okInherit = true
		case isOwn(rr) && isKindPtrTest(l, ""):
			okInherit = true
		}
	}
	r.Check(okInherit, "mset:attribute-inherited", stepEntry.Pos(), fmt.Sprintf("an embedded field inherits the attribute of the level it was found on: %s = %s.%s || (the field's type is a pointer) — found `%s`", attr, elem, attr, squash(stepEntry.Src())))
	st := prop(stepEntry, "typ")
	if st != nil && st.Is("ConditionalExpression") {
		fieldTyp = squash(st.N("alternate").Src())
		r.Check(isKindPtrTest(st.N("test"), fieldTyp) && squash(st.N("consequent").Src()) == fieldTyp+".elem", "mset:embedded-pointer-walked-through", stepEntry.Pos(), "an embedded pointer field is walked through its element type")
	} else {
		r.Violation("mset:embedded-pointer-walked-through", stepEntry.Pos(), "the embedded field's type is not unwrapped when it is a pointer")
	}
	// only embedded fields are followed
	guarded := false
	for p := stepEntry.Parent; p != nil && p != stepFn; p = p.Parent {
		if p.Is("IfStatement") && squash(p.N("test").Src()) == funcParam0(stepFn)+".embedded" {
			guarded = true
		}
	}
	r.Check(guarded, "mset:only-embedded-fields", stepEntry.Pos(), "only embedded fields contribute promoted methods")
	// pointer-receiver methods exactly under the attribute
	nPtr := 0
	fn.Walk(func(x *ctx.JSNode) bool {
		if x.Is("CallExpression") && x.N("callee").IdentName() == "$ptrType" {
			nPtr++
			var guards []string
			for p := x.Parent; p != nil && p != levelFn; p = p.Parent {
				if p.Is("IfStatement") && containsNode(p.N("consequent"), x) {
					guards = append(guards, squash(p.N("test").Src()))
				}
			}
			ok := false
			for _, g := range guards {
				if g == elem+"."+attr {
					ok = true
				}
			}
			r.Check(ok, fmt.Sprintf("mset:pointer-methods-under-attribute#%d", nPtr), x.Pos(), fmt.Sprintf("methods with pointer receivers are added only when the attribute holds (guards: %v)", guards))
		}
		return true
	})
	r.Check(nPtr >= 1, "mset:pointer-methods", fn.Pos(), "pointer-receiver methods are considered")
	// shadowing: a name already present (found at a shallower level) is kept
	shadow := false
	fn.Walk(func(x *ctx.JSNode) bool {
		if x.Is("IfStatement") {
			t := x.N("test")
			if t.Is("BinaryExpression") && t.S("operator") == "===" && squash(t.N("right").Src()) == "undefined" && t.N("left").Is("MemberExpression") {
				if as := squash(x.N("consequent").Src()); len(as) > 0 && containsAssignTo(x.N("consequent"), squash(t.N("left").Src())) {
					shadow = true
				}
			}
		}
		return true
	})
	r.Check(shadow, "mset:shallower-shadows", fn.Pos(), "a method name found at a shallower embedding depth is not replaced by a deeper one")
}

func funcParam0(fn *ctx.JSNode) string {
	if fn == nil {
		return ""
	}
	if ps := funcParams(fn); len(ps) >= 1 {
		return ps[0]
	}
	return ""
}

func containsAssignTo(n *ctx.JSNode, lhs string) bool {
	found := false
	n.Walk(func(x *ctx.JSNode) bool {
		if x.Is("AssignmentExpression") && squash(x.N("left").Src()) == lhs {
			found = true
		}
		return true
	})
	return found
}
