package rules

import (
	"fmt"
	"go/ast"
	"go/token"
	"go/types"
	"strings"

	"verif/checker/internal/core"
	"verif/checker/internal/ctx"
)

// Rules added after the fifth round of seeded changes.

// polarGuard is a condition under which a position is reached: an enclosing if's condition (negated for
// the else branch).
type polarGuard struct {
	Cond    ast.Expr
	Negated bool
}

// guardsAt returns the conditions of all if statements whose then- or else-branch contains pos.
func guardsAt(root ast.Node, pos token.Pos) []polarGuard {
	var out []polarGuard
	ast.Inspect(root, func(n ast.Node) bool {
		if n == nil || !(n.Pos() <= pos && pos < n.End()) {
			return n == root
		}
		if is, ok := n.(*ast.IfStmt); ok {
			switch {
			case is.Body.Pos() <= pos && pos < is.Body.End():
				out = append(out, polarGuard{is.Cond, false})
			case is.Else != nil && is.Else.Pos() <= pos && pos < is.Else.End():
				out = append(out, polarGuard{is.Cond, true})
			}
		}
		return true
	})
	return out
}

// resolvesToCall: e is a call whose callee is named name (method or function), or a local variable all of
// whose definitions in fd are.
func resolvesToCall(fd *ast.FuncDecl, e ast.Expr, name string, depth int) bool {
	e = ast.Unparen(e)
	switch x := e.(type) {
	case *ast.CallExpr:
		switch f := x.Fun.(type) {
		case *ast.SelectorExpr:
			return f.Sel.Name == name
		case *ast.Ident:
			return f.Name == name
		}
	case *ast.Ident:
		if depth > 3 {
			return false
		}
		defs := localAssignments(fd, x.Name)
		if len(defs) == 0 {
			return false
		}
		for _, d := range defs {
			if !resolvesToCall(fd, d.rhs, name, depth+1) {
				return false
			}
		}
		return true
	}
	return false
}

// ruleC01VariadicNil: Go spec, "Passing arguments to ... parameters": if f is invoked with no actual
// arguments for the variadic parameter p, the value passed to p is nil. The compiler therefore may build
// the slice literal `new T([...])` from the extra arguments only when there is at least one.
func ruleC01VariadicNil(c *ctx.Ctx, r *core.Reporter) {
	r.Begin("C01.variadic", "F-MUST", "a call that supplies no variadic arguments passes the nil slice: every site of translateArgs that wraps the extra arguments in a slice literal is reached only when their number is not zero, and the complementary path yields <T>.nil", 2)
	ta := c.FuncDecl("compiler", "funcContext.translateArgs")
	if ta == nil {
		r.Undecided("translateArgs", "compiler/utils.go", "not found")
		return
	}
	isCountCmp := func(e ast.Expr) (token.Token, bool) {
		be, ok := ast.Unparen(e).(*ast.BinaryExpr)
		if !ok {
			return 0, false
		}
		isLen := func(x ast.Expr) bool {
			ce, ok := ast.Unparen(x).(*ast.CallExpr)
			if !ok {
				return false
			}
			id, ok := ce.Fun.(*ast.Ident)
			return ok && id.Name == "len" && len(ce.Args) == 1
		}
		switch {
		case isLen(be.X) && resolvesToCall(ta, be.Y, "RequiredParams", 0):
			return be.Op, true
		case isLen(be.Y) && resolvesToCall(ta, be.X, "RequiredParams", 0):
			// mirror
			switch be.Op {
			case token.LSS:
				return token.GTR, true
			case token.GTR:
				return token.LSS, true
			case token.LEQ:
				return token.GEQ, true
			case token.GEQ:
				return token.LEQ, true
			}
			return be.Op, true
		}
		return 0, false
	}
	// excludesEmpty: under this guard len(args) != required; onlyEmpty: len(args) == required
	classify := func(g polarGuard) (excludesEmpty, onlyEmpty bool) {
		for _, cj := range conjuncts(g.Cond) {
			op, ok := isCountCmp(cj)
			if !ok {
				continue
			}
			if g.Negated {
				if len(conjuncts(g.Cond)) != 1 {
					continue // the negation of a conjunction says nothing about one conjunct
				}
				switch op {
				case token.EQL:
					excludesEmpty = true
				case token.NEQ, token.GTR:
					onlyEmpty = true // the count is never below the required number here
				}
				continue
			}
			switch op {
			case token.NEQ, token.GTR:
				excludesEmpty = true
			case token.EQL, token.LEQ:
				onlyEmpty = true
			}
		}
		return
	}
	nLit, nNil := 0, 0
	ast.Inspect(ta.Body, func(n ast.Node) bool {
		ce, ok := n.(*ast.CallExpr)
		if !ok || len(ce.Args) == 0 {
			return true
		}
		lit, ok := ce.Args[0].(*ast.BasicLit)
		if !ok || lit.Kind != token.STRING {
			return true
		}
		text := strings.Trim(lit.Value, "\"`")
		gs := guardsAt(ta.Body, ce.Pos())
		switch {
		case strings.HasPrefix(text, "new %s(["):
			nLit++
			ok := false
			for _, g := range gs {
				if ex, _ := classify(g); ex {
					ok = true
				}
			}
			r.Check(ok, fmt.Sprintf("variadic:literal-only-when-nonempty#%d", nLit), c.Pos(ce.Pos()), "the slice literal built from the individually passed variadic arguments is guarded by len(args) != RequiredParams(): with zero extra arguments Go passes nil, and `new T([])` is an empty non-nil slice (p == nil is observable)")
		case text == "%s.nil":
			for _, g := range gs {
				if _, only := classify(g); only {
					nNil++
				}
			}
		}
		return true
	})
	r.Check(nLit >= 1, "variadic:literal-site", c.Pos(ta.Pos()), fmt.Sprintf("%d slice-literal site(s) found in translateArgs", nLit))
	r.Check(nNil >= 1, "variadic:empty-is-nil", c.Pos(ta.Pos()), "on the path where the number of arguments equals RequiredParams() the variadic argument is <T>.nil")
}

// ruleC05LinknamesBeforeSelection: dead-code elimination asks the aggregated go:linkname set whether a
// declaration implements a link. The set must be complete by then: a directive can sit in a package that
// is later in dependency order than the implementation (the usual direction: the importer pulls a symbol
// out of the package it imports).
func ruleC05LinknamesBeforeSelection(c *ctx.Ctx, r *core.Reporter) {
	r.Begin("C05.linknames-complete", "F-PAIR", "every function that both fills a GoLinknameSet and queries it finishes all Add calls (in statements of their own) before the first statement that queries it", 1)
	n := 0
	for _, rel := range []string{"compiler", "build"} {
		p := c.Pkg(rel)
		if p == nil {
			continue
		}
		info := p.TypesInfo
		for _, fd := range c.AllFuncDecls(rel) {
			if fd.Body == nil || c.IsTestFile(fd.Pos()) {
				continue
			}
			// top-level statement index of a position
			top := func(pos token.Pos) int {
				for i, st := range fd.Body.List {
					if st.Pos() <= pos && pos < st.End() {
						return i
					}
				}
				return -1
			}
			type use struct {
				pos  token.Pos
				stmt int
			}
			adds := map[types.Object][]use{}
			queries := map[types.Object][]use{}
			ast.Inspect(fd.Body, func(x ast.Node) bool {
				ce, ok := x.(*ast.CallExpr)
				if !ok {
					return true
				}
				se, ok := ce.Fun.(*ast.SelectorExpr)
				if !ok {
					return true
				}
				id, ok := ast.Unparen(se.X).(*ast.Ident)
				if !ok {
					return true
				}
				obj := info.Uses[id]
				if obj == nil || !strings.HasSuffix(obj.Type().String(), "linkname.GoLinknameSet") {
					return true
				}
				u := use{ce.Pos(), top(ce.Pos())}
				switch se.Sel.Name {
				case "Add":
					adds[obj] = append(adds[obj], u)
				case "IsImplementation", "FindImplementation":
					queries[obj] = append(queries[obj], u)
				}
				return true
			})
			for obj, as := range adds {
				qs := queries[obj]
				if len(qs) == 0 {
					continue
				}
				n++
				bad := token.NoPos
				for _, a := range as {
					for _, q := range qs {
						if a.stmt >= q.stmt {
							bad = a.pos
						}
					}
				}
				site := as[0].pos
				if bad != token.NoPos {
					site = bad
				}
				r.Check(bad == token.NoPos, "filled-before-queried:"+ctx.FuncName(fd), c.Pos(site), fmt.Sprintf("%s: the go:linkname set of the whole program is aggregated in a loop of its own before declarations are offered to the dead-code selector (IsImplementation marks linkname targets alive; a directive in a later package must already be in the set)", ctx.FuncName(fd)))
			}
		}
	}
	r.Check(n >= 1, "sites", "compiler/compiler.go", fmt.Sprintf("%d function(s) fill and query a GoLinknameSet", n))
}

// dependsOnCall: e mentions — directly or through the definitions of the local variables it mentions — a
// call for which pred holds.
func dependsOnCall(fd *ast.FuncDecl, e ast.Expr, pred func(*ast.CallExpr) bool, seen map[string]bool) bool {
	found := false
	ast.Inspect(e, func(n ast.Node) bool {
		if found {
			return false
		}
		switch x := n.(type) {
		case *ast.CallExpr:
			if pred(x) {
				found = true
				return false
			}
		case *ast.Ident:
			if seen[x.Name] {
				return true
			}
			seen[x.Name] = true
			for _, d := range localAssignments(fd, x.Name) {
				if dependsOnCall(fd, d.rhs, pred, seen) {
					found = true
				}
			}
			// `if v := f(); ...` definitions are AssignStmts too and are covered by localAssignments
		}
		return true
	})
	return found
}

// ruleC10LinknameSplit: `//go:linkname local importPath.name` — the import path ends at the first dot
// AFTER the last slash (import paths contain dots: example.com/x, gopkg.in/y; names contain dots:
// Type.method, (*Type).method). The cut position must therefore be computed from the last '/'.
func ruleC10LinknameSplit(c *ctx.Ctx, r *core.Reporter) {
	r.Begin("C10.linkname-split", "F-MUST", "the package path of a go:linkname target is cut at a position computed from the last '/' of the target (first dot after the last slash)", 1)
	fd := c.FuncDecl("compiler/linkname", "readLinknameFromComment")
	if fd == nil {
		r.Undecided("readLinknameFromComment", "compiler/linkname/linkname.go", "not found")
		return
	}
	isLastSlash := func(ce *ast.CallExpr) bool {
		se, ok := ce.Fun.(*ast.SelectorExpr)
		if !ok || !strings.HasPrefix(se.Sel.Name, "LastIndex") || len(ce.Args) != 2 {
			return false
		}
		if x, ok := se.X.(*ast.Ident); !ok || (x.Name != "strings" && x.Name != "bytes") {
			return false
		}
		lit, ok := ce.Args[1].(*ast.BasicLit)
		return ok && (lit.Value == `'/'` || lit.Value == `"/"` || lit.Value == "`/`")
	}
	// the expression stored as Implementation.PkgPath
	var pkgExpr ast.Expr
	ast.Inspect(fd.Body, func(n ast.Node) bool {
		kv, ok := n.(*ast.KeyValueExpr)
		if !ok {
			return true
		}
		if k, ok := kv.Key.(*ast.Ident); ok && k.Name == "Implementation" {
			ast.Inspect(kv.Value, func(m ast.Node) bool {
				if kv2, ok := m.(*ast.KeyValueExpr); ok {
					if k2, ok := kv2.Key.(*ast.Ident); ok && k2.Name == "PkgPath" {
						pkgExpr = kv2.Value
					}
				}
				return true
			})
		}
		return true
	})
	if pkgExpr == nil {
		r.Undecided("implementation-pkgpath", c.Pos(fd.Pos()), "no Implementation: symbol.Name{PkgPath: …} in readLinknameFromComment")
		return
	}
	ok := dependsOnCall(fd, pkgExpr, isLastSlash, map[string]bool{})
	r.Check(ok, "split:after-last-slash", c.Pos(pkgExpr.Pos()), "the value stored as the implementation's package path is a prefix of the target whose length derives from strings.LastIndex*(target, '/'): cutting at the first dot anywhere breaks every import path with a dotted element (example.com/mod/pkg.Name)")
}

// ruleStructComparable: a struct type is comparable iff ALL its field types are — blank fields included
// (Go spec, Comparison operators; the `_ [0]func()` idiom relies on it to make == panic at run time for
// interface operands) — and an array type iff its element type is. The answer has to be computed when it
// is asked for: a type's init runs when the type is first mentioned, which can be before the init of the
// (named) component type, whose .comparable still holds the default `true` then.
func ruleStructComparable(c *ctx.Ctx, r *core.Reporter) {
	r.Begin("C08.comparable", "F-MUST", "the array and struct arms of $newType define typ.comparable as an accessor that asks the element type / every field type on demand, under no other condition; no arm copies another type's .comparable while a type is being initialised", 3)
	if !needPrelude(c, r) {
		return
	}
	nt := c.PreludeFunc("$newType")
	if nt == nil {
		r.Undecided("$newType", "compiler/prelude/types.js", "not found")
		return
	}
	arms := switchArmsByDiscriminant(nt, "kind")
	// getterOf: the function installed by Object.defineProperty(typ, "comparable", {get: F}) in the arm
	getterOf := func(arm *ctx.JSNode) *ctx.JSNode {
		var g *ctx.JSNode
		for _, st := range arm.L("consequent") {
			st.Walk(func(x *ctx.JSNode) bool {
				if !x.Is("CallExpression") || squash(x.N("callee").Src()) != "Object.defineProperty" {
					return true
				}
				args := x.L("arguments")
				if len(args) != 3 || args[0].IdentName() != "typ" {
					return true
				}
				if name, ok := args[1].StrValue(); !ok || name != "comparable" {
					return true
				}
				for _, pr := range args[2].L("properties") {
					if pr.N("key").IdentName() == "get" && pr.N("value").IsFunc() {
						g = pr.N("value")
					}
				}
				return true
			})
		}
		return g
	}
	// resultOf: the expression an arrow function / single-return function yields
	resultOf := func(fn *ctx.JSNode) *ctx.JSNode {
		b := fn.N("body")
		if b == nil {
			return nil
		}
		if !b.Is("BlockStatement") {
			return b
		}
		sts := b.L("body")
		if len(sts) == 1 && sts[0].Is("ReturnStatement") {
			return sts[0].N("argument")
		}
		return nil
	}
	initParams := func(arm *ctx.JSNode) []string {
		var ps []string
		for _, st := range arm.L("consequent") {
			st.Walk(func(x *ctx.JSNode) bool {
				if x.Is("AssignmentExpression") && x.N("left").MemberName() == "init" && x.N("right").IsFunc() && ps == nil {
					for _, p := range x.N("right").L("params") {
						ps = append(ps, p.IdentName())
					}
				}
				return true
			})
		}
		return ps
	}
	if arm := arms["$kindArray"]; arm == nil {
		r.Undecided("comparable:array", nt.Pos(), "no $kindArray arm")
	} else {
		g := getterOf(arm)
		ps := initParams(arm)
		ok := false
		why := "no Object.defineProperty(typ, \"comparable\", {get}) in the arm"
		if g != nil && len(ps) > 0 {
			res := resultOf(g)
			ok = res != nil && res.MemberName() == "comparable" && res.N("object").IdentName() == ps[0]
			if !ok {
				why = "the getter yields " + squash(g.N("body").Src())
			}
		}
		r.Check(ok, "comparable:array:on-demand", arm.Pos(), "an array type answers .comparable by asking its element type (the init parameter) at the time of the question"+ternary(ok, "", " ("+why+")"))
	}
	if arm := arms["$kindStruct"]; arm == nil {
		r.Undecided("comparable:struct", nt.Pos(), "no $kindStruct arm")
	} else {
		g := getterOf(arm)
		ps := initParams(arm)
		ok := false
		why := "no Object.defineProperty(typ, \"comparable\", {get}) in the arm"
		if g != nil && len(ps) > 1 {
			res := resultOf(g)
			why = "the getter yields " + squash(g.N("body").Src())
			// <fields>.every(f => f.typ.comparable)
			if res != nil && res.Is("CallExpression") && res.N("callee").MemberName() == "every" && res.N("callee").N("object").IdentName() == ps[1] && len(res.L("arguments")) == 1 {
				cb := res.L("arguments")[0]
				if cb.IsFunc() && len(cb.L("params")) >= 1 {
					f := cb.L("params")[0].IdentName()
					cr := resultOf(cb)
					ok = cr != nil && cr.MemberName() == "comparable" && cr.N("object").MemberName() == "typ" && cr.N("object").N("object").IdentName() == f
				}
			}
		}
		r.Check(ok, "comparable:struct:all-fields-on-demand", arm.Pos(), "a struct type answers .comparable with `every field's type is comparable` — the field's name (blank or not), tag or position plays no part"+ternary(ok, "", " ("+why+")"))
	}
	// no eager read of another type's .comparable anywhere in $newType
	n, eager := 0, 0
	first := nt.Pos()
	nt.Walk(func(x *ctx.JSNode) bool {
		if !(x.Is("MemberExpression") && x.MemberName() == "comparable") {
			return true
		}
		if x.Parent != nil && x.Parent.Is("AssignmentExpression") && x.Parent.N("left") == x {
			return true
		}
		n++
		inGetter := false
		for p := x.Parent; p != nil && p != nt; p = p.Parent {
			if p.IsFunc() && p.Parent != nil && p.Parent.Is("Property") && p.Parent.N("key").IdentName() == "get" {
				inGetter = true
			}
		}
		if !inGetter {
			if eager == 0 {
				first = x.Pos()
			}
			eager++
		}
		return true
	})
	r.Check(eager == 0, "comparable:no-copy-at-init", first, fmt.Sprintf("%d of %d reads of a component type's .comparable inside $newType happen while the type is being set up: types are initialised in order of first mention, so a named element or field type declared later has not run its init yet and still reports the default `true` (comparing [1]S{} with S struct{f func()} declared after the use yields true instead of panicking)", eager, n))
	r.Check(n >= 2, "comparable:reads", nt.Pos(), fmt.Sprintf("%d reads of .comparable found in $newType", n))
}

// ruleC04SharedTable: go/types' tables (Types, Uses, Selections) are keyed by syntax node and shared by all
// instantiations of a generic function — the body is translated once per instance from the same syntax.
// Writing an (instance-specific, substituted) type into the entry of an ORIGINAL node makes the next instance
// read the previous instance's type. Entries may only be made for nodes created on the spot.
func ruleC04SharedTable(c *ctx.Ctx, r *core.Reporter) {
	r.Begin("C04.shared-table", "F-WHO", "every entry the translator adds to the shared, syntax-keyed type tables (fc.setType, pkgCtx.Types/Uses/additionalSelections[...] = ...) is keyed by a node created in the same function (composite literal, ast.NewIdent, fc.newIdent...), never by a node of the parsed source", 8)
	p := c.Pkg("compiler")
	if p == nil {
		r.Undecided("pkg", "compiler", "package not loaded")
		return
	}
	isNodeCtor := func(ce *ast.CallExpr) bool {
		switch f := ce.Fun.(type) {
		case *ast.SelectorExpr:
			switch f.Sel.Name {
			case "NewIdent", "newIdent", "newIdentFor", "newLocalIdent", "newConst", "newTypeIdent", "setType", "zeroValue":
				return true
			}
		}
		return false
	}
	var fresh func(fd *ast.FuncDecl, e ast.Expr, depth int) bool
	fresh = func(fd *ast.FuncDecl, e ast.Expr, depth int) bool {
		switch x := ast.Unparen(e).(type) {
		case *ast.UnaryExpr:
			_, isLit := x.X.(*ast.CompositeLit)
			return x.Op == token.AND && isLit
		case *ast.CallExpr:
			if !isNodeCtor(x) {
				return false
			}
			if se := x.Fun.(*ast.SelectorExpr); se.Sel.Name == "setType" {
				return len(x.Args) == 2 && fresh(fd, x.Args[0], depth+1)
			}
			return true
		case *ast.Ident:
			if depth > 4 {
				return false
			}
			defs := localAssignments(fd, x.Name)
			if len(defs) == 0 {
				return false // a parameter or something assigned elsewhere: a node handed in by the caller
			}
			for _, d := range defs {
				if id, ok := ast.Unparen(d.rhs).(*ast.Ident); ok && id.Name == x.Name {
					continue
				}
				if !fresh(fd, d.rhs, depth+1) {
					return false
				}
			}
			return true
		}
		return false
	}
	n := 0
	for _, fd := range c.AllFuncDecls("compiler") {
		if fd.Body == nil || c.IsTestFile(fd.Pos()) {
			continue
		}
		fname := ctx.FuncName(fd)
		k := 0
		check := func(key ast.Expr, pos token.Pos, what string) {
			n++
			k++
			ok := fresh(fd, key, 0)
			if fname == "funcContext.setType" {
				// the helper itself: its callers are the sites
				n--
				k--
				return
			}
			r.Check(ok, fmt.Sprintf("fresh-key:%s#%d", fname, k), c.Pos(pos), fmt.Sprintf("%s in %s is keyed by `%s`, which %s", what, fname, exprStr(key), ternary(ok, "is a node created in this function", "can be a node of the parsed source: the table is shared by all instantiations of a generic function, so the type recorded for one instance is what the next instance reads for the same expression")))
		}
		ast.Inspect(fd.Body, func(x ast.Node) bool {
			switch s := x.(type) {
			case *ast.CallExpr:
				if se, ok := s.Fun.(*ast.SelectorExpr); ok && se.Sel.Name == "setType" && len(s.Args) == 2 {
					check(s.Args[0], s.Pos(), "fc.setType")
				}
			case *ast.AssignStmt:
				for _, l := range s.Lhs {
					ix, ok := l.(*ast.IndexExpr)
					if !ok {
						continue
					}
					se, ok := ix.X.(*ast.SelectorExpr)
					if !ok {
						continue
					}
					switch se.Sel.Name {
					case "Types", "Uses", "Defs", "Selections", "Instances", "additionalSelections":
						if strings.Contains(exprStr(se.X), "pkgCtx") {
							check(ix.Index, s.Pos(), exprStr(ix.X)+"[…] = …")
						}
					}
				}
			}
			return true
		})
	}
	r.Check(n >= 12, "sites", "compiler", fmt.Sprintf("%d table writes examined", n))
}

// ruleC02LabelledBranch: a labelled break/continue whose target statement is flattened re-dispatches through
// $s. The branch statement itself can sit inside a nested loop that is NOT flattened (no suspension point
// in it) and is therefore still a JavaScript loop: a bare `continue` would bind to that loop. The jump has
// to name the dispatch loop's label.
func ruleC02LabelledBranch(c *ctx.Ctx, r *core.Reporter) {
	r.Begin("C02.labelled-branch", "F-MUST", "the flattened form of a labelled break/continue is `$s = N; continue s;` — it names the dispatch loop — and the dispatch loop is emitted with that label", 3)
	ts := c.FuncDecl("compiler", "funcContext.translateStmt")
	if ts == nil {
		r.Undecided("translateStmt", "compiler/statements.go", "not found")
		return
	}
	arm := armOf(ts, "*ast.BranchStmt")
	if arm == nil {
		r.Undecided("branch-arm", c.Pos(ts.Pos()), "no *ast.BranchStmt arm")
		return
	}
	// the variable that holds the dispatch label when the branch is labelled
	labelVar := ""
	for _, m := range findGoPattern(arm, `if µs.Label != nil { µµa; µb = " s"; µµc }`) {
		labelVar = m.Env["µb"]
	}
	r.Check(labelVar != "", "label-set-when-labelled", c.Pos(arm.Pos()), "under `s.Label != nil` a variable is set to \" s\", the label of the dispatch loop")
	for _, tok := range []string{"token.BREAK", "token.CONTINUE"} {
		var cc *ast.CaseClause
		ast.Inspect(arm, func(n ast.Node) bool {
			if x, ok := n.(*ast.CaseClause); ok {
				for _, l := range x.List {
					if exprStr(l) == tok {
						cc = x
					}
				}
			}
			return true
		})
		if cc == nil {
			r.Undecided("branch:"+tok, c.Pos(arm.Pos()), "no case "+tok)
			continue
		}
		ok := false
		for _, m := range findGoPattern(cc, `µfc.PrintCond(µc, µn, fmt.Sprintf("$s = %d; continue%s;", µe, µb))`) {
			if m.Env["µb"] == labelVar && labelVar != "" {
				ok = true
			}
		}
		r.Check(ok, "redispatch-names-loop:"+tok, c.Pos(cc.Pos()), "the flattened alternative of a "+strings.ToLower(strings.TrimPrefix(tok, "token."))+" is `$s = <case>; continue<label>;` with the dispatch label variable: an unflattened inner JavaScript loop may enclose the statement")
	}
	// the dispatch loop carries the label
	found := false
	for _, t := range usableTemplates(c) {
		if strings.Contains(t.Text, "s: while (true) { switch ($s) { case 0:") {
			found = true
		}
	}
	r.Check(found, "dispatch-loop-labelled", "compiler/functions.go", "the dispatch loop is emitted as `s: while (true) { switch ($s) { case 0:`")
}

// isBlankNameTest: e is `<x>.name === "_"` (want "===") or `<x>.name !== "_"` (want "!==").
func isBlankNameTest(e *ctx.JSNode, want string) bool {
	if e == nil || !e.Is("BinaryExpression") {
		return false
	}
	op := e.S("operator")
	if want == "===" && op != "===" && op != "==" {
		return false
	}
	if want == "!==" && op != "!==" && op != "!=" {
		return false
	}
	l, rr := e.N("left"), e.N("right")
	if s, ok := l.StrValue(); ok && s == "_" {
		l, rr = rr, l
	}
	s, ok := rr.StrValue()
	return ok && s == "_" && l.MemberName() == "name"
}

// ruleBlankFields: Go spec, Comparison operators: "Two struct values are equal if their corresponding
// non-blank field values are equal." The same holds for map keys, which are compared with ==.
func ruleBlankFields(c *ctx.Ctx, r *core.Reporter) {
	r.Begin("C09.blank-fields", "F-SIB", "the struct arm of $equal and the struct keyFor both leave blank (`_`) fields out: the two are the two implementations of struct equality (== and map-key identity) and must agree with each other and with the spec", 2)
	if !needPrelude(c, r) {
		return
	}
	// $equal
	if eq := c.PreludeFunc("$equal"); eq == nil {
		r.Undecided("$equal", "compiler/prelude/prelude.js", "not found")
	} else if arm := kindSwitchArms(eq, "type")["$kindStruct"]; arm == nil {
		r.Undecided("$equal:$kindStruct", eq.Pos(), "arm not found")
	} else {
		n, good := 0, 0
		for _, st := range arm.L("consequent") {
			st.Walk(func(x *ctx.JSNode) bool {
				if !(x.Is("CallExpression") && x.N("callee").IdentName() == "$equal") {
					return true
				}
				n++
				ok := false
				// (a) guarded by if (f.name !== "_") or `f.name === "_" || …`
				for p := x.Parent; p != nil && p != arm; p = p.Parent {
					if p.Is("IfStatement") && isBlankNameTest(p.N("test"), "!==") {
						ok = true
					}
					if p.Is("LogicalExpression") && p.S("operator") == "||" && isBlankNameTest(p.N("left"), "===") {
						ok = true
					}
					// (b) an earlier statement of the same loop body: if (f.name === "_") continue;
					if p.Is("BlockStatement") && p.Parent != nil && p.Parent.Is("ForStatement", "ForOfStatement", "ForInStatement") {
						for _, s := range p.L("body") {
							if s.Start >= x.Start {
								break
							}
							if s.Is("IfStatement") && isBlankNameTest(s.N("test"), "===") {
								cons := s.N("consequent")
								if cons.Is("ContinueStatement") || (cons.Is("BlockStatement") && len(cons.L("body")) >= 1 && cons.L("body")[0].Is("ContinueStatement")) {
									ok = true
								}
							}
						}
					}
				}
				if ok {
					good++
				}
				return true
			})
		}
		r.Check(n >= 1 && good == n, "equal:struct:skips-blank", arm.Pos(), fmt.Sprintf("%d of %d field comparisons in $equal's struct arm are skipped for fields named `_` (S{1, 2} == S{1, 3} with `type S struct{a int; _ int}` is true)", good, n))
	}
	// keyFor
	nt := c.PreludeFunc("$newType")
	if nt == nil {
		r.Undecided("$newType", "compiler/prelude/types.js", "not found")
		return
	}
	arm := switchArmsByDiscriminant(nt, "kind")["$kindStruct"]
	if arm == nil {
		r.Undecided("$newType:$kindStruct", nt.Pos(), "arm not found")
		return
	}
	kf := assignsMember(arm, "keyFor")
	if kf == nil {
		r.Undecided("keyFor:struct", arm.Pos(), "no keyFor in the struct arm")
		return
	}
	// a filter(f => f.name !== "_") call
	isBlankFilter := func(x *ctx.JSNode) bool {
		if x == nil || !x.Is("CallExpression") || x.N("callee").MemberName() != "filter" || len(x.L("arguments")) != 1 {
			return false
		}
		cb := x.L("arguments")[0]
		if !cb.IsFunc() {
			return false
		}
		b := cb.N("body")
		if b.Is("BlockStatement") {
			sts := b.L("body")
			if len(sts) != 1 || !sts[0].Is("ReturnStatement") {
				return false
			}
			b = sts[0].N("argument")
		}
		return isBlankNameTest(b, "!==")
	}
	inits := map[string]*ctx.JSNode{}
	arm.Walk(func(x *ctx.JSNode) bool {
		if x.Is("VariableDeclarator") && x.N("init") != nil {
			inits[x.N("id").IdentName()] = x.N("init")
		}
		return true
	})
	n, good := 0, 0
	fn := kf.N("right")
	fn.Walk(func(x *ctx.JSNode) bool {
		if !x.Is("CallExpression") {
			return true
		}
		var src *ctx.JSNode
		switch {
		case x.N("callee").IdentName() == "$mapArray" && len(x.L("arguments")) == 2:
			src = x.L("arguments")[0]
		case (x.N("callee").MemberName() == "map" || x.N("callee").MemberName() == "forEach") && len(x.L("arguments")) >= 1 && x.L("arguments")[0].IsFunc():
			src = x.N("callee").N("object")
		default:
			return true
		}
		n++
		if isBlankFilter(src) || (src.Is("Identifier") && isBlankFilter(inits[src.IdentName()])) {
			good++
		}
		return true
	})
	r.Check(n >= 1 && good == n, "keyFor:struct:skips-blank", kf.Pos(), fmt.Sprintf("%d of %d field enumerations in the struct keyFor run over the fields filtered by name !== \"_\" (two keys that differ only in a blank field are the same map key)", good, n))
}
