package rules

import (
	"fmt"
	"go/ast"
	"go/constant"
	"go/token"
	"go/types"
	"math"
	"regexp"
	"strconv"
	"sort"
	"strings"

	"verif/checker/internal/core"
	"verif/checker/internal/ctx"
)

// Rules added after the fifth round of seeded changes.

// polarGuard is a condition under which a position is reached: an enclosing if's condition (negated for
// the else branch).
type polarGuard struct {
	Cond    ast.Expr
	Negated bool
}

// guardsAt returns the conditions of all if statements whose then- or else-branch contains pos.
func guardsAt(root ast.Node, pos token.Pos) []polarGuard {
	var out []polarGuard
	ast.Inspect(root, func(n ast.Node) bool {
		if n == nil || !(n.Pos() <= pos && pos < n.End()) {
			return n == root
		}
		if is, ok := n.(*ast.IfStmt); ok {
			switch {
			case is.Body.Pos() <= pos && pos < is.Body.End():
				out = append(out, polarGuard{is.Cond, false})
			case is.Else != nil && is.Else.Pos() <= pos && pos < is.Else.End():
				out = append(out, polarGuard{is.Cond, true})
			}
		}
		return true
	})
	return out
}

// resolvesToCall: e is a call whose callee is named name (method or function), or a local variable all of
// whose definitions in fd are.
func resolvesToCall(fd *ast.FuncDecl, e ast.Expr, name string, depth int) bool {
	e = ast.Unparen(e)
	switch x := e.(type) {
	case *ast.CallExpr:
		switch f := x.Fun.(type) {
		case *ast.SelectorExpr:
			return f.Sel.Name == name
		case *ast.Ident:
			return f.Name == name
		}
	case *ast.Ident:
		if depth > 3 {
			return false
		}
		defs := localAssignments(fd, x.Name)
		if len(defs) == 0 {
			return false
		}
		for _, d := range defs {
			if !resolvesToCall(fd, d.rhs, name, depth+1) {
				return false
			}
		}
		return true
	}
	return false
}

// ruleC01VariadicNil: Go spec, "Passing arguments to ... parameters": if f is invoked with no actual
// arguments for the variadic parameter p, the value passed to p is nil. The compiler therefore may build
// the slice literal `new T([...])` from the extra arguments only when there is at least one.
func ruleC01VariadicNil(c *ctx.Ctx, r *core.Reporter) {
	r.Begin("C01.variadic", "F-MUST", "a call that supplies no variadic arguments passes the nil slice: every site of translateArgs that wraps the extra arguments in a slice literal is reached only when their number is not zero, and the complementary path yields <T>.nil", 2)
	ta := c.FuncDecl("compiler", "funcContext.translateArgs")
	if ta == nil {
		r.Undecided("translateArgs", "compiler/utils.go", "not found")
		return
	}
	isCountCmp := func(e ast.Expr) (token.Token, bool) {
		be, ok := ast.Unparen(e).(*ast.BinaryExpr)
		if !ok {
			return 0, false
		}
		isLen := func(x ast.Expr) bool {
			ce, ok := ast.Unparen(x).(*ast.CallExpr)
			if !ok {
				return false
			}
			id, ok := ce.Fun.(*ast.Ident)
			return ok && id.Name == "len" && len(ce.Args) == 1
		}
		switch {
		case isLen(be.X) && resolvesToCall(ta, be.Y, "RequiredParams", 0):
			return be.Op, true
		case isLen(be.Y) && resolvesToCall(ta, be.X, "RequiredParams", 0):
			// mirror
			switch be.Op {
			case token.LSS:
				return token.GTR, true
			case token.GTR:
				return token.LSS, true
			case token.LEQ:
				return token.GEQ, true
			case token.GEQ:
				return token.LEQ, true
			}
			return be.Op, true
		}
		return 0, false
	}
	// excludesEmpty: under this guard len(args) != required; onlyEmpty: len(args) == required
	classify := func(g polarGuard) (excludesEmpty, onlyEmpty bool) {
		for _, cj := range conjuncts(g.Cond) {
			op, ok := isCountCmp(cj)
			if !ok {
				continue
			}
			if g.Negated {
				if len(conjuncts(g.Cond)) != 1 {
					continue // the negation of a conjunction says nothing about one conjunct
				}
				switch op {
				case token.EQL:
					excludesEmpty = true
				case token.NEQ, token.GTR:
					onlyEmpty = true // the count is never below the required number here
				}
				continue
			}
			switch op {
			case token.NEQ, token.GTR:
				excludesEmpty = true
			case token.EQL, token.LEQ:
				onlyEmpty = true
			}
		}
		return
	}
	nLit, nNil := 0, 0
	ast.Inspect(ta.Body, func(n ast.Node) bool {
		ce, ok := n.(*ast.CallExpr)
		if !ok || len(ce.Args) == 0 {
			return true
		}
		lit, ok := ce.Args[0].(*ast.BasicLit)
		if !ok || lit.Kind != token.STRING {
			return true
		}
		text := strings.Trim(lit.Value, "\"`")
		gs := guardsAt(ta.Body, ce.Pos())
		switch {
		case strings.HasPrefix(text, "new %s(["):
			nLit++
			ok := false
			for _, g := range gs {
				if ex, _ := classify(g); ex {
					ok = true
				}
			}
			r.Check(ok, fmt.Sprintf("variadic:literal-only-when-nonempty#%d", nLit), c.Pos(ce.Pos()), "the slice literal built from the individually passed variadic arguments is guarded by len(args) != RequiredParams(): with zero extra arguments Go passes nil, and `new T([])` is an empty non-nil slice (p == nil is observable)")
		case text == "%s.nil":
			for _, g := range gs {
				if _, only := classify(g); only {
					nNil++
				}
			}
		}
		return true
	})
	r.Check(nLit >= 1, "variadic:literal-site", c.Pos(ta.Pos()), fmt.Sprintf("%d slice-literal site(s) found in translateArgs", nLit))
	r.Check(nNil >= 1, "variadic:empty-is-nil", c.Pos(ta.Pos()), "on the path where the number of arguments equals RequiredParams() the variadic argument is <T>.nil")
}

// ruleC05LinknamesBeforeSelection: dead-code elimination asks the aggregated go:linkname set whether a
// declaration implements a link. The set must be complete by then: a directive can sit in a package that
// is later in dependency order than the implementation (the usual direction: the importer pulls a symbol
// out of the package it imports).
func ruleC05LinknamesBeforeSelection(c *ctx.Ctx, r *core.Reporter) {
	r.Begin("C05.linknames-complete", "F-PAIR", "every function that both fills a GoLinknameSet and queries it finishes all Add calls (in statements of their own) before the first statement that queries it", 1)
	n := 0
	for _, rel := range []string{"compiler", "build"} {
		p := c.Pkg(rel)
		if p == nil {
			continue
		}
		info := p.TypesInfo
		for _, fd := range c.AllFuncDecls(rel) {
			if fd.Body == nil || c.IsTestFile(fd.Pos()) {
				continue
			}
			// top-level statement index of a position
			top := func(pos token.Pos) int {
				for i, st := range fd.Body.List {
					if st.Pos() <= pos && pos < st.End() {
						return i
					}
				}
				return -1
			}
			type use struct {
				pos  token.Pos
				stmt int
			}
			adds := map[types.Object][]use{}
			queries := map[types.Object][]use{}
			ast.Inspect(fd.Body, func(x ast.Node) bool {
				ce, ok := x.(*ast.CallExpr)
				if !ok {
					return true
				}
				se, ok := ce.Fun.(*ast.SelectorExpr)
				if !ok {
					return true
				}
				id, ok := ast.Unparen(se.X).(*ast.Ident)
				if !ok {
					return true
				}
				obj := info.Uses[id]
				if obj == nil || !strings.HasSuffix(obj.Type().String(), "linkname.GoLinknameSet") {
					return true
				}
				u := use{ce.Pos(), top(ce.Pos())}
				switch se.Sel.Name {
				case "Add":
					adds[obj] = append(adds[obj], u)
				case "IsImplementation", "FindImplementation":
					queries[obj] = append(queries[obj], u)
				}
				return true
			})
			for obj, as := range adds {
				qs := queries[obj]
				if len(qs) == 0 {
					continue
				}
				n++
				bad := token.NoPos
				for _, a := range as {
					for _, q := range qs {
						if a.stmt >= q.stmt {
							bad = a.pos
						}
					}
				}
				site := as[0].pos
				if bad != token.NoPos {
					site = bad
				}
				r.Check(bad == token.NoPos, "filled-before-queried:"+ctx.FuncName(fd), c.Pos(site), fmt.Sprintf("%s: the go:linkname set of the whole program is aggregated in a loop of its own before declarations are offered to the dead-code selector (IsImplementation marks linkname targets alive; a directive in a later package must already be in the set)", ctx.FuncName(fd)))
			}
		}
	}
	r.Check(n >= 1, "sites", "compiler/compiler.go", fmt.Sprintf("%d function(s) fill and query a GoLinknameSet", n))
}

// dependsOnCall: e mentions — directly or through the definitions of the local variables it mentions — a
// call for which pred holds.
func dependsOnCall(fd *ast.FuncDecl, e ast.Expr, pred func(*ast.CallExpr) bool, seen map[string]bool) bool {
	found := false
	ast.Inspect(e, func(n ast.Node) bool {
		if found {
			return false
		}
		switch x := n.(type) {
		case *ast.CallExpr:
			if pred(x) {
				found = true
				return false
			}
		case *ast.Ident:
			if seen[x.Name] {
				return true
			}
			seen[x.Name] = true
			for _, d := range localAssignments(fd, x.Name) {
				if dependsOnCall(fd, d.rhs, pred, seen) {
					found = true
				}
			}
			// `if v := f(); ...` definitions are AssignStmts too and are covered by localAssignments
		}
		return true
	})
	return found
}

// ruleC10LinknameSplit: `//go:linkname local importPath.name` — the import path ends at the first dot
// AFTER the last slash (import paths contain dots: example.com/x, gopkg.in/y; names contain dots:
// Type.method, (*Type).method). The cut position must therefore be computed from the last '/'.
func ruleC10LinknameSplit(c *ctx.Ctx, r *core.Reporter) {
	r.Begin("C10.linkname-split", "F-MUST", "the package path of a go:linkname target is cut at a position computed from the last '/' of the target (first dot after the last slash)", 1)
	fd := c.FuncDecl("compiler/linkname", "readLinknameFromComment")
	if fd == nil {
		r.Undecided("readLinknameFromComment", "compiler/linkname/linkname.go", "not found")
		return
	}
	isLastSlash := func(ce *ast.CallExpr) bool {
		se, ok := ce.Fun.(*ast.SelectorExpr)
		if !ok || !strings.HasPrefix(se.Sel.Name, "LastIndex") || len(ce.Args) != 2 {
			return false
		}
		if x, ok := se.X.(*ast.Ident); !ok || (x.Name != "strings" && x.Name != "bytes") {
			return false
		}
		lit, ok := ce.Args[1].(*ast.BasicLit)
		return ok && (lit.Value == `'/'` || lit.Value == `"/"` || lit.Value == "`/`")
	}
	// the expression stored as Implementation.PkgPath
	var pkgExpr ast.Expr
	ast.Inspect(fd.Body, func(n ast.Node) bool {
		kv, ok := n.(*ast.KeyValueExpr)
		if !ok {
			return true
		}
		if k, ok := kv.Key.(*ast.Ident); ok && k.Name == "Implementation" {
			ast.Inspect(kv.Value, func(m ast.Node) bool {
				if kv2, ok := m.(*ast.KeyValueExpr); ok {
					if k2, ok := kv2.Key.(*ast.Ident); ok && k2.Name == "PkgPath" {
						pkgExpr = kv2.Value
					}
				}
				return true
			})
		}
		return true
	})
	if pkgExpr == nil {
		r.Undecided("implementation-pkgpath", c.Pos(fd.Pos()), "no Implementation: symbol.Name{PkgPath: …} in readLinknameFromComment")
		return
	}
	ok := dependsOnCall(fd, pkgExpr, isLastSlash, map[string]bool{})
	r.Check(ok, "split:after-last-slash", c.Pos(pkgExpr.Pos()), "the value stored as the implementation's package path is a prefix of the target whose length derives from strings.LastIndex*(target, '/'): cutting at the first dot anywhere breaks every import path with a dotted element (example.com/mod/pkg.Name)")
}

// ruleStructComparable: a struct type is comparable iff ALL its field types are — blank fields included
// (Go spec, Comparison operators; the `_ [0]func()` idiom relies on it to make == panic at run time for
// interface operands) — and an array type iff its element type is. The answer has to be computed when it
// is asked for: a type's init runs when the type is first mentioned, which can be before the init of the
// (named) component type, whose .comparable still holds the default `true` then.
func ruleStructComparable(c *ctx.Ctx, r *core.Reporter) {
	r.Begin("C08.comparable", "F-MUST", "the array and struct arms of $newType define typ.comparable as an accessor that asks the element type / every field type on demand, under no other condition; no arm copies another type's .comparable while a type is being initialised", 3)
	if !needPrelude(c, r) {
		return
	}
	nt := c.PreludeFunc("$newType")
	if nt == nil {
		r.Undecided("$newType", "compiler/prelude/types.js", "not found")
		return
	}
	arms := switchArmsByDiscriminant(nt, "kind")
	// getterOf: the function installed by Object.defineProperty(typ, "comparable", {get: F}) in the arm
	getterOf := func(arm *ctx.JSNode) *ctx.JSNode {
		var g *ctx.JSNode
		for _, st := range arm.L("consequent") {
			st.Walk(func(x *ctx.JSNode) bool {
				if !x.Is("CallExpression") || squash(x.N("callee").Src()) != "Object.defineProperty" {
					return true
				}
				args := x.L("arguments")
				if len(args) != 3 || args[0].IdentName() != "typ" {
					return true
				}
				if name, ok := args[1].StrValue(); !ok || name != "comparable" {
					return true
				}
				for _, pr := range args[2].L("properties") {
					if pr.N("key").IdentName() == "get" && pr.N("value").IsFunc() {
						g = pr.N("value")
					}
				}
				return true
			})
		}
		return g
	}
	// resultOf: the expression an arrow function / single-return function yields
	resultOf := func(fn *ctx.JSNode) *ctx.JSNode {
		b := fn.N("body")
		if b == nil {
			return nil
		}
		if !b.Is("BlockStatement") {
			return b
		}
		sts := b.L("body")
		if len(sts) == 1 && sts[0].Is("ReturnStatement") {
			return sts[0].N("argument")
		}
		return nil
	}
	initParams := func(arm *ctx.JSNode) []string {
		var ps []string
		for _, st := range arm.L("consequent") {
			st.Walk(func(x *ctx.JSNode) bool {
				if x.Is("AssignmentExpression") && x.N("left").MemberName() == "init" && x.N("right").IsFunc() && ps == nil {
					for _, p := range x.N("right").L("params") {
						ps = append(ps, p.IdentName())
					}
				}
				return true
			})
		}
		return ps
	}
	if arm := arms["$kindArray"]; arm == nil {
		r.Undecided("comparable:array", nt.Pos(), "no $kindArray arm")
	} else {
		g := getterOf(arm)
		ps := initParams(arm)
		ok := false
		why := "no Object.defineProperty(typ, \"comparable\", {get}) in the arm"
		if g != nil && len(ps) > 0 {
			res := resultOf(g)
			ok = res != nil && res.MemberName() == "comparable" && res.N("object").IdentName() == ps[0]
			if !ok {
				why = "the getter yields " + squash(g.N("body").Src())
			}
		}
		r.Check(ok, "comparable:array:on-demand", arm.Pos(), "an array type answers .comparable by asking its element type (the init parameter) at the time of the question"+ternary(ok, "", " ("+why+")"))
	}
	if arm := arms["$kindStruct"]; arm == nil {
		r.Undecided("comparable:struct", nt.Pos(), "no $kindStruct arm")
	} else {
		g := getterOf(arm)
		ps := initParams(arm)
		ok := false
		why := "no Object.defineProperty(typ, \"comparable\", {get}) in the arm"
		if g != nil && len(ps) > 1 {
			res := resultOf(g)
			why = "the getter yields " + squash(g.N("body").Src())
			// <fields>.every(f => f.typ.comparable)
			if res != nil && res.Is("CallExpression") && res.N("callee").MemberName() == "every" && res.N("callee").N("object").IdentName() == ps[1] && len(res.L("arguments")) == 1 {
				cb := res.L("arguments")[0]
				if cb.IsFunc() && len(cb.L("params")) >= 1 {
					f := cb.L("params")[0].IdentName()
					cr := resultOf(cb)
					ok = cr != nil && cr.MemberName() == "comparable" && cr.N("object").MemberName() == "typ" && cr.N("object").N("object").IdentName() == f
				}
			}
		}
		r.Check(ok, "comparable:struct:all-fields-on-demand", arm.Pos(), "a struct type answers .comparable with `every field's type is comparable` — the field's name (blank or not), tag or position plays no part"+ternary(ok, "", " ("+why+")"))
	}
	// no eager read of another type's .comparable anywhere in $newType
	n, eager := 0, 0
	first := nt.Pos()
	nt.Walk(func(x *ctx.JSNode) bool {
		if !(x.Is("MemberExpression") && x.MemberName() == "comparable") {
			return true
		}
		if x.Parent != nil && x.Parent.Is("AssignmentExpression") && x.Parent.N("left") == x {
			return true
		}
		n++
		inGetter := false
		for p := x.Parent; p != nil && p != nt; p = p.Parent {
			if p.IsFunc() && p.Parent != nil && p.Parent.Is("Property") && p.Parent.N("key").IdentName() == "get" {
				inGetter = true
			}
		}
		if !inGetter {
			if eager == 0 {
				first = x.Pos()
			}
			eager++
		}
		return true
	})
	r.Check(eager == 0, "comparable:no-copy-at-init", first, fmt.Sprintf("%d of %d reads of a component type's .comparable inside $newType happen while the type is being set up: types are initialised in order of first mention, so a named element or field type declared later has not run its init yet and still reports the default `true` (comparing [1]S{} with S struct{f func()} declared after the use yields true instead of panicking)", eager, n))
	r.Check(n >= 2, "comparable:reads", nt.Pos(), fmt.Sprintf("%d reads of .comparable found in $newType", n))
}

// ruleC04SharedTable: go/types' tables (Types, Uses, Selections) are keyed by syntax node and shared by all
// instantiations of a generic function — the body is translated once per instance from the same syntax.
// Writing an (instance-specific, substituted) type into the entry of an ORIGINAL node makes the next instance
// read the previous instance's type. Entries may only be made for nodes created on the spot.
func ruleC04SharedTable(c *ctx.Ctx, r *core.Reporter) {
	r.Begin("C04.shared-table", "F-WHO", "every entry the translator adds to the shared, syntax-keyed type tables (fc.setType, pkgCtx.Types/Uses/additionalSelections[...] = ...) is keyed by a node created in the same function (composite literal, ast.NewIdent, fc.newIdent...), never by a node of the parsed source", 8)
	p := c.Pkg("compiler")
	if p == nil {
		r.Undecided("pkg", "compiler", "package not loaded")
		return
	}
	isNodeCtor := func(ce *ast.CallExpr) bool {
		switch f := ce.Fun.(type) {
		case *ast.SelectorExpr:
			switch f.Sel.Name {
			case "NewIdent", "newIdent", "newIdentFor", "newLocalIdent", "newConst", "newTypeIdent", "setType", "zeroValue":
				return true
			}
		}
		return false
	}
	var fresh func(fd *ast.FuncDecl, e ast.Expr, depth int) bool
	fresh = func(fd *ast.FuncDecl, e ast.Expr, depth int) bool {
		switch x := ast.Unparen(e).(type) {
		case *ast.UnaryExpr:
			_, isLit := x.X.(*ast.CompositeLit)
			return x.Op == token.AND && isLit
		case *ast.CallExpr:
			if !isNodeCtor(x) {
				return false
			}
			if se := x.Fun.(*ast.SelectorExpr); se.Sel.Name == "setType" {
				return len(x.Args) == 2 && fresh(fd, x.Args[0], depth+1)
			}
			return true
		case *ast.Ident:
			if depth > 4 {
				return false
			}
			defs := localAssignments(fd, x.Name)
			if len(defs) == 0 {
				return false // a parameter or something assigned elsewhere: a node handed in by the caller
			}
			for _, d := range defs {
				if id, ok := ast.Unparen(d.rhs).(*ast.Ident); ok && id.Name == x.Name {
					continue
				}
				if !fresh(fd, d.rhs, depth+1) {
					return false
				}
			}
			return true
		}
		return false
	}
	n := 0
	for _, fd := range c.AllFuncDecls("compiler") {
		if fd.Body == nil || c.IsTestFile(fd.Pos()) {
			continue
		}
		fname := ctx.FuncName(fd)
		k := 0
		check := func(key ast.Expr, pos token.Pos, what string) {
			n++
			k++
			ok := fresh(fd, key, 0)
			if fname == "funcContext.setType" {
				// the helper itself: its callers are the sites
				n--
				k--
				return
			}
			r.Check(ok, fmt.Sprintf("fresh-key:%s#%d", fname, k), c.Pos(pos), fmt.Sprintf("%s in %s is keyed by `%s`, which %s", what, fname, exprStr(key), ternary(ok, "is a node created in this function", "can be a node of the parsed source: the table is shared by all instantiations of a generic function, so the type recorded for one instance is what the next instance reads for the same expression")))
		}
		ast.Inspect(fd.Body, func(x ast.Node) bool {
			switch s := x.(type) {
			case *ast.CallExpr:
				if se, ok := s.Fun.(*ast.SelectorExpr); ok && se.Sel.Name == "setType" && len(s.Args) == 2 {
					check(s.Args[0], s.Pos(), "fc.setType")
				}
			case *ast.AssignStmt:
				for _, l := range s.Lhs {
					ix, ok := l.(*ast.IndexExpr)
					if !ok {
						continue
					}
					se, ok := ix.X.(*ast.SelectorExpr)
					if !ok {
						continue
					}
					switch se.Sel.Name {
					case "Types", "Uses", "Defs", "Selections", "Instances", "additionalSelections":
						if strings.Contains(exprStr(se.X), "pkgCtx") {
							check(ix.Index, s.Pos(), exprStr(ix.X)+"[…] = …")
						}
					}
				}
			}
			return true
		})
	}
	r.Check(n >= 12, "sites", "compiler", fmt.Sprintf("%d table writes examined", n))
}

// ruleC02LabelledBranch: a labelled break/continue whose target statement is flattened re-dispatches through
// $s. The branch statement itself can sit inside a nested loop that is NOT flattened (no suspension point
// in it) and is therefore still a JavaScript loop: a bare `continue` would bind to that loop. The jump has
// to name the dispatch loop's label.
func ruleC02LabelledBranch(c *ctx.Ctx, r *core.Reporter) {
	r.Begin("C02.labelled-branch", "F-MUST", "the flattened form of a labelled break/continue is `$s = N; continue s;` — it names the dispatch loop — and the dispatch loop is emitted with that label", 3)
	ts := c.FuncDecl("compiler", "funcContext.translateStmt")
	if ts == nil {
		r.Undecided("translateStmt", "compiler/statements.go", "not found")
		return
	}
	arm := armOf(ts, "*ast.BranchStmt")
	if arm == nil {
		r.Undecided("branch-arm", c.Pos(ts.Pos()), "no *ast.BranchStmt arm")
		return
	}
	// the variable that holds the dispatch label when the branch is labelled
	labelVar := ""
	for _, m := range findGoPattern(arm, `if µs.Label != nil { µµa; µb = " s"; µµc }`) {
		labelVar = m.Env["µb"]
	}
	r.Check(labelVar != "", "label-set-when-labelled", c.Pos(arm.Pos()), "under `s.Label != nil` a variable is set to \" s\", the label of the dispatch loop")
	for _, tok := range []string{"token.BREAK", "token.CONTINUE"} {
		var cc *ast.CaseClause
		ast.Inspect(arm, func(n ast.Node) bool {
			if x, ok := n.(*ast.CaseClause); ok {
				for _, l := range x.List {
					if exprStr(l) == tok {
						cc = x
					}
				}
			}
			return true
		})
		if cc == nil {
			r.Undecided("branch:"+tok, c.Pos(arm.Pos()), "no case "+tok)
			continue
		}
		ok := false
		for _, m := range findGoPattern(cc, `µfc.PrintCond(µc, µn, fmt.Sprintf("$s = %d; continue%s;", µe, µb))`) {
			if m.Env["µb"] == labelVar && labelVar != "" {
				ok = true
			}
		}
		r.Check(ok, "redispatch-names-loop:"+tok, c.Pos(cc.Pos()), "the flattened alternative of a "+strings.ToLower(strings.TrimPrefix(tok, "token."))+" is `$s = <case>; continue<label>;` with the dispatch label variable: an unflattened inner JavaScript loop may enclose the statement")
	}
	// the dispatch loop carries the label
	found := false
	for _, t := range usableTemplates(c) {
		if strings.Contains(t.Text, "s: while (true) { switch ($s) { case 0:") {
			found = true
		}
	}
	r.Check(found, "dispatch-loop-labelled", "compiler/functions.go", "the dispatch loop is emitted as `s: while (true) { switch ($s) { case 0:`")
}

// isBlankNameTest: e is `<x>.name === "_"` (want "===") or `<x>.name !== "_"` (want "!==").
func isBlankNameTest(e *ctx.JSNode, want string) bool {
	if e == nil || !e.Is("BinaryExpression") {
		return false
	}
	op := e.S("operator")
	if want == "===" && op != "===" && op != "==" {
		return false
	}
	if want == "!==" && op != "!==" && op != "!=" {
		return false
	}
	l, rr := e.N("left"), e.N("right")
	if s, ok := l.StrValue(); ok && s == "_" {
		l, rr = rr, l
	}
	s, ok := rr.StrValue()
	return ok && s == "_" && l.MemberName() == "name"
}

// ruleBlankFields: Go spec, Comparison operators: "Two struct values are equal if their corresponding
// non-blank field values are equal." The same holds for map keys, which are compared with ==.
func ruleBlankFields(c *ctx.Ctx, r *core.Reporter) {
	r.Begin("C09.blank-fields", "F-SIB", "the struct arm of $equal and the struct keyFor both leave blank (`_`) fields out: the two are the two implementations of struct equality (== and map-key identity) and must agree with each other and with the spec", 2)
	if !needPrelude(c, r) {
		return
	}
	// $equal
	if eq := c.PreludeFunc("$equal"); eq == nil {
		r.Undecided("$equal", "compiler/prelude/prelude.js", "not found")
	} else if arm := kindSwitchArms(eq, "type")["$kindStruct"]; arm == nil {
		r.Undecided("$equal:$kindStruct", eq.Pos(), "arm not found")
	} else {
		n, good := 0, 0
		for _, st := range arm.L("consequent") {
			st.Walk(func(x *ctx.JSNode) bool {
				if !(x.Is("CallExpression") && x.N("callee").IdentName() == "$equal") {
					return true
				}
				n++
				ok := false
				// (a) guarded by if (f.name !== "_") or `f.name === "_" || …`
				for p := x.Parent; p != nil && p != arm; p = p.Parent {
					if p.Is("IfStatement") && isBlankNameTest(p.N("test"), "!==") {
						ok = true
					}
					if p.Is("LogicalExpression") && p.S("operator") == "||" && isBlankNameTest(p.N("left"), "===") {
						ok = true
					}
					// (b) an earlier statement of the same loop body: if (f.name === "_") continue;
					if p.Is("BlockStatement") && p.Parent != nil && p.Parent.Is("ForStatement", "ForOfStatement", "ForInStatement") {
						for _, s := range p.L("body") {
							if s.Start >= x.Start {
								break
							}
							if s.Is("IfStatement") && isBlankNameTest(s.N("test"), "===") {
								cons := s.N("consequent")
								if cons.Is("ContinueStatement") || (cons.Is("BlockStatement") && len(cons.L("body")) >= 1 && cons.L("body")[0].Is("ContinueStatement")) {
									ok = true
								}
							}
						}
					}
				}
				if ok {
					good++
				}
				return true
			})
		}
		r.Check(n >= 1 && good == n, "equal:struct:skips-blank", arm.Pos(), fmt.Sprintf("%d of %d field comparisons in $equal's struct arm are skipped for fields named `_` (S{1, 2} == S{1, 3} with `type S struct{a int; _ int}` is true)", good, n))
	}
	// keyFor
	nt := c.PreludeFunc("$newType")
	if nt == nil {
		r.Undecided("$newType", "compiler/prelude/types.js", "not found")
		return
	}
	arm := switchArmsByDiscriminant(nt, "kind")["$kindStruct"]
	if arm == nil {
		r.Undecided("$newType:$kindStruct", nt.Pos(), "arm not found")
		return
	}
	kf := assignsMember(arm, "keyFor")
	if kf == nil {
		r.Undecided("keyFor:struct", arm.Pos(), "no keyFor in the struct arm")
		return
	}
	// a filter(f => f.name !== "_") call
	isBlankFilter := func(x *ctx.JSNode) bool {
		if x == nil || !x.Is("CallExpression") || x.N("callee").MemberName() != "filter" || len(x.L("arguments")) != 1 {
			return false
		}
		cb := x.L("arguments")[0]
		if !cb.IsFunc() {
			return false
		}
		b := cb.N("body")
		if b.Is("BlockStatement") {
			sts := b.L("body")
			if len(sts) != 1 || !sts[0].Is("ReturnStatement") {
				return false
			}
			b = sts[0].N("argument")
		}
		return isBlankNameTest(b, "!==")
	}
	inits := map[string]*ctx.JSNode{}
	arm.Walk(func(x *ctx.JSNode) bool {
		if x.Is("VariableDeclarator") && x.N("init") != nil {
			inits[x.N("id").IdentName()] = x.N("init")
		}
		return true
	})
	n, good := 0, 0
	fn := kf.N("right")
	fn.Walk(func(x *ctx.JSNode) bool {
		if !x.Is("CallExpression") {
			return true
		}
		var src *ctx.JSNode
		switch {
		case x.N("callee").IdentName() == "$mapArray" && len(x.L("arguments")) == 2:
			src = x.L("arguments")[0]
		case (x.N("callee").MemberName() == "map" || x.N("callee").MemberName() == "forEach") && len(x.L("arguments")) >= 1 && x.L("arguments")[0].IsFunc():
			src = x.N("callee").N("object")
		default:
			return true
		}
		n++
		if isBlankFilter(src) || (src.Is("Identifier") && isBlankFilter(inits[src.IdentName()])) {
			good++
		}
		return true
	})
	r.Check(n >= 1 && good == n, "keyFor:struct:skips-blank", kf.Pos(), fmt.Sprintf("%d of %d field enumerations in the struct keyFor run over the fields filtered by name !== \"_\" (two keys that differ only in a blank field are the same map key)", good, n))
}

// ruleC11JsTag: a struct tag is a space-separated list of key:"value" pairs (reflect.StructTag). getJsTag
// consumes one pair per iteration of `for tag != ""`; after a pair the rest begins with the separating
// space, so the space-skipping step belongs INSIDE the loop, before the key is scanned. Hoisted out of the
// loop, only the first key is ever recognised: `json:"x" js:"x"` is no js tag any more.
func ruleC11JsTag(c *ctx.Ctx, r *core.Reporter) {
	r.Begin("C11.jstag", "F-MUST", "getJsTag skips the separating spaces in every iteration of its pair loop, so that the js key is found at any position of the tag", 1)
	fd := c.FuncDecl("compiler", "getJsTag")
	if fd == nil {
		r.Undecided("getJsTag", "compiler/utils.go", "not found")
		return
	}
	var loop *ast.ForStmt
	ast.Inspect(fd.Body, func(n ast.Node) bool {
		if fs, ok := n.(*ast.ForStmt); ok && loop == nil && fs.Init == nil && fs.Post == nil && fs.Cond != nil {
			if be, ok := fs.Cond.(*ast.BinaryExpr); ok && be.Op == token.NEQ && exprStr(be.Y) == `""` {
				loop = fs
			}
		}
		return loop == nil
	})
	if loop == nil {
		r.Undecided("pair-loop", c.Pos(fd.Pos()), "no `for tag != \"\"` loop")
		return
	}
	tagVar := exprStr(loop.Cond.(*ast.BinaryExpr).X)
	// position of the key scan: the first comparison with ':' in the loop
	keyScan := token.NoPos
	ast.Inspect(loop.Body, func(n ast.Node) bool {
		if bl, ok := n.(*ast.BasicLit); ok && bl.Value == `':'` && keyScan == token.NoPos {
			keyScan = bl.Pos()
		}
		return true
	})
	skip := token.NoPos
	for _, m := range findGoPattern(loop.Body, `for µi < len(µt) && µt[µi] == ' ' { µi++ }; µt = µt[µi:]`) {
		if m.Env["µt"] == tagVar {
			skip = m.Node.Pos()
		}
	}
	for _, pat := range []string{`µt = strings.TrimLeft(µt, " ")`, `µt = strings.TrimSpace(µt)`, `µt = strings.TrimLeft(µt, " \t")`} {
		for _, m := range findGoPattern(loop.Body, pat) {
			if m.Env["µt"] == tagVar && skip == token.NoPos {
				skip = m.Node.Pos()
			}
		}
	}
	ok := skip != token.NoPos && keyScan != token.NoPos && skip < keyScan
	r.Check(ok, "jstag:skip-space-per-pair", c.Pos(loop.Pos()), "inside the pair loop, before the key is scanned up to ':', leading spaces of the remaining tag are dropped (a tag `json:\"x\" js:\"y\"` yields \"y\")")
}

// ruleC19WriteJSSource: Filter.WriteJS(source, path, …) lets esbuild produce mappings relative to the text it
// is handed and attributes them to `path`. The text therefore has to be the unmodified content of that
// file: both arguments are fields of the same file record, and the text is not concatenated with anything.
func ruleC19WriteJSSource(c *ctx.Ctx, r *core.Reporter) {
	r.Begin("C19.writejs-source", "F-KEY", "at every call of Filter.WriteJS the source text and the file name are two fields of one file record, the text unmodified (a wrapper around it shifts every mapping into the file)", 2)
	n := 0
	for _, rel := range []string{"compiler", "build"} {
		p := c.Pkg(rel)
		if p == nil {
			continue
		}
		for _, fd := range c.AllFuncDecls(rel) {
			if fd.Body == nil || c.IsTestFile(fd.Pos()) {
				continue
			}
			ast.Inspect(fd.Body, func(x ast.Node) bool {
				ce, ok := x.(*ast.CallExpr)
				if !ok || len(ce.Args) < 2 {
					return true
				}
				se, ok := ce.Fun.(*ast.SelectorExpr)
				if !ok || se.Sel.Name != "WriteJS" {
					return true
				}
				if tv, ok := p.TypesInfo.Types[se.X]; !ok || !strings.HasSuffix(tv.Type.String(), "sourcemapx.Filter") {
					return true
				}
				n++
				src := ast.Unparen(ce.Args[0])
				// string(X.Content)
				if conv, ok := src.(*ast.CallExpr); ok && len(conv.Args) == 1 {
					if id, ok := conv.Fun.(*ast.Ident); ok && id.Name == "string" {
						src = ast.Unparen(conv.Args[0])
					}
				}
				s1, ok1 := src.(*ast.SelectorExpr)
				s2, ok2 := ast.Unparen(ce.Args[1]).(*ast.SelectorExpr)
				good := ok1 && ok2 && exprStr(s1.X) == exprStr(s2.X)
				if good {
					if _, isIdent := s1.X.(*ast.Ident); !isIdent {
						good = false
					}
				}
				r.Check(good, fmt.Sprintf("writejs-source:%s#%d", ctx.FuncName(fd), n), c.Pos(ce.Pos()), fmt.Sprintf("WriteJS(%s, %s, …): the text is the content field and the name the path field of the same file record", exprStr(ce.Args[0]), exprStr(ce.Args[1])))
				return true
			})
		}
	}
	r.Check(n >= 2, "sites", "compiler/compiler.go", fmt.Sprintf("%d WriteJS call(s) examined (prelude files and .inc.js files)", n))
}

// ruleC19FirstLine: mappings esbuild produced for an isolated chunk are shifted to where the chunk lands in
// the output: lines by the number of lines written so far, and the columns of the chunk's FIRST line by
// the current column. "First line" is whatever number the decoder of the sourcemap library gives it
// (decodeMappings starts counting at generatedLine = 1); the test in the callback has to use that number,
// or the column shift never happens (under -m the wrapper `(function(){` and the whole minified chunk
// share one line).
func ruleC19FirstLine(c *ctx.Ctx, r *core.Reporter) {
	r.Begin("C19.first-line", "F-CONST", "the first-line test of Filter.defaultJSMappingCallback uses the line number the sourcemap decoder assigns to the first generated line", 1)
	// the decoder's first line
	first := ""
	if p := c.All["github.com/neelance/sourcemap"]; p != nil {
		for _, f := range p.Syntax {
			for _, d := range f.Decls {
				fd, ok := d.(*ast.FuncDecl)
				if !ok || fd.Name.Name != "decodeMappings" || fd.Body == nil {
					continue
				}
				for _, m := range findGoPattern(fd.Body, `var generatedLine = µn`) {
					first = m.Env["µn"]
				}
			}
		}
	}
	if first == "" {
		r.Undecided("decoder-first-line", "github.com/neelance/sourcemap", "decodeMappings / `var generatedLine = N` not found in the loaded dependency")
		return
	}
	fd := c.FuncDecl("internal/sourcemapx", "Filter.defaultJSMappingCallback")
	if fd == nil {
		r.Undecided("defaultJSMappingCallback", "internal/sourcemapx/filter.go", "not found")
		return
	}
	n, good := 0, 0
	for _, m := range findGoPattern(fd.Body, `if µm.GeneratedLine == µn { µm.GeneratedColumn += µf.column }`) {
		n++
		if m.Env["µn"] == first {
			good++
		}
	}
	r.Check(n >= 1 && good == n, "first-line:matches-decoder", c.Pos(fd.Pos()), fmt.Sprintf("the column of a mapping is shifted by the filter's current column exactly when its GeneratedLine is %s, the decoder's number for the first line (%d of %d tests)", first, good, n))
}

// ruleC15NaNKeys: a map key is a string derived from the value; two keys are the same entry iff the strings
// are equal. NaN is never equal to anything, so every floating-point component has to go through $floatKey
// (which hands out a fresh string per NaN), and the strings of the components must stay strings: collected
// in a typed array (what `new x.constructor(n)` gives for a [n]float64) "NaN$7" is coerced back to NaN.
func ruleC15NaNKeys(c *ctx.Ctx, r *core.Reporter) {
	r.Begin("C15.nan-keys", "F-MUST", "the keyFor of complex kinds passes both parts through $floatKey, and the keyFor of arrays collects the element keys in a plain Array (not in a container constructed from the array value's own constructor)", 3)
	if !needPrelude(c, r) {
		return
	}
	nt := c.PreludeFunc("$newType")
	if nt == nil {
		r.Undecided("$newType", "compiler/prelude/types.js", "not found")
		return
	}
	arms := switchArmsByDiscriminant(nt, "kind")
	for _, k := range []string{"$kindComplex64", "$kindComplex128"} {
		arm := arms[k]
		if arm == nil {
			r.Undecided("nan:"+k, nt.Pos(), "no arm")
			continue
		}
		kf := assignsMember(arm, "keyFor")
		if kf == nil {
			r.Undecided("nan:"+k, arm.Pos(), "no keyFor")
			continue
		}
		parts, wrapped := 0, 0
		kf.N("right").Walk(func(x *ctx.JSNode) bool {
			if x.Is("MemberExpression") && (x.MemberName() == "$real" || x.MemberName() == "$imag") {
				parts++
				if p := x.Parent; p != nil && p.Is("CallExpression") && p.N("callee").IdentName() == "$floatKey" {
					wrapped++
				}
			}
			return true
		})
		r.Check(parts >= 2 && wrapped == parts, "nan:"+k, kf.Pos(), fmt.Sprintf("%d of %d reads of $real/$imag in the keyFor of %s are arguments of $floatKey (complex(NaN, 0) is a fresh key on every store)", wrapped, parts, k))
	}
	if arm := arms["$kindArray"]; arm == nil {
		r.Undecided("nan:$kindArray", nt.Pos(), "no arm")
	} else if kf := assignsMember(arm, "keyFor"); kf == nil {
		r.Undecided("nan:$kindArray", arm.Pos(), "no keyFor")
	} else {
		fn := kf.N("right")
		param := ""
		if ps := fn.L("params"); len(ps) > 0 {
			param = ps[0].IdentName()
		}
		bad := ""
		fn.Walk(func(x *ctx.JSNode) bool {
			if x.Is("CallExpression") && x.N("callee").IdentName() == "$mapArray" && len(x.L("arguments")) >= 1 && x.L("arguments")[0].IdentName() == param {
				bad = squash(x.N("callee").Src()) + "(" + param + ", …)"
			}
			if x.Is("NewExpression") && strings.Contains(x.N("callee").Src(), ".constructor") {
				bad = squash(x.N("callee").Src())
			}
			return true
		})
		r.Check(param != "" && bad == "", "nan:$kindArray:keys-stay-strings", kf.Pos(), "the element keys of an array key are collected in a plain Array"+ternary(bad != "", " (found "+bad+": $mapArray builds `new array.constructor(n)`, a Float64Array for [n]float64, which turns \"NaN$<id>\" back into NaN)", ""))
	}
}

// ruleLabelNamespace: Go labels are emitted as JavaScript labels. The compiler has a label of its own in
// that namespace — the dispatch loop of a flattened function, `s: while (true) { switch ($s) {` — so a Go
// label of the same name nested in it is a duplicate-label SyntaxError when the file is loaded. Every
// site that turns a Go label into a JavaScript label has to go through a function that moves the
// compiler's own label names out of the way.
func ruleLabelNamespace(c *ctx.Ctx, r *core.Reporter) {
	r.Begin("C02.labels", "F-LINK", "every Go label name reaches the output through a helper that renames the labels the compiler itself emits (the dispatch loop's `s`)", 5)
	p := c.Pkg("compiler")
	if p == nil {
		r.Undecided("pkg", "compiler", "not loaded")
		return
	}
	// the compiler's own labels: `<name>: while|for|switch` in a template
	own := map[string]bool{}
	re := ownLabelRe
	for _, t := range usableTemplates(c) {
		for _, m := range re.FindAllStringSubmatch(t.Text, -1) {
			own[m[1]] = true
		}
	}
	if len(own) == 0 {
		r.Undecided("own-labels", "compiler", "no template defines a label (the dispatch loop `s: while (true)` was expected)")
		return
	}
	var owns []string
	for k := range own {
		owns = append(owns, k)
	}
	sortStrings(owns)
	info := p.TypesInfo
	isLabelName := func(e ast.Expr) bool {
		switch x := ast.Unparen(e).(type) {
		case *ast.SelectorExpr: // s.Label.Name
			if x.Sel.Name != "Name" {
				return false
			}
			if in, ok := x.X.(*ast.SelectorExpr); ok && in.Sel.Name == "Label" {
				return true
			}
		case *ast.CallExpr: // label.Name()
			if se, ok := x.Fun.(*ast.SelectorExpr); ok && se.Sel.Name == "Name" && len(x.Args) == 0 {
				if tv, ok := info.Types[se.X]; ok && strings.HasSuffix(tv.Type.String(), "types.Label") {
					return true
				}
			}
		}
		return false
	}
	handles := map[string]bool{}
	handlesOwn := func(name string) bool {
		if v, ok := handles[name]; ok {
			return v
		}
		fd := c.FuncDecl("compiler", name)
		ok := fd != nil && fd.Body != nil
		if ok {
			for _, l := range owns {
				found := false
				ast.Inspect(fd.Body, func(n ast.Node) bool {
					if bl, isLit := n.(*ast.BasicLit); isLit && (bl.Value == `"`+l+`"` || bl.Value == "`"+l+"`") {
						found = true
					}
					return true
				})
				if !found {
					ok = false
				}
			}
		}
		handles[name] = ok
		return ok
	}
	n := 0
	for _, fd := range c.AllFuncDecls("compiler") {
		if fd.Body == nil || c.IsTestFile(fd.Pos()) {
			continue
		}
		ast.Inspect(fd.Body, func(x ast.Node) bool {
			ce, ok := x.(*ast.CallExpr)
			if !ok || len(ce.Args) != 1 || !isLabelName(ce.Args[0]) {
				return true
			}
			name := ""
			switch f := ce.Fun.(type) {
			case *ast.Ident:
				name = f.Name
			case *ast.SelectorExpr:
				name = f.Sel.Name
			}
			n++
			r.Check(handlesOwn(name), fmt.Sprintf("label-site:%s#%d", ctx.FuncName(fd), n), c.Pos(ce.Pos()), fmt.Sprintf("`%s`: the Go label goes through %s, which %s the compiler's own label(s) %v", exprStr(ce), name, ternary(handlesOwn(name), "tells apart", "does not know"), owns))
			return true
		})
	}
	r.Check(n >= 5, "sites", "compiler/statements.go", fmt.Sprintf("%d sites turn a Go label into a JavaScript label", n))
}

var ownLabelRe = regexp.MustCompile(`(?:^|[\s;{}])([A-Za-z_$][A-Za-z0-9_$]*): (?:while|for|switch|do)\b`)

func sortStrings(s []string) { sort.Strings(s) }

// ruleCommentHoles: text the compiler puts between `/*` and `*/` in its output ends the comment wherever it
// contains `*/` itself. Go-derived strings can: a type argument's printed form includes struct tags
// verbatim. So (1) a comment is opened and closed inside one template — never by handing the delimiters
// to another function that pastes unknown text between them — and (2) every string hole inside a comment
// is fed through strings.ReplaceAll(x, "*/", …).
func ruleCommentHoles(c *ctx.Ctx, r *core.Reporter) {
	r.Begin("C01.comment-holes", "F-LINK", "every `/*` the compiler emits is closed in the same string literal, and every non-numeric hole between the delimiters is sanitised with strings.ReplaceAll(…, \"*/\", …)", 4)
	n := 0
	for _, rel := range []string{"compiler", "compiler/internal/typeparams"} {
		p := c.Pkg(rel)
		if p == nil {
			continue
		}
		for _, f := range p.Syntax {
			if c.IsTestFile(f.Pos()) {
				continue
			}
			ast.Inspect(f, func(x ast.Node) bool {
				bl, ok := x.(*ast.BasicLit)
				if !ok || bl.Kind != token.STRING || !strings.Contains(bl.Value, "/*") {
					return true
				}
				v := bl.Value
				// regular expressions and the comment scanner of the minifier are not output
				if strings.Contains(v, `\/\*`) {
					return true
				}
				n++
				opens, closes := strings.Count(v, "/*"), strings.Count(v, "*/")
				r.Check(opens == closes && strings.Index(v, "/*") < strings.LastIndex(v, "*/"), fmt.Sprintf("closed-in-place:%s#%d", rel, n), c.Pos(bl.Pos()), fmt.Sprintf("the literal %s opens %d comment(s) and closes %d: text pasted between delimiters that travel separately cannot be checked for `*/`", v, opens, closes))
				return true
			})
		}
	}
	isSanitised := func(fd *ast.FuncDecl, e ast.Expr) bool {
		pred := func(ce *ast.CallExpr) bool {
			se, ok := ce.Fun.(*ast.SelectorExpr)
			if !ok || se.Sel.Name != "ReplaceAll" || len(ce.Args) != 3 {
				return false
			}
			return exprStr(ce.Args[1]) == `"*/"`
		}
		if ce, ok := ast.Unparen(e).(*ast.CallExpr); ok && pred(ce) {
			return true
		}
		if id, ok := ast.Unparen(e).(*ast.Ident); ok && fd != nil {
			defs := localAssignments(fd, id.Name)
			if len(defs) == 0 {
				return false
			}
			for _, d := range defs {
				ce, ok := ast.Unparen(d.rhs).(*ast.CallExpr)
				if !ok || !pred(ce) {
					return false
				}
			}
			return true
		}
		return false
	}
	m := 0
	for _, t := range usableTemplates(c) {
		for _, mm := range commentHoleRe.FindAllStringSubmatch(t.Text, -1) {
			for _, hm := range holeNumRe.FindAllStringSubmatch(mm[1], -1) {
				var hi int
				fmt.Sscanf(hm[1], "%d", &hi)
				if hi >= len(t.Holes) {
					continue
				}
				h := t.Holes[hi]
				m++
				if h.Verb == 'd' {
					continue
				}
				args := t.FmtArgs()
				ok := false
				if h.Index >= 0 && h.Index < len(args) {
					var fd *ast.FuncDecl
					for _, cand := range c.AllFuncDecls("compiler") {
						if cand.Pos() <= t.Pos && t.Pos < cand.End() {
							fd = cand
						}
					}
					ok = isSanitised(fd, args[h.Index])
				}
				r.Check(ok, fmt.Sprintf("sanitised:%s#%d", t.Func, m), c.Pos(t.Pos), fmt.Sprintf("hole %d of `%s` lies inside a comment and is fed through strings.ReplaceAll(…, \"*/\", …)", hi, t.Text))
			}
		}
	}
	r.Check(n >= 3, "literals", "compiler", fmt.Sprintf("%d literals with comment delimiters, %d holes inside comments examined", n, m))
}

var (
	commentHoleRe = regexp.MustCompile(`/\*(.*?)\*/`)
	holeNumRe     = regexp.MustCompile(`⟨(\d+)⟩`)
)

// ruleOwnMethods: a constructor's `prototype` object inherits from Object.prototype, so
// `T.prototype[name] !== undefined` is true for toString, valueOf, hasOwnProperty, … whether or not the Go
// type has such a method. A presence test keyed by a Go method name has to be an own-property test.
func ruleOwnMethods(c *ctx.Ctx, r *core.Reporter) {
	r.Begin("C09.own-methods", "F-LINK", "every presence test of a computed member of a prototype object in the prelude (is the method already there?) is an own-property test", 1)
	if !needPrelude(c, r) {
		return
	}
	n := 0
	for _, f := range c.PreludeList() {
		f.AST.Walk(func(x *ctx.JSNode) bool {
			// <obj>.prototype[<computed>]
			if !(x.Is("MemberExpression") && x.B("computed") && x.N("object").MemberName() == "prototype") {
				return true
			}
			p := x.Parent
			if p == nil {
				return true
			}
			presence := false
			switch {
			case p.Is("BinaryExpression") && (p.S("operator") == "!==" || p.S("operator") == "===" || p.S("operator") == "!=" || p.S("operator") == "=="):
				o := p.N("left")
				if o == x {
					o = p.N("right")
				}
				presence = o.IdentName() == "undefined" || o.Src() == "null"
			case p.Is("UnaryExpression") && p.S("operator") == "!":
				presence = true
			case p.Is("IfStatement") && p.N("test") == x:
				presence = true
			}
			if !presence {
				return true
			}
			n++
			r.Violation(fmt.Sprintf("own-test:%s#%d", f.Name, n), x.Pos(), fmt.Sprintf("`%s` tests the presence of a member by reading it through the prototype chain: for a Go method named toString / valueOf / hasOwnProperty the answer is always `present` (Object.prototype), so the forwarding method of a promoted method is never installed", squash(p.Src())))
			return true
		})
		f.AST.Walk(func(x *ctx.JSNode) bool {
			// Object.prototype.hasOwnProperty.call(<obj>.prototype, k) / Object.hasOwn(<obj>.prototype, k)
			if x.Is("CallExpression") && len(x.L("arguments")) == 2 && x.L("arguments")[0].MemberName() == "prototype" {
				cal := squash(x.N("callee").Src())
				if cal == "Object.prototype.hasOwnProperty.call" || cal == "Object.hasOwn" {
					n++
					r.Check(true, fmt.Sprintf("own-test:%s#%d", f.Name, n), x.Pos(), "own-property presence test: "+squash(x.Src()))
				}
			}
			return true
		})
	}
	r.Check(n >= 1, "sites", "compiler/prelude/types.js", fmt.Sprintf("%d presence test(s) on prototype objects found (the method synthesizer's was expected)", n))
}

// ruleOwnKeys: an object literal `{}` used as a table inherits Object.prototype, so table["toString"],
// table["valueOf"], table["constructor"] … are "present" before anything was stored. A table whose keys are
// Go names (method names) must be created without a prototype (Object.create(null)) — or the key must
// carry a prefix / be built from type ids, which no inherited member name matches.
func ruleOwnKeys(c *ctx.Ctx, r *core.Reporter) {
	r.Begin("C09.own-keys", "F-LINK", "every table of the prelude that starts as `{}` and is probed with a computed key (`t[k] === undefined`) is keyed by something that cannot be an Object.prototype member name (a type id, a literal prefix), or starts as Object.create(null)", 4)
	if !needPrelude(c, r) {
		return
	}
	n := 0
	for _, f := range c.PreludeList() {
		// tables: name -> created how ("{}" / "null-proto"), per enclosing function (nil = top level)
		type key struct {
			fn   *ctx.JSNode
			name string
		}
		tables := map[key]string{}
		kindOf := func(init *ctx.JSNode) string {
			if init == nil {
				return ""
			}
			if init.Is("LogicalExpression") {
				init = init.N("right")
			}
			if init.Is("ObjectExpression") && len(init.L("properties")) == 0 {
				return "{}"
			}
			if init.Is("CallExpression") && squash(init.N("callee").Src()) == "Object.create" && len(init.L("arguments")) == 1 && init.L("arguments")[0].Src() == "null" {
				return "null-proto"
			}
			return ""
		}
		inits := map[key]*ctx.JSNode{}
		f.AST.Walk(func(x *ctx.JSNode) bool {
			if x.Is("VariableDeclarator") && x.N("id").Is("Identifier") {
				k := key{x.EnclosingFunc(), x.N("id").IdentName()}
				inits[k] = x.N("init")
				if kd := kindOf(x.N("init")); kd != "" {
					tables[k] = kd
				}
			}
			return true
		})
		lookup := func(x *ctx.JSNode, name string) (string, bool) {
			for fn := x.EnclosingFunc(); ; fn = fn.EnclosingFunc() {
				if kd, ok := tables[key{fn, name}]; ok {
					return kd, true
				}
				if fn == nil {
					return "", false
				}
			}
		}
		initOf := func(x *ctx.JSNode, name string) *ctx.JSNode {
			for fn := x.EnclosingFunc(); ; fn = fn.EnclosingFunc() {
				if in, ok := inits[key{fn, name}]; ok {
					return in
				}
				if fn == nil {
					return nil
				}
			}
		}
		safeKey := func(x, k *ctx.JSNode) bool {
			for depth := 0; depth < 3 && k != nil; depth++ {
				src := k.Src()
				if k.MemberName() == "id" || strings.Contains(src, ".id") {
					return true
				}
				if k.Is("BinaryExpression") && k.S("operator") == "+" {
					if _, ok := k.N("left").StrValue(); ok {
						return true
					}
				}
				if _, ok := k.NumValue(); ok {
					return true
				}
				if k.Is("Identifier") {
					k = initOf(x, k.IdentName())
					continue
				}
				break
			}
			return false
		}
		comparedWithUndefined := func(fn *ctx.JSNode, name string) bool {
			found := false
			if fn == nil {
				return false
			}
			fn.Walk(func(y *ctx.JSNode) bool {
				if y.Is("BinaryExpression") && strings.Contains(y.S("operator"), "==") {
					l, rr := y.N("left"), y.N("right")
					if (l.IdentName() == name && rr.IdentName() == "undefined") || (rr.IdentName() == name && l.IdentName() == "undefined") {
						found = true
					}
				}
				return true
			})
			return found
		}
		f.AST.Walk(func(x *ctx.JSNode) bool {
			if !(x.Is("MemberExpression") && x.B("computed") && x.N("object").Is("Identifier")) {
				return true
			}
			kd, ok := lookup(x, x.N("object").IdentName())
			if !ok {
				return true
			}
			p := x.Parent
			presence := false
			switch {
			case p.Is("BinaryExpression") && strings.Contains(p.S("operator"), "=="):
				o := p.N("left")
				if o == x {
					o = p.N("right")
				}
				presence = o.IdentName() == "undefined"
			case p.Is("VariableDeclarator") && p.N("init") == x:
				presence = comparedWithUndefined(x.EnclosingFunc(), p.N("id").IdentName())
			case p.Is("AssignmentExpression") && p.N("right") == x && p.N("left").Is("Identifier"):
				presence = comparedWithUndefined(x.EnclosingFunc(), p.N("left").IdentName())
			case p.Is("UnaryExpression") && p.S("operator") == "!", p.Is("IfStatement") && p.N("test") == x:
				presence = true
			}
			if !presence {
				return true
			}
			n++
			good := kd == "null-proto" || safeKey(x, x.N("property"))
			r.Check(good, fmt.Sprintf("own-key:%s:%s[%s]", strings.TrimPrefix(f.Name, "compiler/prelude/"), x.N("object").IdentName(), squash(x.N("property").Src())), x.Pos(), fmt.Sprintf("`%s` probes a table created as %s with the key `%s`%s", squash(x.Src()), kd, squash(x.N("property").Src()), ternary(good, "", ": a Go method named toString, valueOf, hasOwnProperty, constructor… finds Object.prototype's member there")))
			return true
		})
	}
	r.Check(n >= 4, "sites", "compiler/prelude", fmt.Sprintf("%d probes of `{}`-tables with computed keys examined", n))
}

// ruleOnceOperands: formatExpr translates every `%e`-class operand where it appears. One Go expression
// handed over twice (as two arguments) is therefore evaluated twice in the output; the hoisting of
// formatExprInternal only sees an operand used through an indexed verb (`%1e … %1e`).
func ruleOnceOperands(c *ctx.Ctx, r *core.Reporter) {
	r.Begin("C01.once-operands", "F-MUST", "no template receives the same Go expression through two different expression holes (it would be evaluated twice: calls, receives); repeated uses go through one indexed argument, which formatExprInternal hoists", 100)
	info := c.Pkg("compiler").TypesInfo
	n := 0
	for _, t := range usableTemplates(c) {
		if t.Call == nil || (t.Sink != "formatExpr" && t.Sink != "formatParenExpr") {
			continue
		}
		args := t.FmtArgs()
		seen := map[string]int{}
		dup := ""
		exprHoles := 0
		used := map[int]bool{}
		for _, h := range t.Holes {
			switch h.Verb {
			case 'e', 'f', 'h', 'l', 'r':
			default:
				continue
			}
			if h.Index < 0 || h.Index >= len(args) || used[h.Index] {
				continue
			}
			used[h.Index] = true
			a := args[h.Index]
			// only ast.Expr-typed arguments are translated (strings are spliced)
			if tv, ok := info.Types[a]; !ok || !strings.Contains(tv.Type.String(), "ast.") {
				continue
			}
			exprHoles++
			s := exprStr(a)
			if prev, ok := seen[s]; ok && prev != h.Index {
				dup = s
			}
			seen[s] = h.Index
		}
		if exprHoles == 0 {
			continue
		}
		n++
		r.Check(dup == "", "once:"+t.Key(), c.Pos(t.Pos), ternary(dup == "", "every Go operand of `"+t.Text+"` is handed over once", "`"+t.Text+"` receives the Go expression `"+dup+"` as two separate arguments: it is translated, and so evaluated, twice (len(f()) calls f twice) — use one indexed argument (%1e … %1e), which is hoisted into a temporary"))
	}
	r.Check(n >= 100, "templates", "compiler", fmt.Sprintf("%d expression templates examined", n))
}

// rulePromotePtr: the forwarding method synthesized for a method promoted from an embedded field calls the
// method on the field. A method in the POINTER method set of the field type that is not in its value method
// set (a pointer-receiver method) lives on the pointer type's prototype; for a struct field the field
// object doubles as its pointer, for any other kind (named int, slice, map, func…) a pointer object to
// the field has to be made first. The two loops of the synthesizer therefore cannot forward the same way.
func rulePromotePtr(c *ctx.Ctx, r *core.Reporter) {
	r.Begin("C09.promote-ptr", "F-SIB", "the method synthesizer forwards the methods of $methodSet($ptrType(f.typ)) through a pointer to the field (a $ptrType(f.typ) object) and says so to the forwarding function; the value-method loop does not", 2)
	if !needPrelude(c, r) {
		return
	}
	nt := c.PreludeFunc("$newType")
	if nt == nil {
		r.Undecided("$newType", "compiler/prelude/types.js", "not found")
		return
	}
	arm := switchArmsByDiscriminant(nt, "kind")["$kindStruct"]
	if arm == nil {
		r.Undecided("$newType:$kindStruct", nt.Pos(), "arm not found")
		return
	}
	// forEach callbacks over $methodSet(X): classify X
	type loop struct {
		viaPtr bool
		calls  []*ctx.JSNode
		node   *ctx.JSNode
	}
	var loops []loop
	for _, st := range arm.L("consequent") {
		st.Walk(func(x *ctx.JSNode) bool {
			if !(x.Is("CallExpression") && x.N("callee").MemberName() == "forEach") {
				return true
			}
			src := x.N("callee").N("object")
			if !(src.Is("CallExpression") && src.N("callee").IdentName() == "$methodSet" && len(src.L("arguments")) == 1) {
				return true
			}
			a := src.L("arguments")[0]
			lp := loop{node: x}
			if a.Is("CallExpression") && a.N("callee").IdentName() == "$ptrType" {
				lp.viaPtr = true
			}
			if len(x.L("arguments")) == 1 {
				x.L("arguments")[0].Walk(func(y *ctx.JSNode) bool {
					if y.Is("CallExpression") && y.N("callee").Is("Identifier") && y != x {
						lp.calls = append(lp.calls, y)
					}
					return true
				})
			}
			loops = append(loops, lp)
			return true
		})
	}
	var val, ptr *loop
	for i := range loops {
		if loops[i].viaPtr {
			ptr = &loops[i]
		} else {
			val = &loops[i]
		}
	}
	if val == nil || ptr == nil || len(val.calls) == 0 || len(ptr.calls) == 0 {
		r.Undecided("loops", arm.Pos(), "the two forEach loops over $methodSet(f.typ) and $methodSet($ptrType(f.typ)) were not both found")
		return
	}
	sig := func(cs []*ctx.JSNode) string {
		var out []string
		for _, x := range cs {
			out = append(out, fmt.Sprintf("%s/%d", x.N("callee").IdentName(), len(x.L("arguments"))))
		}
		return strings.Join(out, " ")
	}
	differs := true
	for _, pc := range ptr.calls {
		for _, vc := range val.calls {
			if pc.N("callee").IdentName() == vc.N("callee").IdentName() && len(pc.L("arguments")) == len(vc.L("arguments")) {
				differs = false
			}
		}
	}
	r.Check(differs, "ptr-loop-says-so", ptr.node.Pos(), fmt.Sprintf("the loop over the pointer method set forwards differently from the value loop (value loop: %s; pointer loop: %s): with the same forwarding function and arguments a pointer-receiver method of an embedded named non-struct type is looked up on the value (`v[m.prop] is not a function`)", sig(val.calls), sig(ptr.calls)))
	// the forwarding function can make a pointer to the field
	makes := false
	for _, st := range arm.L("consequent") {
		st.Walk(func(x *ctx.JSNode) bool {
			if x.Is("NewExpression") && strings.Contains(squash(x.N("callee").Src()), "$ptrType(") {
				makes = true
			}
			return true
		})
	}
	r.Check(makes, "forwarder-makes-field-pointer", arm.Pos(), "the synthesizer constructs a `new ($ptrType(f.typ))(…)` pointer to the embedded field for pointer-receiver methods of non-struct field types")
}

// ruleCompoundAssign: `x op= y` means `x = x op (y)` — y is evaluated as a whole. filter.Assign builds the
// binary expression from syntax, and the translator prints operands by the syntax tree it is given, so
// the right operand has to be wrapped in parentheses (`h *= a + b` would become `h * a + b`).
func ruleCompoundAssign(c *ctx.Ctx, r *core.Reporter) {
	r.Begin("C01.compound-assign", "F-MUST", "filter.Assign rewrites `x op= y` to `x = x op (y)` with the right operand wrapped in an *ast.ParenExpr (typed like y)", 1)
	fd := c.FuncDecl("compiler/filter", "Assign")
	if fd == nil {
		r.Undecided("filter.Assign", "compiler/filter/assign.go", "not found")
		return
	}
	n, good := 0, 0
	ast.Inspect(fd.Body, func(x ast.Node) bool {
		cl, ok := x.(*ast.CompositeLit)
		if !ok || exprStr(cl.Type) != "ast.BinaryExpr" {
			return true
		}
		n++
		for _, el := range cl.Elts {
			kv, ok := el.(*ast.KeyValueExpr)
			if !ok || exprStr(kv.Key) != "Y" {
				continue
			}
			if len(findGoPattern(kv.Value, `&ast.ParenExpr{X: µs.Rhs[0]}`)) == 1 {
				good++
			}
		}
		return true
	})
	r.Check(n >= 1 && good == n, "rhs-parenthesised", c.Pos(fd.Pos()), fmt.Sprintf("%d of %d binary expressions built by filter.Assign take `&ast.ParenExpr{X: s.Rhs[0]}` as their right operand", good, n))
}

// ruleC04SelectionIndex: the concrete selection built for `x.M` with x of type-parameter type names the
// receiver, the index path through embedded fields, and the object. After substitution the path belongs to
// the INSTANTIATED receiver (a struct that gets M by embedding has a longer path than the type parameter,
// whose methods are all at depth 0): index and object are the two results of one LookupFieldOrMethod call
// on the very receiver the selection is built with.
func ruleC04SelectionIndex(c *ctx.Ctx, r *core.Reporter) {
	r.Begin("C04.selection", "F-KEY", "Resolver.SubstituteSelection builds the concrete selection from the receiver it looked the member up on, with the index path and the object of that one lookup", 1)
	fd := c.FuncDecl("compiler/internal/typeparams", "Resolver.SubstituteSelection")
	if fd == nil {
		r.Undecided("SubstituteSelection", "compiler/internal/typeparams/resolver.go", "not found")
		return
	}
	n := 0
	ast.Inspect(fd.Body, func(x ast.Node) bool {
		ce, ok := x.(*ast.CallExpr)
		if !ok || len(ce.Args) != 5 {
			return true
		}
		se, ok := ce.Fun.(*ast.SelectorExpr)
		if !ok || se.Sel.Name != "NewSelection" {
			return true
		}
		// only the calls that follow a lookup on a substituted receiver (the method arms)
		recv, idx, obj := exprStr(ce.Args[1]), exprStr(ce.Args[2]), exprStr(ce.Args[3])
		if _, isIdent := ce.Args[3].(*ast.Ident); !isIdent {
			return true
		}
		lookups := findGoPattern(fd.Body, `µo, µi, µ_ := types.LookupFieldOrMethod(µr, µa, µp, µn)`)
		lookups = append(lookups, findGoPattern(fd.Body, `µo, µi, µ_ = types.LookupFieldOrMethod(µr, µa, µp, µn)`)...)
		hasObjLookup := false
		good := false
		for _, m := range lookups {
			if m.Env["µo"] == obj {
				hasObjLookup = true
				if m.Env["µi"] == idx && m.Env["µr"] == recv && m.Node.Pos() < ce.Pos() {
					good = true
				}
			}
		}
		// lookups that discard the index (`obj, _, _ :=`) still bind the object
		for _, m := range findGoPattern(fd.Body, `µo, _, µ_ := types.LookupFieldOrMethod(µr, µa, µp, µn)`) {
			if m.Env["µo"] == obj {
				hasObjLookup = true
			}
		}
		if !hasObjLookup {
			return true
		}
		n++
		r.Check(good, fmt.Sprintf("selection:index-from-lookup#%d", n), c.Pos(ce.Pos()), fmt.Sprintf("NewSelection(…, %s, %s, %s, …): receiver, index path and object are the operand and the results of one types.LookupFieldOrMethod call (the generic selection's own path is wrong as soon as the type argument gets the method by embedding)", recv, idx, obj))
		return true
	})
	r.Check(n >= 1, "sites", c.Pos(fd.Pos()), fmt.Sprintf("%d selection(s) built after a lookup on the instantiated receiver", n))
}

// ruleC05NestedReplacements: the DCE filter of a declaration nested in a generic context mentions the
// type parameters of the enclosing context as well (a method `func (l *List[K]) link(nd *node[K])` names
// node[K]); pushGenerics therefore starts the replacement table of the inner object from the outer one.
func ruleC05NestedReplacements(c *ctx.Ctx, r *core.Reporter) {
	r.Begin("C05.replacements", "F-MUST", "filterGen.pushGenerics seeds the new type-parameter replacement table with every entry of the previous one, and restores the previous table afterwards", 2)
	fd := c.FuncDecl("compiler/internal/dce", "filterGen.pushGenerics")
	if fd == nil {
		r.Undecided("pushGenerics", "compiler/internal/dce/filters.go", "not found")
		return
	}
	inherit := hasGoPattern(fd.Body, `µold := µg.replacement; µg.replacement = map[types.Type]types.Type{}; for µk, µv := range µold { µg.replacement[µk] = µv }`)
	r.Check(inherit, "inherits-outer", c.Pos(fd.Pos()), "the fresh table receives all entries of the table in force (outer type parameters stay substituted inside the nested object: otherwise the declaration's filter reads `node[any]` where the use site recorded `node[int]`, and the declaration is eliminated)")
	restore := false
	ast.Inspect(fd.Body, func(x ast.Node) bool {
		if fl, ok := x.(*ast.FuncLit); ok && hasGoPattern(fl.Body, `µg.replacement = µold`) {
			restore = true
		}
		return true
	})
	r.Check(restore, "restores-outer", c.Pos(fd.Pos()), "the returned function puts the previous table back")
}

// ruleC02EscapingScope: translateFunctionBody saves pkgCtx.escapingVars, lets the body extend it (variables
// that must live in a box because a closure or a pointer outlives a suspension), and restores it for the
// enclosing function. Every piece of code the function emits — the epilogue of the defer wrapper
// (`return <named results>`) included — has to be translated while the extended set is in force, or it
// names the box where it means the value.
func ruleC02EscapingScope(c *ctx.Ctx, r *core.Reporter) {
	r.Begin("C02.escaping-scope", "F-PAIR", "in every function that saves and restores pkgCtx.escapingVars, no translation call (translate*, objectName, formatExpr, zeroValue) follows the restore", 1)
	n := 0
	for _, fd := range c.AllFuncDecls("compiler") {
		if fd.Body == nil || c.IsTestFile(fd.Pos()) {
			continue
		}
		saves := findGoPattern(fd.Body, `µp := µfc.pkgCtx.escapingVars`)
		if len(saves) == 0 {
			continue
		}
		for _, sv := range saves {
			saved := sv.Env["µp"]
			var restore ast.Node
			deferred := false
			ast.Inspect(fd.Body, func(x ast.Node) bool {
				switch s := x.(type) {
				case *ast.DeferStmt:
					if hasGoPattern(s, `µfc.pkgCtx.escapingVars = `+saved) {
						deferred = true
					}
				case *ast.AssignStmt:
					if len(s.Lhs) == 1 && len(s.Rhs) == 1 && strings.HasSuffix(exprStr(s.Lhs[0]), ".escapingVars") && exprStr(s.Rhs[0]) == saved {
						restore = s
					}
				}
				return true
			})
			n++
			key := "restore-after-last-translation:" + ctx.FuncName(fd)
			if deferred {
				r.Check(true, key, c.Pos(fd.Pos()), "restored by a deferred statement")
				continue
			}
			if restore == nil {
				r.Violation(key, c.Pos(sv.Node.Pos()), "escapingVars is saved in `"+saved+"` but never restored")
				continue
			}
			late := ""
			ast.Inspect(fd.Body, func(x ast.Node) bool {
				ce, ok := x.(*ast.CallExpr)
				if !ok || ce.Pos() < restore.End() {
					return true
				}
				if se, ok := ce.Fun.(*ast.SelectorExpr); ok {
					nm := se.Sel.Name
					if strings.HasPrefix(nm, "translate") || nm == "objectName" || nm == "formatExpr" || nm == "formatParenExpr" || nm == "zeroValue" || nm == "varPtrName" {
						if late == "" {
							late = exprStr(ce.Fun) + " at " + c.Pos(ce.Pos())
						}
					}
				}
				return true
			})
			r.Check(late == "", key, c.Pos(restore.Pos()), ternary(late == "", "nothing is translated after `"+nodeString(c, restore)+"`", "`"+nodeString(c, restore)+"` is followed by "+late+": code translated there (the `return <named results>` of the defer epilogue) no longer sees which variables are boxed and names the box instead of the value"))
		}
	}
	r.Check(n >= 1, "sites", "compiler/functions.go", fmt.Sprintf("%d save/restore pair(s) of escapingVars", n))
}

// ruleC06RemZero: JavaScript's % takes the sign of the dividend, zero included: -4 % 2 is -0. An integer has
// no negative zero (println shows it, 1/float64(r) is -Inf), so the remainder of the small integer kinds
// is coerced like every other arithmetic result — after the NaN test that detects division by zero,
// which a coercion would hide.
func ruleC06RemZero(c *ctx.Ctx, r *core.Reporter) {
	r.Begin("C06.rem-zero", "F-MUST", "the non-64-bit integer remainder tests its raw result for NaN (division by zero) and yields the result through fixNumber (no -0)", 1)
	n := 0
	for _, t := range usableTemplates(c) {
		if t.Func != "funcContext.translateExpr" || !strings.Contains(strings.Join(t.CasePath, "/"), "token.REM") || !strings.Contains(t.Text, " % ") {
			continue
		}
		n++
		q := strings.Index(t.Text, "?")
		colon := strings.LastIndex(t.Text, ": $throwRuntimeError")
		nanFirst := q > 0 && strings.Contains(t.Text[:q], "===")
		ok := false
		why := "no conditional"
		if q > 0 && colon > q {
			branch := strings.TrimSpace(t.Text[q+1 : colon])
			why = "the success branch is `" + branch + "`"
			if strings.Contains(branch, ">> 0") || strings.Contains(branch, ">>> 0") || strings.Contains(branch, "| 0") || strings.Contains(branch, "+ 0") {
				ok = true
			}
			if m := holeNumRe.FindStringSubmatch(branch); m != nil && branch == m[0] {
				var hi int
				fmt.Sscanf(m[1], "%d", &hi)
				args := t.FmtArgs()
				if hi < len(t.Holes) && t.Holes[hi].Index >= 0 && t.Holes[hi].Index < len(args) {
					a := args[t.Holes[hi].Index]
					if ce, isCall := ast.Unparen(a).(*ast.CallExpr); isCall {
						if se, isSel := ce.Fun.(*ast.SelectorExpr); isSel && se.Sel.Name == "fixNumber" {
							ok = true
						}
					}
					why += ", fed by `" + exprStr(a) + "`"
				}
			}
		}
		r.Check(nanFirst && ok, fmt.Sprintf("rem:coerced-after-nan-test#%d", n), c.Pos(t.Pos), fmt.Sprintf("`%s`: the raw remainder is compared with itself first and then coerced (%s)", t.Text, why))
	}
	r.Check(n >= 1, "sites", "compiler/expressions.go", fmt.Sprintf("%d remainder template(s)", n))
}

// ruleSliceHeaderPreserved: a conversion between slice types keeps the slice header: same backing array,
// offset, length AND capacity. A header rebuilt from $array alone has the capacity of the whole array;
// append then writes into elements the three-index slice had fenced off.
func ruleSliceHeaderPreserved(c *ctx.Ctx, r *core.Reporter) {
	r.Begin("C07.slice-header", "F-KEY", "$convertSliceType derives every field of the new header from the corresponding field of the operand: $offset, $length and $capacity", 1)
	if !needPrelude(c, r) {
		return
	}
	fn := c.PreludeFunc("$convertSliceType")
	if fn == nil {
		r.Undecided("$convertSliceType", "compiler/prelude/prelude.js", "not found")
		return
	}
	param := ""
	if ps := fn.L("params"); len(ps) > 0 {
		param = ps[0].IdentName()
	}
	reads := map[string]bool{}
	fn.Walk(func(x *ctx.JSNode) bool {
		if x.Is("MemberExpression") && x.N("object").IdentName() == param {
			reads[x.MemberName()] = true
		}
		return true
	})
	var missing []string
	for _, f := range []string{"$array", "$offset", "$length", "$capacity"} {
		if !reads[f] {
			missing = append(missing, f)
		}
	}
	// a $subslice call without a max argument takes the capacity of its first argument
	short := ""
	fn.Walk(func(x *ctx.JSNode) bool {
		if x.Is("CallExpression") && x.N("callee").IdentName() == "$subslice" && len(x.L("arguments")) < 4 {
			if a := x.L("arguments")[0]; a.Is("NewExpression") {
				short = squash(x.Src())
			}
		}
		return true
	})
	r.Check(len(missing) == 0 && short == "", "convert:header-fields", fn.Pos(), fmt.Sprintf("the converted slice takes $array, $offset, $length and $capacity from `%s`%s%s", param, ternary(len(missing) > 0, fmt.Sprintf(" (never reads %v)", missing), ""), ternary(short != "", " (`"+short+"` leaves the capacity to the freshly built header, i.e. the whole backing array: S(a[0:2:2]) has capacity 4 and append overwrites a[2])", "")))
}

// --- C13.signbit ---------------------------------------------------------------------------------------
// math.Signbit and math.Copysign are overridden with float arithmetic (no bit access). Whether the test
// they make is right can be decided on the seven sign classes of a float64, because the overlay only
// compares with 0 and ±Inf and takes reciprocals, and all members of a class behave alike under those
// operations: -Inf, negative finite, -0, +0, positive finite, +Inf (NaN is excluded: its sign is not
// observable through arithmetic; recorded as an observation in DESIGN.md).

type fval struct {
	f  float64
	b  bool
	is byte // 'f' or 'b'
}

func evalGoFloat(e ast.Expr, env map[string]float64, funcs map[string]*ast.FuncDecl, depth int) (fval, bool) {
	if depth > 6 {
		return fval{}, false
	}
	switch x := e.(type) {
	case *ast.ParenExpr:
		return evalGoFloat(x.X, env, funcs, depth)
	case *ast.BasicLit:
		var f float64
		if _, err := fmt.Sscanf(x.Value, "%g", &f); err != nil {
			return fval{}, false
		}
		return fval{f: f, is: 'f'}, true
	case *ast.Ident:
		if v, ok := env[x.Name]; ok {
			return fval{f: v, is: 'f'}, true
		}
		switch x.Name {
		case "true":
			return fval{b: true, is: 'b'}, true
		case "false":
			return fval{b: false, is: 'b'}, true
		}
		return fval{}, false
	case *ast.UnaryExpr:
		v, ok := evalGoFloat(x.X, env, funcs, depth)
		if !ok {
			return fval{}, false
		}
		switch {
		case x.Op == token.NOT && v.is == 'b':
			return fval{b: !v.b, is: 'b'}, true
		case x.Op == token.SUB && v.is == 'f':
			return fval{f: -v.f, is: 'f'}, true
		}
		return fval{}, false
	case *ast.BinaryExpr:
		l, ok1 := evalGoFloat(x.X, env, funcs, depth)
		rr, ok2 := evalGoFloat(x.Y, env, funcs, depth)
		if !ok1 || !ok2 || l.is != rr.is {
			return fval{}, false
		}
		if l.is == 'b' {
			switch x.Op {
			case token.LOR:
				return fval{b: l.b || rr.b, is: 'b'}, true
			case token.LAND:
				return fval{b: l.b && rr.b, is: 'b'}, true
			case token.EQL:
				return fval{b: l.b == rr.b, is: 'b'}, true
			case token.NEQ:
				return fval{b: l.b != rr.b, is: 'b'}, true
			}
			return fval{}, false
		}
		switch x.Op {
		case token.LSS:
			return fval{b: l.f < rr.f, is: 'b'}, true
		case token.LEQ:
			return fval{b: l.f <= rr.f, is: 'b'}, true
		case token.GTR:
			return fval{b: l.f > rr.f, is: 'b'}, true
		case token.GEQ:
			return fval{b: l.f >= rr.f, is: 'b'}, true
		case token.EQL:
			return fval{b: l.f == rr.f, is: 'b'}, true
		case token.NEQ:
			return fval{b: l.f != rr.f, is: 'b'}, true
		case token.QUO:
			return fval{f: l.f / rr.f, is: 'f'}, true
		case token.MUL:
			return fval{f: l.f * rr.f, is: 'f'}, true
		case token.ADD:
			return fval{f: l.f + rr.f, is: 'f'}, true
		case token.SUB:
			return fval{f: l.f - rr.f, is: 'f'}, true
		}
		return fval{}, false
	case *ast.CallExpr:
		id, ok := x.Fun.(*ast.Ident)
		if !ok {
			return fval{}, false
		}
		fd := funcs[id.Name]
		if fd == nil || fd.Body == nil {
			return fval{}, false
		}
		env2 := map[string]float64{}
		for k, v := range env {
			if k == "negInf" || k == "posInf" {
				env2[k] = v
			}
		}
		i := 0
		for _, p := range fd.Type.Params.List {
			for _, nm := range p.Names {
				if i >= len(x.Args) {
					return fval{}, false
				}
				a, ok := evalGoFloat(x.Args[i], env, funcs, depth+1)
				if !ok || a.is != 'f' {
					return fval{}, false
				}
				env2[nm.Name] = a.f
				i++
			}
		}
		return evalGoFloatBody(fd.Body.List, env2, funcs, depth+1)
	}
	return fval{}, false
}

// evalGoFloatBody runs a straight-line body of `if cond { return e }` and `return e` statements.
func evalGoFloatBody(list []ast.Stmt, env map[string]float64, funcs map[string]*ast.FuncDecl, depth int) (fval, bool) {
	for _, st := range list {
		switch s := st.(type) {
		case *ast.ReturnStmt:
			if len(s.Results) != 1 {
				return fval{}, false
			}
			return evalGoFloat(s.Results[0], env, funcs, depth)
		case *ast.IfStmt:
			if s.Init != nil {
				return fval{}, false
			}
			c, ok := evalGoFloat(s.Cond, env, funcs, depth)
			if !ok || c.is != 'b' {
				return fval{}, false
			}
			if c.b {
				if v, ok := evalGoFloatBody(s.Body.List, env, funcs, depth); ok {
					return v, true
				}
				return fval{}, false
			} else if s.Else != nil {
				if blk, isBlk := s.Else.(*ast.BlockStmt); isBlk {
					if v, ok := evalGoFloatBody(blk.List, env, funcs, depth); ok {
						return v, true
					}
				}
				return fval{}, false
			}
		default:
			return fval{}, false
		}
	}
	return fval{}, false
}

func ruleC13Signbit(c *ctx.Ctx, r *core.Reporter) {
	r.Begin("C13.signbit", "F-CLASS", "the math.Signbit and math.Copysign overlays give the IEEE answer on every sign class of their operands (-Inf, negative, -0, +0, positive, +Inf)", 12)
	nat := c.Natives()
	funcs := map[string]*ast.FuncDecl{}
	for _, f := range nat.PkgFiles("math") {
		if f.Test {
			continue
		}
		for _, d := range f.AST.Decls {
			if x, ok := d.(*ast.FuncDecl); ok && x.Recv == nil {
				funcs[x.Name.Name] = x
			}
		}
	}
	negZero := math.Copysign(0, -1)
	classes := []struct {
		name string
		v    float64
		neg  bool
	}{{"-Inf", math.Inf(-1), true}, {"-1.5", -1.5, true}, {"-0", negZero, true}, {"+0", 0, false}, {"2.5", 2.5, false}, {"+Inf", math.Inf(1), false}}
	base := map[string]float64{"negInf": math.Inf(-1), "posInf": math.Inf(1)}
	if sb := funcs["Signbit"]; sb == nil || sb.Body == nil {
		r.Info("signbit", nativesRootRel+"/math", "math.Signbit is not overridden")
	} else {
		p := sb.Type.Params.List[0].Names[0].Name
		for _, cl := range classes {
			env := map[string]float64{p: cl.v}
			for k, v := range base {
				env[k] = v
			}
			got, ok := evalGoFloatBody(sb.Body.List, env, funcs, 0)
			key := "signbit@" + cl.name
			if !ok || got.is != 'b' {
				r.Undecided(key, nat.Pos(c, sb.Pos()), "the body of Signbit is outside the expression language of the evaluator (comparisons, arithmetic, calls of overlay functions made of if/return)")
				continue
			}
			r.Check(got.b == cl.neg, key, nat.Pos(c, sb.Pos()), fmt.Sprintf("Signbit(%s) evaluates to %v (IEEE sign bit: %v)", cl.name, got.b, cl.neg))
		}
	}
	if cs := funcs["Copysign"]; cs == nil || cs.Body == nil {
		r.Info("copysign", nativesRootRel+"/math", "math.Copysign is not overridden")
	} else {
		var ps []string
		for _, f := range cs.Type.Params.List {
			for _, nm := range f.Names {
				ps = append(ps, nm.Name)
			}
		}
		if len(ps) != 2 {
			r.Undecided("copysign", nat.Pos(c, cs.Pos()), "unexpected parameter list")
			return
		}
		for _, a := range classes {
			bad := ""
			undecided := false
			for _, b := range classes {
				env := map[string]float64{ps[0]: a.v, ps[1]: b.v}
				for k, v := range base {
					env[k] = v
				}
				got, ok := evalGoFloatBody(cs.Body.List, env, funcs, 0)
				if !ok || got.is != 'f' {
					undecided = true
					break
				}
				if math.Signbit(got.f) != b.neg || math.Abs(got.f) != math.Abs(a.v) {
					bad += fmt.Sprintf(" Copysign(%s, %s) = %v;", a.name, b.name, got.f)
				}
			}
			key := "copysign@" + a.name
			if undecided {
				r.Undecided(key, nat.Pos(c, cs.Pos()), "the body of Copysign is outside the expression language of the evaluator")
				continue
			}
			r.Check(bad == "", key, nat.Pos(c, cs.Pos()), "Copysign("+a.name+", y) has the magnitude of x and the sign of y for y in every sign class"+ternary(bad != "", " — wrong:"+bad, ""))
		}
	}
}

// ruleC11ParseFloat: a JavaScript number handed to Go as a float is that number. $parseFloat must return a
// Number operand itself: the string round trip of the host parseFloat loses the sign of zero
// (parseFloat(String(-0)) is 0).
func ruleC11ParseFloat(c *ctx.Ctx, r *core.Reporter) {
	r.Begin("C11.parse-float", "F-MUST", "$parseFloat returns its operand unchanged when it is a Number, before anything converts it to a string", 1)
	if !needPrelude(c, r) {
		return
	}
	decl := c.PreludeDecls()["$parseFloat"]
	if len(decl) == 0 {
		r.Undecided("$parseFloat", "compiler/prelude/numeric.js", "not declared")
		return
	}
	fn := c.PreludeFunc("$parseFloat")
	if fn == nil || !fn.IsFunc() {
		r.Violation("number-passes-through", "compiler/prelude/numeric.js", "$parseFloat is not a function of its own (an alias of the host parseFloat converts its operand to a string first: -0 comes back as +0)")
		return
	}
	param := ""
	if ps := fn.L("params"); len(ps) > 0 {
		param = ps[0].IdentName()
	}
	ok := false
	fn.Walk(func(x *ctx.JSNode) bool {
		if !x.Is("IfStatement") {
			return true
		}
		t := squash(x.N("test").Src())
		isNumTest := strings.Contains(t, param+".constructor===Number") || strings.Contains(t, "typeof "+param+"===\"number\"") || strings.Contains(t, "typeof"+param+"===\"number\"")
		if !isNumTest {
			return true
		}
		x.N("consequent").Walk(func(y *ctx.JSNode) bool {
			if y.Is("ReturnStatement") && y.N("argument").IdentName() == param {
				ok = true
			}
			return true
		})
		return true
	})
	r.Check(ok, "number-passes-through", fn.Pos(), "under a test that the operand is a Number, $parseFloat returns the operand itself")
}

// ruleC12ObjectResolution: pruneImports decides that an identifier refers to an import by `Obj == nil`
// (an unresolved name). That is only meaningful for files parsed WITH object resolution: every file the
// build package parses for augmentation must not be parsed with parser.SkipObjectResolution.
func ruleC12ObjectResolution(c *ctx.Ctx, r *core.Reporter) {
	r.Begin("C12.object-resolution", "F-PAIR", "package build reads ast.Ident.Obj (pruneImports); none of its parser.ParseFile calls sets parser.SkipObjectResolution", 2)
	p := c.Pkg("build")
	if p == nil {
		r.Undecided("pkg", "build", "not loaded")
		return
	}
	info := p.TypesInfo
	readsObj := token.NoPos
	for _, fd := range c.AllFuncDecls("build") {
		if fd.Body == nil || c.IsTestFile(fd.Pos()) {
			continue
		}
		ast.Inspect(fd.Body, func(x ast.Node) bool {
			if se, ok := x.(*ast.SelectorExpr); ok && se.Sel.Name == "Obj" {
				if tv, ok := info.Types[se.X]; ok && strings.HasSuffix(tv.Type.String(), "ast.Ident") && readsObj == token.NoPos {
					readsObj = se.Pos()
				}
			}
			return true
		})
	}
	if readsObj == token.NoPos {
		r.Info("reads-obj", "build", "package build no longer reads ast.Ident.Obj: the parse mode is free")
		return
	}
	var skipBit int64 = -1
	for _, imp := range p.Imports {
		if imp.PkgPath == "go/parser" && imp.Types != nil {
			if o, ok := imp.Types.Scope().Lookup("SkipObjectResolution").(*types.Const); ok {
				if v, exact := constantInt64(o); exact {
					skipBit = v
				}
			}
		}
	}
	if skipBit < 0 {
		r.Undecided("skip-bit", "go/parser", "parser.SkipObjectResolution not found")
		return
	}
	n := 0
	for _, fd := range c.AllFuncDecls("build") {
		if fd.Body == nil || c.IsTestFile(fd.Pos()) {
			continue
		}
		ast.Inspect(fd.Body, func(x ast.Node) bool {
			ce, ok := x.(*ast.CallExpr)
			if !ok || len(ce.Args) != 4 {
				return true
			}
			se, ok := ce.Fun.(*ast.SelectorExpr)
			if !ok || se.Sel.Name != "ParseFile" || exprStr(se.X) != "parser" {
				return true
			}
			n++
			tv := info.Types[ce.Args[3]]
			key := fmt.Sprintf("parse-mode:%s#%d", ctx.FuncName(fd), n)
			if tv.Value == nil {
				r.Undecided(key, c.Pos(ce.Pos()), "the parse mode `"+exprStr(ce.Args[3])+"` is not a constant")
				return true
			}
			mode, _ := constantValueInt64(tv.Value)
			r.Check(mode&skipBit == 0, key, c.Pos(ce.Pos()), fmt.Sprintf("parser.ParseFile(…, %s) (mode %d) resolves objects; %s relies on Ident.Obj == nil meaning `refers to an import`", exprStr(ce.Args[3]), mode, c.Pos(readsObj)))
			return true
		})
	}
	r.Check(n >= 2, "sites", "build/build.go", fmt.Sprintf("%d parser.ParseFile call(s) in package build", n))
}

// ruleC20PrepareNoAlias: prepareFile returns "a modified copy" — a shallow copy of the *ast.File whose slices
// still share their backing arrays with the original. Filtering such a slice in place (x := f.Comments[:0];
// append(x, …)) rewrites the original file, which the build that fills the cache goes on to compile.
func ruleC20PrepareNoAlias(c *ctx.Ctx, r *core.Reporter) {
	r.Begin("C20.prepare-no-alias", "F-WHO", "prepareFile never appends to (or stores through an index of) a slice that was obtained by slicing a field of its argument", 1)
	fd := c.FuncDecl("compiler/sources", "prepareFile")
	if fd == nil {
		r.Undecided("prepareFile", "compiler/sources/serializer.go", "not found")
		return
	}
	param := ""
	if len(fd.Type.Params.List) > 0 && len(fd.Type.Params.List[0].Names) > 0 {
		param = fd.Type.Params.List[0].Names[0].Name
	}
	// locals that alias a field's backing array: v := <param>.<F>[…]  or  v := <param>.<F>
	alias := map[string]string{}
	ast.Inspect(fd.Body, func(x ast.Node) bool {
		as, ok := x.(*ast.AssignStmt)
		if !ok {
			return true
		}
		for i, l := range as.Lhs {
			id, ok := l.(*ast.Ident)
			if !ok || i >= len(as.Rhs) {
				continue
			}
			rhs := ast.Unparen(as.Rhs[i])
			if sl, ok := rhs.(*ast.SliceExpr); ok {
				rhs = ast.Unparen(sl.X)
			} else if _, isSel := rhs.(*ast.SelectorExpr); !isSel {
				continue
			}
			if se, ok := rhs.(*ast.SelectorExpr); ok && exprStr(se.X) == param {
				if tv, ok := c.Pkg("compiler/sources").TypesInfo.Types[se]; ok {
					if _, isSlice := tv.Type.Underlying().(*types.Slice); isSlice {
						alias[id.Name] = exprStr(as.Rhs[i])
					}
				}
			}
		}
		return true
	})
	bad := ""
	ast.Inspect(fd.Body, func(x ast.Node) bool {
		switch s := x.(type) {
		case *ast.CallExpr:
			if id, ok := s.Fun.(*ast.Ident); ok && id.Name == "append" && len(s.Args) > 0 {
				if a, ok := ast.Unparen(s.Args[0]).(*ast.Ident); ok && alias[a.Name] != "" {
					bad = "append(" + a.Name + ", …) with " + a.Name + " := " + alias[a.Name]
				}
				if sl, ok := ast.Unparen(s.Args[0]).(*ast.SliceExpr); ok {
					if se, ok := ast.Unparen(sl.X).(*ast.SelectorExpr); ok && exprStr(se.X) == param {
						bad = "append(" + exprStr(s.Args[0]) + ", …)"
					}
				}
			}
		case *ast.AssignStmt:
			for _, l := range s.Lhs {
				if ix, ok := l.(*ast.IndexExpr); ok {
					if a, ok := ast.Unparen(ix.X).(*ast.Ident); ok && alias[a.Name] != "" {
						bad = a.Name + "[…] = … with " + a.Name + " := " + alias[a.Name]
					}
				}
			}
		}
		return true
	})
	r.Check(bad == "", "no-write-through-alias", c.Pos(fd.Pos()), "the slices of the original file are only read"+ternary(bad != "", " (found `"+bad+"`: the copy made by `copy := *file` shares the backing arrays, so this rewrites the comment list of the file that is about to be compiled)", ""))
}

func constantValueInt64(v constant.Value) (int64, bool) {
	if v == nil {
		return 0, false
	}
	return constant.Int64Val(constant.ToInt(v))
}

func constantInt64(o *types.Const) (int64, bool) { return constantValueInt64(o.Val()) }

// ruleNarrowShift: `b[1]<<8` with b[1] a byte is 0 — the shift is done in the operand's type. In the codecs of
// the hint stream and the build cache a constant shift count that reaches the width of its operand's type
// silently drops the bits it was meant to move.
func ruleNarrowShift(c *ctx.Ctx, r *core.Reporter) {
	r.Begin("C19.narrow-shift", "F-CONST", "no constant left shift in the hint codec, the source serializer or the build cache moves all bits of its operand's type out (shift count >= width of a sized integer operand)", 1)
	n := 0
	for _, rel := range []string{"internal/sourcemapx", "compiler/sources", "build/cache"} {
		p := c.Pkg(rel)
		if p == nil {
			continue
		}
		for _, f := range p.Syntax {
			if c.IsTestFile(f.Pos()) {
				continue
			}
			ast.Inspect(f, func(x ast.Node) bool {
				be, ok := x.(*ast.BinaryExpr)
				if !ok || be.Op != token.SHL {
					return true
				}
				cnt, ok := constantValueInt64(p.TypesInfo.Types[be.Y].Value)
				if !ok || p.TypesInfo.Types[be.X].Value != nil {
					return true
				}
				bt, ok := p.TypesInfo.Types[be.X].Type.Underlying().(*types.Basic)
				if !ok {
					return true
				}
				width := int64(0)
				switch bt.Kind() {
				case types.Int8, types.Uint8:
					width = 8
				case types.Int16, types.Uint16:
					width = 16
				case types.Int32, types.Uint32:
					width = 32
				case types.Int64, types.Uint64:
					width = 64
				default:
					return true
				}
				n++
				r.Check(cnt < width, fmt.Sprintf("shift:%s#%d", rel, n), c.Pos(be.Pos()), fmt.Sprintf("`%s`: a %s shifted left by %d%s", exprStr(be), bt.Name(), cnt, ternary(cnt >= width, " is always 0 — widen the operand first", "")))
				return true
			})
		}
	}
	r.Check(true, "scanned", "internal/sourcemapx", fmt.Sprintf("%d constant left shifts of sized integers examined", n))
}

// ruleC17SortKey: the files of a package are ordered by name so that the output does not depend on the order
// they were listed in. The key has to be unique per file: the name the file was added to the FileSet with.
// FileSet.Position honours //line directives, which let several (generated) files claim the same name;
// a stable sort then keeps ties in listing order.
func ruleC17SortKey(c *ctx.Ctx, r *core.Reporter) {
	r.Begin("C17.sort-key", "F-KEY", "the sort key of Sources.Sort is the physical file name (FileSet.File(pos).Name()), not a position adjusted by //line directives", 1)
	p := c.Pkg("compiler/sources")
	if p == nil {
		r.Undecided("pkg", "compiler/sources", "not loaded")
		return
	}
	sortFd := c.FuncDecl("compiler/sources", "Sources.Sort")
	if sortFd == nil {
		r.Undecided("Sources.Sort", "compiler/sources/sources.go", "not found")
		return
	}
	// the functions the comparator calls (one level), plus Sort itself
	bodies := []*ast.FuncDecl{sortFd}
	ast.Inspect(sortFd.Body, func(x ast.Node) bool {
		if ce, ok := x.(*ast.CallExpr); ok {
			if se, ok := ce.Fun.(*ast.SelectorExpr); ok {
				if fd := c.FuncDecl("compiler/sources", "Sources."+se.Sel.Name); fd != nil && fd != sortFd {
					bodies = append(bodies, fd)
				}
			}
		}
		return true
	})
	physical, adjusted := 0, ""
	for _, fd := range bodies {
		ast.Inspect(fd.Body, func(x ast.Node) bool {
			ce, ok := x.(*ast.CallExpr)
			if !ok {
				return true
			}
			se, ok := ce.Fun.(*ast.SelectorExpr)
			if !ok {
				return true
			}
			tv, ok := p.TypesInfo.Types[se.X]
			if !ok {
				return true
			}
			ts := tv.Type.String()
			switch {
			case strings.HasSuffix(ts, "token.File") && se.Sel.Name == "Name":
				physical++
			case strings.HasSuffix(ts, "token.FileSet") && se.Sel.Name == "Position":
				adjusted = exprStr(ce)
			case strings.HasSuffix(ts, "token.FileSet") && se.Sel.Name == "PositionFor" && len(ce.Args) == 2 && exprStr(ce.Args[1]) != "false":
				adjusted = exprStr(ce)
			case strings.HasSuffix(ts, "token.FileSet") && se.Sel.Name == "PositionFor" && len(ce.Args) == 2 && exprStr(ce.Args[1]) == "false":
				physical++
			}
			return true
		})
	}
	r.Check(physical >= 1 && adjusted == "", "sort-key:physical-name", c.Pos(sortFd.Pos()), "files are compared by token.File.Name() (or the unadjusted PositionFor(pos, false).Filename)"+ternary(adjusted != "", " (found `"+adjusted+"`: the adjusted position takes its file name from //line directives, so two files can tie and keep their listing order)", ""))
}

// ruleC10ExportedReference: other packages reach an exported function through `$pkg.<Name>`. A body-less
// function that is a go:linkname reference gets its value late, in $initLinknames; that is also the only
// place where `$pkg.<Name>` can be given the value (the declaration emitted no export for a function
// without a body).
func ruleC10ExportedReference(c *ctx.Ctx, r *core.Reporter) {
	r.Begin("C10.exported-reference", "F-PAIR", "where WritePkgCode binds a go:linkname reference from $linknames it also assigns the function to $pkg.<Name> when the name is exported", 1)
	fd := c.FuncDecl("compiler", "WritePkgCode")
	if fd == nil {
		r.Undecided("WritePkgCode", "compiler/compiler.go", "not found")
		return
	}
	// the loop body that emits `<ref> = $linknames[<impl>];`
	var loop *ast.RangeStmt
	ast.Inspect(fd.Body, func(x ast.Node) bool {
		if rs, ok := x.(*ast.RangeStmt); ok {
			found := false
			ast.Inspect(rs.Body, func(y ast.Node) bool {
				if bl, ok := y.(*ast.BasicLit); ok && strings.Contains(bl.Value, "= $linknames[") {
					found = true
				}
				return true
			})
			if found {
				loop = rs
			}
		}
		return true
	})
	if loop == nil {
		r.Undecided("bind-loop", c.Pos(fd.Pos()), "the loop that emits `<ref> = $linknames[…]` was not found")
		return
	}
	exports := false
	ast.Inspect(loop.Body, func(x ast.Node) bool {
		is, ok := x.(*ast.IfStmt)
		if !ok {
			return true
		}
		cond := exprStr(is.Cond)
		if !(strings.Contains(cond, "IsExported(") || strings.Contains(cond, ".Exported()")) {
			return true
		}
		ast.Inspect(is.Body, func(y ast.Node) bool {
			if bl, ok := y.(*ast.BasicLit); ok && strings.Contains(bl.Value, "$pkg.%s = %s;") {
				exports = true
			}
			return true
		})
		return true
	})
	r.Check(exports, "bound-reference-exported", c.Pos(loop.Pos()), "next to `<ref> = $linknames[<impl>];` the loop emits `$pkg.<Name> = <ref>;` under an exportedness test: without it `otherpkg.Exported(…)` of a body-less linkname reference is `undefined` (TypeError: sub.Exported is not a function)")
}

// ruleDelegatedArgs: `defer f(x)` / `go f(x)` evaluate the arguments at the statement, not when the call runs.
// For builtins and js.Object methods the call is wrapped in a proxy lambda; every argument of the wrapped
// call has to be a parameter of the lambda (bound to the value computed at the statement) — an argument
// expression used directly would be read when the lambda runs.
func ruleDelegatedArgs(c *ctx.Ctx, r *core.Reporter) {
	r.Begin("C08.delegated-args", "F-MUST", "in delegatedCall every argument of the wrapped builtin call is a fresh identifier naming a parameter of the proxy lambda", 1)
	fd := c.FuncDecl("compiler", "funcContext.delegatedCall")
	if fd == nil {
		r.Undecided("delegatedCall", "compiler/expressions.go", "not found")
		return
	}
	// the slice handed to the wrapper call as Args
	argsVar := ""
	for _, m := range findGoPattern(fd.Body, `&ast.CallExpr{Fun: µf, Args: µa, Ellipsis: µe}`) {
		argsVar = m.Env["µa"]
	}
	if argsVar == "" {
		r.Undecided("wrapper", c.Pos(fd.Pos()), "the wrapper &ast.CallExpr{Fun, Args, Ellipsis} was not found")
		return
	}
	n, good := 0, 0
	bad := ""
	ast.Inspect(fd.Body, func(x ast.Node) bool {
		as, ok := x.(*ast.AssignStmt)
		if !ok || len(as.Lhs) != 1 || len(as.Rhs) != 1 {
			return true
		}
		ix, ok := as.Lhs[0].(*ast.IndexExpr)
		if !ok || exprStr(ix.X) != argsVar {
			return true
		}
		n++
		env := patEnv{}
		if matchExprPat(compileGoPattern(`µfc.newIdent(µv, µt)`).expr, as.Rhs[0], env) {
			// µv is a local obtained from newLocalVariable
			fresh := false
			for _, d := range localAssignments(fd, env["µv"]) {
				if ce, ok := d.rhs.(*ast.CallExpr); ok {
					if se, ok := ce.Fun.(*ast.SelectorExpr); ok && se.Sel.Name == "newLocalVariable" {
						fresh = true
					}
				}
			}
			if fresh {
				good++
				return true
			}
		}
		bad = nodeString(c, as)
		return true
	})
	r.Check(n >= 1 && good == n, "args-are-lambda-parameters", c.Pos(fd.Pos()), fmt.Sprintf("%d of %d stores into the wrapped call's argument list are fc.newIdent(<fresh _arg>, <parameter type>)%s", good, n, ternary(bad != "", " — `"+bad+"` hands the argument expression itself to the lambda: `defer println(x); x = 2` prints 2", "")))
}

// ruleC18ToolTags: the tag set of the property has no tool tags: go/build's defaults for the HOST toolchain
// (goexperiment.*, amd64.v1) must not be satisfied when files are selected for js/ecmascript.
func ruleC18ToolTags(c *ctx.Ctx, r *core.Reporter) {
	r.Begin("C18.tooltags", "F-TABLE", "no build context of package build carries tool tags, and versionhack empties go/build's defaults", 2)
	p := c.Pkg("build")
	if p == nil {
		r.Undecided("pkg", "build", "not loaded")
		return
	}
	n := 0
	for _, f := range p.Syntax {
		if c.IsTestFile(f.Pos()) {
			continue
		}
		ast.Inspect(f, func(x ast.Node) bool {
			cl, ok := x.(*ast.CompositeLit)
			if !ok || exprStr(cl.Type) != "build.Context" {
				return true
			}
			n++
			set := ""
			for _, el := range cl.Elts {
				if kv, ok := el.(*ast.KeyValueExpr); ok && exprStr(kv.Key) == "ToolTags" {
					v := exprStr(kv.Value)
					if v != "nil" && v != "[]string{}" {
						set = v
					}
				}
			}
			r.Check(set == "", fmt.Sprintf("context:ToolTags#%d", n), c.Pos(cl.Pos()), "the build.Context literal leaves ToolTags empty"+ternary(set != "", " (found `"+set+"`: the host's goexperiment.* and GOAMD64 tags become satisfied build constraints)", ""))
			return true
		})
	}
	r.Check(n >= 1, "contexts", "build/context.go", fmt.Sprintf("%d build.Context literal(s)", n))
	vh := c.Pkg("build/versionhack")
	if vh == nil {
		r.Undecided("versionhack", "build/versionhack", "not loaded")
		return
	}
	cleared := false
	for _, f := range vh.Syntax {
		for _, d := range f.Decls {
			if fd, ok := d.(*ast.FuncDecl); ok && fd.Name.Name == "init" && fd.Body != nil {
				if hasGoPattern(fd.Body, `build.Default.ToolTags = []string{}`) || hasGoPattern(fd.Body, `build.Default.ToolTags = nil`) {
					cleared = true
				}
			}
		}
	}
	r.Check(cleared, "versionhack:tooltags-cleared", "build/versionhack/versionhack.go", "versionhack's init empties build.Default.ToolTags (contexts derived from the default, and go/build's own module-mode check, see no host tool tags)")
}

// ruleC20MonotoneModTime: PackageData.SrcModTime is a lower bound for "is the cached archive stale": it is
// only ever raised. BuildFiles presets it to the future for the ephemeral package of a `gopherjs build a.go`
// so that it is never taken from the cache; LoadPackages must not lower it.
func ruleC20MonotoneModTime(c *ctx.Ctx, r *core.Reporter) {
	r.Begin("C20.modtime-monotone", "F-MUST", "every assignment to SrcModTime in Session.LoadPackages raises it: it is guarded by <new>.After(<pkg>.SrcModTime)", 3)
	fd := c.FuncDecl("build", "Session.LoadPackages")
	if fd == nil {
		r.Undecided("LoadPackages", "build/build.go", "not found")
		return
	}
	n := 0
	ast.Inspect(fd.Body, func(x ast.Node) bool {
		as, ok := x.(*ast.AssignStmt)
		if !ok || len(as.Lhs) != 1 || len(as.Rhs) != 1 {
			return true
		}
		se, ok := as.Lhs[0].(*ast.SelectorExpr)
		if !ok || se.Sel.Name != "SrcModTime" {
			return true
		}
		n++
		guarded := false
		for _, g := range guardsAt(fd.Body, as.Pos()) {
			if g.Negated {
				continue
			}
			for _, cj := range conjuncts(g.Cond) {
				if ce, ok := cj.(*ast.CallExpr); ok && len(ce.Args) == 1 && exprStr(ce.Args[0]) == exprStr(as.Lhs[0]) {
					if f, ok := ce.Fun.(*ast.SelectorExpr); ok && f.Sel.Name == "After" && exprStr(f.X) == exprStr(as.Rhs[0]) {
						guarded = true
					}
				}
			}
		}
		r.Check(guarded, fmt.Sprintf("raise-only#%d", n), c.Pos(as.Pos()), fmt.Sprintf("`%s` is executed only if %s.After(%s)%s", nodeString(c, as), exprStr(as.Rhs[0]), exprStr(as.Lhs[0]), ternary(guarded, "", " — an unconditional store discards the future time BuildFiles presets for the ephemeral main package, which is then served from the cache of an earlier `gopherjs build other.go`")))
		return true
	})
	r.Check(n >= 3, "sites", c.Pos(fd.Pos()), fmt.Sprintf("%d assignments to SrcModTime (compiler binary, imports, own files)", n))
}

// ruleBlockingOnlyGrows: the blocking analysis is a least fixpoint over "this node suspends": marks are only
// added. A function without a body is marked when its FuncInfo is made, and which implementations suspend
// is only known after propagation — nothing may clear or replace a Blocking set.
func ruleBlockingOnlyGrows(c *ctx.Ctx, r *core.Reporter) {
	r.Begin("C02.blocking-grows", "F-WHO", "in package analysis the Blocking and Flattened sets are created once per FuncInfo and afterwards only receive `true` entries: no replacement, no delete, no `false`", 4)
	p := c.Pkg("compiler/internal/analysis")
	if p == nil {
		r.Undecided("pkg", "compiler/internal/analysis", "not loaded")
		return
	}
	n := 0
	for _, rel := range []string{"compiler/internal/analysis", "compiler/sources", "compiler"} {
		for _, fd := range c.AllFuncDecls(rel) {
			if fd.Body == nil || c.IsTestFile(fd.Pos()) {
				continue
			}
			ast.Inspect(fd.Body, func(x ast.Node) bool {
				switch s := x.(type) {
				case *ast.AssignStmt:
					for i, l := range s.Lhs {
						// x.Blocking = …   (replacing the set)
						if se, ok := l.(*ast.SelectorExpr); ok && (se.Sel.Name == "Blocking" || se.Sel.Name == "Flattened") && isFuncInfoField(c, rel, se) {
							n++
							r.Violation(fmt.Sprintf("replace:%s|%s#%d", rel, ctx.FuncName(fd), n), c.Pos(s.Pos()), "`"+nodeString(c, s)+"` replaces a "+se.Sel.Name+" set outside the FuncInfo constructor: marks made so far (a body-less function is conservatively blocking) are lost before propagation has run")
						}
						// x.Blocking[k] = v
						if ix, ok := l.(*ast.IndexExpr); ok {
							if se, ok := ix.X.(*ast.SelectorExpr); ok && (se.Sel.Name == "Blocking" || se.Sel.Name == "Flattened") && isFuncInfoField(c, rel, se) && i < len(s.Rhs) {
								n++
								r.Check(exprStr(s.Rhs[i]) == "true", fmt.Sprintf("mark:%s|%s#%d", rel, ctx.FuncName(fd), n), c.Pos(s.Pos()), "`"+nodeString(c, s)+"` adds a mark")
							}
						}
					}
				case *ast.CallExpr:
					if id, ok := s.Fun.(*ast.Ident); ok && id.Name == "delete" && len(s.Args) == 2 {
						if se, ok := s.Args[0].(*ast.SelectorExpr); ok && (se.Sel.Name == "Blocking" || se.Sel.Name == "Flattened") && isFuncInfoField(c, rel, se) {
							n++
							r.Violation(fmt.Sprintf("delete:%s|%s#%d", rel, ctx.FuncName(fd), n), c.Pos(s.Pos()), "`"+exprStr(s)+"` removes a mark")
						}
					}
				}
				return true
			})
		}
	}
	r.Check(n >= 4, "sites", "compiler/internal/analysis/info.go", fmt.Sprintf("%d writes to Blocking/Flattened sets examined", n))
}

func isFuncInfoField(c *ctx.Ctx, rel string, se *ast.SelectorExpr) bool {
	p := c.Pkg(rel)
	if p == nil {
		return false
	}
	tv, ok := p.TypesInfo.Types[se.X]
	return ok && strings.HasSuffix(strings.TrimPrefix(tv.Type.String(), "*"), "analysis.FuncInfo")
}

// ruleKeepNames: the runtime overlay recognises frames of the prelude by function NAME in JavaScript stack
// traces ("$goroutine" marks the bottom of a goroutine, "$callDeferred" is hidden). The minifier renames
// prelude locals unless it is told to keep the names.
func ruleKeepNames(c *ctx.Ctx, r *core.Reporter) {
	r.Begin("C16.keep-names", "F-LINK", "Filter.WriteJS sets esbuild's KeepNames whenever it minifies identifiers, because the runtime overlay looks prelude functions up by name in stack traces", 1)
	if !needPrelude(c, r) {
		return
	}
	nat := c.Natives()
	named := 0
	for _, f := range nat.PkgFiles("runtime") {
		if f.Test {
			continue
		}
		ast.Inspect(f.AST, func(x ast.Node) bool {
			if bl, ok := x.(*ast.BasicLit); ok && bl.Kind == token.STRING && strings.HasPrefix(bl.Value, `"$`) {
				name := strings.Trim(bl.Value, `"`)
				for _, pf := range c.PreludeList() {
					if strings.Contains(pf.Source, "var "+name+" =") || strings.Contains(pf.Source, "function "+name+"(") {
						named++
						break
					}
				}
			}
			return true
		})
	}
	if named == 0 {
		r.Info("no-name-lookups", nativesRootRel+"/runtime", "the runtime overlay no longer refers to prelude functions by name: KeepNames is free")
		return
	}
	fd := c.FuncDecl("internal/sourcemapx", "Filter.WriteJS")
	if fd == nil {
		r.Undecided("WriteJS", "internal/sourcemapx/filter.go", "not found")
		return
	}
	ok := false
	for _, m := range findGoPattern(fd.Body, `µo.MinifyIdentifiers = true`) {
		gs := guardsAt(fd.Body, m.Node.Pos())
		for _, m2 := range findGoPattern(fd.Body, `µo.KeepNames = true`) {
			if m2.Env["µo"] == m.Env["µo"] && len(guardsAt(fd.Body, m2.Node.Pos())) == len(gs) {
				ok = true
			}
		}
	}
	r.Check(ok, "keepnames-with-minify", c.Pos(fd.Pos()), fmt.Sprintf("next to `MinifyIdentifiers = true`, under the same condition, `KeepNames = true` (the runtime overlay names %d prelude function(s) in string literals, e.g. \"$goroutine\" → runtime.goexit)", named))
}

// ruleC17NoPosOrder: token.Pos values are offsets into the FileSet in the order the files were ADDED to it,
// i.e. the order they were listed or discovered in. Ordering files (or anything across files) by Pos
// re-imports exactly the dependence the name sort of Sources.Sort removes.
func ruleC17NoPosOrder(c *ctx.Ctx, r *core.Reporter) {
	r.Begin("C17.no-pos-order", "F-DET", "no sort on the compile path orders *ast.File values by their token.Pos", 1)
	n := 0
	for _, p := range c.ModulePkgs("compiler", "build", "internal") {
		for _, f := range p.Syntax {
			if c.IsTestFile(f.Pos()) {
				continue
			}
			ast.Inspect(f, func(x ast.Node) bool {
				ce, ok := x.(*ast.CallExpr)
				if !ok || len(ce.Args) < 2 {
					return true
				}
				se, ok := ce.Fun.(*ast.SelectorExpr)
				if !ok || !(exprStr(se.X) == "sort" || exprStr(se.X) == "slices") || !strings.HasPrefix(se.Sel.Name, "S") {
					return true
				}
				fl, ok := ce.Args[len(ce.Args)-1].(*ast.FuncLit)
				if !ok {
					return true
				}
				n++
				bad := ""
				ast.Inspect(fl.Body, func(y ast.Node) bool {
					be, ok := y.(*ast.BinaryExpr)
					if !ok || (be.Op != token.LSS && be.Op != token.GTR && be.Op != token.LEQ && be.Op != token.GEQ) {
						return true
					}
					for _, side := range []ast.Expr{be.X, be.Y} {
						call, ok := ast.Unparen(side).(*ast.CallExpr)
						if !ok {
							continue
						}
						s2, ok := call.Fun.(*ast.SelectorExpr)
						if !ok || (s2.Sel.Name != "Pos" && s2.Sel.Name != "End") {
							continue
						}
						if tv, ok := p.TypesInfo.Types[s2.X]; ok && strings.HasSuffix(tv.Type.String(), "ast.File") {
							bad = exprStr(be)
						}
					}
					return true
				})
				r.Check(bad == "", fmt.Sprintf("sort:%s#%d", strings.TrimPrefix(p.PkgPath, ctx.Module+"/"), n), c.Pos(ce.Pos()), ternary(bad == "", "the comparison does not order files by position", "`"+bad+"` orders files by token.Pos, which is the order they were parsed in (the listing order on the command line)"))
				return true
			})
		}
	}
	r.Check(n >= 1, "sorts", "compiler", fmt.Sprintf("%d sorts with a comparison function examined", n))
}

// ruleC13PoolNil: sync.Pool.Put(nil) is a no-op ("if x == nil { return }" is the first statement of the
// original); the sequential replacement must drop nil as well, or Get returns nil instead of calling New.
func ruleC13PoolNil(c *ctx.Ctx, r *core.Reporter) {
	r.Begin("C13.pool-nil", "F-SIB", "nosync.Pool.Put begins with the nil guard that sync.Pool.Put begins with", 1)
	fd := c.FuncDecl("nosync", "Pool.Put")
	if fd == nil {
		r.Undecided("nosync.Pool.Put", "nosync/pool.go", "not found")
		return
	}
	param := firstParamName(fd)
	// the original: first statement of sync.(*Pool).Put in GOROOT
	origHas := false
	if sp := c.All["sync"]; sp != nil {
		for _, f := range sp.Syntax {
			for _, d := range f.Decls {
				if x, ok := d.(*ast.FuncDecl); ok && x.Name.Name == "Put" && x.Recv != nil && x.Body != nil && strings.Contains(exprStr(x.Recv.List[0].Type), "Pool") && len(x.Body.List) > 0 {
					if is, ok := x.Body.List[0].(*ast.IfStmt); ok && strings.HasSuffix(exprStr(is.Cond), "== nil") {
						origHas = true
					}
				}
			}
		}
	}
	if !origHas {
		r.Info("sync.Pool.Put", "GOROOT/src/sync/pool.go", "the original no longer starts with a nil guard (or sync is not loaded with syntax): nothing to agree with")
		r.Check(true, "put:nil-dropped", c.Pos(fd.Pos()), "not required by the original")
		return
	}
	ok := false
	if len(fd.Body.List) > 0 {
		if is, isIf := fd.Body.List[0].(*ast.IfStmt); isIf && exprStr(is.Cond) == param+" == nil" && len(is.Body.List) == 1 {
			if rs, isRet := is.Body.List[0].(*ast.ReturnStmt); isRet && len(rs.Results) == 0 {
				ok = true
			}
		}
	}
	r.Check(ok, "put:nil-dropped", c.Pos(fd.Pos()), "Put returns at once for a nil argument, like sync.Pool.Put (otherwise Put(nil); Get() yields nil where sync.Pool calls New)")
}

// ruleC11SeenCache: the cycle cache of $internalize maps (Go type, JavaScript value) to the Go value under
// construction. The same JavaScript object internalised at two Go types (map[string]any and
// map[string]string, or an `any` slot and a typed one) needs two results; a cache keyed by the value alone
// hands the first one out for both.
func ruleC11SeenCache(c *ctx.Ctx, r *core.Reporter) {
	r.Begin("C11.seen-cache", "F-KEY", "every access to the top level of $internalize's `seen` cache is keyed by the type parameter; values are looked up in the per-type table", 2)
	if !needPrelude(c, r) {
		return
	}
	fn := c.PreludeFunc("$internalize")
	if fn == nil {
		r.Undecided("$internalize", "compiler/prelude/jsmapping.js", "not found")
		return
	}
	ps := fn.L("params")
	if len(ps) < 4 {
		r.Undecided("params", fn.Pos(), "unexpected parameter list")
		return
	}
	v, t, seen := ps[0].IdentName(), ps[1].IdentName(), ps[3].IdentName()
	n := 0
	var bad []string
	site := fn.Pos()
	fn.Walk(func(x *ctx.JSNode) bool {
		if !x.Is("CallExpression") {
			return true
		}
		cal := x.N("callee")
		m := cal.MemberName()
		if (m != "has" && m != "get" && m != "set") || cal.N("object").IdentName() != seen || len(x.L("arguments")) == 0 {
			return true
		}
		n++
		if k := x.L("arguments")[0].IdentName(); k != t {
			if len(bad) == 0 {
				site = x.Pos()
			}
			bad = append(bad, squash(x.Src()))
		}
		return true
	})
	_ = v
	r.Check(len(bad) == 0, "seen-keyed-by-type", site, fmt.Sprintf("all %d accesses to the top level of the cache are keyed by the type `%s`%s", n, t, ternary(len(bad) > 0, fmt.Sprintf(" — not %v: keyed by the JavaScript value alone, one object read at two Go types yields the first type's representation twice", bad), "")))
	r.Check(n >= 2, "sites", fn.Pos(), fmt.Sprintf("%d accesses to the top level of the cache", n))
}

// ruleC12BlankSpecKept: an original `var a, b = f()` loses the names an overlay overrides (they become `_`);
// the whole specification goes only when that emptied it. A specification that was all blank to begin with
// (`var _, _ = f()`, `var _ T`) names nothing an overlay could override and keeps its initialiser.
func ruleC12BlankSpecKept(c *ctx.Ctx, r *core.Reporter) {
	r.Begin("C12.blank-spec", "F-MUST", "in the single-call branch of augmentOriginalFile a value specification is removed only under a flag that is set where one of its names was found in the override table", 1)
	fd := c.FuncDecl("build", "augmentOriginalFile")
	if fd == nil {
		r.Undecided("augmentOriginalFile", "build/build.go", "not found")
		return
	}
	ok, flagSet := false, false
	for _, m := range findGoPattern(fd.Body, "µf := false; for _, µn := range µs.Names { if _, µok := µo[µn.Name]; µok { µµa } }; if µf { µµc }") {
		ok = true
		flag := m.Env["µf"]
		for _, m2 := range findGoPattern(fd.Body, "if _, µok := µo[µn.Name]; µok { µµa; "+flag+" = true; µµb }") {
			_ = m2
			flagSet = true
		}
		for _, m2 := range findGoPattern(fd.Body, "if _, µok := µo[µn.Name]; µok { "+flag+" = true; µµb }") {
			_ = m2
			flagSet = true
		}
	}
	r.Check(ok && flagSet, "remove-only-if-a-name-was-overridden", c.Pos(fd.Pos()), "`removed := false; for names { if overridden { removed = true; name = _ } }; if removed { …drop the specification when all names are blank… }` — without the flag every all-blank specification of the original (`var _, _ = register()`) is deleted with its initialiser")
}

// ruleC15IdKey: pointers and channels are keyed by an id attached on first use. "Not yet assigned" has to
// be told from every id that was assigned: with a falsiness test (`!x.$id`) the id 0 is assigned again on
// the next hash, and the entry stored under "0" is orphaned.
func ruleC15IdKey(c *ctx.Ctx, r *core.Reporter) {
	r.Begin("C15.id-key", "F-MUST", "$idKey assigns an id exactly when x.$id is undefined, or never hands out a falsy id", 1)
	if !needPrelude(c, r) {
		return
	}
	fn := c.PreludeFunc("$idKey")
	if fn == nil {
		r.Undecided("$idKey", "compiler/prelude/types.js", "not found")
		return
	}
	ok, why := false, "no `if` that assigns $id"
	fn.Walk(func(x *ctx.JSNode) bool {
		if !x.Is("IfStatement") {
			return true
		}
		assigns := false
		var rhs *ctx.JSNode
		x.N("consequent").Walk(func(y *ctx.JSNode) bool {
			if y.Is("AssignmentExpression") && y.N("left").MemberName() == "$id" {
				assigns = true
				rhs = y.N("right")
			}
			return true
		})
		if !assigns {
			return true
		}
		t := squash(x.N("test").Src())
		switch {
		case strings.HasSuffix(t, ".$id===undefined") || strings.HasPrefix(t, "undefined==="):
			ok = true
		case strings.HasPrefix(t, "!") && rhs != nil && rhs.Is("UpdateExpression") && rhs.B("prefix") && rhs.S("operator") == "++":
			ok = true // ids start at 1
		default:
			why = "the test is `" + t + "` and the id assigned is `" + squash(rhs.Src()) + "`"
		}
		return true
	})
	r.Check(ok, "id-assigned-once", fn.Pos(), "an object keeps the id it was given"+ternary(ok, "", " ("+why+": the first id is 0, which the falsiness test takes for `none`, so the first pointer or channel used as a key is re-keyed on its second hash)"))
}

// ruleC02DeferredSuspendFirst: after a deferred call returns, $callDeferred has two things to look at: did
// the call suspend (its result carries $blk) and has the panic been recovered. A call that recovered AND
// suspended has to be resumed before the frame goes on, so the suspension is examined first.
func ruleC02DeferredSuspendFirst(c *ctx.Ctx, r *core.Reporter) {
	r.Begin("C02.deferred-suspend-first", "F-PAIR", "in $callDeferred the test for a suspended deferred call (r.$blk) precedes the test for a recovered panic", 1)
	if !needPrelude(c, r) {
		return
	}
	fn := c.PreludeFunc("$callDeferred")
	if fn == nil {
		r.Undecided("$callDeferred", "compiler/prelude/goroutines.js", "not found")
		return
	}
	posBlk, posRec := -1, -1
	fn.Walk(func(x *ctx.JSNode) bool {
		if !x.Is("IfStatement") {
			return true
		}
		t := squash(x.N("test").Src())
		if strings.Contains(t, ".$blk!==undefined") && posBlk < 0 {
			posBlk = x.Start
		}
		if strings.Contains(t, "$panicStackDepth===null") && posRec < 0 {
			posRec = x.Start
		}
		return true
	})
	r.Check(posBlk >= 0 && posRec >= 0 && posBlk < posRec, "suspended-before-recovered", fn.Pos(), "`if (r && r.$blk !== undefined) { deferred.push(…); … }` comes before `if (… $panicStackDepth === null) { /* recovered */ … }`: a deferred function that recovers and then suspends is pushed back to be resumed; the other way round the rest of its body is lost")
}

// ruleC04LitInfo: a function literal inside a generic function is analysed once per instantiation; the
// translator has to ask for the analysis of ITS instantiation — the type arguments of the enclosing named
// instance, which funcContext.TypeArgs() finds through the parents (a literal's own instance has none) —
// and the lookup must not fall back to some other instantiation's result.
func ruleC04LitInfo(c *ctx.Ctx, r *core.Reporter) {
	r.Begin("C04.lit-info", "F-KEY", "literalFuncContext asks FuncLitInfo with fc.TypeArgs(); FuncLitInfo returns an entry only when its type arguments are equal to the ones asked for", 2)
	lf := c.FuncDecl("compiler", "funcContext.literalFuncContext")
	if lf == nil {
		r.Undecided("literalFuncContext", "compiler/functions.go", "not found")
	} else {
		r.Check(hasGoPattern(lf.Body, `µfc.pkgCtx.FuncLitInfo(µfun, µfc.TypeArgs())`), "lit-info:args-from-enclosing-instance", c.Pos(lf.Pos()), "the analysis of a literal is looked up with fc.TypeArgs() (the type arguments of the nearest enclosing generic instance; fc.instance.TArgs of a literal's own context is empty)")
	}
	fi := c.FuncDecl("compiler/internal/analysis", "Info.FuncLitInfo")
	if fi == nil {
		r.Undecided("FuncLitInfo", "compiler/internal/analysis/info.go", "not found")
		return
	}
	bad := ""
	ast.Inspect(fi.Body, func(x ast.Node) bool {
		rs, ok := x.(*ast.ReturnStmt)
		if !ok || len(rs.Results) != 1 || exprStr(rs.Results[0]) == "nil" {
			return true
		}
		guarded := false
		for _, g := range guardsAt(fi.Body, rs.Pos()) {
			if !g.Negated && strings.Contains(exprStr(g.Cond), ".Equal(") {
				guarded = true
			}
		}
		if !guarded {
			bad = nodeString(c, rs)
		}
		return true
	})
	r.Check(bad == "", "lit-info:match-only", c.Pos(fi.Pos()), "every non-nil result of FuncLitInfo is returned under `<entry>.typeArgs.Equal(typeArgs)`"+ternary(bad != "", " (`"+bad+"` hands out an entry of whatever instantiation was analysed first: its blocking marks are wrong for the others)", ""))
}

// --- C13.modf ------------------------------------------------------------------------------------------
// evalGoFloatTuple evaluates a straight-line overlay body (if/return/:=) whose return statement has several
// float results. `Mod` is modelled by math.Mod (JavaScript's % on numbers is C's fmod, as is Go's math.Mod);
// every other call must be to an overlay function the evaluator can enter.
func evalGoFloatTuple(list []ast.Stmt, env map[string]float64, funcs map[string]*ast.FuncDecl, depth int) ([]float64, bool) {
	for _, st := range list {
		switch s := st.(type) {
		case *ast.AssignStmt:
			if len(s.Lhs) != 1 || len(s.Rhs) != 1 {
				return nil, false
			}
			id, ok := s.Lhs[0].(*ast.Ident)
			if !ok {
				return nil, false
			}
			v, ok := evalGoFloatM(s.Rhs[0], env, funcs, depth)
			if !ok || v.is != 'f' {
				return nil, false
			}
			env[id.Name] = v.f
		case *ast.ReturnStmt:
			var out []float64
			for _, e := range s.Results {
				v, ok := evalGoFloatM(e, env, funcs, depth)
				if !ok || v.is != 'f' {
					return nil, false
				}
				out = append(out, v.f)
			}
			return out, true
		case *ast.IfStmt:
			if s.Init != nil || s.Else != nil {
				return nil, false
			}
			c, ok := evalGoFloatM(s.Cond, env, funcs, depth)
			if !ok || c.is != 'b' {
				return nil, false
			}
			if c.b {
				return evalGoFloatTuple(s.Body.List, env, funcs, depth)
			}
		default:
			return nil, false
		}
	}
	return nil, false
}

// evalGoFloatM is evalGoFloat plus the model of Mod.
func evalGoFloatM(e ast.Expr, env map[string]float64, funcs map[string]*ast.FuncDecl, depth int) (fval, bool) {
	if ce, ok := ast.Unparen(e).(*ast.CallExpr); ok {
		if id, ok := ce.Fun.(*ast.Ident); ok && id.Name == "Mod" && len(ce.Args) == 2 {
			a, ok1 := evalGoFloatM(ce.Args[0], env, funcs, depth)
			b, ok2 := evalGoFloatM(ce.Args[1], env, funcs, depth)
			if !ok1 || !ok2 || a.is != 'f' || b.is != 'f' {
				return fval{}, false
			}
			return fval{f: math.Mod(a.f, b.f), is: 'f'}, true
		}
	}
	if be, ok := ast.Unparen(e).(*ast.BinaryExpr); ok {
		// descend with the model on both sides
		l, ok1 := evalGoFloatM(be.X, env, funcs, depth)
		rr, ok2 := evalGoFloatM(be.Y, env, funcs, depth)
		if ok1 && ok2 && l.is == 'f' && rr.is == 'f' {
			env2 := map[string]float64{"µl": l.f, "µr": rr.f}
			return evalGoFloat(&ast.BinaryExpr{X: ast.NewIdent("µl"), Op: be.Op, Y: ast.NewIdent("µr")}, env2, funcs, depth)
		}
	}
	return evalGoFloat(e, env, funcs, depth)
}

func ruleC13Modf(c *ctx.Ctx, r *core.Reporter) {
	r.Begin("C13.modf", "F-CLASS", "the math.Modf overlay returns the integer and fractional part with the signs IEEE/Go give them (both carry the sign of the operand, zero included) on representatives of every class of operand", 8)
	nat := c.Natives()
	funcs := map[string]*ast.FuncDecl{}
	for _, f := range nat.PkgFiles("math") {
		for _, d := range f.AST.Decls {
			if x, ok := d.(*ast.FuncDecl); ok && x.Recv == nil {
				funcs[x.Name.Name] = x
			}
		}
	}
	fd := funcs["Modf"]
	if fd == nil || fd.Body == nil {
		r.Info("modf", nativesRootRel+"/math", "math.Modf is not overridden")
		return
	}
	p := fd.Type.Params.List[0].Names[0].Name
	negZero := math.Copysign(0, -1)
	for _, v := range []float64{math.Inf(-1), -3, -2.5, -0.5, negZero, 0, 0.5, 2.5, 3, math.Inf(1)} {
		env := map[string]float64{p: v, "negInf": math.Inf(-1), "posInf": math.Inf(1), "nan": math.NaN()}
		got, ok := evalGoFloatTuple(fd.Body.List, env, funcs, 0)
		key := fmt.Sprintf("modf@%v", v)
		if v == 0 && math.Signbit(v) {
			key = "modf@-0"
		}
		if !ok || len(got) != 2 {
			r.Undecided(key, nat.Pos(c, fd.Pos()), "the body of Modf is outside the statement language of the evaluator (:=, if, return; comparisons and arithmetic; Mod; overlay functions)")
			continue
		}
		wi, wf := math.Modf(v)
		same := func(a, b float64) bool {
			if math.IsNaN(a) || math.IsNaN(b) {
				return math.IsNaN(a) && math.IsNaN(b)
			}
			return a == b && math.Signbit(a) == math.Signbit(b)
		}
		sz := func(f float64) string {
			if f == 0 && math.Signbit(f) {
				return "-0"
			}
			return fmt.Sprint(f)
		}
		r.Check(same(got[0], wi) && same(got[1], wf), key, nat.Pos(c, fd.Pos()), fmt.Sprintf("Modf(%s) evaluates to (%s, %s); Go: (%s, %s)", sz(v), sz(got[0]), sz(got[1]), sz(wi), sz(wf)))
	}
}

// ruleDeferRecover: recover stops a panic only when called directly BY a deferred function. `defer recover()`
// makes recover the deferred function itself, which does not count. The proxy lambda that delegatedCall
// builds for builtins would turn it into `function() { $recover(); }` — a deferred function that calls
// recover directly — so the builtin recover has to be delegated as it is.
func ruleDeferRecover(c *ctx.Ctx, r *core.Reporter) {
	r.Begin("C08.defer-recover", "F-MUST", "delegatedCall hands the builtin recover over as the function $recover itself, before the proxy lambda for builtins is built", 1)
	fd := c.FuncDecl("compiler", "funcContext.delegatedCall")
	if fd == nil {
		r.Undecided("delegatedCall", "compiler/expressions.go", "not found")
		return
	}
	// position of the proxy lambda template
	lambda := token.NoPos
	ast.Inspect(fd.Body, func(x ast.Node) bool {
		if bl, ok := x.(*ast.BasicLit); ok && strings.Contains(bl.Value, "function(%s) {") && lambda == token.NoPos {
			lambda = bl.Pos()
		}
		return true
	})
	special := token.NoPos
	ast.Inspect(fd.Body, func(x ast.Node) bool {
		is, ok := x.(*ast.IfStmt)
		if !ok || !strings.Contains(exprStr(is.Cond), `"recover"`) {
			return true
		}
		returnsRecover := false
		ast.Inspect(is.Body, func(y ast.Node) bool {
			if rs, ok := y.(*ast.ReturnStmt); ok && len(rs.Results) == 2 && strings.Contains(exprStr(rs.Results[0]), `"$recover"`) {
				returnsRecover = true
			}
			return true
		})
		if returnsRecover {
			special = is.Pos()
		}
		return true
	})
	r.Check(special != token.NoPos && (lambda == token.NoPos || special < lambda), "recover-not-wrapped", c.Pos(fd.Pos()), "`defer recover()` pushes $recover itself: wrapped in the proxy lambda it would be a recover called directly by a deferred function and stop the panic (Go: `defer recover()` does not recover)")
}

// ruleTupleAssign: Go spec, Assignment statements: "The assignment proceeds in two phases. First, the
// operands of index expressions and pointer indirections (including implicit pointer indirections in
// selectors) on the left and the expressions on the right are all evaluated in the usual order. Second,
// the assignments are carried out in left-to-right order." The translator carries the assignments out one
// after the other, so left-hand operands that an earlier assignment of the statement can change have to be
// put into temporaries first (`prev, cur, cur.next = cur, cur.next, prev`).
func ruleTupleAssign(c *ctx.Ctx, r *core.Reporter) {
	r.Begin("C01.tuple-assign", "F-MUST", "in the n:n arm of the assignment statement every left-hand side passes through a helper that stores the operands of index expressions, pointer indirections and selectors through pointers in temporaries, before the right-hand sides are evaluated", 2)
	ts := c.FuncDecl("compiler", "funcContext.translateStmt")
	if ts == nil {
		r.Undecided("translateStmt", "compiler/statements.go", "not found")
		return
	}
	// the n:n arm: case len(s.Lhs) == len(s.Rhs)
	var arm *ast.CaseClause
	ast.Inspect(ts.Body, func(x ast.Node) bool {
		if cc, ok := x.(*ast.CaseClause); ok && len(cc.List) == 1 && squash(exprStr(cc.List[0])) == "len(s.Lhs)==len(s.Rhs)" {
			arm = cc
		}
		return true
	})
	if arm == nil {
		r.Undecided("arm", c.Pos(ts.Pos()), "no `case len(s.Lhs) == len(s.Rhs)` arm")
		return
	}
	// a loop over s.Lhs that calls a method of fc on the (paren-free) lhs and stores the result
	helper := ""
	helperPos := token.NoPos
	for _, st := range arm.Body {
		rs, ok := st.(*ast.RangeStmt)
		if !ok || exprStr(rs.X) != "s.Lhs" {
			continue
		}
		ast.Inspect(rs.Body, func(x ast.Node) bool {
			as, ok := x.(*ast.AssignStmt)
			if !ok || len(as.Rhs) != 1 {
				return true
			}
			if ce, ok := as.Rhs[0].(*ast.CallExpr); ok {
				if se, ok := ce.Fun.(*ast.SelectorExpr); ok && c.FuncDecl("compiler", "funcContext."+se.Sel.Name) != nil && helper == "" {
					if _, isIndex := as.Lhs[0].(*ast.IndexExpr); isIndex {
						helper = se.Sel.Name
						helperPos = rs.Pos()
					}
				}
			}
			return true
		})
	}
	// the loop that evaluates the right-hand sides
	rhsPos := token.NoPos
	for _, st := range arm.Body {
		if rs, ok := st.(*ast.RangeStmt); ok && exprStr(rs.X) == "s.Rhs" && rhsPos == token.NoPos {
			rhsPos = rs.Pos()
		}
	}
	r.Check(helper != "" && rhsPos != token.NoPos && helperPos < rhsPos, "lhs-operands-fixed-first", c.Pos(arm.Pos()), "every left-hand side goes through a helper of funcContext in a loop of its own that precedes the evaluation of the right-hand sides"+ternary(helper != "", " (helper: "+helper+")", ""))
	if helper == "" {
		return
	}
	hd := c.FuncDecl("compiler", "funcContext."+helper)
	covers := map[string]bool{}
	ast.Inspect(hd.Body, func(x ast.Node) bool {
		if cc, ok := x.(*ast.CaseClause); ok {
			for _, l := range cc.List {
				k := exprStr(l)
				// the arm builds a replacement node from temporaries
				makesTmp := false
				ast.Inspect(cc, func(y ast.Node) bool {
					if cl, ok := y.(*ast.CompositeLit); ok && strings.HasPrefix(exprStr(cl.Type), "ast.") {
						makesTmp = true
					}
					return true
				})
				if makesTmp {
					covers[k] = true
				}
			}
		}
		return true
	})
	var missing []string
	for _, k := range []string{"*ast.IndexExpr", "*ast.StarExpr", "*ast.SelectorExpr"} {
		if !covers[k] {
			missing = append(missing, k)
		}
	}
	usesTmp := len(callsNamed(hd.Body, "newLocalVariable")) > 0
	r.Check(len(missing) == 0 && usesTmp, "helper-covers-indirections", c.Pos(hd.Pos()), fmt.Sprintf("%s rebuilds index expressions, pointer indirections and selectors with operands held in fresh temporaries%s", helper, ternary(len(missing) > 0, fmt.Sprintf(" (no arm for %v)", missing), "")))
}

// ruleC13MapPresence: sync.Map distinguishes "no entry" from "entry whose value is nil" (Store(k, nil) is a
// stored entry: Load returns (nil, true), LoadOrStore returns (nil, true) and keeps it). nosync.Map is a Go
// map underneath; presence has to be decided with the comma-ok form of the index expression, never by
// comparing the looked-up value with nil.
func ruleC13MapPresence(c *ctx.Ctx, r *core.Reporter) {
	r.Begin("C13.map-presence", "F-MUST", "every read of the underlying map in the methods of nosync.Map is a comma-ok index expression", 2)
	p := c.Pkg("nosync")
	if p == nil {
		r.Undecided("pkg", "nosync", "not loaded")
		return
	}
	n := 0
	for _, fd := range c.AllFuncDecls("nosync") {
		if fd.Body == nil || fd.Recv == nil || c.IsTestFile(fd.Pos()) || !strings.HasSuffix(strings.TrimPrefix(exprStr(fd.Recv.List[0].Type), "*"), "Map") {
			continue
		}
		// parent map
		parents := map[ast.Node]ast.Node{}
		var stack []ast.Node
		ast.Inspect(fd.Body, func(x ast.Node) bool {
			if x == nil {
				stack = stack[:len(stack)-1]
				return true
			}
			if len(stack) > 0 {
				parents[x] = stack[len(stack)-1]
			}
			stack = append(stack, x)
			return true
		})
		ast.Inspect(fd.Body, func(x ast.Node) bool {
			ix, ok := x.(*ast.IndexExpr)
			if !ok {
				return true
			}
			tv, ok := p.TypesInfo.Types[ix.X]
			if !ok {
				return true
			}
			if _, isMap := tv.Type.Underlying().(*types.Map); !isMap {
				return true
			}
			par := parents[ix]
			if as, ok := par.(*ast.AssignStmt); ok {
				for _, l := range as.Lhs {
					if l == ast.Expr(ix) {
						return true // a store
					}
				}
				n++
				r.Check(len(as.Lhs) == 2 && len(as.Rhs) == 1, fmt.Sprintf("comma-ok:%s#%d", ctx.FuncName(fd), n), c.Pos(ix.Pos()), fmt.Sprintf("`%s` reads the map with the comma-ok form", nodeString(c, as)))
				return true
			}
			n++
			r.Violation(fmt.Sprintf("comma-ok:%s#%d", ctx.FuncName(fd), n), c.Pos(ix.Pos()), fmt.Sprintf("`%s` is read without the comma-ok form: a stored nil value cannot be told from a missing key (sync.Map: Store(k, nil); LoadOrStore(k, v) returns (nil, true))", exprStr(ix)))
			return true
		})
	}
	r.Check(n >= 2, "sites", "nosync/map.go", fmt.Sprintf("%d reads of the underlying map", n))
}

// ruleDeferredAfterRecovery: deferred calls run exactly once, all of them. When a deferred call recovers
// the panic while $callDeferred runs at the END of the function (the call had suspended and was resumed),
// the frame's remaining deferred calls still have to run: the "recovered" branch may leave the loop only
// by unwinding to the function (fromPanic), not by returning.
func ruleDeferredAfterRecovery(c *ctx.Ctx, r *core.Reporter) {
	r.Begin("C08.deferred-after-recovery", "F-MUST", "in $callDeferred the branch taken when a deferred call recovered the panic does not return: it throws to the function frame when called from $panic and otherwise goes on with the remaining deferred calls", 1)
	if !needPrelude(c, r) {
		return
	}
	fn := c.PreludeFunc("$callDeferred")
	if fn == nil {
		r.Undecided("$callDeferred", "compiler/prelude/goroutines.js", "not found")
		return
	}
	n := 0
	fn.Walk(func(x *ctx.JSNode) bool {
		if !x.Is("IfStatement") || !strings.Contains(squash(x.N("test").Src()), "$panicStackDepth===null") {
			return true
		}
		n++
		returns := false
		x.N("consequent").Walk(func(y *ctx.JSNode) bool {
			if y.Is("ReturnStatement") {
				returns = true
			}
			return !y.IsFunc()
		})
		r.Check(!returns, fmt.Sprintf("recovered-branch-does-not-return#%d", n), x.Pos(), "after a recovery at the end of the function the loop continues with the frame's remaining deferred calls (a `return` here skips them: `defer println(\"last\"); defer func() { yield(); recover() }(); panic(…)` never prints \"last\")")
		return true
	})
	r.Check(n >= 1, "sites", fn.Pos(), fmt.Sprintf("%d recovered-branch(es) found", n))
}

// ruleSliceElemOffset: element i of a slice lives at <s>.$array[<s>.$offset + i]. An access to $array whose
// index does not add the offset of the same slice reads the backing array from its start, which is only the
// same thing for slices that were never re-sliced.
func ruleSliceElemOffset(c *ctx.Ctx, r *core.Reporter) {
	r.Begin("C11.elem-offset", "F-KEY", "every element access <s>.$array[…] in the prelude and in the compiler's templates adds <s>.$offset of the same slice", 4)
	if !needPrelude(c, r) {
		return
	}
	n := 0
	for _, f := range c.PreludeList() {
		f.AST.Walk(func(x *ctx.JSNode) bool {
			if !(x.Is("MemberExpression") && x.B("computed") && x.N("object").MemberName() == "$array") {
				return true
			}
			owner := squash(x.N("object").N("object").Src())
			idx := squash(x.N("property").Src())
			n++
			r.Check(strings.Contains(idx, owner+".$offset"), fmt.Sprintf("prelude:%s:%s.$array[%s]", strings.TrimPrefix(f.Name, "compiler/prelude/"), owner, idx), x.Pos(), fmt.Sprintf("`%s` indexes the backing array of `%s` relative to its $offset", squash(x.Src()), owner))
			return true
		})
	}
	for _, t := range usableTemplates(c) {
		if !strings.Contains(t.Text, ".$array[") {
			continue
		}
		n++
		ok := true
		holeArg := func(h string) string {
			if mm := holeNumRe.FindStringSubmatch(h); mm != nil {
				var hi int
				fmt.Sscanf(mm[1], "%d", &hi)
				if hi < len(t.Holes) {
					if args := t.FmtArgs(); t.Holes[hi].Index >= 0 && t.Holes[hi].Index < len(args) {
						return exprStr(args[t.Holes[hi].Index])
					}
				}
			}
			return h
		}
		for _, m := range arrayIndexRe.FindAllStringSubmatch(t.Text, -1) {
			same := false
			for _, om := range offsetOwnerRe.FindAllStringSubmatch(m[2], -1) {
				if holeArg(om[1]) == holeArg(m[1]) {
					same = true
				}
			}
			if !same {
				ok = false
			}
		}
		r.Check(ok, "template:"+t.Key(), c.Pos(t.Pos), "`"+t.Text+"` indexes $array relative to the $offset of the same operand")
	}
	r.Check(n >= 4, "sites", "compiler/prelude", fmt.Sprintf("%d element accesses examined", n))
}

var offsetOwnerRe = regexp.MustCompile(`(⟨\d+⟩|[A-Za-z_$][\w$]*)\.\$offset`)

var arrayIndexRe = regexp.MustCompile(`(⟨\d+⟩|[A-Za-z_$][\w$]*)\.\$array\[([^\]]*)\]`)

// ruleRuntimeErrorTypes: every value the runtime overlay panics with for a run-time error implements
// runtime.Error, i.e. its type has a RuntimeError() method (error alone is not enough: code that recovers
// and re-panics everything that is not a runtime.Error lets the value escape).
func ruleRuntimeErrorTypes(c *ctx.Ctx, r *core.Reporter) {
	r.Begin("C08.runtime-error-types", "F-SIB", "every named type the runtime overlay converts a panic value to has a RuntimeError() method", 1)
	nat := c.Natives()
	hasMethod := map[string]bool{}
	declared := map[string]bool{}
	for _, f := range nat.PkgFiles("runtime") {
		for _, d := range f.AST.Decls {
			switch x := d.(type) {
			case *ast.FuncDecl:
				if x.Recv != nil && x.Name.Name == "RuntimeError" && len(x.Recv.List) == 1 {
					hasMethod[strings.TrimPrefix(exprStr(x.Recv.List[0].Type), "*")] = true
				}
			case *ast.GenDecl:
				for _, sp := range x.Specs {
					if ts, ok := sp.(*ast.TypeSpec); ok {
						declared[ts.Name.Name] = true
					}
				}
			}
		}
	}
	n := 0
	for _, f := range nat.PkgFiles("runtime") {
		ast.Inspect(f.AST, func(x ast.Node) bool {
			ce, ok := x.(*ast.CallExpr)
			if !ok || len(ce.Args) != 1 {
				return true
			}
			if id, ok := ce.Fun.(*ast.Ident); !ok || id.Name != "panic" {
				return true
			}
			arg := ast.Unparen(ce.Args[0])
			if ue, ok := arg.(*ast.UnaryExpr); ok && ue.Op == token.AND {
				if cl, ok := ue.X.(*ast.CompositeLit); ok {
					if id, ok := cl.Type.(*ast.Ident); ok && declared[id.Name] {
						n++
						r.Check(hasMethod[id.Name], fmt.Sprintf("runtime-error:%s#%d", id.Name, n), nat.Pos(c, ce.Pos()), fmt.Sprintf("`%s`: %s has a RuntimeError() method", exprStr(ce), id.Name))
					}
				}
				return true
			}
			if conv, ok := arg.(*ast.CallExpr); ok && len(conv.Args) == 1 {
				if id, ok := conv.Fun.(*ast.Ident); ok && declared[id.Name] {
					n++
					r.Check(hasMethod[id.Name], fmt.Sprintf("runtime-error:%s#%d", id.Name, n), nat.Pos(c, ce.Pos()), fmt.Sprintf("`%s`: %s has a RuntimeError() method (a run-time panic value that is only an `error` escapes handlers that re-panic everything but runtime.Error)", exprStr(ce), id.Name))
				}
			}
			return true
		})
	}
	r.Check(n >= 1, "sites", nativesRootRel+"/runtime", fmt.Sprintf("%d panics with a value of an overlay-declared type", n))
}

// ruleC12DirectiveImportByPath: pruneImports keeps an otherwise unused import alive when a directive of the
// file needs the PACKAGE (unsafe for //go:linkname, embed for //go:embed) — whatever local name the import
// has. The table of such packages is keyed by import path and has to be consulted with the path.
func ruleC12DirectiveImportByPath(c *ctx.Ctx, r *core.Reporter) {
	r.Begin("C12.directive-import", "F-KEY", "pruneImports looks the directive-import table up with the unquoted import path of the import specification", 1)
	fd := c.FuncDecl("build", "pruneImports")
	if fd == nil {
		r.Undecided("pruneImports", "build/build.go", "not found")
		return
	}
	n := 0
	ast.Inspect(fd.Body, func(x ast.Node) bool {
		ix, ok := x.(*ast.IndexExpr)
		if !ok || exprStr(ix.X) != "directiveImports" {
			return true
		}
		n++
		ok2 := false
		if id, isIdent := ix.Index.(*ast.Ident); isIdent {
			for _, m := range findGoPattern(fd.Body, id.Name+`, µ_ := strconv.Unquote(µin.Path.Value)`) {
				_ = m
				ok2 = true
			}
		}
		r.Check(ok2, fmt.Sprintf("table-keyed-by-path#%d", n), c.Pos(ix.Pos()), fmt.Sprintf("`%s`: the key is strconv.Unquote(<import>.Path.Value) (with the local name as key, `import u \"unsafe\"` next to a //go:linkname directive is pruned)", exprStr(ix)))
		return true
	})
	r.Check(n >= 1, "sites", c.Pos(fd.Pos()), fmt.Sprintf("%d lookups in directiveImports", n))
}

// ruleC18IsStdByLookup: whether a package is part of the standard library (and therefore selected as
// js/wasm) is what go/build says about the located package (Goroot). Path-prefix reasoning about the
// importing directory is not a substitute: `/x/go` is a string prefix of `/x/gopherjs-app`.
func ruleC18IsStdByLookup(c *ctx.Ctx, r *core.Reporter) {
	r.Begin("C18.isstd", "F-MUST", "simpleCtx.isStd answers true only with the Goroot flag of the package go/build located (or the cached copy of that answer)", 1)
	fd := c.FuncDecl("build", "simpleCtx.isStd")
	if fd == nil {
		r.Undecided("isStd", "build/context.go", "not found")
		return
	}
	n := 0
	bad := ""
	ast.Inspect(fd.Body, func(x ast.Node) bool {
		if _, isLit := x.(*ast.FuncLit); isLit {
			return false
		}
		rs, ok := x.(*ast.ReturnStmt)
		if !ok || len(rs.Results) != 1 {
			return true
		}
		n++
		v := exprStr(rs.Results[0])
		switch {
		case v == "false":
		case strings.HasSuffix(v, ".Goroot"):
		case strings.Contains(v, ".(bool)"): // cached answer
		default:
			bad = nodeString(c, rs)
		}
		return true
	})
	r.Check(n >= 2 && bad == "", "true-only-from-goroot", c.Pos(fd.Pos()), "isStd returns false, the Goroot flag of the located package, or the cached answer"+ternary(bad != "", " (found `"+bad+"`)", ""))
}

// ruleC04DeferredSetup: WritePkgCode emits part of a package at load time and the rest inside
// $pkg.$finishSetup, which runs after EVERY package has been loaded. Code that can mention a named type of
// another package — anonymous composite types ([]T, *T, map[K]V over type arguments), function bodies,
// method lists, type initialisers — must be in the second part: a dependency's generic code instantiated
// with a type of its importer refers to $packages["importer"], which does not exist while the dependency
// loads.
func ruleC04DeferredSetup(c *ctx.Ctx, r *core.Reporter) {
	r.Begin("C04.deferred-setup", "F-PAIR", "WritePkgCode writes AnonTypeDeclCode, FuncDeclCode, MethodListCode and TypeInitCode after it has opened $pkg.$finishSetup", 4)
	fd := c.FuncDecl("compiler", "WritePkgCode")
	if fd == nil {
		r.Undecided("WritePkgCode", "compiler/compiler.go", "not found")
		return
	}
	open := token.NoPos
	ast.Inspect(fd.Body, func(x ast.Node) bool {
		if bl, ok := x.(*ast.BasicLit); ok && strings.Contains(bl.Value, "$pkg.$finishSetup = function() {") && open == token.NoPos {
			open = bl.Pos()
		}
		return true
	})
	if open == token.NoPos {
		r.Undecided("finishSetup-open", c.Pos(fd.Pos()), "the template that opens $pkg.$finishSetup was not found")
		return
	}
	for _, field := range []string{"AnonTypeDeclCode", "FuncDeclCode", "MethodListCode", "TypeInitCode"} {
		pos := token.NoPos
		ast.Inspect(fd.Body, func(x ast.Node) bool {
			if se, ok := x.(*ast.SelectorExpr); ok && se.Sel.Name == field && pos == token.NoPos {
				pos = se.Pos()
			}
			return true
		})
		if pos == token.NoPos {
			r.Undecided("inside-finishSetup:"+field, c.Pos(fd.Pos()), "no write of Decl."+field)
			continue
		}
		r.Check(pos > open, "inside-finishSetup:"+field, c.Pos(pos), "Decl."+field+" is written after `$pkg.$finishSetup = function() {`: it can name types of packages that are loaded later (generic code of a dependency instantiated with the importer's types)")
	}
}

// ruleC02LazyDispatch: the flattened form of an if/else-if ladder or a switch evaluates the conditions one
// after the other, each immediately before its `if (<cond>) { $s = N; continue; }` line: a later
// condition (which can contain a blocking call, or any call with effects) is reached only if the earlier
// ones were false.
func ruleC02LazyDispatch(c *ctx.Ctx, r *core.Reporter) {
	r.Begin("C02.lazy-dispatch", "F-PAIR", "translateBranchingStmt prints the dispatch line of a clause inside the loop that translates that clause's conditions", 1)
	fd := c.FuncDecl("compiler", "funcContext.translateBranchingStmt")
	if fd == nil {
		r.Undecided("translateBranchingStmt", "compiler/statements.go", "not found")
		return
	}
	// the loop over the clauses that translates conditions (calls translateCond)
	var condLoop ast.Node
	ast.Inspect(fd.Body, func(x ast.Node) bool {
		switch l := x.(type) {
		case *ast.RangeStmt:
			if len(callsNamed(l.Body, "translateCond")) > 0 && condLoop == nil {
				condLoop = l
			}
		case *ast.ForStmt:
			if len(callsNamed(l.Body, "translateCond")) > 0 && condLoop == nil {
				condLoop = l
			}
		}
		return true
	})
	if condLoop == nil {
		r.Undecided("cond-loop", c.Pos(fd.Pos()), "no loop that calls translateCond")
		return
	}
	n, inside := 0, 0
	ast.Inspect(fd.Body, func(x ast.Node) bool {
		bl, ok := x.(*ast.BasicLit)
		if !ok || !strings.Contains(bl.Value, "if (%s) { $s = %d; continue; }") {
			return true
		}
		n++
		if condLoop.Pos() <= bl.Pos() && bl.Pos() < condLoop.End() {
			inside++
		}
		return true
	})
	r.Check(n >= 1 && inside == n, "dispatch-line-follows-its-condition", c.Pos(condLoop.Pos()), fmt.Sprintf("%d of %d `if (<cond>) { $s = N; continue; }` templates are printed in the loop that translates the conditions (translated up front, the temporaries and blocking calls of ALL conditions run before the first test)", inside, n))
}

// ruleC10LocalSymbolIsFunction: the local name of a go:linkname directive denotes a package-level
// declaration. A method that happens to have the same name is a different thing; if the lookup takes it
// for the reference, a valid directive is rejected ("must have no body") or applied to the wrong node.
func ruleC10LocalSymbolIsFunction(c *ctx.Ctx, r *core.Reporter) {
	r.Begin("C10.local-symbol", "F-MUST", "lookupTopNode matches a function declaration by name only if it has no receiver", 1)
	fd := c.FuncDecl("compiler/linkname", "lookupTopNode")
	if fd == nil {
		r.Undecided("lookupTopNode", "compiler/linkname/linkname.go", "not found")
		return
	}
	arm := armOf(fd, "*ast.FuncDecl")
	if arm == nil {
		r.Undecided("arm", c.Pos(fd.Pos()), "no *ast.FuncDecl arm")
		return
	}
	ok := false
	ast.Inspect(arm, func(x ast.Node) bool {
		is, isIf := x.(*ast.IfStmt)
		if !isIf {
			return true
		}
		hasName, hasRecv := false, false
		for _, cj := range conjuncts(is.Cond) {
			s := squash(exprStr(cj))
			if strings.HasSuffix(s, ".Name.Name==name") || strings.Contains(s, ".Name.Name==") {
				hasName = true
			}
			if strings.HasSuffix(s, ".Recv==nil") {
				hasRecv = true
			}
		}
		if hasName && hasRecv {
			ok = true
		}
		return true
	})
	r.Check(ok, "functions-only", c.Pos(arm.Pos()), "the name comparison is conjoined with `<decl>.Recv == nil` (a method `func (T) f()` declared before the body-less `func f()` is otherwise taken for the directive's target and the build fails)")
}

// ruleC15UnhashablePanics: using a value of an unhashable dynamic type (slice, map, func, or a struct/array
// containing one) as the key of an interface-keyed map panics with the run-time error "hash of unhashable
// type T". $ifaceKeyFor is where every such key passes; it has to test the type's comparability itself —
// calling the (missing) keyFor of a slice type is a JavaScript TypeError, not a runtime.Error.
func ruleC15UnhashablePanics(c *ctx.Ctx, r *core.Reporter) {
	r.Begin("C15.unhashable", "F-MUST", "$ifaceKeyFor throws a Go run-time error for a dynamic type that is not comparable, before it calls the type's keyFor", 1)
	if !needPrelude(c, r) {
		return
	}
	fn := c.PreludeFunc("$ifaceKeyFor")
	if fn == nil {
		r.Undecided("$ifaceKeyFor", "compiler/prelude/types.js", "not found")
		return
	}
	guard, call := -1, -1
	fn.Walk(func(x *ctx.JSNode) bool {
		if x.Is("IfStatement") && strings.Contains(squash(x.N("test").Src()), ".comparable") && strings.Contains(x.N("consequent").Src(), "$throwRuntimeError") && guard < 0 {
			guard = x.Start
		}
		if x.Is("CallExpression") && x.N("callee").MemberName() == "keyFor" && call < 0 {
			call = x.Start
		}
		return true
	})
	r.Check(guard >= 0 && call >= 0 && guard < call, "guard-before-keyFor", fn.Pos(), "`if (!c.comparable) { $throwRuntimeError(\"hash of unhashable type \" + …) }` precedes `c.keyFor(…)` (without it m[[]int{1}] = 1 on a map[any]int fails with `JavaScript error: c.keyFor is not a function`, which is no runtime.Error)")
}

// ruleC17SessionArchives: an Archive is the translation of a package under ONE preparation of the whole
// program: the generic instances it contains are those the prepared set of sources asked for, and their
// ids come from that preparation. A Session prepares afresh (new types.Context, all sources known so far)
// for every command it builds; an archive kept from an earlier preparation and keyed by import path alone
// is then paired with a program that needs other instances (`gopherjs install ./a ./b`: b.js calls
// lib.Id[2], which the archive compiled for a does not have).
func ruleC17SessionArchives(c *ctx.Ctx, r *core.Reporter) {
	r.Begin("C17.session-archives", "F-PAIR", "a Session method that prepares the sources afresh (types.NewContext) does not reuse archives compiled under an earlier preparation", 1)
	p := c.Pkg("build")
	if p == nil {
		r.Undecided("pkg", "build", "not loaded")
		return
	}
	n := 0
	for _, fd := range c.AllFuncDecls("build") {
		if fd.Body == nil || fd.Recv == nil || c.IsTestFile(fd.Pos()) {
			continue
		}
		fresh := token.NoPos
		ast.Inspect(fd.Body, func(x ast.Node) bool {
			if ce, ok := x.(*ast.CallExpr); ok && exprStr(ce.Fun) == "types.NewContext" && fresh == token.NoPos {
				fresh = ce.Pos()
			}
			return true
		})
		if fresh == token.NoPos {
			continue
		}
		// callees (methods of the receiver) that answer from the archive cache
		reuse := ""
		ast.Inspect(fd.Body, func(x ast.Node) bool {
			ce, ok := x.(*ast.CallExpr)
			if !ok {
				return true
			}
			se, ok := ce.Fun.(*ast.SelectorExpr)
			if !ok {
				return true
			}
			callee := c.FuncDecl("build", "Session."+se.Sel.Name)
			if callee == nil || callee.Body == nil {
				return true
			}
			for _, m := range findGoPattern(callee.Body, `if µa, µok := µs.UpToDateArchives[µk]; µok { return µa, nil }`) {
				_ = m
				reuse = se.Sel.Name
			}
			return true
		})
		if reuse == "" {
			continue
		}
		n++
		reset := hasGoPattern(fd.Body, `µs.UpToDateArchives = map[string]*compiler.Archive{}`) || hasGoPattern(fd.Body, `µs.UpToDateArchives = make(map[string]*compiler.Archive)`)
		r.Check(reset, "reuse:"+ctx.FuncName(fd), c.Pos(fd.Pos()), fmt.Sprintf("%s makes a fresh types.Context and prepares all sources, then lets %s answer from Session.UpToDateArchives, which still holds the archives of the previous preparation (keyed by import path only)", ctx.FuncName(fd), reuse))
	}
	r.Check(n >= 1, "sites", "build/build.go", fmt.Sprintf("%d preparing method(s) that consult the archive cache", n))
	// the preparation covers the program being built, not everything the session has loaded: instance ids are
	// assigned over the prepared set, so the output of `install ./a ./b` for b would differ from `install ./b`
	if fd := c.FuncDecl("build", "Session.prepareAndCompilePackages"); fd != nil {
		root := firstParamName(fd)
		ok := false
		for _, m := range findGoPattern(fd.Body, `compiler.PrepareAllSources(µa, µµrest)`) {
			for _, d := range localAssignments(fd, m.Env["µa"]) {
				if ce, isCall := d.rhs.(*ast.CallExpr); isCall {
					for _, a := range ce.Args {
						if exprStr(a) == root {
							ok = true
						}
					}
				}
			}
		}
		r.Check(ok, "prepares-own-packages", c.Pos(fd.Pos()), "the sources handed to compiler.PrepareAllSources are computed from the root package of the build (its dependency closure), not taken wholesale from the session (instance numbering would depend on what was built before)")
	}
}

// ruleC06Float32From64: a 64-bit integer converted to float32 is rounded ONCE. Going through a float64
// ($flatten64) rounds to 53 bits first; when that lands exactly between two float32 values the second
// rounding ties to even although the integer was above or below the midpoint. The conversion therefore needs
// a path of its own for 64-bit operands, which keeps the discarded bits as a sticky bit (round to odd).
func ruleC06Float32From64(c *ctx.Ctx, r *core.Reporter) {
	r.Begin("C06.float32-from-64", "F-MUST", "the conversion of a 64-bit integer to float32 does not go through $fround($flatten64(x)): translateConversion sends 64-bit operands to a prelude helper that folds the bits a float64 cannot hold into a sticky bit before the one rounding", 2)
	fd := c.FuncDecl("compiler", "funcContext.translateConversion")
	if fd == nil {
		r.Undecided("translateConversion", "compiler/expressions.go", "not found")
		return
	}
	helper := ""
	site := fd.Pos()
	ast.Inspect(fd.Body, func(x ast.Node) bool {
		is, ok := x.(*ast.IfStmt)
		if !ok || !strings.Contains(exprStr(is.Cond), "is64Bit(") {
			return true
		}
		// inside the Float32 branch
		inF32 := false
		for _, g := range guardsAt(fd.Body, is.Pos()) {
			if strings.Contains(exprStr(g.Cond), "types.Float32") && !g.Negated {
				inF32 = true
			}
		}
		if !inF32 {
			return true
		}
		ast.Inspect(is.Body, func(y ast.Node) bool {
			if bl, ok := y.(*ast.BasicLit); ok && strings.HasPrefix(bl.Value, `"$`) && strings.Contains(bl.Value, "(%e)") {
				helper = strings.TrimSuffix(strings.Trim(bl.Value, `"`), "(%e)")
				site = bl.Pos()
			}
			return true
		})
		return true
	})
	r.Check(helper != "" && helper != "$fround" && helper != "$flatten64", "conv:64-bit-operand-has-own-path", c.Pos(site), "under the float32 case, `is64Bit(<operand type>)` selects a helper of its own"+ternary(helper != "", " ("+helper+")", " (none found: float32(int64) is $fround($flatten64(x)), which rounds twice)"))
	if helper == "" || !needPrelude(c, r) {
		return
	}
	fn := c.PreludeFunc(helper)
	if fn == nil {
		r.Violation("helper:sticky-bit", "compiler/prelude/numeric.js", helper+" is not declared in the prelude")
		return
	}
	src := squash(fn.Src())
	sticky := (strings.Contains(src, "&0x7FF") || strings.Contains(src, "&2047")) && strings.Contains(src, "|") && strings.Contains(src, "$fround(")
	r.Check(sticky, "helper:sticky-bit", fn.Pos(), helper+" masks the 11 low bits that do not fit into a float64, ORs their presence into the lowest kept bit, and rounds once with $fround")
}

// ruleC06ExactConstants: constant.Int64Val / Uint64Val report whether the value was representable; a result
// taken with the flag discarded (`d, _ :=`) wraps silently. The template verbs that print integer constants
// (%f: the whole value as a JavaScript number — a uint64 shift count of 1<<63 must not come out as
// -9223372036854775808) have to print the exact digits or check the flag.
func ruleC06ExactConstants(c *ctx.Ctx, r *core.Reporter) {
	r.Begin("C06.exact-constants", "F-MUST", "the %f verb of formatExprInternal prints an integer constant from its exact value, not from an int64 obtained with the exactness flag discarded", 1)
	fd := c.FuncDecl("compiler", "funcContext.formatExprInternal")
	if fd == nil {
		r.Undecided("formatExprInternal", "compiler/expressions.go", "not found")
		return
	}
	var arm *ast.CaseClause
	ast.Inspect(fd.Body, func(x ast.Node) bool {
		if cc, ok := x.(*ast.CaseClause); ok {
			for _, l := range cc.List {
				if exprStr(l) == "'f'" {
					arm = cc
				}
			}
		}
		return true
	})
	if arm == nil {
		r.Undecided("verb-f", c.Pos(fd.Pos()), "no case 'f'")
		return
	}
	exact := false
	ast.Inspect(arm, func(x ast.Node) bool {
		if ce, ok := x.(*ast.CallExpr); ok {
			if se, ok := ce.Fun.(*ast.SelectorExpr); ok && se.Sel.Name == "ExactString" {
				exact = true
			}
		}
		return true
	})
	// an unguarded truncation that is reached first
	truncFirst := false
	for _, m := range findGoPattern(arm, `µd, _ := constant.Int64Val(µx)`) {
		gs := guardsAt(arm, m.Node.Pos())
		// fine if it sits behind the exact path (i.e. only reached for non-integer constants) — we accept it
		// only when an ExactString path exists and precedes it
		_ = gs
		if !exact {
			truncFirst = true
		}
	}
	r.Check(exact && !truncFirst, "verb-f:exact-digits", c.Pos(arm.Pos()), "an integer constant operand of %f is written with constant.Value.ExactString() (the digits of the whole value): `x << (1<<63)` with a uint64 count must hand 9223372036854775808 to $shiftLeft64, not the wrapped int64")
}

// ruleC03ShiftedIsRun: $runScheduled takes a goroutine off the run queue with shift(); from that moment the
// queue no longer knows it. It has to be run before the loop can be left (the 4 ms time-slice check) — a
// `break` between the shift and the call drops a runnable goroutine for good, and because it still counts
// as awake the deadlock detector says nothing.
func ruleC03ShiftedIsRun(c *ctx.Ctx, r *core.Reporter) {
	r.Begin("C03.shifted-is-run", "F-PAIR", "in $runScheduled the goroutine taken from $scheduled is called before any statement that can leave the loop", 1)
	if !needPrelude(c, r) {
		return
	}
	fn := c.PreludeFunc("$runScheduled")
	if fn == nil {
		r.Undecided("$runScheduled", "compiler/prelude/goroutines.js", "not found")
		return
	}
	n := 0
	fn.Walk(func(x *ctx.JSNode) bool {
		if !x.Is("WhileStatement") || !strings.Contains(squash(x.N("test").Src()), "$scheduled.shift()") {
			return true
		}
		n++
		// the variable the test assigns
		v := ""
		x.N("test").Walk(func(y *ctx.JSNode) bool {
			if y.Is("AssignmentExpression") && y.N("left").Is("Identifier") && v == "" {
				v = y.N("left").IdentName()
			}
			return true
		})
		call, leave := -1, -1
		x.N("body").Walk(func(y *ctx.JSNode) bool {
			if y.IsFunc() {
				return false
			}
			if y.Is("CallExpression") && y.N("callee").IdentName() == v && call < 0 {
				call = y.Start
			}
			if y.Is("BreakStatement", "ReturnStatement", "ContinueStatement") && leave < 0 {
				leave = y.Start
			}
			return true
		})
		r.Check(v != "" && call >= 0 && (leave < 0 || call < leave), fmt.Sprintf("run-before-leave#%d", n), x.Pos(), fmt.Sprintf("`%s()` comes before the first break/return/continue of the loop body (the goroutine is already off the queue)", v))
		return true
	})
	r.Check(n >= 1, "sites", fn.Pos(), fmt.Sprintf("%d scheduling loop(s)", n))
}

// ruleC09ReceiverClone: a value-receiver method called through a pointer gets a COPY of the pointee when the
// receiver type is a struct or an array. Which it is, is a property of the method's receiver type — the
// operand's type is a pointer and never matches.
func ruleC09ReceiverClone(c *ctx.Ctx, r *core.Reporter) {
	r.Begin("C09.receiver-clone", "F-KEY", "in makeReceiver the $clone of the pointer case is decided by, and made with, the method's receiver type", 1)
	fd := c.FuncDecl("compiler", "funcContext.makeReceiver")
	if fd == nil {
		r.Undecided("makeReceiver", "compiler/expressions.go", "not found")
		return
	}
	ok := false
	for _, m := range findGoPattern(fd.Body, `switch µm.Underlying().(type) { case *types.Struct, *types.Array: µr = µfc.formatExpr("$clone(%s, %s)", µr, µfc.typeName(µm)) }`) {
		// µm is the receiver type of the method: <sel>.Obj().Type().(*types.Signature).Recv().Type()
		for _, d := range localAssignments(fd, m.Env["µm"]) {
			if strings.Contains(exprStr(d.rhs), ".Recv().Type()") {
				ok = true
			}
		}
	}
	r.Check(ok, "clone-by-method-receiver-type", c.Pos(fd.Pos()), "`switch <T>.Underlying().(type) { case *types.Struct, *types.Array: recv = $clone(recv, <T>) }` with <T> the receiver type of the method (sel.Obj().Type().(*types.Signature).Recv().Type()); with the operand's pointer type the arm never matches and p.M() works on the pointee itself")
}

// ruleC05DepsInsideCollector: the DCE dependencies of a declaration are whatever DeclareDCEDep is told while
// pkgCtx.CollectDCEDeps(decl, func) runs its callback. Every translation helper that names other objects
// (typeName, methodListEntry, objectName, instName, zeroValue, initArgs, translate…) tells it as a side
// effect — but only inside the callback. Code text computed before or after the callback carries no
// dependency: the declaration keeps mentioning a type that dead-code elimination then removes.
func ruleC05DepsInsideCollector(c *ctx.Ctx, r *core.Reporter) {
	r.Begin("C05.deps-inside", "F-WHO", "in every function that collects DCE dependencies for a declaration, the helpers that name other objects are called only inside the CollectDCEDeps callback", 4)
	declaring := map[string]bool{"typeName": true, "methodListEntry": true, "zeroValue": true, "initArgs": true, "translateExpr": true, "translateStmt": true, "translateStmtList": true, "translateTopLevelFunction": true, "translateConversion": true, "translateImplicitConversion": true, "methodName": true}
	n := 0
	for _, fd := range c.AllFuncDecls("compiler") {
		if fd.Body == nil || c.IsTestFile(fd.Pos()) {
			continue
		}
		var callbacks []*ast.FuncLit
		ast.Inspect(fd.Body, func(x ast.Node) bool {
			ce, ok := x.(*ast.CallExpr)
			if !ok {
				return true
			}
			if se, ok := ce.Fun.(*ast.SelectorExpr); ok && se.Sel.Name == "CollectDCEDeps" && len(ce.Args) == 2 {
				if fl, ok := ce.Args[1].(*ast.FuncLit); ok {
					callbacks = append(callbacks, fl)
				}
			}
			return true
		})
		if len(callbacks) == 0 {
			continue
		}
		n++
		outside := ""
		ast.Inspect(fd.Body, func(x ast.Node) bool {
			ce, ok := x.(*ast.CallExpr)
			if !ok {
				return true
			}
			se, ok := ce.Fun.(*ast.SelectorExpr)
			if !ok || !declaring[se.Sel.Name] {
				return true
			}
			for _, cb := range callbacks {
				if cb.Pos() <= ce.Pos() && ce.Pos() < cb.End() {
					return true
				}
			}
			if why, reviewed := depsOutsideReviewed[ctx.FuncName(fd)+":"+se.Sel.Name]; reviewed {
				_ = why
				return true
			}
			if outside == "" {
				outside = exprStr(ce.Fun) + " at " + c.Pos(ce.Pos())
			}
			return true
		})
		r.Check(outside == "", "deps-inside:"+ctx.FuncName(fd), c.Pos(fd.Pos()), ctx.FuncName(fd)+": every object-naming helper is called inside the CollectDCEDeps callback"+ternary(outside != "", " (outside: "+outside+" — what it names is not recorded as a dependency of the declaration)", ""))
	}
	r.Check(n >= 4, "sites", "compiler/decls.go", fmt.Sprintf("%d functions collect DCE dependencies", n))
}

// calls of object-naming helpers outside the collector callback that are right as they are
var depsOutsideReviewed = map[string]string{
	"funcContext.newFuncDecl:translateStmt": "the InitCode of an init function calls that function itself; the declaration is marked alive unconditionally in the same arm",
}

// ruleStatementTemplatesTerminated: the minifier removes line breaks, so a JavaScript statement the compiler
// prints must end in `;` (or in a brace / label colon / comment) by itself: relying on automatic semicolon
// insertion at the end of the line works in the plain build only.
func ruleStatementTemplatesTerminated(c *ctx.Ctx, r *core.Reporter) {
	r.Begin("C16.stmt-end", "F-LEX", "every statement template handed to funcContext.Printf ends in `;`, `{`, `}`, `:` or a comment", 50)
	n := 0
	for _, t := range usableTemplates(c) {
		if t.Sink != "Printf" || t.ArgIndex != 0 {
			continue
		}
		txt := strings.TrimSpace(t.Text)
		bare := strings.TrimSpace(commentHoleRe.ReplaceAllString(txt, ""))
		if txt == "" || (strings.HasPrefix(bare, "⟨") && strings.HasSuffix(bare, "⟩") && strings.Count(bare, "⟨") == 1) {
			continue // nothing but one hole: an already formed statement is passed through
		}
		n++
		rs := []rune(txt)
		last := rs[len(rs)-1]
		ok := last == ';' || last == '{' || last == '}' || last == ':' || strings.HasSuffix(txt, "*/")
		r.Check(ok, "stmt-end:"+t.Key(), c.Pos(t.Pos), "`"+t.Text+"` ends a statement explicitly"+ternary(ok, "", " (it ends in `"+string(last)+"`: under -m the next statement is glued to it)"))
	}
	r.Check(n >= 50, "templates", "compiler", fmt.Sprintf("%d statement templates examined", n))
}

// ruleC07ReceiverCopy: a value receiver of struct or array type is the method's own copy. Direct calls hand
// one over (makeReceiver clones), but a call through an interface, a method value or a method expression
// passes the stored object itself; the method has to make the copy when its body can change the receiver.
func ruleC07ReceiverCopy(c *ctx.Ctx, r *core.Reporter) {
	r.Begin("C07.receiver-copy", "F-MUST", "translateFunctionBody binds a struct/array value receiver to a $clone of `this` when a may-modify analysis of the body says so, and that analysis knows every way a variable can be changed", 2)
	fd := c.FuncDecl("compiler", "funcContext.translateFunctionBody")
	if fd == nil {
		r.Undecided("translateFunctionBody", "compiler/functions.go", "not found")
		return
	}
	// the type switch on struct/array that guards the $clone of the receiver
	helper := ""
	unconditional := false
	site := fd.Pos()
	ast.Inspect(fd.Body, func(x ast.Node) bool {
		cc, ok := x.(*ast.CaseClause)
		if !ok {
			return true
		}
		labs := map[string]bool{}
		for _, l := range cc.List {
			labs[exprStr(l)] = true
		}
		if !(labs["*types.Struct"] && labs["*types.Array"]) {
			return true
		}
		for _, st := range cc.Body {
			if _, isIf := st.(*ast.IfStmt); isIf {
				continue
			}
			ast.Inspect(st, func(z ast.Node) bool {
				if bl, ok := z.(*ast.BasicLit); ok && strings.Contains(bl.Value, "$clone(") {
					unconditional = true
					site = st.Pos()
				}
				return true
			})
		}
		ast.Inspect(cc, func(y ast.Node) bool {
			is, ok := y.(*ast.IfStmt)
			if !ok {
				return true
			}
			clones := false
			ast.Inspect(is.Body, func(z ast.Node) bool {
				if bl, ok := z.(*ast.BasicLit); ok && strings.Contains(bl.Value, "$clone(") {
					clones = true
				}
				return true
			})
			if ce, ok := is.Cond.(*ast.CallExpr); ok && clones {
				if se, ok := ce.Fun.(*ast.SelectorExpr); ok {
					helper = se.Sel.Name
					site = is.Pos()
				}
			}
			return true
		})
		return true
	})
	if unconditional {
		r.OK("prologue-clones-modified-receiver", c.Pos(site), "under `case *types.Struct, *types.Array` the receiver is always bound to `$clone(this, T)`")
		r.OK("predicate-covers-modifications", c.Pos(site), "no predicate: every struct/array value receiver is copied")
		return
	}
	r.Check(helper != "", "prologue-clones-modified-receiver", c.Pos(site), "under `case *types.Struct, *types.Array` the receiver is bound to `$clone(this, T)` when the may-modify predicate holds (interface calls, method values and method expressions pass the stored value itself: `var i I = s; i.Bump(); i.Bump()` would count 1, 2)"+ternary(helper != "", " (predicate: "+helper+")", ""))
	if helper == "" {
		return
	}
	hd := c.FuncDecl("compiler", "funcContext."+helper)
	if hd == nil {
		r.Undecided("predicate", c.Pos(site), helper+" not found")
		return
	}
	covers := map[string]bool{}
	ast.Inspect(hd.Body, func(x ast.Node) bool {
		if cc, ok := x.(*ast.CaseClause); ok {
			for _, l := range cc.List {
				covers[exprStr(l)] = true
			}
		}
		return true
	})
	var missing []string
	for _, k := range []string{"*ast.AssignStmt", "*ast.IncDecStmt", "*ast.RangeStmt", "*ast.UnaryExpr", "*ast.SliceExpr", "*ast.SelectorExpr"} {
		if !covers[k] {
			missing = append(missing, k)
		}
	}
	r.Check(len(missing) == 0, "predicate-covers-modifications", c.Pos(hd.Pos()), fmt.Sprintf("%s looks at assignments, ++/--, range targets, & (address), slicing of arrays and pointer-receiver method selections%s", helper, ternary(len(missing) > 0, fmt.Sprintf(" — no arm for %v", missing), "")))
}

// ruleNegativeShift: a shift whose count has a signed type panics at run time when the count is negative
// ("negative shift amount"). JavaScript masks the count to five bits instead (`5 << -1` is -2147483648), so
// every non-constant shift has to test the count: the 32-bit templates through a checking helper chosen when
// the count's type is not unsigned, the 64-bit helpers in their own bodies.
func ruleNegativeShift(c *ctx.Ctx, r *core.Reporter) {
	r.Begin("C06.negative-shift", "F-MUST", "every non-constant shift tests its count for negativity before shifting: 32-bit templates take the count through a throwing helper unless the count's type is unsigned, the 64-bit shift helpers throw on y < 0", 5)
	fd := c.FuncDecl("compiler", "funcContext.translateExpr")
	if fd == nil {
		r.Undecided("translateExpr", "compiler/expressions.go", "not found")
		return
	}
	if !needPrelude(c, r) {
		return
	}
	// throwsOnNegative: a top-level `if (<param> < 0) { ...$throwRuntimeError(...) }` before the first statement that returns
	throwsOnNegative := func(fn *ctx.JSNode, param int) bool {
		ps := fn.L("params")
		if param >= len(ps) || !fn.N("body").Is("BlockStatement") {
			return false
		}
		p := ps[param].IdentName()
		for _, st := range fn.N("body").L("body") {
			if st.Is("IfStatement") && squash(st.N("test").Src()) == p+"<0" {
				throws := false
				st.N("consequent").Walk(func(y *ctx.JSNode) bool {
					if y.Is("CallExpression") && (y.N("callee").IdentName() == "$throwRuntimeError" || y.N("callee").IdentName() == "$panic") {
						throws = true
					}
					if y.Is("ThrowStatement") {
						throws = true
					}
					return true
				})
				return throws
			}
			returns := false
			st.Walk(func(y *ctx.JSNode) bool {
				if y.IsFunc() {
					return false
				}
				if y.Is("ReturnStatement") {
					returns = true
				}
				return true
			})
			if returns {
				return false
			}
		}
		return false
	}
	var arm32 *ast.CaseClause
	var arms64 []*ast.CaseClause
	ast.Inspect(fd.Body, func(x ast.Node) bool {
		cc, ok := x.(*ast.CaseClause)
		if !ok {
			return true
		}
		labs := map[string]bool{}
		for _, l := range cc.List {
			labs[exprStr(l)] = true
		}
		switch {
		case labs["token.SHL"] && labs["token.SHR"] && len(cc.List) == 2:
			arm32 = cc
		case (labs["token.SHL"] || labs["token.SHR"]) && len(cc.List) == 1:
			arms64 = append(arms64, cc)
		}
		return true
	})
	if arm32 == nil || len(arms64) == 0 {
		r.Undecided("arms", c.Pos(fd.Pos()), fmt.Sprintf("shift arms of translateExpr not found (32-bit: %v, 64-bit: %d)", arm32 != nil, len(arms64)))
		return
	}
	// 32-bit arm: the checked count
	helper := ""
	guarded := false
	helperSite := arm32.Pos()
	ast.Inspect(arm32, func(x ast.Node) bool {
		as, ok := x.(*ast.AssignStmt)
		if !ok || len(as.Rhs) != 1 {
			return true
		}
		ce, ok := as.Rhs[0].(*ast.CallExpr)
		if !ok || len(ce.Args) != 2 || exprStr(ce.Args[1]) != "e.Y" {
			return true
		}
		bl, ok := ce.Args[0].(*ast.BasicLit)
		if !ok {
			return true
		}
		t := strings.Trim(bl.Value, "`\"")
		if strings.HasPrefix(t, "$") && strings.HasSuffix(t, "(%f)") {
			helper = strings.TrimSuffix(t, "(%f)")
			helperSite = as.Pos()
			inner := 0
			for _, g := range guardsAt(arm32, as.Pos()) {
				inner++
				cond := squash(exprStr(g.Cond))
				if strings.Contains(cond, "!isUnsigned(") && !g.Negated {
					guarded = true
				}
			}
			if inner == 0 {
				guarded = true // every count is checked, whatever its type
			}
		}
		return true
	})
	r.Check(helper != "", "count32:checked-count", c.Pos(helperSite), "the arm of `<<`/`>>` on 32-bit operands forms the count with a checking helper `$helper(%f)` of e.Y"+ternary(helper != "", " ("+helper+")", ""))
	if helper != "" {
		r.Check(guarded, "count32:unless-unsigned", c.Pos(helperSite), "the checking helper is left out only when the count's type is unsigned (`!isUnsigned(<type of e.Y>)` guards the wrapped form)")
		if fn := c.PreludeFunc(helper); fn == nil {
			r.Violation("count32:helper-throws", "compiler/prelude/numeric.js", helper+" is not declared in the prelude")
		} else {
			ret := false
			fn.Walk(func(y *ctx.JSNode) bool {
				if y.Is("ReturnStatement") && len(fn.L("params")) > 0 && y.N("argument").IdentName() == fn.L("params")[0].IdentName() {
					ret = true
				}
				return true
			})
			r.Check(throwsOnNegative(fn, 0) && ret, "count32:helper-throws", fn.Pos(), helper+" throws a run-time error when its argument is below zero and returns the argument otherwise")
		}
	}
	// no other template of the non-constant part takes e.Y directly
	n := 0
	var bad []string
	badSite := ""
	ast.Inspect(arm32, func(x ast.Node) bool {
		ce, ok := x.(*ast.CallExpr)
		if !ok || len(ce.Args) < 2 {
			return true
		}
		bl, ok := ce.Args[0].(*ast.BasicLit)
		if !ok {
			return true
		}
		takesY := false
		for _, a := range ce.Args[1:] {
			if exprStr(a) == "e.Y" {
				takesY = true
			}
		}
		if !takesY {
			return true
		}
		for _, g := range guardsAt(fd.Body, ce.Pos()) {
			if strings.Contains(exprStr(g.Cond), ".Value") && strings.Contains(exprStr(g.Cond), "!= nil") && !g.Negated {
				return true // the constant-count branch: a constant count is never negative (type checker)
			}
		}
		t := strings.Trim(bl.Value, "`\"")
		n++
		if !(t == "%f" || (helper != "" && t == helper+"(%f)")) {
			bad = append(bad, fmt.Sprintf("%s %q", c.Pos(ce.Pos()), t))
			if badSite == "" {
				badSite = c.Pos(ce.Pos())
			}
		}
		return true
	})
	if badSite == "" {
		badSite = c.Pos(arm32.Pos())
	}
	// one obligation for all templates: how many there are is a matter of style
	r.Check(len(bad) == 0, "count32:templates", badSite, fmt.Sprintf("the %d template(s) of the non-constant part that take e.Y only form the (checked) count, none shifts by e.Y directly%s", n, ternary(len(bad) > 0, fmt.Sprintf(" — shifting by the raw count: %v", bad), "")))
	// 64-bit arms: the helpers named by the templates
	seen := map[string]bool{}
	for _, cc := range arms64 {
		ast.Inspect(cc, func(x ast.Node) bool {
			bl, ok := x.(*ast.BasicLit)
			if !ok || !strings.Contains(bl.Value, "$shift") {
				return true
			}
			t := strings.Trim(bl.Value, "`\"")
			name := t[:strings.Index(t, "(")]
			var names []string
			if strings.Contains(name, "%s") {
				for _, k := range []string{"Int64", "Uint64"} {
					names = append(names, strings.Replace(name, "%s", k, 1))
				}
			} else {
				names = []string{name}
			}
			wrapped := helper != "" && strings.Contains(t, helper+"(%f)")
			for _, nm := range names {
				if seen[nm] {
					continue
				}
				seen[nm] = true
				fn := c.PreludeFunc(nm)
				if fn == nil {
					r.Violation("count64:"+nm, c.Pos(bl.Pos()), nm+" is not declared in the prelude")
					continue
				}
				r.Check(wrapped || throwsOnNegative(fn, 1), "count64:"+nm, fn.Pos(), nm+" throws a run-time error when the count is below zero, before any result is formed")
			}
			return true
		})
	}
	r.Check(len(seen) >= 3, "count64:sites", c.Pos(fd.Pos()), fmt.Sprintf("%d 64-bit shift helpers named by the templates (<<, >> signed, >> unsigned)", len(seen)))
}

// ruleC18TagsSplit: "the tags given on the command line" are a comma-separated list for the go command (the
// space-separated form is still accepted). A splitter that knows white space only turns `--tags a,b` into the
// one tag "a,b", which satisfies nothing: the guarded files silently drop out of the build.
func ruleC18TagsSplit(c *ctx.Ctx, r *core.Reporter) {
	r.Begin("C18.tags-split", "F-TABLE", "every command hands Options.BuildTags a list split from the --tags value at commas (and white space)", 2)
	p := c.Pkg("")
	if p == nil {
		r.Undecided("pkg", "tool.go", "root package not loaded")
		return
	}
	// commaAware: the expression (or the body of the package-level function it calls) splits at ','
	hasCommaLit := func(n ast.Node) bool {
		found := false
		ast.Inspect(n, func(x ast.Node) bool {
			if bl, ok := x.(*ast.BasicLit); ok && (bl.Value == `','` || bl.Value == `","` || bl.Value == "`,`" || strings.Contains(bl.Value, ",") && (bl.Kind == token.STRING || bl.Kind == token.CHAR) && len(bl.Value) <= 6) {
				found = true
			}
			return true
		})
		return found
	}
	decls := map[types.Object]*ast.FuncDecl{}
	for _, f := range p.Syntax {
		for _, d := range f.Decls {
			if fd, ok := d.(*ast.FuncDecl); ok && fd.Recv == nil {
				decls[p.TypesInfo.Defs[fd.Name]] = fd
			}
		}
	}
	n := 0
	for _, f := range p.Syntax {
		if c.IsTestFile(f.Pos()) {
			continue
		}
		ast.Inspect(f, func(x ast.Node) bool {
			as, ok := x.(*ast.AssignStmt)
			if !ok || len(as.Lhs) != 1 || len(as.Rhs) != 1 {
				return true
			}
			se, ok := as.Lhs[0].(*ast.SelectorExpr)
			if !ok || se.Sel.Name != "BuildTags" {
				return true
			}
			n++
			rhs := ast.Unparen(as.Rhs[0])
			ok2 := hasCommaLit(rhs)
			how := "inline"
			if ce, isCall := rhs.(*ast.CallExpr); isCall && !ok2 {
				if id, isId := ce.Fun.(*ast.Ident); isId {
					if fd := decls[p.TypesInfo.Uses[id]]; fd != nil && fd.Body != nil {
						ok2 = hasCommaLit(fd.Body)
						how = "through " + fd.Name.Name
					}
				}
			}
			r.Check(ok2, fmt.Sprintf("split#%d", n), c.Pos(as.Pos()), fmt.Sprintf("`%s` splits the flag value at commas (%s)%s", nodeString(c, as), how, ternary(!ok2, " — `--tags a,b` becomes the single tag \"a,b\"", "")))
			return true
		})
	}
	r.Check(n >= 4, "sites", "tool.go", fmt.Sprintf("%d assignments to Options.BuildTags (build, install, run, test, serve)", n))
}

// ruleC11TagIdentifier: a `js:"name"` tag is emitted in dot notation only when the name is a JavaScript
// identifier. Of the Unicode numbers only decimal digits (Nd, not first) and letter numbers (Nl) are
// identifier characters: `unicode.IsNumber` also admits ² and ½, and `.x²` is a syntax error that keeps the
// whole program from loading.
func ruleC11TagIdentifier(c *ctx.Ctx, r *core.Reporter) {
	r.Begin("C11.tag-identifier", "F-LEX", "formatJSStructTagVal takes the dot notation only for characters JavaScript allows in an identifier: no unicode.IsNumber, digits only after the first character", 2)
	fd := c.FuncDecl("compiler", "formatJSStructTagVal")
	if fd == nil {
		r.Undecided("formatJSStructTagVal", "compiler/utils.go", "not found")
		return
	}
	var preds []string
	digitFirst := false
	site := fd.Pos()
	ast.Inspect(fd.Body, func(x ast.Node) bool {
		ce, ok := x.(*ast.CallExpr)
		if !ok {
			return true
		}
		se, ok := ce.Fun.(*ast.SelectorExpr)
		if !ok || exprStr(se.X) != "unicode" {
			return true
		}
		preds = append(preds, se.Sel.Name)
		if se.Sel.Name == "IsNumber" {
			site = ce.Pos()
		}
		return true
	})
	// a digit test has to sit in a conjunction with a test of the index
	ast.Inspect(fd.Body, func(x ast.Node) bool {
		ce, ok := x.(*ast.CallExpr)
		if !ok {
			return true
		}
		if se, ok := ce.Fun.(*ast.SelectorExpr); !ok || exprStr(se.X) != "unicode" || se.Sel.Name != "IsDigit" {
			return true
		}
		guarded := false
		ast.Inspect(fd.Body, func(y ast.Node) bool {
			be, ok := y.(*ast.BinaryExpr)
			if !ok || be.Op != token.LAND || !(be.Pos() <= ce.Pos() && ce.End() <= be.End()) {
				return true
			}
			for _, cj := range conjuncts(be) {
				s := squash(exprStr(cj))
				if s == "i!=0" || s == "i>0" || s == "0<i" || s == "0!=i" || s == "i>=1" {
					guarded = true
				}
			}
			return true
		})
		if !guarded {
			for _, g := range guardsAt(fd.Body, ce.Pos()) {
				s := squash(exprStr(g.Cond))
				if (s == "i!=0" || s == "i>0") && !g.Negated {
					guarded = true
				}
			}
		}
		if !guarded {
			digitFirst = true
			site = ce.Pos()
		}
		return true
	})
	hasNumber := false
	for _, p := range preds {
		if p == "IsNumber" {
			hasNumber = true
		}
	}
	r.Check(len(preds) > 0, "predicates", c.Pos(fd.Pos()), fmt.Sprintf("identifier characters are classified with unicode.%v", preds))
	r.Check(!hasNumber, "no-IsNumber", c.Pos(site), "no character is admitted by unicode.IsNumber (category No — ², ½, ① — is not part of a JavaScript identifier: `.x²` does not parse)")
	r.Check(!digitFirst, "digit-not-first", c.Pos(site), "a decimal digit is admitted only after the first character (`.1a` does not parse)")
}

// ruleOperandOrder: Go evaluates the operands of a binary operation left to right, and both of them whatever
// their values. A template that places the right operand's hole before the left one's, or the left one's
// behind a `?`, changes the order of (or drops) the operand's side effects: `x() << n()` printed "n" before
// "x", and did not call x at all for n >= 32. Such a template is only sound where the left operand is known
// to have no side effects.
func ruleOperandOrder(c *ctx.Ctx, r *core.Reporter) {
	r.Begin("C01.operand-order", "F-PAIR", "in every expression template that takes e.X and e.Y, the first hole of e.X precedes the first hole of e.Y and any `?`, unless the site is guarded by the absence of side effects in e.X", 2)
	info := c.Pkg("compiler").TypesInfo
	holeRe := regexp.MustCompile(`⟨(\d+)⟩`)
	n := 0
	var bad []string
	badSite := ""
	for _, t := range usableTemplates(c) {
		if t.Call == nil || (t.Sink != "formatExpr" && t.Sink != "formatParenExpr") {
			continue
		}
		fd := c.FuncDecl("compiler", t.Func)
		if fd == nil {
			continue
		}
		args := t.FmtArgs()
		role := func(a ast.Expr) string {
			s := exprStr(a)
			switch s {
			case "e.X":
				return "X"
			case "e.Y":
				return "Y"
			}
			if id, ok := a.(*ast.Ident); ok {
				derived := false
				for _, d := range localAssignments(fd, id.Name) {
					if strings.Contains(exprStr(d.rhs), "e.Y") {
						derived = true
					}
				}
				if derived {
					return "Y"
				}
			}
			return ""
		}
		// an argument used by more than one expression hole is hoisted into a temporary in front of the
		// template, in argument order (formatExprInternal): its place in the text does not matter
		uses := map[int]int{}
		for _, h := range t.Holes {
			switch h.Verb {
			case 'e', 'f', 'h', 'l', 'r', 'i':
				uses[h.Index]++
			}
		}
		first := map[string]int{}
		for _, m := range holeRe.FindAllStringSubmatchIndex(t.Text, -1) {
			k, _ := strconv.Atoi(t.Text[m[2]:m[3]])
			if k < 0 || k >= len(t.Holes) {
				continue
			}
			h := t.Holes[k]
			if h.Index < 0 || h.Index >= len(args) {
				continue
			}
			ro := role(args[h.Index])
			if ro == "" {
				continue
			}
			if ro == "X" {
				if tv, ok := info.Types[args[h.Index]]; !ok || !strings.Contains(tv.Type.String(), "ast.") {
					continue
				}
			}
			at := m[0]
			if uses[h.Index] > 1 {
				at = -1000 + h.Index
			}
			if prev, seen := first[ro]; !seen || at < prev {
				first[ro] = at
			}
		}
		px, okx := first["X"]
		py, oky := first["Y"]
		if !okx || !oky {
			continue
		}
		n++
		q := strings.Index(t.Text, "?")
		wrong := px > py || (q >= 0 && px > q)
		if !wrong {
			continue
		}
		pure := false
		for _, g := range guardsAt(fd.Body, t.Call.Pos()) {
			s := squash(exprStr(g.Cond))
			if strings.Contains(s, "HasSideEffect(e.X") && strings.HasPrefix(s, "!") && !g.Negated {
				pure = true
			}
			if strings.Contains(s, "HasSideEffect(e.X") && !strings.HasPrefix(s, "!") && g.Negated {
				pure = true
			}
		}
		if !pure {
			bad = append(bad, fmt.Sprintf("%s `%s`", c.Pos(t.Pos), t.Text))
			if badSite == "" {
				badSite = c.Pos(t.Pos)
			}
		}
	}
	if badSite == "" {
		badSite = "compiler/expressions.go"
	}
	r.Check(len(bad) == 0, "order", badSite, fmt.Sprintf("%d templates take both operands; in each the left operand comes first and unconditionally, or the site is guarded by !HasSideEffect(e.X)%s", n, ternary(len(bad) > 0, fmt.Sprintf(" — the right operand is evaluated first, or the left one only on one branch: %v", bad), "")))
	r.Check(n >= 20, "templates", "compiler", fmt.Sprintf("%d two-operand templates examined", n))
}

// ruleC11ArrayBufferOffset: the backing array of a []byte may be a typed-array VIEW that starts inside its
// buffer (a slice internalized from `new Uint8Array(buf, 8, 4)` or from a pooled Node.js Buffer). Whoever
// goes from the slice down to `$array.buffer` has to add the view's byteOffset to the slice's $offset.
func ruleC11ArrayBufferOffset(c *ctx.Ctx, r *core.Reporter) {
	r.Begin("C11.arraybuffer-offset", "F-KEY", "js.NewArrayBuffer cuts the backing buffer at byteOffset + $offset of the slice, not at $offset alone", 2)
	fd := c.FuncDecl("js", "NewArrayBuffer")
	if fd == nil {
		r.Undecided("NewArrayBuffer", "js/js.go", "not found")
		return
	}
	// the call that reaches into `.buffer` and slices it
	var cut *ast.CallExpr
	ast.Inspect(fd.Body, func(x ast.Node) bool {
		ce, ok := x.(*ast.CallExpr)
		if !ok || len(ce.Args) < 2 {
			return true
		}
		if se, ok := ce.Fun.(*ast.SelectorExpr); ok && se.Sel.Name == "Call" && strings.Contains(exprStr(se.X), `"buffer"`) && exprStr(ce.Args[0]) == `"slice"` {
			cut = ce
		}
		return true
	})
	if cut == nil {
		// another route: a copy made from the view itself (`array.Call("slice", a, b).Get("buffer")`) starts at
		// byte 0 of a fresh buffer; only a direct read of the view's buffer needs the byteOffset
		direct := false
		ast.Inspect(fd.Body, func(x ast.Node) bool {
			if ce, ok := x.(*ast.CallExpr); ok && len(ce.Args) == 1 && exprStr(ce.Args[0]) == `"buffer"` {
				if se, ok := ce.Fun.(*ast.SelectorExpr); ok && se.Sel.Name == "Get" && !strings.Contains(exprStr(se.X), ".Call(") && !strings.Contains(exprStr(se.X), ".New(") {
					direct = true
				}
			}
			return true
		})
		if direct {
			r.Undecided("start", c.Pos(fd.Pos()), "NewArrayBuffer reads the backing array's buffer in a way this rule does not know")
			return
		}
		r.OK("start", c.Pos(fd.Pos()), "NewArrayBuffer does not read the backing array's buffer directly (a copy of a view starts at byte 0)")
		r.OK("end", c.Pos(fd.Pos()), "as above")
		return
	}
	// does expression e depend (through locals) on a Get of the given property?
	var depends func(e ast.Expr, prop string, depth int) bool
	depends = func(e ast.Expr, prop string, depth int) bool {
		found := false
		ast.Inspect(e, func(x ast.Node) bool {
			switch y := x.(type) {
			case *ast.BasicLit:
				if y.Value == `"`+prop+`"` {
					found = true
				}
			case *ast.Ident:
				if depth < 4 {
					for _, d := range localAssignments(fd, y.Name) {
						if depends(d.rhs, prop, depth+1) {
							found = true
						}
					}
				}
			}
			return !found
		})
		return found
	}
	start, end := cut.Args[1], ast.Expr(nil)
	if len(cut.Args) > 2 {
		end = cut.Args[2]
	}
	r.Check(depends(start, "$offset", 0) && depends(start, "byteOffset", 0), "start", c.Pos(cut.Pos()), fmt.Sprintf("the start `%s` is made of the slice's $offset and the backing array's byteOffset", exprStr(start)))
	r.Check(end != nil && depends(end, "$length", 0) && depends(end, "byteOffset", 0), "end", c.Pos(cut.Pos()), "the end is the start plus $length, so it moves with byteOffset as well")
}

// ruleC13ValueCAS: sync/atomic.Value.CompareAndSwap(old, new) panics for inconsistent types only when old HAS
// a type (`op.typ != nil && np.typ != op.typ` in the original); a nil old value just means "nothing stored is
// expected" and yields false when something is stored. The overlay's guard must therefore depend on old
// alone, not on what the Value holds.
func ruleC13ValueCAS(c *ctx.Ctx, r *core.Reporter) {
	r.Begin("C13.value-cas", "F-SIB", "the overlay of atomic.Value.CompareAndSwap compares the types of old and new only when old is not nil, whatever is stored", 1)
	nat := c.Natives()
	var fd *ast.FuncDecl
	for _, f := range nat.PkgFiles("sync/atomic") {
		for _, d := range f.AST.Decls {
			if x, ok := d.(*ast.FuncDecl); ok && x.Recv != nil && x.Name.Name == "CompareAndSwap" && x.Body != nil && strings.Contains(exprStr(x.Recv.List[0].Type), "Value") {
				fd = x
			}
		}
	}
	if fd == nil {
		r.Info("cas", nativesRootRel+"/sync/atomic", "Value.CompareAndSwap is not overridden")
		r.Check(true, "old-nil-never-panics", nativesRootRel+"/sync/atomic", "the original implementation is used")
		return
	}
	if fd.Type.Params == nil || fd.Type.Params.NumFields() < 2 {
		r.Undecided("old-nil-never-panics", nat.Pos(c, fd.Pos()), "unexpected signature")
		return
	}
	var names []string
	for _, fl := range fd.Type.Params.List {
		for _, n := range fl.Names {
			names = append(names, n.Name)
		}
	}
	old := names[0]
	recv := ""
	if len(fd.Recv.List[0].Names) > 0 {
		recv = fd.Recv.List[0].Names[0].Name
	}
	// every `if` whose body panics and whose condition compares the types of old and new
	n, bad := 0, ""
	site := fd.Pos()
	ast.Inspect(fd.Body, func(x ast.Node) bool {
		is, ok := x.(*ast.IfStmt)
		if !ok {
			return true
		}
		panics := false
		for _, st := range is.Body.List {
			if es, ok := st.(*ast.ExprStmt); ok {
				if ce, ok := es.X.(*ast.CallExpr); ok && exprStr(ce.Fun) == "panic" {
					panics = true
				}
			}
		}
		cond := squash(exprStr(is.Cond))
		if !panics || !strings.Contains(cond, "sameType("+old+",") && !strings.Contains(cond, ","+old+")") {
			return true
		}
		n++
		site = is.Pos()
		guardedByOld := false
		for _, cj := range conjuncts(is.Cond) {
			if s := squash(exprStr(cj)); s == old+"!=nil" || s == "nil!="+old {
				guardedByOld = true
			}
		}
		for _, g := range guardsAt(fd.Body, is.Pos()) {
			for _, cj := range conjuncts(g.Cond) {
				if s := squash(exprStr(cj)); (s == old+"!=nil" || s == "nil!="+old) && !g.Negated {
					guardedByOld = true
				}
			}
		}
		if !guardedByOld {
			bad = "`" + exprStr(is.Cond) + "` is not a conjunction with `" + old + " != nil`"
		} else if recv != "" && strings.Contains(cond, recv+".") {
			// a further conjunct on the stored value narrows the panic: harmless for old == nil
		}
		return true
	})
	if n == 0 {
		r.Check(true, "old-nil-never-panics", nat.Pos(c, fd.Pos()), "no type comparison of old and new leads to a panic")
		return
	}
	r.Check(bad == "", "old-nil-never-panics", nat.Pos(c, site), "the inconsistent-types panic is taken only under `"+old+" != nil` (Go: `op.typ != nil && np.typ != op.typ`); with a value stored, CompareAndSwap(nil, x) returns false"+ternary(bad != "", " — "+bad, ""))
}

// ruleC13PanicMessages: a program can recover a panic of the standard library and look at its message. The
// overlay of sync/atomic re-implements Value; every message it panics with has to be one the original
// panics with (a concatenated message: its fixed head and tail must frame one of the original's).
func ruleC13PanicMessages(c *ctx.Ctx, r *core.Reporter) {
	r.Begin("C13.panic-messages", "F-SIB", "every panic message of the sync/atomic overlay is a message of the original package", 1)
	orig := c.All["sync/atomic"]
	if orig == nil || len(orig.Syntax) == 0 {
		r.Undecided("original", "GOROOT/src/sync/atomic", "the original package is not loaded with syntax")
		return
	}
	panicArgs := func(root ast.Node, f func(arg ast.Expr)) {
		ast.Inspect(root, func(x ast.Node) bool {
			if ce, ok := x.(*ast.CallExpr); ok && len(ce.Args) == 1 && exprStr(ce.Fun) == "panic" {
				f(ce.Args[0])
			}
			return true
		})
	}
	lit := func(e ast.Expr) (string, bool) {
		if bl, ok := e.(*ast.BasicLit); ok && bl.Kind == token.STRING {
			if s, err := strconv.Unquote(bl.Value); err == nil {
				return s, true
			}
		}
		return "", false
	}
	msgs := map[string]bool{}
	for _, f := range orig.Syntax {
		panicArgs(f, func(a ast.Expr) {
			if s, ok := lit(a); ok {
				msgs[s] = true
			}
		})
	}
	if len(msgs) == 0 {
		r.Undecided("original", "GOROOT/src/sync/atomic", "no literal panic message found in the original")
		return
	}
	nat := c.Natives()
	n := 0
	var bad []string
	badSite := ""
	for _, f := range nat.PkgFiles("sync/atomic") {
		panicArgs(f.AST, func(a ast.Expr) {
			n++
			ok := false
			what := exprStr(a)
			if s, isLit := lit(a); isLit {
				ok = msgs[s]
			} else {
				// head + … + tail
				var leaves []ast.Expr
				var flat func(e ast.Expr)
				flat = func(e ast.Expr) {
					if be, isBin := e.(*ast.BinaryExpr); isBin && be.Op == token.ADD {
						flat(be.X)
						flat(be.Y)
						return
					}
					leaves = append(leaves, e)
				}
				flat(a)
				head, hasHead := lit(leaves[0])
				tail, hasTail := lit(leaves[len(leaves)-1])
				if !hasHead && !hasTail {
					ok = true // nothing fixed to compare (an error value, a formatted message)
				}
				for m := range msgs {
					if (!hasHead || strings.HasPrefix(m, head)) && (!hasTail || strings.HasSuffix(m, tail)) && len(m) >= len(head)+len(tail) {
						ok = true
					}
				}
			}
			if !ok {
				bad = append(bad, what)
				if badSite == "" {
					badSite = nat.Pos(c, a.Pos())
				}
			}
		})
	}
	if badSite == "" {
		badSite = nativesRootRel + "/sync/atomic"
	}
	r.Check(len(bad) == 0, "messages", badSite, fmt.Sprintf("the %d panic message(s) of the overlay are among the %d of the original%s", n, len(msgs), ternary(len(bad) > 0, fmt.Sprintf(" — not a message of the original: %v", bad), "")))
}
