package rules

import (
	"fmt"
	"go/ast"
	"go/constant"
	"go/token"
	"go/types"
	"strings"

	"verif/checker/internal/core"
	"verif/checker/internal/ctx"
	"verif/checker/internal/tmpl"
)

func init() {
	register(&Property{
		ID:          "C01",
		Explanation: "Structural necessary conditions of 'compiled programs behave like the reference toolchain' are decided: the compiler/prelude/natives boundary is closed (names, arities, properties, unshadowable host names), dispatches are total, compiler panics are contained, templates lex as JavaScript and do not glue operators, program assembly order, 32-bit sizes, operands evaluated once; and, because C01 subsumes them, the sequential-semantics rules of C02 (suspension protocol, frames, flattening, escape analysis), C06 (coercions and operator dispatch), C07 (copy contexts, boxing, deep copy), C08 (run-time checks, defer/recover), C14 (bounds) and C15 (map operations) are evaluated here too. NOT decided: that any emitted statement means what the Go construct means.",
		Assumptions: []string{"go/types and go/ast describe the compiler's own code faithfully", "acorn parses the prelude as Node would", "string constants of package compiler are the only way it produces JavaScript text"},
		Rules: []RuleFunc{ruleL1, ruleL2, ruleL3, ruleL4, ruleL8, ruleL9, ruleTotal("C01.exh", 30, ""), ruleBuiltins, ruleRewrites,
			ruleContain, ruleLex, ruleAdj, ruleAssembly, ruleSizes, ruleOnce,
			// C01 is the umbrella property: the sequential-semantics rules of the specialised properties are
			// necessary conditions of it as well
			ruleC06Coerce, ruleC06Apply, ruleC06Dispatch, ruleC06Div0, ruleNegativeShift, ruleOperandOrder, ruleC07Contexts, ruleC07Box, ruleC07Deep,
			ruleC08Checks, ruleC08Defer, ruleC08DynScope, ruleC02Protocol, ruleC02Frame, ruleC02Flatten, ruleC02Escape, ruleC14Bounds, ruleC15Ops, ruleNamedLookThrough, ruleC10Order, ruleC04Nest, ruleC04SubstAttrs, ruleC02Sources, ruleC02Fixpoint, ruleC01NamedResults, ruleC02ArgOrder, ruleC06Carry, ruleC05EffectsWalk,
			ruleC01VariadicNil, ruleC05LinknamesBeforeSelection, ruleC10LinknameSplit, ruleStructComparable, ruleC04SharedTable, ruleC02LabelledBranch, ruleBlankFields, ruleLabelNamespace, ruleCommentHoles, ruleOnceOperands, ruleCompoundAssign, ruleC04SelectionIndex, ruleC05NestedReplacements, ruleC02EscapingScope, ruleC06RemZero, ruleSliceHeaderPreserved, ruleDelegatedArgs, ruleBlockingOnlyGrows, ruleC03Flow, ruleC02DeferredSuspendFirst, ruleC04LitInfo, ruleTupleAssign, ruleC04DeferredSetup, ruleC02LazyDispatch, ruleC07ReceiverCopy},
	})
}

// ---------------------------------------------------------------------------
// C01.contain

func ruleContain(c *ctx.Ctx, r *core.Reporter) {
	r.Begin("C01.contain", "F-MUST", "a panic inside the compiler is converted into an error: Compile recovers into its named error result on every recovered path, translateStmt re-panics only bailout values, Simplify precedes Analyze/Compile, and program writers do not drop write errors", 8)
	p := c.Pkg("compiler")
	info := p.TypesInfo
	fd := c.FuncDecl("compiler", "Compile")
	if fd == nil {
		r.Undecided("Compile", "compiler/package.go", "compiler.Compile not found")
		return
	}
	// named error result
	errName := ""
	if fd.Type.Results != nil {
		for _, f := range fd.Type.Results.List {
			if types.Identical(info.TypeOf(f.Type), types.Universe.Lookup("error").Type()) && len(f.Names) == 1 {
				errName = f.Names[0].Name
			}
		}
	}
	r.Check(errName != "" && errName != "_", "Compile:named-error", c.Pos(fd.Pos()), "Compile has a named error result a deferred handler can assign: "+errName)
	// deferred closure with recover, first statement level
	var handler *ast.FuncLit
	for _, st := range fd.Body.List {
		if ds, ok := st.(*ast.DeferStmt); ok {
			if fl, ok := ds.Call.Fun.(*ast.FuncLit); ok && containsCallTo(fl, "recover") {
				handler = fl
			}
		}
		if handler != nil {
			break
		}
		// the defer must come before any other work
		if _, ok := st.(*ast.DeferStmt); !ok {
			break
		}
	}
	r.Check(handler != nil, "Compile:defer-recover", c.Pos(fd.Pos()), "the first statement of Compile defers a closure that calls recover()")
	if handler != nil && errName != "" {
		// every path of the handler after a non-nil recover assigns err: check that each `return`
		// other than the nil-guard is preceded by an assignment to err in the same block, and that the
		// closure's last statement is an assignment to err.
		ok, why := handlerAssignsOnAllPaths(handler, errName)
		r.Check(ok, "Compile:assigns-error", c.Pos(handler.Pos()), "recovered panics always become the returned error: "+why)
		// no re-panic inside the handler
		r.Check(!containsCallTo(handler, "panic"), "Compile:no-repanic", c.Pos(handler.Pos()), "the recover handler of Compile never re-panics")
	}
	// translateStmt handler: panics only bailout values
	ts := c.FuncDecl("compiler", "funcContext.translateStmt")
	if ts == nil {
		r.Undecided("translateStmt", "compiler/statements.go", "translateStmt not found")
	} else {
		var h *ast.FuncLit
		for _, st := range ts.Body.List {
			if ds, ok := st.(*ast.DeferStmt); ok {
				if fl, ok := ds.Call.Fun.(*ast.FuncLit); ok && containsCallTo(fl, "recover") {
					h = fl
				}
			}
		}
		if h == nil {
			r.Info("translateStmt:handler", c.Pos(ts.Pos()), "translateStmt has no recover handler (clues are optional)")
		} else {
			ok := true
			detail := ""
			ast.Inspect(h.Body, func(n ast.Node) bool {
				ce, isCall := n.(*ast.CallExpr)
				if !isCall {
					return true
				}
				if id, isId := ce.Fun.(*ast.Ident); isId && id.Name == "panic" && len(ce.Args) == 1 {
					arg := ce.Args[0]
					// allowed: a variable assigned from bailout(...), or the recovered value inside an `if bailingOut(err)` guard
					if isBailoutValue(info, h, arg) || guardedByBailingOut(h, ce) {
						return true
					}
					ok = false
					detail = "panic(" + exprStr(arg) + ") at " + c.Pos(ce.Pos()) + " re-panics a value that is not a *FatalError"
				}
				return true
			})
			r.Check(ok, "translateStmt:repanic-bailout-only", c.Pos(h.Pos()), "translateStmt's handler only continues orderly bailouts. "+detail)
		}
	}
	// bailingOut recognises *FatalError, bailout produces one
	if bo := c.FuncDecl("compiler", "bailout"); bo != nil {
		res := info.TypeOf(bo.Type.Results.List[0].Type)
		r.Check(strings.HasSuffix(res.String(), "compiler.FatalError"), "bailout:type", c.Pos(bo.Pos()), "bailout returns "+res.String())
	}
	// FatalError implements error
	if o := p.Types.Scope().Lookup("FatalError"); o != nil {
		errI := types.Universe.Lookup("error").Type().Underlying().(*types.Interface)
		r.Check(types.Implements(types.NewPointer(o.Type()), errI), "FatalError:error", "compiler/utils.go", "*FatalError implements error")
	}
	// PrepareAllSources: Simplify for all before Analyze
	if pa := c.FuncDecl("compiler", "PrepareAllSources"); pa != nil {
		order := callOrder(info, pa, []string{"Sort", "TypeCheck", "ParseGoLinknames", "Simplify", "CollectInstances", "Finish", "Analyze", "PropagateAnalysis"})
		want := []string{"Sort", "TypeCheck", "ParseGoLinknames", "Simplify", "CollectInstances", "Finish", "Analyze", "PropagateAnalysis"}
		okOrder := true
		last := -1
		var missing []string
		for _, w := range want {
			idx, found := order[w]
			if !found {
				missing = append(missing, w)
				okOrder = false
				continue
			}
			if w == "Simplify" || w == "Analyze" {
				_ = idx
			}
			if idx < last {
				okOrder = false
			}
			last = idx
		}
		// Simplify must precede Analyze (translateStmt panics on un-simplified if/switch)
		si, ok1 := order["Simplify"]
		ai, ok2 := order["Analyze"]
		r.Check(ok1 && ok2 && si < ai, "Prepare:Simplify<Analyze", c.Pos(pa.Pos()), "every source is simplified (if/switch init hoisting) in a loop that ends before the first Analyze; translateStmt panics with 'simplification error' otherwise")
		r.Check(okOrder, "Prepare:pipeline-order", c.Pos(pa.Pos()), fmt.Sprintf("pipeline stages occur in the order %v as top-level statements (missing: %v)", want, missing))
		// each stage that is per-source is inside a `for _, srcs := range allSources` loop
		for _, st := range []string{"Sort", "TypeCheck", "ParseGoLinknames", "Simplify", "CollectInstances", "Analyze"} {
			idx, found := order[st]
			if !found {
				continue
			}
			_, isLoop := pa.Body.List[idx].(*ast.RangeStmt)
			loopOK := false
			if isLoop {
				rs := pa.Body.List[idx].(*ast.RangeStmt)
				loopOK = exprStr(rs.X) == pa.Type.Params.List[0].Names[0].Name
			}
			r.Check(loopOK, "Prepare:all-sources:"+st, c.Pos(pa.Body.List[idx].Pos()), st+" is applied in a loop over all sources")
		}
	} else {
		r.Undecided("PrepareAllSources", "compiler/package.go", "not found")
	}
	// writers do not drop errors
	for _, fn := range []string{"WriteProgramCode", "WritePkgCode", "writeF"} {
		w := c.FuncDecl("compiler", fn)
		if w == nil {
			r.Undecided("writer:"+fn, "compiler/compiler.go", "not found")
			continue
		}
		dropped := droppedErrors(info, w)
		var bad []string
		for _, d := range dropped {
			_, _, n := callee(info, d)
			if n == "Add" { // GoLinknameSet.Add: conflict diagnostics (C10.dup, informational)
				r.Info("writer:"+fn+":gls.Add", c.Pos(d.Pos()), "the error of GoLinknameSet.Add (conflicting directives) is dropped; not part of the property's rejected uses")
				continue
			}
			bad = append(bad, exprStr(d.Fun)+" at "+c.Pos(d.Pos()))
		}
		r.Check(len(bad) == 0, "writer:"+fn+":errors-propagated", c.Pos(w.Pos()), fmt.Sprintf("no call with an error result is used as a statement or assigned to _ (%d dropped: %s)", len(bad), strings.Join(bad, "; ")))
	}
}

func containsCallTo(n ast.Node, name string) bool {
	found := false
	ast.Inspect(n, func(x ast.Node) bool {
		if ce, ok := x.(*ast.CallExpr); ok {
			if id, ok := ce.Fun.(*ast.Ident); ok && id.Name == name {
				found = true
			}
		}
		return !found
	})
	return found
}

// handlerAssignsOnAllPaths: in the recover handler, every return statement
// except the one guarded by `e == nil` is preceded (in its block) by an
// assignment to errName, and the fall-off end of the closure is an assignment to errName.
func handlerAssignsOnAllPaths(h *ast.FuncLit, errName string) (bool, string) {
	assigns := func(st ast.Stmt) bool {
		as, ok := st.(*ast.AssignStmt)
		if !ok {
			return false
		}
		for _, l := range as.Lhs {
			if id, ok := l.(*ast.Ident); ok && id.Name == errName {
				return true
			}
		}
		return false
	}
	var check func(list []ast.Stmt, nilGuardSeen *bool, assigned bool) (bool, string)
	check = func(list []ast.Stmt, nilGuardSeen *bool, assigned bool) (bool, string) {
		for _, st := range list {
			switch s := st.(type) {
			case *ast.AssignStmt:
				if assigns(s) {
					assigned = true
				}
			case *ast.ReturnStmt:
				if !assigned {
					return false, "a return is reachable without assigning " + errName
				}
				return true, ""
			case *ast.IfStmt:
				// nil guard: if e == nil { return }
				if be, ok := s.Cond.(*ast.BinaryExpr); ok && be.Op == token.EQL && exprStr(be.Y) == "nil" && !*nilGuardSeen {
					*nilGuardSeen = true
					continue
				}
				ok, why := check(s.Body.List, nilGuardSeen, assigned)
				if !ok {
					return false, why
				}
				if s.Else != nil {
					if blk, isBlk := s.Else.(*ast.BlockStmt); isBlk {
						if ok, why := check(blk.List, nilGuardSeen, assigned); !ok {
							return false, why
						}
					}
				}
			}
		}
		// fell off the end of this block
		return true, ""
	}
	seen := false
	ok, why := check(h.Body.List, &seen, false)
	if !ok {
		return false, why
	}
	if !seen {
		return false, "no `recovered == nil` early return"
	}
	// last statement must be an assignment to errName (fall-through path)
	if n := len(h.Body.List); n == 0 || !assigns(h.Body.List[n-1]) {
		return false, "the closure can fall off its end without assigning " + errName
	}
	return true, "nil-guard, then every return and the fall-through assign " + errName
}

func isBailoutValue(info *types.Info, h *ast.FuncLit, arg ast.Expr) bool {
	if ce, ok := arg.(*ast.CallExpr); ok {
		if id, ok := ce.Fun.(*ast.Ident); ok && id.Name == "bailout" {
			return true
		}
	}
	id, ok := arg.(*ast.Ident)
	if !ok {
		return false
	}
	found := false
	ast.Inspect(h.Body, func(n ast.Node) bool {
		if as, ok := n.(*ast.AssignStmt); ok && len(as.Lhs) == 1 && len(as.Rhs) == 1 {
			if l, ok := as.Lhs[0].(*ast.Ident); ok && l.Name == id.Name {
				if ce, ok := as.Rhs[0].(*ast.CallExpr); ok {
					if f, ok := ce.Fun.(*ast.Ident); ok && f.Name == "bailout" {
						found = true
					}
				}
			}
		}
		return true
	})
	return found
}

func guardedByBailingOut(h *ast.FuncLit, call *ast.CallExpr) bool {
	ok := false
	ast.Inspect(h.Body, func(n ast.Node) bool {
		is, isIf := n.(*ast.IfStmt)
		if !isIf {
			return true
		}
		if is.Body.Pos() <= call.Pos() && call.End() <= is.Body.End() {
			src := ""
			if is.Init != nil {
				if as, okA := is.Init.(*ast.AssignStmt); okA && len(as.Rhs) == 1 {
					src = exprStr(as.Rhs[0])
				}
			}
			if strings.HasPrefix(src, "bailingOut(") {
				ok = true
			}
		}
		return true
	})
	return ok
}

// callOrder maps method/function names to the index of the first top-level
// statement of fd's body that contains a call of that name.
func callOrder(info *types.Info, fd *ast.FuncDecl, names []string) map[string]int {
	out := map[string]int{}
	for i, st := range fd.Body.List {
		ast.Inspect(st, func(n ast.Node) bool {
			if ce, ok := n.(*ast.CallExpr); ok {
				_, _, nm := callee(info, ce)
				for _, w := range names {
					if nm == w {
						if _, seen := out[w]; !seen {
							out[w] = i
						}
					}
				}
			}
			return true
		})
	}
	return out
}

// ---------------------------------------------------------------------------
// C01.lex

func ruleLex(c *ctx.Ctx, r *core.Reporter) {
	r.Begin("C01.lex", "F-LEX", "every format string handed to an emission sink lexes as JavaScript tokens (closed strings and comments, no stray characters, no 0x08 byte) and every prelude file parses", 300)
	if _, err := c.Prelude(); err != nil {
		r.Violation("prelude-parses", "compiler/prelude", err.Error())
	} else {
		for _, f := range c.PreludeList() {
			r.OK("prelude-parses:"+f.Name, f.Name, "acorn accepts the file")
		}
	}
	n := 0
	for _, t := range usableTemplates(c) {
		if t.Role != tmpl.RoleSink || t.Func == "encodeString" {
			continue
		}
		n++
		var errs []string
		for _, tk := range t.Tokens {
			if tk.Kind == tmpl.TErr {
				errs = append(errs, fmt.Sprintf("%s %q", tk.Err, tk.Text))
			}
		}
		if strings.ContainsRune(t.Text, '\b') {
			errs = append(errs, "contains the source-map hint byte 0x08")
		}
		key := "lex:" + t.Key()
		r.Check(len(errs) == 0, key, c.Pos(t.Pos), ternary(len(errs) == 0, "tokenises", "template of "+t.Sink+" in "+t.Func+" does not lex as JavaScript: "+strings.Join(errs, "; ")))
	}
	r.Count("sink templates lexed", n)
}

// ---------------------------------------------------------------------------
// C01.adj

func ruleAdj(c *ctx.Ctx, r *core.Reporter) {
	r.Begin("C01.adj", "F-LEX", "an expression template that starts with - or + is parenthesised whenever it is spliced into another template (formatParenExpr, or wrapped by fixNumber on a path where fixNumber cannot pass its argument through), so a hole glued to a preceding - or + can never form -- or ++", 3)
	info := c.Pkg("compiler").TypesInfo
	fd := c.FuncDecl("compiler", "funcContext.translateExpr")
	// 1. templates whose expansion starts with a glue-prone operator
	type starter struct {
		t         *tmpl.Template
		ch        string
		protected bool
		how       string
	}
	var starters []starter
	for _, t := range usableTemplates(c) {
		if t.Role != tmpl.RoleSink || t.Dialect != tmpl.DialectExpr || len(t.Tokens) == 0 {
			continue
		}
		tk := t.Tokens[0]
		if tk.Kind != tmpl.TPunct || !(tk.Text == "-" || tk.Text == "+" || tk.Text == "--" || tk.Text == "++") {
			continue
		}
		st := starter{t: t, ch: tk.Text[:1]}
		switch {
		case t.Sink == "formatParenExpr":
			st.protected, st.how = true, "emitted through formatParenExpr (parenthesised when spliced)"
		default:
			// direct argument of fixNumber?
			var wrap *ast.CallExpr
			if fd != nil {
				ast.Inspect(fd.Body, func(n ast.Node) bool {
					if ce, ok := n.(*ast.CallExpr); ok && len(ce.Args) >= 1 && ce.Args[0] == ast.Expr(t.Call) {
						if _, _, nm := callee(info, ce); nm == "fixNumber" {
							wrap = ce
						}
					}
					return true
				})
			}
			if wrap == nil {
				st.how = "emitted through " + t.Sink + " without parentheses"
				break
			}
			passKinds := fixNumberPassThroughKinds(c)
			reach, ok := kindsReachingCall(c, fd, wrap)
			if !ok {
				st.how = "wrapped by fixNumber, but the kinds reaching the call could not be determined"
				break
			}
			var leak []string
			for _, k := range reach {
				if passKinds[k] {
					leak = append(leak, kindName(k))
				}
			}
			if len(leak) == 0 {
				st.protected, st.how = true, "wrapped by fixNumber on a path restricted to kinds that fixNumber always parenthesises"
			} else {
				st.how = "wrapped by fixNumber, which returns its argument unchanged for " + strings.Join(leak, ",")
			}
		}
		starters = append(starters, st)
		r.Check(st.protected, "starter:"+t.Func+"["+strings.Join(t.CasePath, "/")+"]:"+t.Text, c.Pos(t.Pos), fmt.Sprintf("template %q starts with %q: %s", t.Text, st.ch, st.how))
	}
	// 2. glue sites
	n := 0
	for _, t := range usableTemplates(c) {
		if t.Role != tmpl.RoleSink || t.Dialect != tmpl.DialectExpr {
			continue
		}
		for i, tk := range t.Tokens {
			if tk.Kind != tmpl.THole || tk.SpaceBefore || i == 0 {
				continue
			}
			p := t.Tokens[i-1]
			if p.Kind != tmpl.TPunct || !(p.Text == "-" || p.Text == "+") {
				continue
			}
			h := t.Holes[tk.Holes[0]]
			if !strings.ContainsRune("efs", rune(h.Verb)) {
				continue // %h %l %r %i expand to <identifier or temporary>.$member
			}
			n++
			var bad []string
			for _, st := range starters {
				if st.ch == p.Text && !st.protected {
					bad = append(bad, fmt.Sprintf("%q at %s", st.t.Text, c.Pos(st.t.Pos)))
				}
			}
			key := "glue:" + t.Func + "[" + strings.Join(t.CasePath, "/") + "]:" + p.Text + "⟨" + string(h.Verb) + "⟩"
			r.Check(len(bad) == 0, key, c.Pos(t.Pos), ternary(len(bad) == 0, "every expansion that starts with "+p.Text+" is parenthesised (constant operands make the whole expression constant, which is folded before this arm)", fmt.Sprintf("template %q glues %q to a hole that can expand to an unparenthesised expression starting with %q: %s", t.Text, p.Text, p.Text, strings.Join(bad, "; "))))
		}
	}
	r.Count("operator-glued holes examined", n)
}

// fixNumberPassThroughKinds: kinds for which fixNumber returns its argument unchanged.
func fixNumberPassThroughKinds(c *ctx.Ctx) map[types.BasicKind]bool {
	out := map[types.BasicKind]bool{}
	fd := c.FuncDecl("compiler", "funcContext.fixNumber")
	if fd == nil {
		return out
	}
	info := c.Pkg("compiler").TypesInfo
	ast.Inspect(fd.Body, func(n ast.Node) bool {
		cc, ok := n.(*ast.CaseClause)
		if !ok || cc.List == nil {
			return true
		}
		pass := false
		for _, st := range cc.Body {
			if rs, ok := st.(*ast.ReturnStmt); ok && len(rs.Results) == 1 {
				if _, isIdent := rs.Results[0].(*ast.Ident); isIdent {
					pass = true
				}
			}
		}
		if pass {
			for _, l := range cc.List {
				if tv := info.Types[l]; tv.Value != nil {
					v, _ := constant.Int64Val(tv.Value)
					out[types.BasicKind(v)] = true
				}
			}
		}
		return true
	})
	return out
}

// kindsReachingCall computes the basic kinds that can reach the return
// statement containing call, inside the operator arms of translateExpr.
func kindsReachingCall(c *ctx.Ctx, fd *ast.FuncDecl, call *ast.CallExpr) ([]types.BasicKind, bool) {
	ke := newKindEval(c)
	// smallest enclosing switch on e.Op / numeric if-block
	var best []retSite
	found := false
	ast.Inspect(fd.Body, func(n ast.Node) bool {
		sw, ok := n.(*ast.SwitchStmt)
		if !ok || sw.Tag == nil || exprStr(sw.Tag) != "e.Op" {
			return true
		}
		if !(sw.Pos() <= call.Pos() && call.End() <= sw.End()) {
			return true
		}
		start := pairSet{}
		for _, o := range append(append([]token.Token{}, binaryOps...), token.NOT) {
			for k := types.Bool; k <= types.UnsafePointer; k++ {
				start[okPair{o, k}] = true
			}
		}
		var sites []retSite
		ke.flow([]ast.Stmt{sw}, start, &sites)
		best = sites
		found = true
		return true
	})
	if !found {
		return nil, false
	}
	for _, s := range best {
		if s.ret.Pos() <= call.Pos() && call.End() <= s.ret.End() {
			return s.pairs.kinds(), true
		}
	}
	return nil, false
}

// ---------------------------------------------------------------------------
// C01.assembly

func ruleAssembly(c *ctx.Ctx, r *core.Reporter) {
	r.Begin("C01.assembly", "F-MUST", "WriteProgramCode writes the prelude before any package, then the setup chain in the required order; WritePkgCode writes every code field of Decl exactly once and only for decls selected by dead-code elimination", 18)
	p := c.Pkg("compiler")
	info := p.TypesInfo
	fd := c.FuncDecl("compiler", "WriteProgramCode")
	if fd == nil {
		r.Undecided("WriteProgramCode", "compiler/compiler.go", "not found")
		return
	}
	// index of top-level statements by what they write
	idx := map[string]int{}
	for i, st := range fd.Body.List {
		ast.Inspect(st, func(n ast.Node) bool {
			ce, ok := n.(*ast.CallExpr)
			if !ok {
				return true
			}
			_, recv, name := callee(info, ce)
			switch {
			case name == "writeF" && len(ce.Args) >= 3:
				if tv, ok := info.Types[ce.Args[2]]; ok && tv.Value != nil {
					s := constant.StringVal(tv.Value)
					for _, marker := range []string{`"use strict"`, "$goVersion", `$callForAllPackages("$finishSetup")`, "$synthesizeMethods()", `$callForAllPackages("$initLinknames")`, "var $mainPkg", `$packages["runtime"].$init()`, "$go($mainPkg.$init", "$flushConsole()", "}).call(this)"} {
						if strings.Contains(s, marker) {
							if _, seen := idx[marker]; !seen {
								idx[marker] = i
							}
						}
					}
				}
			case name == "WriteJS" && recv == "Filter":
				if _, seen := idx["prelude"]; !seen {
					idx["prelude"] = i
				}
			case name == "WritePkgCode":
				if _, seen := idx["packages"]; !seen {
					idx["packages"] = i
				}
			case name == "PreludeFiles":
				idx["preludeFiles"] = i
			}
			return true
		})
	}
	chain := []string{`"use strict"`, "$goVersion", "prelude", "packages", `$callForAllPackages("$finishSetup")`, "$synthesizeMethods()", `$callForAllPackages("$initLinknames")`, "var $mainPkg", `$packages["runtime"].$init()`, "$go($mainPkg.$init", "}).call(this)"}
	for i := 0; i+1 < len(chain); i++ {
		a, b := chain[i], chain[i+1]
		ia, oka := idx[a]
		ib, okb := idx[b]
		r.Check(oka && okb && ia < ib, "order:"+a+"≺"+b, c.Pos(fd.Pos()), fmt.Sprintf("WriteProgramCode emits %s (stmt %d, found %v) before %s (stmt %d, found %v)", a, ia, oka, b, ib, okb))
	}
	// the prelude loop iterates prelude.PreludeFiles()
	if i, ok := idx["prelude"]; ok {
		rs, isRange := fd.Body.List[i].(*ast.RangeStmt)
		r.Check(isRange && strings.Contains(exprStr(rs.X), "PreludeFiles"), "prelude:all-files", c.Pos(fd.Body.List[i].Pos()), "the prelude is written by a loop over prelude.PreludeFiles()")
	}
	// packages loop iterates pkgs in slice order
	if i, ok := idx["packages"]; ok {
		rs, isRange := fd.Body.List[i].(*ast.RangeStmt)
		r.Check(isRange && exprStr(rs.X) == fd.Type.Params.List[0].Names[0].Name, "packages:slice-order", c.Pos(fd.Body.List[i].Pos()), "packages are written by a range loop over the pkgs slice (dependency order)")
	}

	// WritePkgCode: every []byte field of Decl written exactly once
	wp := c.FuncDecl("compiler", "WritePkgCode")
	declObj := p.Types.Scope().Lookup("Decl")
	if wp == nil || declObj == nil {
		r.Undecided("WritePkgCode", "compiler/compiler.go", "WritePkgCode or Decl not found")
		return
	}
	st := declObj.Type().Underlying().(*types.Struct)
	var codeFields []string
	for i := 0; i < st.NumFields(); i++ {
		if sl, ok := st.Field(i).Type().(*types.Slice); ok {
			if b, ok := sl.Elem().(*types.Basic); ok && b.Kind() == types.Byte {
				codeFields = append(codeFields, st.Field(i).Name())
			}
		}
	}
	writes := map[string]int{}
	var loopVars []string
	ast.Inspect(wp.Body, func(n ast.Node) bool {
		ce, ok := n.(*ast.CallExpr)
		if !ok {
			return true
		}
		_, recv, name := callee(info, ce)
		if name == "Write" && recv == "Filter" && len(ce.Args) == 1 {
			if sel, ok := ce.Args[0].(*ast.SelectorExpr); ok {
				writes[sel.Sel.Name]++
				if id, ok := sel.X.(*ast.Ident); ok {
					loopVars = append(loopVars, id.Name)
				}
			}
		}
		return true
	})
	for _, f := range codeFields {
		r.Check(writes[f] == 1, "emit-field:"+f, c.Pos(wp.Pos()), fmt.Sprintf("Decl.%s is written %d time(s) by WritePkgCode (want exactly 1)", f, writes[f]))
	}
	// the DCE-filtered list: the slice that is appended to under a membership test of the selection
	// parameter (`if _, ok := <selection>[d]; ok { … filtered = append(filtered, d) }`); its name is free
	filtered := ""
	selParam := ""
	for _, f := range wp.Type.Params.List {
		if _, isMap := f.Type.(*ast.MapType); isMap && len(f.Names) == 1 {
			selParam = f.Names[0].Name
		}
	}
	for _, m := range findGoPattern(wp.Body, `if _, µok := µsel[µd]; µok { µµa; µlist = append(µlist, µd); µµb }`) {
		if m.Env["µsel"] == selParam && selParam != "" {
			filtered = m.Env["µlist"]
		}
	}
	// and nowhere else
	otherAppends := 0
	ast.Inspect(wp.Body, func(n ast.Node) bool {
		if as, ok := n.(*ast.AssignStmt); ok && len(as.Lhs) == 1 && exprStr(as.Lhs[0]) == filtered && filtered != "" {
			guarded := false
			for _, is := range enclosingIfs(wp.Body, as.Pos()) {
				if is.Init != nil && strings.Contains(exprStr(is.Init.(*ast.AssignStmt).Rhs[0]), selParam+"[") {
					guarded = true
				}
			}
			if !guarded {
				otherAppends++
			}
		}
		return true
	})
	r.Check(filtered != "" && otherAppends == 0, "filtered-from-selection", c.Pos(wp.Pos()), fmt.Sprintf("the list of declarations to emit (%s) is filled only under `if _, ok := %s[d]; ok` (unguarded stores: %d)", filtered, selParam, otherAppends))
	// all loops that write code fields range over the DCE-filtered list
	filteredOK := true
	detail := ""
	ast.Inspect(wp.Body, func(n ast.Node) bool {
		rs, ok := n.(*ast.RangeStmt)
		if !ok {
			return true
		}
		writesField := false
		ast.Inspect(rs.Body, func(m ast.Node) bool {
			if ce, ok := m.(*ast.CallExpr); ok {
				_, recv, name := callee(info, ce)
				if name == "Write" && recv == "Filter" {
					writesField = true
				}
			}
			return true
		})
		if writesField && exprStr(rs.X) != filtered {
			filteredOK = false
			detail = "loop at " + c.Pos(rs.Pos()) + " ranges over " + exprStr(rs.X)
		}
		return true
	})
	r.Check(filteredOK && filtered != "", "emit-only-alive", c.Pos(wp.Pos()), "every loop writing Decl code ranges over the DCE-filtered list. "+detail)
	// Decl.minify covers every code field (shared with C16)
	if mf := c.FuncDecl("compiler", "Decl.minify"); mf != nil {
		for _, f := range codeFields {
			n := 0
			ast.Inspect(mf.Body, func(x ast.Node) bool {
				if as, ok := x.(*ast.AssignStmt); ok && len(as.Lhs) == 1 {
					if sel, ok := as.Lhs[0].(*ast.SelectorExpr); ok && sel.Sel.Name == f {
						if ce, ok := as.Rhs[0].(*ast.CallExpr); ok && len(ce.Args) >= 1 {
							if a, ok := ce.Args[0].(*ast.SelectorExpr); ok && a.Sel.Name == f {
								n++
							}
						}
					}
				}
				return true
			})
			r.Check(n == 1, "minify-field:"+f, c.Pos(mf.Pos()), fmt.Sprintf("Decl.minify rewrites %s from itself %d time(s)", f, n))
		}
	}
}

// ---------------------------------------------------------------------------
// C01.sizes

func ruleSizes(c *ctx.Ctx, r *core.Reporter) {
	r.Begin("C01.sizes", "F-TABLE", "the type checker and unsafe.Sizeof/Alignof/Offsetof use 32-bit sizes (documented: int, uint, uintptr are 32 bits)", 4)
	p := c.Pkg("compiler")
	info := p.TypesInfo
	// var sizes32 = &types.StdSizes{WordSize: 4, ...}
	word := int64(-1)
	site := "compiler/compiler.go"
	for _, f := range p.Syntax {
		for _, d := range f.Decls {
			gd, ok := d.(*ast.GenDecl)
			if !ok || gd.Tok != token.VAR {
				continue
			}
			for _, sp := range gd.Specs {
				vs := sp.(*ast.ValueSpec)
				for i, nm := range vs.Names {
					if nm.Name != "sizes32" || i >= len(vs.Values) {
						continue
					}
					site = c.Pos(nm.Pos())
					ast.Inspect(vs.Values[i], func(n ast.Node) bool {
						if kv, ok := n.(*ast.KeyValueExpr); ok && exprStr(kv.Key) == "WordSize" {
							if tv, ok := info.Types[kv.Value]; ok && tv.Value != nil {
								word, _ = constant.Int64Val(tv.Value)
							}
						}
						return true
					})
				}
			}
		}
	}
	r.Check(word == 4, "sizes32:WordSize", site, fmt.Sprintf("sizes32 is a types.StdSizes with WordSize %d (want 4)", word))
	// PrepareAllSources passes sizes32 to TypeCheck
	if pa := c.FuncDecl("compiler", "PrepareAllSources"); pa != nil {
		ok := false
		ast.Inspect(pa.Body, func(n ast.Node) bool {
			if ce, isCall := n.(*ast.CallExpr); isCall {
				if _, _, nm := callee(info, ce); nm == "TypeCheck" {
					for _, a := range ce.Args {
						if exprStr(a) == "sizes32" {
							ok = true
						}
					}
				}
			}
			return true
		})
		r.Check(ok, "TypeCheck:sizes32", c.Pos(pa.Pos()), "PrepareAllSources type-checks with sizes32")
	}
	// sources.TypeCheck puts its sizes parameter into types.Config.Sizes (both for the package and its importer)
	sp := c.Pkg("compiler/sources")
	if tc := c.FuncDecl("compiler/sources", "Sources.TypeCheck"); tc != nil && sp != nil {
		n := 0
		ast.Inspect(tc.Body, func(x ast.Node) bool {
			if kv, ok := x.(*ast.KeyValueExpr); ok && (exprStr(kv.Key) == "Sizes" || exprStr(kv.Key) == "sizes") && exprStr(kv.Value) == "sizes" {
				n++
			}
			return true
		})
		r.Check(n >= 2, "TypeCheck:Config.Sizes", c.Pos(tc.Pos()), fmt.Sprintf("the sizes parameter flows into types.Config.Sizes and into the package importer (%d uses)", n))
	}
	// Sizeof/Alignof/Offsetof arms use sizes32
	tb := c.FuncDecl("compiler", "funcContext.translateBuiltin")
	if tb != nil {
		for _, b := range []string{"Sizeof", "Alignof", "Offsetof"} {
			ok := false
			ast.Inspect(tb.Body, func(n ast.Node) bool {
				if cc, isCC := n.(*ast.CaseClause); isCC && len(cc.List) == 1 && exprStr(cc.List[0]) == `"`+b+`"` {
					ok = containsIdent(cc, "sizes32")
				}
				return true
			})
			r.Check(ok, "unsafe."+b+":sizes32", c.Pos(tb.Pos()), "unsafe."+b+" is computed with sizes32")
		}
	}
}

// ---------------------------------------------------------------------------
// C01.once: an operand that a template mentions several times is evaluated once

func ruleOnce(c *ctx.Ctx, r *core.Reporter) {
	r.Begin("C01.once", "F-MUST", "formatExprInternal hoists every operand that its template mentions more than once into a temporary, except operands whose repeated evaluation is unobservable: identifiers and constants", 3)
	fd := c.FuncDecl("compiler", "funcContext.formatExprInternal")
	if fd == nil {
		r.Undecided("formatExprInternal", "compiler/expressions.go", "not found")
		return
	}
	// the loop that allocates temporaries: contains newLocalVariable and ranges over the argument slice
	var loop *ast.RangeStmt
	ast.Inspect(fd.Body, func(n ast.Node) bool {
		if rs, ok := n.(*ast.RangeStmt); ok && len(callsNamed(rs.Body, "newLocalVariable")) > 0 && loop == nil {
			loop = rs
		}
		return true
	})
	if loop == nil {
		r.Violation("hoist-loop", c.Pos(fd.Pos()), "formatExprInternal no longer allocates temporaries for operands used more than once")
		return
	}
	alloc := callsNamed(loop.Body, "newLocalVariable")[0]
	elem := exprStr(loop.Value)
	nExempt := 0
	for _, st := range loop.Body.List {
		if st.Pos() > alloc.Pos() {
			break
		}
		skips := false
		ast.Inspect(st, func(n ast.Node) bool {
			if bs, ok := n.(*ast.BranchStmt); ok && bs.Tok.String() == "continue" {
				skips = true
			}
			return true
		})
		if !skips {
			continue
		}
		nExempt++
		desc, ok := "", false
		switch x := st.(type) {
		case *ast.IfStmt:
			cond := squash(exprStr(x.Cond))
			init := ""
			if x.Init != nil {
				init = squash(nodeString(c, x.Init))
			}
			switch {
			case strings.HasPrefix(cond, "counts[") && strings.HasSuffix(cond, "<=1"):
				ok, desc = true, "operand used at most once"
			case strings.Contains(init, elem+".(*ast.Ident)"):
				ok, desc = true, "identifier: reading a variable twice is unobservable"
			case strings.Contains(init, ".Value") && (cond == "val!=nil" || strings.HasSuffix(cond, "!=nil")):
				ok, desc = true, "constant operand"
			default:
				desc = "exemption `" + nodeString(c, x.Init) + "; " + exprStr(x.Cond) + "`"
			}
		case *ast.TypeSwitchStmt:
			var types []string
			for _, cl := range x.Body.List {
				cc := cl.(*ast.CaseClause)
				hasContinue := false
				ast.Inspect(cc, func(n ast.Node) bool {
					if bs, isB := n.(*ast.BranchStmt); isB && bs.Tok.String() == "continue" {
						hasContinue = true
					}
					return true
				})
				if hasContinue {
					for _, l := range cc.List {
						types = append(types, exprStr(l))
					}
				}
			}
			ok = len(types) == 1 && types[0] == "*ast.Ident"
			desc = "exempt node types " + strings.Join(types, ", ")
		case *ast.SwitchStmt:
			desc = "switch-based exemption"
		}
		r.Check(ok, fmt.Sprintf("hoist-exemption#%d", nExempt), c.Pos(st.Pos()), ternary(ok, desc, desc+": an operand form other than an identifier or a constant is spliced into the template several times, so its side effects (calls, receives) happen several times and its value may change between the copies"))
	}
	r.Check(nExempt >= 2, "hoist-exemptions-found", c.Pos(loop.Pos()), fmt.Sprintf("%d exemptions precede the temporary allocation", nExempt))
}
