package rules

func init() {
	register(&Property{
		ID:          "C01",
		Explanation: "Structural necessary conditions of 'compiled programs behave like the reference toolchain' are decided: the compiler/prelude/natives boundary is closed (names, arities, properties, unshadowable host names), dispatches are total, panics are contained, templates lex as JavaScript, program assembly order. NOT decided: that any emitted statement means what the Go construct means.",
		Assumptions: []string{"go/types and go/ast describe the compiler's own code faithfully", "acorn parses the prelude as Node would", "templates are the only way package compiler produces JavaScript text"},
		Rules:       []RuleFunc{ruleL1, ruleL2, ruleL3, ruleL4, ruleL8, ruleL9, ruleTotal("C01.exh", 30, ""), ruleBuiltins, ruleRewrites},
	})
}
