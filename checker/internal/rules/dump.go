package rules

import (
	"fmt"
	"sort"
	"strings"

	"verif/checker/internal/ctx"
	"verif/checker/internal/tmpl"
)

// corpus builds (once) the template corpus of package compiler.
var corpusCache *tmpl.Corpus

func corpus(c *ctx.Ctx) *tmpl.Corpus {
	if corpusCache == nil {
		corpusCache = tmpl.Build(c.Pkg("compiler"), c.IsTestFile)
	}
	return corpusCache
}

// Dump prints debugging views.
func Dump(c *ctx.Ctx, what string) error {
	switch what {
	case "siblings":
		DumpSiblings(c)
	case "templates":
		if err := c.Load(); err != nil {
			return err
		}
		co := corpus(c)
		n := map[tmpl.Role]int{}
		for _, t := range co.Templates {
			n[t.Role]++
			fmt.Printf("%s\t%s\t%s\t%s\t[%s]\t%q\n", c.Pos(t.Pos), t.Role, t.Sink, t.Func, strings.Join(t.CasePath, "/"), t.Text)
			for _, tk := range t.Tokens {
				if tk.Kind == tmpl.TErr {
					fmt.Printf("\tLEXERR %s: %q\n", tk.Err, tk.Text)
				}
			}
		}
		fmt.Println(n)
	case "jsfree":
		if _, err := c.Prelude(); err != nil {
			return err
		}
		decls := c.PreludeDecls()
		fmt.Println("top-level decls:", len(decls))
		free := map[string][]string{}
		for _, f := range c.PreludeList() {
			for _, fi := range ctx.FreeIdents(f.AST) {
				if _, ok := decls[fi.Name]; ok {
					continue
				}
				free[fi.Name] = append(free[fi.Name], fi.Node.Pos()+" in "+ctx.JSFuncName(fi.Func))
			}
		}
		var ks []string
		for k := range free {
			ks = append(ks, k)
		}
		sort.Strings(ks)
		for _, k := range ks {
			fmt.Println(k, free[k][0], len(free[k]))
		}
	case "switches":
		if err := c.Load(); err != nil {
			return err
		}
		DumpSwitches(c)
	default:
		return fmt.Errorf("unknown dump %q", what)
	}
	return nil
}
