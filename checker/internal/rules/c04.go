package rules

import (
	"fmt"
	"go/ast"
	"go/types"
	"strings"

	"verif/checker/internal/core"
	"verif/checker/internal/ctx"
)

func init() {
	register(&Property{
		ID:          "C04",
		Explanation: "Decided: (collect) the instance collector never prunes its walk, handles identifiers (the key of types.Info.Instances), seeds and prunes generic declarations only after recording them, iterates to exhaustion, and runs over all sources before any analysis; (identity) instance equality and hashing consult every field of Instance, ids are insertion indices, and the declaring and the referencing side index the JS table through the same instName; (emit) function and type declarations are emitted once per known instance with a per-instance FuncInfo and resolver; (subst) package compiler reads types/selections/instances from types.Info only inside the wrappers that apply the type-parameter substitution, plus two reviewed exceptions; (dce) instance declarations carry their type arguments in the DCE name; (failstop) an unsubstituted type parameter reaching typeName/initArgs aborts compilation instead of being emitted. NOT decided: correctness of subst.Subster; that the collected set equals the run-time reachable set for every program; behaviour of instantiated code.",
		Assumptions: []string{"go/types records every instantiation in types.Info.Instances keyed by identifier"},
		Rules:       []RuleFunc{ruleC04Collect, ruleC04Identity, ruleC04Emit, ruleC04Subst, ruleC04Failstop, ruleTotal("C04.exh", 3, "typeparams.NewResolver", "subst.typ", "initArgs"), ruleC04Nest, ruleC04SubstAttrs, ruleC02Sources, ruleC04SharedTable, ruleCommentHoles, ruleC04SelectionIndex, ruleC04LitInfo, ruleC04DeferredSetup, ruleC17SessionArchives},
	})
}

const tpPkg = "compiler/internal/typeparams"

func ruleC04Collect(c *ctx.Ctx, r *core.Reporter) {
	r.Begin("C04.collect", "F-MUST", "instance collection visits every identifier of every package, never prunes non-generic code, and iterates the propagation to exhaustion before analysis starts", 7)
	vv := c.FuncDecl(tpPkg, "visitor.Visit")
	if vv == nil {
		r.Undecided("visitor.Visit", tpPkg, "not found")
		return
	}
	// all returns return the receiver (never nil): the walk is never pruned
	recv := vv.Recv.List[0].Names[0].Name
	allSelf, nret := true, 0
	ast.Inspect(vv.Body, func(n ast.Node) bool {
		if rs, ok := n.(*ast.ReturnStmt); ok {
			nret++
			if len(rs.Results) != 1 || exprStr(rs.Results[0]) != recv {
				allSelf = false
			}
		}
		return true
	})
	r.Check(allSelf && nret >= 1, "visitor:never-prunes", c.Pos(vv.Pos()), "visitor.Visit returns itself on every path, so no subtree is skipped")
	src := nodeString(c, vv.Body)
	r.Check(strings.Contains(src, "n.(*ast.Ident)") && strings.Contains(src, ".visitIdent("), "visitor:handles-idents", c.Pos(vv.Pos()), "identifiers (the key type of types.Info.Instances) are examined")
	if vi := c.FuncDecl(tpPkg, "visitor.visitIdent"); vi != nil {
		s := nodeString(c, vi.Body)
		r.Check(strings.Contains(s, ".info.Instances[ident]") && strings.Contains(s, ".visitInstance("), "visitor:consults-Instances", c.Pos(vi.Pos()), "every identifier is looked up in types.Info.Instances")
	}
	// seedVisitor: `return nil` only after `c.objMap[obj] = n`
	sv := c.FuncDecl(tpPkg, "seedVisitor.Visit")
	if sv == nil {
		r.Undecided("seedVisitor.Visit", tpPkg, "not found")
	} else {
		ok := true
		detail := ""
		ast.Inspect(sv.Body, func(n ast.Node) bool {
			var list []ast.Stmt
			switch x := n.(type) {
			case *ast.BlockStmt:
				list = x.List
			case *ast.CaseClause:
				list = x.Body
			}
			for i, st := range list {
				if rs, isRet := st.(*ast.ReturnStmt); isRet && len(rs.Results) == 1 && exprStr(rs.Results[0]) == "nil" {
					recorded := false
					for j := 0; j < i; j++ {
						if strings.Contains(nodeString(c, list[j]), ".objMap[") {
							recorded = true
						}
					}
					if !recorded {
						ok = false
						detail = "return nil at " + c.Pos(rs.Pos()) + " is not preceded by recording the declaration in objMap"
					}
				}
			}
			return true
		})
		r.Check(ok, "seed:prunes-only-recorded-generics", c.Pos(sv.Pos()), "the seeding walk skips a subtree only after the generic declaration was recorded for later per-instance scanning. "+detail)
	}
	// Finish loops until exhausted
	fin := c.FuncDecl(tpPkg, "Collector.Finish")
	if fin == nil {
		r.Undecided("Collector.Finish", tpPkg, "not found")
	} else {
		var loop *ast.ForStmt
		for _, st := range fin.Body.List {
			if fs, ok := st.(*ast.ForStmt); ok {
				loop = fs
			}
		}
		ok := loop != nil && loop.Cond != nil && squash(exprStr(loop.Cond)) == "!c.Instances.allExhausted()" && len(callsNamed(loop.Body, "propagate")) == 1
		r.Check(ok, "finish:to-exhaustion", c.Pos(fin.Pos()), "Finish repeats propagation until no instance set has unprocessed instances")
	}
	if pr := c.FuncDecl(tpPkg, "Collector.propagate"); pr != nil {
		s := nodeString(c, pr.Body)
		r.Check(strings.Contains(s, "!iset.exhausted()") && strings.Contains(s, "iset.next()") && strings.Contains(s, "c.scanSignature(") && strings.Contains(s, "c.scanNamed("), "propagate:scans-functions-and-types", c.Pos(pr.Pos()), "every unprocessed instance is rescanned: function bodies (Signature) and type declarations (Named)")
	}
	if ae := c.FuncDecl(tpPkg, "PackageInstanceSets.allExhausted"); ae != nil {
		s := squash(nodeString(c, ae.Body))
		r.Check(strings.Contains(s, "if!iset.exhausted(){returnfalse}") && strings.HasSuffix(s, "returntrue}"), "allExhausted:all-packages", c.Pos(ae.Pos()), "allExhausted is true only if every package's set is exhausted")
	}
	// pipeline
	if fd := c.FuncDecl("compiler", "PrepareAllSources"); fd != nil {
		order := callOrder(c.Pkg("compiler").TypesInfo, fd, []string{"CollectInstances", "Finish", "Analyze"})
		a, ok1 := order["CollectInstances"]
		b, ok2 := order["Finish"]
		d, ok3 := order["Analyze"]
		r.Check(ok1 && ok2 && ok3 && a < b && b < d, "pipeline:collect<finish<analyze", c.Pos(fd.Pos()), "instances of all packages are collected, propagation is finished, and only then the first package is analysed")
		_, isLoop := fd.Body.List[a].(*ast.RangeStmt)
		r.Check(isLoop, "pipeline:collect-all-sources", c.Pos(fd.Body.List[a].Pos()), "CollectInstances runs in a loop over all sources (instantiations in one package of generics declared in another are seen)")
	}
}

func ruleC04Identity(c *ctx.Ctx, r *core.Reporter) {
	r.Begin("C04.identity", "F-KEY", "instance identity (lookup, hashing, equality) consults every field of Instance; ids are insertion indices; declaration and reference of an instance go through the same name function", 9)
	p := c.Pkg(tpPkg)
	if p == nil {
		r.Undecided("package", tpPkg, "not loaded")
		return
	}
	obj := p.Types.Scope().Lookup("Instance")
	st, ok := obj.Type().Underlying().(*types.Struct)
	if !ok {
		r.Undecided("Instance", tpPkg, "not a struct")
		return
	}
	fi := c.FuncDecl(tpPkg, "InstanceMap.findIndex")
	cam := c.FuncDecl(tpPkg, "candidateArgsMatch")
	set := c.FuncDecl(tpPkg, "InstanceMap.Set")
	if fi == nil || cam == nil || set == nil {
		r.Undecided("InstanceMap", tpPkg, "findIndex/candidateArgsMatch/Set not found")
		return
	}
	lookup := nodeString(c, fi.Body) + nodeString(c, cam.Body)
	store := nodeString(c, set.Body)
	for i := 0; i < st.NumFields(); i++ {
		f := st.Field(i).Name()
		r.Check(strings.Contains(lookup, "key."+f), "identity:lookup:"+f, c.Pos(fi.Pos()), fmt.Sprintf("InstanceMap lookup consults Instance.%s (bucket selection or equality)", f))
		r.Check(strings.Contains(store, "key."+f), "identity:store:"+f, c.Pos(set.Pos()), fmt.Sprintf("InstanceMap.Set consults Instance.%s", f))
	}
	// equality compares TNest and TArgs with Equal (not only the hash)
	cs := squash(nodeString(c, cam.Body))
	r.Check(strings.Contains(cs, ".key.TNest.Equal(key.TNest)") && strings.Contains(cs, ".key.TArgs.Equal(key.TArgs)"), "identity:equality", c.Pos(cam.Pos()), "candidates in a hash bucket are compared by TNest and TArgs equality, not by hash alone")
	// IDs
	if add := c.FuncDecl(tpPkg, "InstanceSet.Add"); add != nil {
		s := squash(nodeString(c, add.Body))
		r.Check(strings.Contains(s, "ifiset.seen.Has(inst){continue}") && strings.Contains(s, "iset.seen.Set(inst,iset.seen.Len())") && strings.Contains(s, "iset.values=append(iset.values,inst)"), "id:insertion-index", c.Pos(add.Pos()), "a new instance gets the next insertion index as id and is queued once; known instances are skipped")
	}
	if id := c.FuncDecl(tpPkg, "InstanceSet.ID"); id != nil {
		s := nodeString(c, id.Body)
		r.Check(strings.Contains(s, "iset.seen.get(inst)") && strings.Contains(s, "panic("), "id:lookup-or-panic", c.Pos(id.Pos()), "ID returns the recorded index and aborts for an unknown instance (no silent default id)")
	}
	// instName uses instanceSet.ID(inst)
	if in := c.FuncDecl("compiler", "funcContext.instName"); in != nil {
		s := nodeString(c, in.Body)
		r.Check(strings.Contains(s, "fc.pkgCtx.instanceSet.ID(inst)"), "name:uses-id", c.Pos(in.Pos()), "instName indexes the JS instance table with the instance id")
	}
	// declaring sides use instName of the same instance
	for _, w := range []struct{ fn, frag, what string }{
		{"funcContext.translateStandaloneFunction", "lvalue := fc.instName(fc.instance)", "a function instance is assigned to instName(instance)"},
		{"funcContext.newFuncDecl", "d.RefExpr = fc.instName(inst)", "the decl's reference expression is instName(inst)"},
		{"funcContext.newNamedTypeInstDecl", "fc.instName(inst), size, typeKind(originType)", "a type instance is declared as instName(inst) = $newType(...)"},
		{"funcContext.translateMethod", "recvInstName := fc.instName(recvInst)", "methods are attached to instName(receiver instance)"},
	} {
		fd := c.FuncDecl("compiler", w.fn)
		ok := fd != nil && strings.Contains(nodeString(c, fd.Body), w.frag)
		site := "compiler"
		if fd != nil {
			site = c.Pos(fd.Pos())
		}
		r.Check(ok, "name:declaring:"+w.fn, site, w.what)
	}
}

func ruleC04Emit(c *ctx.Ctx, r *core.Reporter) {
	r.Begin("C04.emit", "F-MUST", "functions and named types are emitted once per known instance; each instance is analysed with its own FuncInfo and resolver", 5)
	if fd := c.FuncDecl("compiler", "funcContext.funcDecls"); fd != nil {
		s := nodeString(c, fd.Body)
		r.Check(strings.Contains(s, "instances := fc.knownInstances(o)") && strings.Contains(s, "for _, inst := range instances") && strings.Contains(s, "fc.newFuncDecl(fun, inst)"), "emit:func-per-instance", c.Pos(fd.Pos()), "funcDecls creates one Decl per known instance of each function")
	}
	if fd := c.FuncDecl("compiler", "funcContext.namedTypeDecls"); fd != nil {
		s := nodeString(c, fd.Body)
		r.Check(strings.Contains(s, "range fc.knownInstances(o)") && strings.Contains(s, "fc.newNamedTypeInstDecl(inst)"), "emit:type-per-instance", c.Pos(fd.Pos()), "namedTypeDecls creates one Decl per known instance of each named type")
	}
	if fd := c.FuncDecl("compiler", "funcContext.knownInstances"); fd != nil {
		s := nodeString(c, fd.Body)
		r.Check(strings.Contains(s, ".ForObj(o)") && strings.Contains(s, "!typeparams.HasTypeParams(o.Type())"), "emit:knownInstances", c.Pos(fd.Pos()), "knownInstances returns the collected instances; the trivial instance is synthesised only for non-generic objects")
	}
	if fd := c.FuncDecl(analysisPkg, "Info.newFuncInfoInstances"); fd != nil {
		s := nodeString(c, fd.Body)
		r.Check(strings.Contains(s, "for _, inst := range instances") && strings.Contains(s, "typeparams.NewResolver(info.typeCtx, inst)") && strings.Contains(s, "info.newFuncInfo(fd, inst.Object, inst.TArgs, resolver)"), "emit:funcinfo-per-instance", c.Pos(fd.Pos()), "blocking analysis creates one FuncInfo per instance with a resolver for that instance's type arguments")
	}
	if fd := c.FuncDecl("compiler", "funcContext.nestedFunctionContext"); fd != nil {
		s := nodeString(c, fd.Body)
		r.Check(strings.Contains(s, "if !inst.IsTrivial()") && strings.Contains(s, "typeparams.NewResolver(fc.pkgCtx.typesCtx, inst)"), "emit:resolver-per-instance", c.Pos(fd.Pos()), "each non-trivial function instance is translated with its own resolver")
	}
	// DCE names carry the type arguments
	for _, w := range []struct{ fn, frag string }{
		{"funcContext.newFuncDecl", "d.Dce().SetName(o, inst.TNest, inst.TArgs)"},
		{"funcContext.newNamedTypeInstDecl", "d.Dce().SetName(inst.Object, inst.TNest, inst.TArgs)"},
	} {
		fd := c.FuncDecl("compiler", w.fn)
		ok := fd != nil && strings.Contains(nodeString(c, fd.Body), w.frag)
		r.Check(ok, "dce:instance-name:"+w.fn, "compiler/decls.go", "the DCE name of an instance decl includes its nesting and type arguments (distinct instances are distinct DCE nodes)")
	}
}

// raw accessors of types.Info that yield types which may mention type parameters
func ruleC04Subst(c *ctx.Ctx, r *core.Reporter) {
	r.Begin("C04.subst", "F-WHO", "package compiler reads expression types, selections and instances from types.Info only inside the wrappers that apply the type-parameter substitution (typeOf, selectionOf, instanceOf, fieldType) or at the reviewed exceptions", 6)
	wrappers := map[string]string{
		"funcContext.typeOf":      "applies typeResolver.Substitute",
		"funcContext.selectionOf": "applies typeResolver.SubstituteSelection",
		"funcContext.instanceOf":  "applies typeResolver.SubstituteAll to the type arguments",
		"funcContext.fieldType":   "applies typeResolver.Substitute",
	}
	reviewed := map[string]string{
		"funcContext.literalFuncContext|TypeOf": "the literal's generic signature is kept on purpose: result variables must match the objects used in the body; types are substituted at use",
		"funcContext.translateStmt|Implicits":   "the implicit object's type is passed through typeResolver.Substitute on the next line",
	}
	p := c.Pkg("compiler")
	info := p.TypesInfo
	n := 0
	for _, fd := range c.AllFuncDecls("compiler") {
		if fd.Body == nil {
			continue
		}
		fn := ctx.FuncName(fd)
		ast.Inspect(fd.Body, func(x ast.Node) bool {
			kind := ""
			var at ast.Node
			switch e := x.(type) {
			case *ast.CallExpr:
				if sel, ok := e.Fun.(*ast.SelectorExpr); ok && sel.Sel.Name == "TypeOf" {
					if o, ok := info.Uses[sel.Sel].(*types.Func); ok && o.Pkg() != nil && o.Pkg().Path() == "go/types" {
						kind, at = "TypeOf", e
					}
				}
			case *ast.IndexExpr:
				if sel, ok := e.X.(*ast.SelectorExpr); ok {
					switch sel.Sel.Name {
					case "Selections", "Instances", "Implicits":
						if v, ok := info.Uses[sel.Sel].(*types.Var); ok && v.IsField() && v.Pkg() != nil && v.Pkg().Path() == "go/types" {
							kind, at = sel.Sel.Name, e
						}
					}
				}
			case *ast.SelectorExpr:
				// <info>.Types[x].Type
				if e.Sel.Name == "Type" {
					if ix, ok := e.X.(*ast.IndexExpr); ok {
						if sel, ok := ix.X.(*ast.SelectorExpr); ok && sel.Sel.Name == "Types" {
							if v, ok := info.Uses[sel.Sel].(*types.Var); ok && v.IsField() && v.Pkg() != nil && v.Pkg().Path() == "go/types" {
								kind, at = "Types[].Type", e
							}
						}
					}
				}
			}
			if kind == "" {
				return true
			}
			n++
			key := "raw:" + fn + "|" + kind
			if why, ok := wrappers[fn]; ok {
				r.OK(key, c.Pos(at.Pos()), "inside a substitution wrapper: "+why)
			} else if why, ok := reviewed[fn+"|"+kind]; ok {
				r.OK(key, c.Pos(at.Pos()), "reviewed exception: "+why)
			} else {
				r.Violation(key, c.Pos(at.Pos()), fmt.Sprintf("%s reads types.Info.%s directly: inside a generic function instance the result is expressed in type parameters, not in the instance's type arguments; use fc.typeOf / fc.selectionOf / fc.instanceOf / fc.fieldType", fn, kind))
			}
			return true
		})
	}
	r.Count("raw types.Info type accessors in package compiler", n)
	// the reviewed Implicits exception holds only if every read of the implicit object's type is substituted
	if ts := c.FuncDecl("compiler", "funcContext.translateStmt"); ts != nil {
		ast.Inspect(ts.Body, func(x ast.Node) bool {
			is, ok := x.(*ast.IfStmt)
			if !ok || is.Init == nil {
				return true
			}
			as, ok := is.Init.(*ast.AssignStmt)
			if !ok || len(as.Lhs) != 1 || len(as.Rhs) != 1 || !strings.Contains(exprStr(as.Rhs[0]), ".Implicits[") {
				return true
			}
			v := exprStr(as.Lhs[0])
			// every `v.Type()` must be the argument of a Substitute call
			var stack []ast.Node
			okAll, uses := true, 0
			ast.Inspect(is.Body, func(m ast.Node) bool {
				if m == nil {
					stack = stack[:len(stack)-1]
					return true
				}
				stack = append(stack, m)
				if ce, isCall := m.(*ast.CallExpr); isCall && exprStr(ce.Fun) == v+".Type" {
					uses++
					substituted := false
					if len(stack) >= 2 {
						if pc, isPC := stack[len(stack)-2].(*ast.CallExpr); isPC {
							if sel, isSel := pc.Fun.(*ast.SelectorExpr); isSel && sel.Sel.Name == "Substitute" {
								substituted = true
							}
						}
					}
					if !substituted {
						okAll = false
					}
				}
				return true
			})
			r.Check(okAll && uses >= 1, "reviewed:Implicits-substituted", c.Pos(is.Pos()), fmt.Sprintf("the type of the type-switch clause variable (%s.Type(), %d read(s)) is always passed through typeResolver.Substitute: inside a generic instance `case T:` must bind the variable with the instance's type argument, which decides whether the value is unwrapped", v, uses))
			return true
		})
	}
	// literalFuncContext: the generic signature is only used to build the synthetic function object
	if lf := c.FuncDecl("compiler", "funcContext.literalFuncContext"); lf != nil {
		t := squash(nodeString(c, lf.Body))
		r.Check(strings.Contains(t, "sig:=fc.pkgCtx.TypeOf(fun).(*types.Signature)") && strings.Contains(t, "types.NewFunc(fun.Pos(),fc.pkgCtx.Pkg,fc.newLitFuncName(),sig)"), "reviewed:literal-signature-kept-generic", c.Pos(lf.Pos()), "the unsubstituted literal signature only feeds the synthetic *types.Func of the literal (its result variables must be the objects used in the body)")
	}
	// the wrappers do substitute
	for fn, frag := range map[string]string{"funcContext.typeOf": "fc.typeResolver.Substitute(typ)", "funcContext.selectionOf": "fc.typeResolver.SubstituteSelection(sel)", "funcContext.instanceOf": "fc.typeResolver.SubstituteAll(i.TypeArgs)", "funcContext.fieldType": "fc.typeResolver.Substitute(t.Field(i).Type())"} {
		fd := c.FuncDecl("compiler", fn)
		ok := fd != nil && strings.Contains(nodeString(c, fd.Body), frag)
		r.Check(ok, "wrapper-substitutes:"+fn, "compiler/utils.go", fn+" returns "+frag)
	}
}

func ruleC04Failstop(c *ctx.Ctx, r *core.Reporter) {
	r.Begin("C04.failstop", "F-MUST", "an unsubstituted type parameter that reaches typeName or initArgs aborts compilation instead of being emitted as an anonymous type", 2)
	for _, fn := range []string{"funcContext.typeName", "funcContext.initArgs"} {
		fd := c.FuncDecl("compiler", fn)
		if fd == nil {
			r.Undecided("failstop:"+fn, "compiler", "not found")
			continue
		}
		arm := armOf(fd, "*types.TypeParam")
		ok := arm != nil && containsCallTo(arm, "panic")
		site := c.Pos(fd.Pos())
		if arm != nil {
			site = c.Pos(arm.Pos())
		}
		r.Check(ok, "failstop:"+fn, site, fn+" has a *types.TypeParam arm that panics (bail-out) when substitution leaves the parameter in place")
	}
}
