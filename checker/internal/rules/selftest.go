package rules

import (
	"verif/checker/internal/core"
	"verif/checker/internal/ctx"
)

// Mutant is one micro-mutation of the repository used to validate the checker.
type Mutant struct {
	ID       string
	Property string
	File     string // repo-relative
	Old, New string // exact substring replacement (must occur exactly once)
	Rule     string // rule expected to fire
}

var mutants []Mutant

func Mutants(prop string) []Mutant {
	var out []Mutant
	for _, m := range mutants {
		if m.Property == prop {
			out = append(out, m)
		}
	}
	return out
}

func ApplyMutant(c *ctx.Ctx, prop, id string) error { return nil }

func SelfValidate(c *ctx.Ctx, r *core.Reporter, prop string) {}
