package rules

import (
	"bytes"
	"fmt"
	"go/ast"
	"go/parser"
	"go/token"
	"os"
	"os/exec"
	"path/filepath"
	"regexp"
	"sort"
	"strings"
	"sync"

	"verif/checker/internal/core"
	"verif/checker/internal/ctx"
)

// Mutant is one micro-mutation of the repository used to validate the checker
// (thorough tier). It is applied through an in-memory overlay, never on disk.
type Mutant struct {
	ID       string
	Property string
	File     string  // repo-relative
	Old, New string  // exact substring replacement (Old must occur exactly once)
	Patch    string  // alternatively: a unified diff file (seeded changes)
	Rename   *Rename // alternatively: rename a local identifier inside one function (negative controls)
	Rule     string  // rule expected to fire
	Silent   bool    // negative control: a behaviour-preserving edit; the whole check must stay silent
	Note     string
}

var mutants []Mutant

func addMutants(ms ...Mutant) { mutants = append(mutants, ms...) }

func Mutants(prop string) []Mutant {
	var out []Mutant
	for _, m := range mutants {
		if m.Property == prop {
			out = append(out, m)
		}
	}
	sort.Slice(out, func(i, j int) bool { return out[i].ID < out[j].ID })
	return out
}

// Rename describes a behaviour-preserving renaming of a local identifier within one Go function.
type Rename struct{ Func, From, To string }

// applyRename rewrites whole-word occurrences of From inside the text of function Func of the file.
func applyRename(src string, rn *Rename) (string, error) {
	fset := token.NewFileSet()
	f, err := parser.ParseFile(fset, "x.go", src, parser.ParseComments)
	if err != nil {
		return "", err
	}
	for _, d := range f.Decls {
		fd, ok := d.(*ast.FuncDecl)
		if !ok || fd.Body == nil {
			continue
		}
		name := fd.Name.Name
		if fd.Recv != nil && len(fd.Recv.List) == 1 {
			t := fd.Recv.List[0].Type
			if st, ok := t.(*ast.StarExpr); ok {
				t = st.X
			}
			if ix, ok := t.(*ast.IndexExpr); ok {
				t = ix.X
			}
			if id, ok := t.(*ast.Ident); ok {
				name = id.Name + "." + name
			}
		}
		if name != rn.Func {
			continue
		}
		a, b := fset.Position(fd.Pos()).Offset, fset.Position(fd.End()).Offset
		re := regexp.MustCompile(`\b` + regexp.QuoteMeta(rn.From) + `\b`)
		body := src[a:b]
		if !re.MatchString(body) {
			return "", fmt.Errorf("identifier %s does not occur in %s", rn.From, rn.Func)
		}
		if regexp.MustCompile(`\b` + regexp.QuoteMeta(rn.To) + `\b`).MatchString(body) {
			return "", fmt.Errorf("identifier %s already occurs in %s", rn.To, rn.Func)
		}
		return src[:a] + re.ReplaceAllString(body, rn.To) + src[b:], nil
	}
	return "", fmt.Errorf("function %s not found", rn.Func)
}

// ApplyMutant installs the overlay for one mutant.
func ApplyMutant(c *ctx.Ctx, prop, id string) error {
	for _, m := range mutants {
		if m.Property != prop || m.ID != id {
			continue
		}
		if m.Patch != "" {
			return applyPatchOverlay(c, m.Patch)
		}
		if m.Rename != nil {
			b, err := c.ReadFile(m.File)
			if err != nil {
				return err
			}
			out, err := applyRename(string(b), m.Rename)
			if err != nil {
				return fmt.Errorf("mutant %s: %v (the repository was edited; self-test skipped)", id, err)
			}
			c.Overlay[filepath.Join(c.Repo, m.File)] = []byte(out)
			return nil
		}
		b, err := c.ReadFile(m.File)
		if err != nil {
			return err
		}
		if n := strings.Count(string(b), m.Old); n != 1 {
			return fmt.Errorf("mutant %s: anchor text occurs %d times in %s (the repository was edited; self-test skipped)", id, n, m.File)
		}
		c.Overlay[filepath.Join(c.Repo, m.File)] = []byte(strings.Replace(string(b), m.Old, m.New, 1))
		return nil
	}
	return fmt.Errorf("unknown mutant %s for %s", id, prop)
}

// SelfValidate runs every mutant of the property in its own process and
// records whether the expected rule fired. A mutant that cannot be applied
// because /repo was edited is reported as skipped, never as a violation.
func SelfValidate(c *ctx.Ctx, r *core.Reporter, prop string) {
	ms := Mutants(prop)
	r.Begin("selftest."+prop, "self-validation", "each catalogued single-edit mutant of the repository (applied through an in-memory overlay) makes the expected rule report a violation", 0)
	if len(ms) == 0 {
		return
	}
	exe, err := os.Executable()
	if err != nil {
		r.Info("selftest", "", "cannot locate own executable: "+err.Error())
		return
	}
	type result struct {
		m     Mutant
		out   string
		code  int
		fired bool
	}
	results := make([]result, len(ms))
	sem := make(chan struct{}, 6)
	var wg sync.WaitGroup
	for i, m := range ms {
		wg.Add(1)
		go func(i int, m Mutant) {
			defer wg.Done()
			sem <- struct{}{}
			defer func() { <-sem }()
			cmd := exec.Command(exe, "-property", prop, "-tier", "quick", "-mutant", m.ID, "-repo", c.Repo, "-verif", c.Verif)
			var buf bytes.Buffer
			cmd.Stdout = &buf
			cmd.Stderr = &buf
			err := cmd.Run()
			code := 0
			if ee, ok := err.(*exec.ExitError); ok {
				code = ee.ExitCode()
			} else if err != nil {
				code = -1
			}
			out := buf.String()
			fired := false
			for _, l := range strings.Split(out, "\n") {
				if strings.Contains(l, "["+m.Rule+"]") && (strings.Contains(l, " violated ") || strings.Contains(l, " undecided ")) {
					fired = true
				}
			}
			results[i] = result{m, out, code, fired}
		}(i, m)
	}
	wg.Wait()
	killed := 0
	for _, res := range results {
		switch {
		case res.code == 3:
			r.Info("mutant:"+res.m.ID, res.m.File, "self-test skipped: "+strings.TrimSpace(res.out))
		case res.m.Silent && res.code == 0:
			killed++
			r.OK("control:"+res.m.ID, res.m.File, fmt.Sprintf("negative control (%s): the check stays silent", res.m.Note))
		case res.m.Silent:
			r.Info("control-alarm:"+res.m.ID, res.m.File, fmt.Sprintf("negative control (%s) raised an alarm (exit %d): the rule is too strict", res.m.Note, res.code))
		case res.fired && res.code == 1:
			killed++
			r.OK("mutant:"+res.m.ID, res.m.File, fmt.Sprintf("mutant (%s) detected by %s", res.m.Note, res.m.Rule))
		default:
			// a missed mutant is a weakness of the checker, not a violation of the property on the tree
			r.Info("mutant-missed:"+res.m.ID, res.m.File, fmt.Sprintf("mutant (%s) NOT detected by %s (exit %d)", res.m.Note, res.m.Rule, res.code))
		}
	}
	r.Count("self-validation mutants run", len(ms))
	r.Count("self-validation mutants detected", killed)
}
