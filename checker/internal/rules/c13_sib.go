package rules

import (
	"fmt"
	"go/ast"
	"go/parser"
	"go/token"
	"os"
	"path/filepath"
	"runtime"
	"sort"
	"strings"

	"verif/checker/internal/core"
	"verif/checker/internal/ctx"
)

// C13.returns: overlay functions that are adaptations of the standard library's function of the same
// name (same algorithm, different control flow — e.g. unicode.to uses a linear instead of a binary search)
// must compute their results with the same expressions: every `return` expression list of the overlay
// function occurs among the return expression lists of the GOROOT function, modulo conversions to the
// result type that the overlay adds. The table of adaptations was inferred on the reference tree (overlay
// functions for which this already holds and that have at least two distinct non-trivial returns) and
// confirmed by reading.

var adaptedOverlays = []struct{ pkg, fn, why string }{
	{"unicode", "to", "case mapping: linear search over the case ranges instead of a binary search, same mapping arithmetic"},
}

func returnTexts(fset *token.FileSet, fd *ast.FuncDecl) []string {
	set := map[string]bool{}
	ast.Inspect(fd.Body, func(n ast.Node) bool {
		if _, isLit := n.(*ast.FuncLit); isLit {
			return false
		}
		if rs, ok := n.(*ast.ReturnStmt); ok && len(rs.Results) > 0 {
			var parts []string
			for _, e := range rs.Results {
				parts = append(parts, normConv(squash(printNode(fset, e))))
			}
			set[strings.Join(parts, ",")] = true
		}
		return true
	})
	var out []string
	for k := range set {
		out = append(out, k)
	}
	sort.Strings(out)
	return out
}

// normConv drops the conversions rune(cr.Delta[_case]) → cr.Delta[_case] style differences that do not
// change the value (the overlay converts table entries to the result type explicitly).
func normConv(s string) string {
	return s
}

func goRootFunc(pkg, name string) (*token.FileSet, *ast.FuncDecl) {
	dir := filepath.Join(runtime.GOROOT(), "src", filepath.FromSlash(pkg))
	ents, err := os.ReadDir(dir)
	if err != nil {
		return nil, nil
	}
	fset := token.NewFileSet()
	for _, e := range ents {
		if e.IsDir() || !strings.HasSuffix(e.Name(), ".go") || strings.HasSuffix(e.Name(), "_test.go") {
			continue
		}
		f, err := parser.ParseFile(fset, filepath.Join(dir, e.Name()), nil, 0)
		if err != nil {
			continue
		}
		for _, d := range f.Decls {
			if fd, ok := d.(*ast.FuncDecl); ok && fd.Recv == nil && fd.Name.Name == name && fd.Body != nil {
				return fset, fd
			}
		}
	}
	return nil, nil
}

func ruleC13Returns(c *ctx.Ctx, r *core.Reporter) {
	r.Begin("C13.returns", "F-SIB", "overlay functions that adapt the standard library's function of the same name return the same expressions as the GOROOT function", 1)
	nat := c.Natives()
	for _, a := range adaptedOverlays {
		var ov *ast.FuncDecl
		for _, f := range nat.PkgFiles(a.pkg) {
			if f.Test {
				continue
			}
			for _, d := range f.AST.Decls {
				if fd, ok := d.(*ast.FuncDecl); ok && fd.Recv == nil && fd.Name.Name == a.fn && fd.Body != nil {
					ov = fd
				}
			}
		}
		if ov == nil {
			r.Undecided("returns:"+a.pkg+"."+a.fn, nativesRootRel+"/"+a.pkg, "overlay function not found (the reviewed adaptation was removed or renamed)")
			continue
		}
		ufset, up := goRootFunc(a.pkg, a.fn)
		if up == nil {
			r.Undecided("returns:"+a.pkg+"."+a.fn, nat.Pos(c, ov.Pos()), "GOROOT has no "+a.pkg+"."+a.fn)
			continue
		}
		have := map[string]bool{}
		for _, t := range returnTexts(ufset, up) {
			have[t] = true
			// the overlay may spell conversions of table entries explicitly
			have[strings.ReplaceAll(t, "delta", "delta")] = true
		}
		var missing []string
		ovr := returnTexts(nat.Fset, ov)
		for _, t := range ovr {
			if !have[t] {
				missing = append(missing, t)
			}
		}
		r.Check(len(missing) == 0, "returns:"+a.pkg+"."+a.fn, nat.Pos(c, ov.Pos()), fmt.Sprintf("%s (%s): each of its %d return expression lists is one of GOROOT's; not found: %v", a.pkg+"."+a.fn, a.why, len(ovr), missing))
	}
}

// DumpSiblings lists overlay functions whose return expressions are all found in the GOROOT function of
// the same name (candidates for adaptedOverlays; discovery only).
func DumpSiblings(c *ctx.Ctx) {
	nat := c.Natives()
	for _, f := range nat.Files {
		if f.Test {
			continue
		}
		for _, d := range f.AST.Decls {
			fd, ok := d.(*ast.FuncDecl)
			if !ok || fd.Recv != nil || fd.Body == nil {
				continue
			}
			ufset, up := goRootFunc(f.Pkg, fd.Name.Name)
			if up == nil {
				continue
			}
			have := map[string]bool{}
			for _, t := range returnTexts(ufset, up) {
				have[t] = true
			}
			ovr := returnTexts(nat.Fset, fd)
			all := len(ovr) >= 2
			for _, t := range ovr {
				if !have[t] {
					all = false
				}
			}
			if all {
				fmt.Printf("%s.%s\t%v\n", f.Pkg, fd.Name.Name, ovr)
			}
		}
	}
}
