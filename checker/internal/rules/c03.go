package rules

import (
	"fmt"
	"go/ast"
	"strings"

	"verif/checker/internal/core"
	"verif/checker/internal/ctx"
	"verif/checker/internal/tmpl"
)

func init() {
	register(&Property{
		ID:          "C03",
		Explanation: "Decided (shape of the channel runtime and of its translation): (translate) send/receive/select/close/go/make/len/cap map to the matching prelude entry points and the select argument encoding (arrays of length 0/1/2) agrees with $select's dispatch; (pair) every enqueue on a channel wait queue is followed on all paths by $block() and the return of a continuation object, every queued closure reschedules the captured goroutine on all normal paths, and in $select every enqueue is registered for removal and every queued closure deregisters all entries before rescheduling; (fifo) buffers and wait queues are only appended with push and consumed with shift; (close) $close rejects the nil channel, marks the channel closed and drains both wait queues, $send and $select test for closed channels before enqueueing; (runtime) Gosched/Goexit/NumGoroutine reference existing prelude state. NOT decided: rendezvous/FIFO semantics under interleavings, fairness, deadlock detection exactness, timers — these quantify over schedules.",
		Assumptions: []string{"JavaScript arrays used as queues preserve push/shift order"},
		Rules:       []RuleFunc{ruleC03Translate, ruleC03Pair, ruleC03Fifo, ruleC03Close, ruleC03Runtime, ruleC03Flow, ruleC03Wakers, ruleC03Deadlock, ruleC07Contexts, ruleC03ShiftedIsRun},
	})
}

func hasTemplate(c *ctx.Ctx, fn string, pathContains string, pred func(t *tmpl.Template) bool) *tmpl.Template {
	for _, t := range usableTemplates(c) {
		if fn != "" && t.Func != fn {
			continue
		}
		if pathContains != "" && !strings.Contains(strings.Join(t.CasePath, "/"), pathContains) {
			continue
		}
		if pred(t) {
			return t
		}
	}
	return nil
}

func ruleC03Translate(c *ctx.Ctx, r *core.Reporter) {
	r.Begin("C03.translate", "F-TABLE", "channel statements and builtins are translated to the matching prelude entry points and the select case encoding agrees with $select", 12)
	type want struct{ key, fn, path, text, descr string }
	for _, w := range []want{
		{"send", "funcContext.translateStmt", "type:*ast.SendStmt", "$send", "a send statement calls $send"},
		{"recv", "funcContext.translateExpr", "_.Op:token.ARROW", "$recv", "a receive expression calls $recv"},
		{"select", "funcContext.translateStmt", "type:*ast.SelectStmt", "$select", "a select statement calls $select"},
		{"select:default", "funcContext.translateStmt", "type:*ast.SelectStmt/type:nil", "[]", "the default case is encoded as an empty array"},
		{"select:send", "funcContext.translateStmt", "type:*ast.SelectStmt/type:*ast.SendStmt", "[⟨0⟩, ⟨1⟩]", "a send case is encoded as [channel, value]"},
		{"go", "funcContext.translateStmt", "type:*ast.GoStmt", "$go(⟨0⟩, ⟨1⟩);", "a go statement hands the callable and its evaluated arguments to $go"},
		{"close", "funcContext.translateBuiltin", `_:"close"`, "$close(⟨0⟩)", "close calls $close"},
		{"make", "funcContext.translateBuiltin", `_:"make"/type:*types.Chan`, "new $Chan(⟨0⟩, ⟨1⟩)", "make(chan T, n) constructs $Chan(elem type, capacity)"},
		{"len", "funcContext.translateBuiltin", `_:"len"/type:*types.Chan`, "⟨0⟩.$buffer.length", "len(ch) is the buffer length"},
		{"cap", "funcContext.translateBuiltin", `_:"cap"`, "⟨0⟩.$capacity", "cap(ch) is the channel capacity"},
	} {
		t := hasTemplate(c, w.fn, w.path, func(t *tmpl.Template) bool { return t.Text == w.text })
		site := "compiler"
		if t != nil {
			site = c.Pos(t.Pos)
		}
		r.Check(t != nil, "translate:"+w.key, site, w.descr+" (template "+w.text+")")
	}
	// receive cases: [chan] for ExprStmt and AssignStmt comms
	for _, p := range []string{"type:*ast.SelectStmt/type:*ast.ExprStmt", "type:*ast.SelectStmt/type:*ast.AssignStmt"} {
		t := hasTemplate(c, "funcContext.translateStmt", p, func(t *tmpl.Template) bool { return t.Text == "[⟨0⟩]" })
		r.Check(t != nil, "translate:select:recv:"+p[len("type:*ast.SelectStmt/type:*ast."):], "compiler/statements.go", "a receive case is encoded as [channel]")
	}
	// the synthetic $send/$recv/$select calls are marked blocking in the same function
	for _, w := range []struct{ fn, name string }{{"funcContext.translateStmt", "$send"}, {"funcContext.translateExpr", "$recv"}, {"funcContext.translateStmt", "$select"}} {
		fd := c.FuncDecl("compiler", w.fn)
		ok := false
		if fd != nil {
			ast.Inspect(fd.Body, func(n ast.Node) bool {
				cc, isCC := n.(*ast.CaseClause)
				if !isCC {
					return true
				}
				src := nodeString(c, cc)
				if strings.Contains(src, `"`+w.name+`"`) && strings.Contains(src, "fc.Blocking[") && strings.Contains(src, "] = true") {
					ok = true
				}
				return true
			})
		}
		r.Check(ok, "translate:blocking:"+w.name, "compiler", "the synthetic call of "+w.name+" is recorded in fc.Blocking in the arm that builds it, so that translateCall emits the resume protocol")
	}
	// prelude side: $select dispatches on comm.length with labels 0,1,2
	if !needPrelude(c, r) {
		return
	}
	sel := c.PreludeFunc("$select")
	if sel == nil {
		r.Undecided("$select", "compiler/prelude/goroutines.js", "not found")
		return
	}
	i := 0
	sel.Walk(func(n *ctx.JSNode) bool {
		if n.Is("SwitchStatement") && strings.HasSuffix(strings.ReplaceAll(n.N("discriminant").Src(), " ", ""), ".length") {
			arms := switchArms(n)
			i++
			want := []string{"0", "1", "2"}
			if i == 3 {
				want = []string{"1", "2"} // registration: default case never blocks
			}
			var missing []string
			for _, w := range want {
				if arms[w] == nil {
					missing = append(missing, w)
				}
			}
			r.Check(len(missing) == 0, fmt.Sprintf("select:dispatch#%d", i), n.Pos(), fmt.Sprintf("switch (comm.length) #%d of $select handles the encodings %v (missing %v)", i, want, missing))
		}
		return true
	})
	if i < 3 {
		r.Undecided("select:dispatch", sel.Pos(), fmt.Sprintf("expected three switch(comm.length) statements (readiness, execution, registration), found %d", i))
	}
}

// queuePushes finds X.$sendQueue.push(F) / X.$recvQueue.push(F) in fn.
type queuePush struct {
	call  *ctx.JSNode
	queue string // source of the queue expression
	qname string // $sendQueue / $recvQueue
	arg   *ctx.JSNode
}

func queuePushes(fn *ctx.JSNode) []queuePush {
	var out []queuePush
	fn.Walk(func(n *ctx.JSNode) bool {
		if !n.Is("CallExpression") {
			return true
		}
		cal := n.N("callee")
		if !cal.Is("MemberExpression") || cal.MemberName() != "push" {
			return true
		}
		q := cal.N("object")
		if q.Is("MemberExpression") && (q.MemberName() == "$sendQueue" || q.MemberName() == "$recvQueue") && len(n.L("arguments")) == 1 {
			out = append(out, queuePush{n, strings.ReplaceAll(q.Src(), " ", ""), q.MemberName(), n.L("arguments")[0]})
		}
		return true
	})
	return out
}

// resolveFunc resolves an expression to a function literal via local initialisers.
func resolveFunc(e *ctx.JSNode, scope *ctx.JSNode) *ctx.JSNode {
	if e.IsFunc() {
		return e
	}
	if id := e.IdentName(); id != "" {
		// nearest declaration before use in enclosing scopes
		for f := scope; f != nil; f = f.EnclosingFunc() {
			var best *ctx.JSNode
			f.Walk(func(n *ctx.JSNode) bool {
				if n.Is("VariableDeclarator") && n.N("id").IdentName() == id && n.N("init") != nil && n.N("init").IsFunc() && n.Start < e.Start {
					if best == nil || n.Start > best.Start {
						best = n.N("init")
					}
				}
				return true
			})
			if best != nil {
				return best
			}
		}
	}
	return nil
}

// topLevelStmtsAfter returns the statements of fn's body that follow the one containing node.
func topLevelStmtsAfter(fn, node *ctx.JSNode) []*ctx.JSNode {
	body := fn.N("body").L("body")
	for i, st := range body {
		if containsNode(st, node) {
			return body[i+1:]
		}
	}
	return nil
}

// unconditionalCalls lists calls that are direct expression statements of the function body (not nested in if/loops).
func unconditionalStmts(fn *ctx.JSNode) []*ctx.JSNode {
	b := fn.N("body")
	if b.Is("BlockStatement") {
		return b.L("body")
	}
	return []*ctx.JSNode{b}
}

func ruleC03Pair(c *ctx.Ctx, r *core.Reporter) {
	r.Begin("C03.pair", "F-PAIR", "enqueue on a wait queue ⇒ $block() and return of a continuation; queued closure ⇒ reschedules the captured goroutine; in $select: enqueue ⇒ registered in entries, queued closure ⇒ deregisters before rescheduling", 12)
	if !needPrelude(c, r) {
		return
	}
	total := 0
	for _, name := range []string{"$send", "$recv", "$select"} {
		fn := c.PreludeFunc(name)
		if fn == nil {
			r.Undecided("pair:"+name, "compiler/prelude/goroutines.js", "function not found")
			continue
		}
		// the variable capturing the current goroutine
		gvar := ""
		for v, ins := range localInits(fn) {
			for _, in := range ins {
				if in.IdentName() == "$curGoroutine" {
					gvar = v
				}
			}
		}
		pushes := queuePushes(fn)
		total += len(pushes)
		for i, p := range pushes {
			id := fmt.Sprintf("%s:%s#%d", name, p.qname, i)
			// (a) $block() then return <continuation>
			after := topLevelStmtsAfter(fn, p.call)
			blockIdx, retIdx := -1, -1
			var ret *ctx.JSNode
			for j, st := range after {
				if st.Is("ExpressionStatement") && st.N("expression").Is("CallExpression") && st.N("expression").N("callee").IdentName() == "$block" && blockIdx < 0 {
					blockIdx = j
				}
				if st.Is("ReturnStatement") && retIdx < 0 {
					retIdx, ret = j, st.N("argument")
				}
			}
			r.Check(blockIdx >= 0 && retIdx > blockIdx, "block-after-enqueue:"+id, p.call.Pos(), fmt.Sprintf("after %s.push(...) the function unconditionally calls $block() and then returns (block at +%d, return at +%d)", p.queue, blockIdx, retIdx))
			// the returned value has a $blk member
			hasBlk := false
			if ret != nil {
				obj := ret
				if idn := ret.IdentName(); idn != "" {
					for _, in := range localInits(fn)[idn] {
						if in.Is("ObjectExpression") {
							obj = in
						}
					}
				}
				if obj.Is("ObjectExpression") {
					for _, pr := range obj.L("properties") {
						if pr.N("key").IdentName() == "$blk" {
							hasBlk = true
						}
					}
				}
			}
			r.Check(hasBlk, "continuation:"+id, p.call.Pos(), "the value returned after blocking is an object with a $blk method (the resume protocol of translateCall tests r.$blk)")
			// (b) queued closure reschedules the captured goroutine unconditionally
			qf := resolveFunc(p.arg, p.call.EnclosingFunc())
			if qf == nil {
				r.Undecided("queued-closure:"+id, p.call.Pos(), "cannot resolve the queued value to a function literal")
				continue
			}
			schedIdx, removeIdx, earlyReturn := -1, -1, false
			for j, st := range unconditionalStmts(qf) {
				if st.Is("ExpressionStatement") && st.N("expression").Is("CallExpression") {
					cal := st.N("expression")
					switch cal.N("callee").IdentName() {
					case "$schedule":
						if a := cal.L("arguments"); len(a) == 1 && a[0].IdentName() == gvar && gvar != "" && schedIdx < 0 {
							schedIdx = j
						}
					case "removeFromQueues":
						if removeIdx < 0 {
							removeIdx = j
						}
					}
				}
				if st.Is("ReturnStatement") && schedIdx < 0 {
					earlyReturn = true
				}
			}
			r.Check(schedIdx >= 0 && !earlyReturn, "reschedule:"+id, qf.Pos(), fmt.Sprintf("the closure queued on %s calls $schedule(%s) as an unconditional statement before any return (a conditional throw for a closed channel may precede it)", p.queue, gvar))
			if name == "$select" {
				r.Check(removeIdx >= 0 && removeIdx < schedIdx, "deregister:"+id, qf.Pos(), "the queued closure of $select removes the goroutine from all other queues before rescheduling it (no second case can fire)")
				// registration: entries.push([<same queue>, <same closure>]) in the same block
				blockStmt := p.call.Parent
				for blockStmt != nil && !blockStmt.Is("SwitchCase", "BlockStatement") {
					blockStmt = blockStmt.Parent
				}
				reg := false
				if blockStmt != nil {
					blockStmt.Walk(func(n *ctx.JSNode) bool {
						if n.Is("CallExpression") && strings.ReplaceAll(n.N("callee").Src(), " ", "") == "entries.push" {
							if a := n.L("arguments"); len(a) == 1 && a[0].Is("ArrayExpression") {
								el := a[0].L("elements")
								if len(el) == 2 && strings.ReplaceAll(el[0].Src(), " ", "") == p.queue && el[1].Src() == p.arg.Src() {
									reg = true
								}
							}
						}
						return true
					})
				}
				r.Check(reg, "registered:"+id, p.call.Pos(), fmt.Sprintf("the enqueue on %s is recorded as entries.push([%s, %s]) so that removeFromQueues can undo it", p.queue, p.queue, p.arg.Src()))
			}
		}
	}
	if total < 4 {
		r.Undecided("pair:pushes", "compiler/prelude/goroutines.js", fmt.Sprintf("expected at least 4 wait-queue enqueues ($send, $recv, two in $select); found %d", total))
	}
	// removeFromQueues removes every registered entry
	if sel := c.PreludeFunc("$select"); sel != nil {
		var rm *ctx.JSNode
		for _, in := range localInits(sel)["removeFromQueues"] {
			if in.IsFunc() {
				rm = in
			}
		}
		if rm == nil {
			r.Undecided("removeFromQueues", sel.Pos(), "not found")
		} else {
			// structure: a loop over entries; indexOf(entry[1]) on entry[0]; splice(index, 1)
			loops, idxOf, spl := false, false, false
			rm.Walk(func(n *ctx.JSNode) bool {
				if n.Is("ForStatement", "ForOfStatement") && strings.Contains(n.Src(), "entries") {
					loops = true
				}
				if n.Is("CallExpression") {
					switch n.N("callee").MemberName() {
					case "indexOf":
						idxOf = true
					case "splice":
						if a := n.L("arguments"); len(a) == 2 && a[1].Src() == "1" {
							spl = true
						}
					}
				}
				return true
			})
			// no entry may be skipped: the loop body has no continue/break/return and the only
			// condition around the splice is the index test
			skips := ""
			rm.Walk(func(n *ctx.JSNode) bool {
				if n.Is("ContinueStatement", "BreakStatement") || (n.Is("ReturnStatement") && n.EnclosingFunc() == rm) {
					skips = n.Type + " at " + n.Pos()
				}
				if n.Is("IfStatement") {
					t := squash(n.N("test").Src())
					if !(strings.Contains(t, "!==-1") || strings.Contains(t, ">=0") || strings.Contains(t, ">-1")) {
						skips = "condition `" + strings.TrimSpace(n.N("test").Src()) + "` at " + n.Pos()
					}
				}
				return true
			})
			r.Check(skips == "", "removeFromQueues:no-entry-skipped", rm.Pos(), "every registered entry is looked up in its queue: no continue/break/early return or extra condition in the removal loop ("+skips+")")
			ok := loops && idxOf && spl
			r.Check(ok, "removeFromQueues:all-entries", rm.Pos(), "removeFromQueues loops over all entries and splices the registered closure out of its queue")
		}
	}
	// $block puts the goroutine to sleep and refuses to block outside a goroutine
	if b := c.PreludeFunc("$block"); b != nil {
		src := squash(b.Src())
		r.Check(strings.Contains(src, "$curGoroutine===$noGoroutine") && strings.Contains(src, "$throwRuntimeError") && strings.Contains(src, "$curGoroutine.asleep=true"), "block:guard+sleep", b.Pos(), "$block throws when called outside a goroutine (JavaScript callback) and otherwise marks the goroutine asleep")
	}
	if s := c.PreludeFunc("$schedule"); s != nil {
		src := squash(s.Src())
		r.Check(strings.Contains(src, "$scheduled.push("+funcParams(s)[0]+")"), "schedule:enqueue", s.Pos(), "$schedule appends the goroutine to the run queue")
	}
}

func ruleC03Fifo(c *ctx.Ctx, r *core.Reporter) {
	r.Begin("C03.fifo", "F-PAIR", "channel buffers, wait queues and the run queue are only appended with push and consumed with shift (splice only in the deregistration helper)", 12)
	if !needPrelude(c, r) {
		return
	}
	n := 0
	for _, f := range c.PreludeList() {
		f.AST.Walk(func(x *ctx.JSNode) bool {
			if !x.Is("CallExpression") {
				return true
			}
			cal := x.N("callee")
			if !cal.Is("MemberExpression") {
				return true
			}
			q := cal.N("object")
			qn := ""
			if q.Is("MemberExpression") {
				qn = q.MemberName()
			} else {
				qn = q.IdentName()
			}
			if qn != "$buffer" && qn != "$sendQueue" && qn != "$recvQueue" && qn != "$scheduled" {
				return true
			}
			m := cal.MemberName()
			n++
			ok := m == "push" || m == "shift" || m == "indexOf"
			r.Check(ok, fmt.Sprintf("fifo:%s.%s@%s", qn, m, ctx.JSFuncName(x.EnclosingFunc())), x.Pos(), fmt.Sprintf("%s.%s(...): FIFO containers admit push (append) and shift (take oldest) only", qn, m))
			return true
		})
	}
	r.Count("queue operations examined", n)
	// splice/pop/unshift anywhere in goroutines.js must be confined to removeFromQueues / deferral stacks
	for _, f := range c.PreludeList() {
		if !strings.HasSuffix(f.Name, "goroutines.js") {
			continue
		}
		f.AST.Walk(func(x *ctx.JSNode) bool {
			if x.Is("CallExpression") && x.N("callee").Is("MemberExpression") {
				m := x.N("callee").MemberName()
				if m == "splice" || m == "unshift" {
					fnName := ctx.JSFuncName(x.EnclosingFunc())
					r.Check(strings.HasSuffix(fnName, "removeFromQueues"), "fifo:"+m+"@"+fnName, x.Pos(), m+" is only used by the select deregistration helper")
				}
			}
			return true
		})
	}
	// $chanNil queue stub implements the members used on queues
	var stub *ctx.JSNode
	for _, f := range c.PreludeList() {
		f.AST.Walk(func(x *ctx.JSNode) bool {
			if x.Is("AssignmentExpression") && strings.Contains(x.N("left").Src(), "$chanNil.$sendQueue") {
				rhs := x.N("right")
				for rhs.Is("AssignmentExpression") {
					rhs = rhs.N("right")
				}
				if rhs.Is("ObjectExpression") {
					stub = rhs
				}
			}
			return true
		})
	}
	if stub == nil {
		r.Undecided("chanNil:stub", "compiler/prelude/types.js", "queue stub of $chanNil not found")
	} else {
		have := map[string]bool{}
		for _, p := range stub.L("properties") {
			have[p.N("key").IdentName()] = true
		}
		for _, m := range []string{"length", "push", "shift", "indexOf"} {
			r.Check(have[m], "chanNil:stub."+m, stub.Pos(), "the nil channel's queue stub implements ."+m+", which $send/$recv/$select use on wait queues")
		}
	}
}

func ruleC03Close(c *ctx.Ctx, r *core.Reporter) {
	r.Begin("C03.close", "F-MUST", "$close rejects nil and closed channels, marks the channel closed and drains both wait queues; $send and the send case of $select test for a closed channel before anything else", 7)
	if !needPrelude(c, r) {
		return
	}
	cl := c.PreludeFunc("$close")
	if cl == nil || len(funcParams(cl)) != 1 {
		r.Undecided("$close", "compiler/prelude/goroutines.js", "not found or unexpected signature")
		return
	}
	ch := funcParams(cl)[0]
	stmts := cl.N("body").L("body")
	iNil, iClosed, iSet := -1, -1, -1
	for i, st := range stmts {
		if iNil < 0 && isThrowIf(st, func(t *ctx.JSNode) bool {
			return t.Is("BinaryExpression") && t.S("operator") == "===" && ((t.N("left").IdentName() == ch && t.N("right").IdentName() == "$chanNil") || (t.N("right").IdentName() == ch && t.N("left").IdentName() == "$chanNil"))
		}) {
			iNil = i
		}
		if iClosed < 0 && isThrowIf(st, func(t *ctx.JSNode) bool { return isMemberOf(t, ch, "$closed") }) {
			iClosed = i
		}
		if iSet < 0 && st.Is("ExpressionStatement") {
			e := st.N("expression")
			if e.Is("AssignmentExpression") && isMemberOf(e.N("left"), ch, "$closed") && e.N("right").Src() == "true" {
				iSet = i
			}
		}
	}
	r.Check(iNil >= 0 && (iSet < 0 || iNil < iSet), "close:nil-panics", cl.Pos(), "closing the nil channel throws before any state is changed")
	r.Check(iClosed >= 0 && iClosed < iSet, "close:closed-panics", cl.Pos(), "closing a closed channel throws")
	r.Check(iSet >= 0, "close:marks-closed", cl.Pos(), "$close sets <chan>.$closed = true")
	for _, q := range []string{"$sendQueue", "$recvQueue"} {
		ok := false
		for i, st := range stmts {
			if i <= iSet || !(st.Is("WhileStatement") || st.Is("ForStatement") || st.Is("DoWhileStatement")) {
				continue
			}
			shifts, sentinel := false, false
			st.Walk(func(n *ctx.JSNode) bool {
				if n.Is("CallExpression") && n.N("callee").MemberName() == "shift" && isMemberOf(n.N("callee").N("object"), ch, q) {
					shifts = true
				}
				if n.Is("BinaryExpression") && (n.S("operator") == "===" || n.S("operator") == "!==") && (n.N("right").IdentName() == "undefined" || n.N("left").IdentName() == "undefined") {
					sentinel = true
				}
				return true
			})
			if shifts && sentinel {
				ok = true
			}
		}
		r.Check(ok, "close:drains:"+q, cl.Pos(), "after marking the channel closed, $close takes every entry of "+q+" in a loop that ends when shift() yields undefined")
	}
	if s := c.PreludeFunc("$send"); s != nil && len(funcParams(s)) >= 1 {
		p0 := funcParams(s)[0]
		first := s.N("body").L("body")[0]
		r.Check(isThrowIf(first, func(t *ctx.JSNode) bool { return isMemberOf(t, p0, "$closed") }), "send:closed-first", first.Pos(), "the first statement of $send throws for a closed channel")
	}
	if sel := c.PreludeFunc("$select"); sel != nil {
		ok := false
		sel.Walk(func(n *ctx.JSNode) bool {
			if n.Is("SwitchCase") && n.N("test") != nil && n.N("test").Src() == "2" {
				cons := n.L("consequent")
				if len(cons) > 0 && isThrowIf(cons[0], func(t *ctx.JSNode) bool { return t.Is("MemberExpression") && t.MemberName() == "$closed" }) {
					ok = true
				}
			}
			return true
		})
		r.Check(ok, "select:send-closed-first", sel.Pos(), "the send arm of $select's readiness scan throws for a closed channel before testing readiness")
	}
}

func ruleC03Runtime(c *ctx.Ctx, r *core.Reporter) {
	r.Begin("C03.runtime", "F-LINK", "runtime.Gosched, Goexit and NumGoroutine are implemented on existing prelude state", 5)
	if !needPrelude(c, r) {
		return
	}
	nat := c.Natives()
	decls := c.PreludeDecls()
	want := map[string][]string{
		"Goexit":       {"Get:$curGoroutine", "Call:$throw"},
		"Gosched":      {"Call:$setTimeout"},
		"NumGoroutine": {"Get:$totalGoroutines"},
	}
	found := map[string]bool{}
	for _, f := range nat.PkgFiles("runtime") {
		for _, d := range f.AST.Decls {
			fd, ok := d.(*ast.FuncDecl)
			if !ok || fd.Recv != nil || fd.Body == nil {
				continue
			}
			ws, ok := want[fd.Name.Name]
			if !ok {
				continue
			}
			found[fd.Name.Name] = true
			refs := map[string]bool{}
			tmp := &ast.File{Decls: []ast.Decl{fd}}
			for _, ref := range ctx.JSRefs(tmp) {
				if ref.Global {
					refs[ref.Method+":"+ref.Name] = true
				}
			}
			for _, w := range ws {
				name := w[strings.Index(w, ":")+1:]
				_, declared := decls[name]
				r.Check(refs[w] && declared, "runtime:"+fd.Name.Name+":"+w, nat.Pos(c, fd.Pos()), fmt.Sprintf("runtime.%s uses js.Global.%s (referenced=%v, declared in prelude=%v)", fd.Name.Name, strings.Replace(w, ":", "(\"", 1)+"\")", refs[w], declared))
			}
		}
	}
	for fn := range want {
		if !found[fn] {
			r.Violation("runtime:"+fn, "compiler/natives/src/runtime/runtime.go", "runtime."+fn+" has no override")
		}
	}
	// Goexit marks the goroutine as exiting before throwing; $go's catch swallows the throw only for exiting goroutines
	if g := c.PreludeFunc("$go"); g != nil {
		src := squash(g.Src())
		r.Check(strings.Contains(src, ".exit){throw"), "go:goexit-catch", g.Pos(), "$go re-throws errors of goroutines that are not exiting and swallows the Goexit unwinding")
	}
}
