package rules

import (
	"fmt"
	"go/ast"
	"go/constant"
	"go/token"
	"go/types"
	"strings"

	"verif/checker/internal/core"
	"verif/checker/internal/ctx"
	"verif/checker/internal/tmpl"
)

func init() {
	register(&Property{
		ID:          "C14",
		Explanation: "Decided: (literal) the byte class encodeString emits unescaped is exactly printable ASCII minus the quote and the backslash, every named escape denotes its byte, and program string constants reach JavaScript only through encodeString — evaluated over all 256 byte values; (dispatch) string conversions, range, copy and append select the rune or the byte helper by the element type; (bounds) string indexing and slicing carry a run-time bounds check and $substring guards its optional parameter; (utf8) the UTF-8 decoder/encoder and the UTF-16 transcoders contain every boundary constant of the encodings, and the decoder's returned width matches the branch; (key) the string map key is injective. NOT decided: $decodeRune/$encodeRune correctness on all byte sequences, comparison semantics.",
		Assumptions: []string{"UTF-8 (RFC 3629) and UTF-16 boundary constants are frozen in the checker with the clause they come from", "a JavaScript string holds one byte per UTF-16 code unit in gopherjs' string representation"},
		Rules:       []RuleFunc{ruleC14Literal, ruleC14Dispatch, ruleC14Bounds, ruleC14UTF8, ruleC15InjectStringOnly, ruleNamedLookThrough, ruleSubarrayOffset, ruleC16Space, ruleSliceElemOffset},
	})
}

// evalByteCond evaluates a boolean expression over one byte variable.
func evalByteCond(info *types.Info, e ast.Expr, v string, b int64) (bool, bool) {
	if tv, ok := info.Types[e]; ok && tv.Value != nil && tv.Value.Kind() == constant.Bool {
		return constant.BoolVal(tv.Value), true
	}
	switch x := e.(type) {
	case *ast.ParenExpr:
		return evalByteCond(info, x.X, v, b)
	case *ast.UnaryExpr:
		if x.Op == token.NOT {
			r, ok := evalByteCond(info, x.X, v, b)
			return !r, ok
		}
	case *ast.BinaryExpr:
		switch x.Op {
		case token.LAND:
			l, ok1 := evalByteCond(info, x.X, v, b)
			r, ok2 := evalByteCond(info, x.Y, v, b)
			return l && r, ok1 && ok2
		case token.LOR:
			l, ok1 := evalByteCond(info, x.X, v, b)
			r, ok2 := evalByteCond(info, x.Y, v, b)
			return l || r, ok1 && ok2
		case token.LSS, token.LEQ, token.GTR, token.GEQ, token.EQL, token.NEQ:
			val := func(e ast.Expr) (int64, bool) {
				if id, ok := e.(*ast.Ident); ok && id.Name == v {
					return b, true
				}
				if tv, ok := info.Types[e]; ok && tv.Value != nil {
					if n, ok := constant.Int64Val(constant.ToInt(tv.Value)); ok {
						return n, true
					}
				}
				return 0, false
			}
			l, ok1 := val(x.X)
			r, ok2 := val(x.Y)
			if !ok1 || !ok2 {
				return false, false
			}
			switch x.Op {
			case token.LSS:
				return l < r, true
			case token.LEQ:
				return l <= r, true
			case token.GTR:
				return l > r, true
			case token.GEQ:
				return l >= r, true
			case token.EQL:
				return l == r, true
			case token.NEQ:
				return l != r, true
			}
		}
	}
	return false, false
}

func ruleC14Literal(c *ctx.Ctx, r *core.Reporter) {
	r.Begin("C14.literal", "F-CLASS", "encodeString writes a byte unescaped iff it is printable ASCII other than \" and \\; each named escape denotes the byte of its case label; every other byte is written as \\xNN; string constants are emitted through encodeString", 260)
	fd := c.FuncDecl("compiler", "encodeString")
	if fd == nil {
		r.Undecided("encodeString", "compiler/utils.go", "not found")
		return
	}
	info := c.Pkg("compiler").TypesInfo
	var sw *ast.SwitchStmt
	var loopVar string
	ast.Inspect(fd.Body, func(n ast.Node) bool {
		if rs, ok := n.(*ast.RangeStmt); ok && rs.Value != nil {
			loopVar = exprStr(rs.Value)
			// must iterate bytes: range []byte(s)
			if !strings.HasPrefix(exprStr(rs.X), "[]byte(") {
				loopVar = ""
			}
		}
		if s, ok := n.(*ast.SwitchStmt); ok && sw == nil && s.Tag != nil {
			sw = s
		}
		return true
	})
	if sw == nil || loopVar == "" || exprStr(sw.Tag) != loopVar {
		r.Undecided("encodeString:shape", c.Pos(fd.Pos()), "expected `for _, r := range []byte(s) { switch r { ... } }`")
		return
	}
	named := map[int64]string{}
	var def *ast.CaseClause
	for _, st := range sw.Body.List {
		cc := st.(*ast.CaseClause)
		if cc.List == nil {
			def = cc
			continue
		}
		written := ""
		for _, s := range cc.Body {
			ast.Inspect(s, func(n ast.Node) bool {
				if ce, ok := n.(*ast.CallExpr); ok {
					if sel, ok := ce.Fun.(*ast.SelectorExpr); ok && sel.Sel.Name == "WriteString" && len(ce.Args) == 1 {
						if tv, ok := info.Types[ce.Args[0]]; ok && tv.Value != nil {
							written = constant.StringVal(tv.Value)
						}
					}
				}
				return true
			})
		}
		for _, l := range cc.List {
			if tv, ok := info.Types[l]; ok && tv.Value != nil {
				v, _ := constant.Int64Val(constant.ToInt(tv.Value))
				named[v] = written
			}
		}
	}
	if def == nil {
		r.Undecided("encodeString:default", c.Pos(sw.Pos()), "no default arm")
		return
	}
	// default arm: `if <cond> { Fprintf(buffer, `\x%02X`, r); continue }; buffer.WriteByte(r)`
	var escIf *ast.IfStmt
	rawWrite := false
	escFmt := ""
	for _, s := range def.Body {
		switch x := s.(type) {
		case *ast.IfStmt:
			escIf = x
			ast.Inspect(x.Body, func(n ast.Node) bool {
				if ce, ok := n.(*ast.CallExpr); ok {
					if _, _, nm := callee(info, ce); nm == "Fprintf" && len(ce.Args) == 3 {
						if tv, ok := info.Types[ce.Args[1]]; ok && tv.Value != nil {
							escFmt = constant.StringVal(tv.Value)
						}
					}
				}
				return true
			})
		case *ast.ExprStmt:
			if ce, ok := x.X.(*ast.CallExpr); ok {
				if sel, ok := ce.Fun.(*ast.SelectorExpr); ok && sel.Sel.Name == "WriteByte" && len(ce.Args) == 1 && exprStr(ce.Args[0]) == loopVar {
					rawWrite = true
				}
			}
		}
	}
	if escIf == nil || !rawWrite {
		r.Undecided("encodeString:default-shape", c.Pos(def.Pos()), "expected `if cond { Fprintf(\\xNN); continue }; WriteByte(r)` in the default arm")
		return
	}
	endsContinue := false
	if n := len(escIf.Body.List); n > 0 {
		if bs, ok := escIf.Body.List[n-1].(*ast.BranchStmt); ok && bs.Tok == token.CONTINUE {
			endsContinue = true
		}
	}
	r.Check(endsContinue, "escape-branch-continues", c.Pos(escIf.Pos()), "the \\xNN branch ends in continue, so an escaped byte is not also written raw")
	r.Check(escFmt == `\x%02X` || escFmt == `\x%02x`, "escape-format", c.Pos(escIf.Pos()), fmt.Sprintf("non-printable bytes are written with format %q (two hex digits)", escFmt))
	wantNamed := map[int64]string{8: `\b`, 12: `\f`, 10: `\n`, 13: `\r`, 9: `\t`, 11: `\v`, 34: `\"`, 92: `\\`}
	site := c.Pos(sw.Pos())
	for b := int64(0); b < 256; b++ {
		key := fmt.Sprintf("byte:0x%02X", b)
		if esc, ok := named[b]; ok {
			w, known := wantNamed[b]
			good := (known && esc == w) || esc == fmt.Sprintf(`\x%02X`, b) || esc == fmt.Sprintf(`\x%02x`, b) || esc == fmt.Sprintf(`\u%04X`, b)
			r.Check(good, key, site, fmt.Sprintf("byte 0x%02X is written as %q, which denotes that byte in a JavaScript string literal", b, esc))
			continue
		}
		escaped, ok := evalByteCond(info, escIf.Cond, loopVar, b)
		if !ok {
			r.Undecided(key, c.Pos(escIf.Pos()), "cannot evaluate the escape condition "+exprStr(escIf.Cond))
			return
		}
		mustRaw := b >= 0x20 && b <= 0x7E && b != '"' && b != '\\'
		switch {
		case escaped && !mustRaw:
			r.OK(key, site, "escaped as \\xNN")
		case !escaped && mustRaw:
			r.OK(key, site, "printable ASCII, written as is")
		case !escaped && !mustRaw:
			r.Violation(key, site, fmt.Sprintf("byte 0x%02X is written unescaped into the JavaScript string literal: control bytes break the literal or the source-map hint scanner (0x08), bytes >= 0x80 are not one UTF-16 unit per byte after the file is decoded as UTF-8", b))
		default:
			r.OK(key, site, "escaped although printable (harmless)")
		}
	}
	// result is wrapped in double quotes
	retOK := false
	ast.Inspect(fd.Body, func(n ast.Node) bool {
		if rs, ok := n.(*ast.ReturnStmt); ok && len(rs.Results) == 1 {
			s := exprStr(rs.Results[0])
			if strings.HasPrefix(s, "`\"` +") && strings.HasSuffix(s, "+ `\"`") {
				retOK = true
			}
		}
		return true
	})
	r.Check(retOK, "quoted", c.Pos(fd.Pos()), "the encoded text is delimited by double quotes (the only quote the escape table handles)")
	// the constant fast path uses encodeString
	te := c.FuncDecl("compiler", "funcContext.translateExpr")
	ok := false
	if te != nil {
		ast.Inspect(te.Body, func(n ast.Node) bool {
			if cc, isCC := n.(*ast.CaseClause); isCC && len(cc.List) == 1 && exprStr(cc.List[0]) == "isString(basic)" {
				ok = strings.Contains(nodeString(c, cc), "encodeString(constant.StringVal(value))")
			}
			return true
		})
	}
	r.Check(ok, "constants-through-encodeString", "compiler/expressions.go:translateExpr", "string constants are emitted as encodeString(constant.StringVal(value))")
	// information: templates splicing Go string data with %q or "%s"
	for _, t := range usableTemplates(c) {
		if t.Role != tmpl.RoleSink {
			continue
		}
		for _, h := range t.Holes {
			if h.Verb == 'q' {
				r.Info("q-verb:"+t.Func+":"+t.Text, c.Pos(t.Pos), "Go %q quoting is byte-exact as a JavaScript literal only for ASCII data (import paths, linkname symbols, type strings)")
			}
		}
	}
}

func ruleC14Dispatch(c *ctx.Ctx, r *core.Reporter) {
	r.Begin("C14.dispatch", "F-TABLE", "string conversions, range, copy and append choose the rune helper exactly under the element-type-is-rune test and the byte helper otherwise", 7)
	fd := c.FuncDecl("compiler", "funcContext.translateConversion")
	if fd == nil {
		r.Undecided("translateConversion", "compiler/expressions.go", "not found")
		return
	}
	// for each `if types.Identical(<x>.Elem().Underlying(), types.Typ[types.Rune]) { return A }; return B`
	n := 0
	ast.Inspect(fd.Body, func(nd ast.Node) bool {
		blk, ok := nd.(*ast.BlockStmt)
		if !ok {
			if cc, ok2 := nd.(*ast.CaseClause); ok2 {
				blk = &ast.BlockStmt{List: cc.Body}
			} else {
				return true
			}
		}
		for i, st := range blk.List {
			is, ok := st.(*ast.IfStmt)
			if !ok || !strings.Contains(exprStr(is.Cond), "types.Typ[types.Rune]") || !strings.Contains(exprStr(is.Cond), ".Elem()") {
				continue
			}
			var thenT, elseT string
			for _, t := range corpus(c).Templates {
				if t.Role != tmpl.RoleSink {
					continue
				}
				if t.Pos >= is.Body.Pos() && t.Pos < is.Body.End() {
					thenT = t.Text
				}
				if i+1 < len(blk.List) && t.Pos >= blk.List[i+1].Pos() && t.Pos < blk.List[i+1].End() && elseT == "" {
					elseT = t.Text
				}
			}
			n++
			runeSide := strings.Contains(thenT, "$runesToString(") || strings.Contains(thenT, "$stringToRunes(")
			byteSide := strings.Contains(elseT, "$bytesToString(") || strings.Contains(elseT, "$stringToBytes(")
			pair := (strings.Contains(thenT, "ToString(") && strings.Contains(elseT, "ToString(")) || (strings.Contains(thenT, "$stringTo") && strings.Contains(elseT, "$stringTo"))
			r.Check(runeSide && byteSide && pair, fmt.Sprintf("conv:rune-vs-byte#%d", n), c.Pos(is.Pos()), fmt.Sprintf("under the element-is-rune test the template is %q, otherwise %q", thenT, elseT))
		}
		return true
	})
	if n < 2 {
		r.Undecided("conv:sites", c.Pos(fd.Pos()), fmt.Sprintf("expected two rune-vs-byte decisions (to string, from string), found %d", n))
	}
	// integer -> string uses $encodeRune
	t := hasTemplate(c, "funcContext.translateConversion", "isString(t)", func(t *tmpl.Template) bool { return strings.HasPrefix(t.Text, "$encodeRune(") })
	r.Check(t != nil, "conv:int->string", "compiler/expressions.go", "string(rune) encodes the code point with $encodeRune")
	// a 64-bit operand reaches $encodeRune as a whole (flattened), never as one of its 32-bit halves: a value
	// beyond 32 bits is not a code point and converts to U+FFFD
	{
		halves := 0
		whole := 0
		for _, t := range usableTemplates(c) {
			if t.Func == "funcContext.translateConversion" && strings.Contains(strings.Join(t.CasePath, "/"), "isString(t)") {
				q := squash(t.Text)
				if strings.HasSuffix(q, ".$low") || strings.HasSuffix(q, ".$high") {
					halves++
				}
				if strings.HasPrefix(q, "$flatten64(") {
					whole++
				}
			}
		}
		r.Check(halves == 0 && whole >= 1, "conv:int64->string:whole-value", "compiler/expressions.go", fmt.Sprintf("string(x) of a 64-bit integer flattens x before $encodeRune (templates taking a half: %d, flattening: %d)", halves, whole))
	}
	// range over string
	var dec, adv bool
	otherAdvance, otherHelpers := []string{}, map[string]bool{}
	for _, t := range usableTemplates(c) {
		if t.Func == "funcContext.translateStmt" && strings.Contains(strings.Join(t.CasePath, "/"), "type:*ast.RangeStmt/type:*types.Basic") {
			if strings.Contains(t.Text, "= $decodeRune(") {
				dec = true
			}
			if strings.Contains(t.Text, "+= ") {
				if strings.Contains(t.Text, "[1];") {
					adv = true
				} else {
					otherAdvance = append(otherAdvance, t.Text)
				}
			}
			for _, tk := range t.Tokens {
				if tk.Kind == tmpl.TIdent && strings.HasPrefix(tk.Text, "$") && tk.Text != "$decodeRune" {
					otherHelpers[tk.Text] = true
				}
			}
		}
	}
	// no second way of stepping through a string: the width of an invalid or truncated sequence is 1, which
	// only the decoder knows (the lead byte alone does not tell)
	r.Check(len(otherAdvance) == 0 && len(otherHelpers) == 0, "range:single-stepping", "compiler/statements.go", fmt.Sprintf("every form of range over a string (with or without key and value) advances by the width $decodeRune returns; other advances: %v, other helpers: %v", otherAdvance, keysOf(otherHelpers)))
	r.Check(dec, "range:decode", "compiler/statements.go", "range over a string decodes each rune with $decodeRune(ref, i)")
	r.Check(adv, "range:advance-by-width", "compiler/statements.go", "the index advances by the width returned by $decodeRune (rune[1])")
	// copy / append from strings
	t = hasTemplate(c, "funcContext.translateBuiltin", `_:"copy"`, func(t *tmpl.Template) bool { return strings.HasPrefix(t.Text, "$copyString(") })
	r.Check(t != nil, "copy:string", "compiler/expressions.go", "copy(dst, string) uses $copyString")
	if needPrelude(c, r) {
		if as := c.PreludeFunc("$appendSlice"); as != nil {
			src := squash(as.Src())
			r.Check(strings.Contains(src, ".constructor===String") && strings.Contains(src, "$stringToBytes("), "append:string", as.Pos(), "append(bytes, string...) converts the string to bytes in $appendSlice")
		}
	}
}

func ruleC14Bounds(c *ctx.Ctx, r *core.Reporter) {
	r.Begin("C14.bounds", "F-MUST", "string indexing goes through the index range check, string slicing through $substring, which checks both bounds and defaults its optional upper bound", 4)
	// IndexExpr / Basic arm uses rangeCheck with constantIndex=false
	fd := c.FuncDecl("compiler", "funcContext.translateExpr")
	ok, how := false, "arm not found"
	if fd != nil {
		ast.Inspect(fd.Body, func(n ast.Node) bool {
			cc, isCC := n.(*ast.CaseClause)
			if !isCC || len(cc.List) != 1 || exprStr(cc.List[0]) != "*types.Basic" {
				return true
			}
			src := nodeString(c, cc)
			if !strings.Contains(src, "charCodeAt") {
				return true
			}
			how = "charCodeAt template is not wrapped by rangeCheck"
			for _, ce := range findCalls(c.Pkg("compiler").TypesInfo, cc, modPath("compiler"), "rangeCheck") {
				if len(ce.Args) == 3 && exprStr(ce.Args[1]) == "false" {
					ok, how = true, "rangeCheck(pattern, constantIndex=false, ...)"
				} else {
					how = "rangeCheck is called with constantIndex=" + exprStr(ce.Args[1]) + ": a constant index into a non-constant string must still be checked at run time"
				}
			}
			return true
		})
	}
	r.Check(ok, "index:range-checked", "compiler/expressions.go:translateExpr/IndexExpr/Basic", "s[i] on a string: "+how)
	// rangeCheck itself
	if rc := c.FuncDecl("compiler", "rangeCheck"); rc != nil {
		all := ""
		for _, t := range corpus(c).Templates {
			if t.Func == "rangeCheck" {
				all += t.Text + "\n"
			}
		}
		sq := squash(all)
		r.Check(strings.Contains(sq, `$throwRuntimeError("indexoutofrange")`) && strings.Contains(sq, "<0||") && strings.Contains(sq, ">="), "rangeCheck:shape", c.Pos(rc.Pos()), "rangeCheck assembles `(i < 0 || i >= x.length) ? $throwRuntimeError(\"index out of range\") : ...` for non-constant indexes")
		// the only unchecked form is constant index into an array: the first statement returns pattern under `constantIndex && array`
		unchecked := false
		if len(rc.Body.List) > 0 {
			if is, ok := rc.Body.List[0].(*ast.IfStmt); ok {
				cond := squash(exprStr(is.Cond))
				if (cond == "constantIndex&&array" || cond == "array&&constantIndex") && len(is.Body.List) == 1 {
					if rs, ok := is.Body.List[0].(*ast.ReturnStmt); ok && len(rs.Results) == 1 && exprStr(rs.Results[0]) == rc.Type.Params.List[0].Names[0].Name {
						unchecked = true
					}
				}
			}
		}
		// no other return of the bare pattern
		bare := 0
		ast.Inspect(rc.Body, func(n ast.Node) bool {
			if rs, ok := n.(*ast.ReturnStmt); ok && len(rs.Results) == 1 && exprStr(rs.Results[0]) == rc.Type.Params.List[0].Names[0].Name {
				bare++
			}
			return true
		})
		r.Check(unchecked && bare == 1, "rangeCheck:unchecked-only-const-array", c.Pos(rc.Pos()), "the pattern is returned unchecked only for a constant index into an array (checked by the type checker)")
	}
	// slicing uses $substring in all three forms
	n := 0
	for _, t := range usableTemplates(c) {
		if t.Func == "funcContext.translateExpr" && strings.Contains(strings.Join(t.CasePath, "/"), "type:*ast.SliceExpr") && strings.HasPrefix(t.Text, "$substring(") {
			n++
		}
	}
	r.Check(n >= 3, "slice:$substring", "compiler/expressions.go:translateExpr/SliceExpr", fmt.Sprintf("s[:h], s[l:], s[l:h] on strings all call $substring (%d templates)", n))
	if needPrelude(c, r) {
		ss := c.PreludeFunc("$substring")
		if ss == nil || len(funcParams(ss)) != 3 {
			r.Undecided("$substring", "compiler/prelude/prelude.js", "not found")
			return
		}
		p := funcParams(ss)
		throws := false
		for _, st := range ss.N("body").L("body") {
			if isThrowIf(st, func(t *ctx.JSNode) bool {
				s := squash(t.Src())
				return strings.Contains(s, p[1]+"<0") && strings.Contains(s, p[2]+"<"+p[1]) && strings.Contains(s, p[2]+">"+p[0]+".length")
			}) {
				throws = true
			}
		}
		r.Check(throws, "$substring:checks", ss.Pos(), "$substring throws unless 0 <= low <= high <= len(str)")
		r.Check(strictUseBeforeGuard(ss, p[2]) == nil, "$substring:optional-high", ss.Pos(), "the upper bound, omitted by s[l:], is defaulted before it is compared")
	}
}

type constWant struct {
	fn     string
	consts []float64
	why    string
}

func ruleC14UTF8(c *ctx.Ctx, r *core.Reporter) {
	r.Begin("C14.utf8", "F-CONST", "the UTF-8 decoder and encoder and the UTF-16 transcoders contain, by value, every boundary constant of RFC 3629 / UTF-16, and each return of the decoder reports the width of the branch it is in", 8)
	if !needPrelude(c, r) {
		return
	}
	wants := []constWant{
		{"$decodeRune", []float64{0x80, 0xC0, 0xE0, 0xF0, 0xF8, 0x3F, 0x1F, 0x0F, 0x07, 0x7F, 0x7FF, 0xFFFF, 0xD800, 0xDFFF, 0x10FFFF, 0xFFFD, 6, 12, 18}, "RFC 3629: lead byte classes 0x80/0xC0/0xE0/0xF0/0xF8, payload masks, overlong limits 0x7F/0x7FF/0xFFFF, surrogates, maximum, replacement character, 6-bit shifts"},
		{"$encodeRune", []float64{0x10FFFF, 0xD800, 0xDFFF, 0xFFFD, 0x7F, 0x7FF, 0xFFFF, 0xC0, 0xE0, 0xF0, 0x80, 0x3F, 6, 12, 18}, "RFC 3629: ranges per encoded length, lead byte markers, continuation marker and mask; invalid code points become U+FFFD"},
	}
	for _, w := range wants {
		fn := c.PreludeFunc(w.fn)
		if fn == nil {
			r.Undecided("const:"+w.fn, "compiler/prelude/prelude.js", "not found")
			continue
		}
		nums := jsNumbers(fn)
		var missing []string
		for _, k := range w.consts {
			if nums[k] == 0 {
				missing = append(missing, fmt.Sprintf("0x%X", int64(k)))
			}
		}
		r.Check(len(missing) == 0, "const:"+w.fn, fn.Pos(), fmt.Sprintf("%s must contain %s; missing: %v", w.fn, w.why, missing))
	}
	// decoder widths: every `return [r, N]` with a non-replacement value sits in the branch for N-byte sequences: N in {1,2,3,4} each present exactly once
	if dr := c.PreludeFunc("$decodeRune"); dr != nil {
		widths := map[float64]int{}
		badRepl := ""
		dr.Walk(func(n *ctx.JSNode) bool {
			if n.Is("ReturnStatement") && n.N("argument").Is("ArrayExpression") {
				el := n.N("argument").L("elements")
				if len(el) == 2 {
					w, _ := el[1].NumValue()
					if v, isNum := el[0].NumValue(); isNum && v == 0xFFFD {
						if w != 1 {
							badRepl = n.Pos()
						}
					} else {
						widths[w]++
					}
				}
			}
			return true
		})
		for _, w := range []float64{1, 2, 3, 4} {
			r.Check(widths[w] == 1, fmt.Sprintf("decode:width%d", int(w)), dr.Pos(), fmt.Sprintf("exactly one successful return reports width %d (found %d)", int(w), widths[w]))
		}
		r.Check(badRepl == "", "decode:replacement-width1", dr.Pos(), "every U+FFFD return consumes exactly one byte (Go replaces each invalid byte separately) "+badRepl)
	}
	// UTF-16 transcoders in jsmapping.js
	for _, fnName := range []string{"$externalize", "$internalize"} {
		fn := c.PreludeFunc(fnName)
		if fn == nil {
			continue
		}
		nums := jsNumbers(fn)
		want := []float64{0x10000, 0x400, 0xD800, 0xDC00}
		if fnName == "$externalize" {
			want = append(want, 0xFFFF)
		} else {
			want = append(want, 0xDBFF)
		}
		var missing []string
		for _, k := range want {
			if nums[k] == 0 {
				missing = append(missing, fmt.Sprintf("0x%X", int64(k)))
			}
		}
		r.Check(len(missing) == 0, "const:utf16:"+fnName, fn.Pos(), fmt.Sprintf("the string arm of %s transcodes between UTF-8 and UTF-16 surrogate pairs (0x10000 offset, 0x400 radix, 0xD800/0xDC00 bases); missing: %v", fnName, missing))
	}
}

// ruleC15InjectStringOnly re-checks the string key prefix (C14.key).
func ruleC15InjectStringOnly(c *ctx.Ctx, r *core.Reporter) {
	r.Begin("C14.key", "F-KEY", "the map key of a string is a constant prefix followed by the string itself", 1)
	if !needPrelude(c, r) {
		return
	}
	nt := c.PreludeFunc("$newType")
	if nt == nil {
		r.Undecided("$newType", "compiler/prelude/types.js", "not found")
		return
	}
	arms := switchArmsByDiscriminant(nt, "kind")
	if arm := arms["$kindString"]; arm != nil {
		if as := assignsMember(arm, "keyFor"); as != nil {
			fn := as.N("right")
			ok := false
			if fn.IsFunc() && len(funcParams(fn)) == 1 {
				ok = strings.Contains(squash(fn.Src()), `return"$"+`+funcParams(fn)[0])
			}
			r.Check(ok, "key:$kindString", as.Pos(), "string keys are \"$\" + s: distinct byte strings give distinct keys and never collide with the keys of other kinds inside composite keys")
			return
		}
	}
	r.Violation("key:$kindString", nt.Pos(), "no keyFor for strings")
}
