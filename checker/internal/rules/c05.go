package rules

import (
	"fmt"
	"go/ast"
	"go/types"
	"strings"

	"verif/checker/internal/core"
	"verif/checker/internal/ctx"
)

func init() {
	register(&Property{
		ID:          "C05",
		Explanation: "Decided: (roots) imports, init, main of package main, multi-value and effectful variable initialisers and linkname implementations are always alive, and the effect test covers every expression form that can call, receive or panic; (record) each function that hands out a JavaScript reference to a package-level object, generic instance, anonymous type, unexported method, method expression or local type records the DCE dependency first; (scope) every code field of a Decl that is produced by translation is filled inside CollectDCEDeps, except reviewed always-alive or self-referential sites; (names) declared names and recorded dependencies come from the same filter function and the selector clears exactly the filters it indexed; (emit) only alive decls are written and every code field is written; (link) what the prelude references inside compiled packages is rooted or guarded. NOT decided: that the filter strings identify declarations injectively for all type spellings; that recorded dependencies are complete for every program.",
		Assumptions: []string{"a Decl without SetName is alive (dce.Info.isAlive)"},
		Rules:       []RuleFunc{ruleC05Roots, ruleC05Record, ruleC05Scope, ruleC05Names, ruleAssembly, ruleL7, ruleNamedLookThrough, ruleC05EffectsWalk, ruleC05LinknamesBeforeSelection, ruleC05NestedReplacements, ruleC05DepsInsideCollector},
	})
}

func ruleC05Roots(c *ctx.Ctx, r *core.Reporter) {
	r.Begin("C05.roots", "F-MUST", "entry points and effectful initialisers are marked alive; linkname implementations are rooted; the effect test covers every expression form that can call, receive or panic", 14)
	chk := func(fn, frag, id, what string) {
		fd := c.FuncDecl("compiler", fn)
		ok := fd != nil && strings.Contains(squash(nodeString(c, fd.Body)), squash(frag))
		site := "compiler/decls.go"
		if fd != nil {
			site = c.Pos(fd.Pos())
		}
		r.Check(ok, "root:"+id, site, what)
	}
	chk("funcContext.newImportDecl", "d.Dce().SetAsAlive()", "import", "import declarations (package variable and the call of the imported $init) are always alive")
	chk("funcContext.newVarDecl", "if len(init.Lhs) != 1 || analysis.HasSideEffect(init.Rhs, fc.pkgCtx.Info.Info) { d.Dce().SetAsAlive() }", "var-with-effects", "a variable declaration is alive if it initialises several variables at once or its initialiser has an effect")
	// init and main arms of newFuncDecl
	if fd := c.FuncDecl("compiler", "funcContext.newFuncDecl"); fd != nil {
		if arm := armOf(fd, `"init"`); arm != nil {
			r.Check(strings.Contains(nodeString(c, arm), "d.Dce().SetAsAlive()"), "root:init", c.Pos(arm.Pos()), "init functions are always alive")
		} else {
			r.Violation("root:init", c.Pos(fd.Pos()), "no arm for init functions")
		}
		if arm := armOf(fd, `"main"`); arm != nil {
			s := squash(nodeString(c, arm))
			r.Check(strings.Contains(s, "iffc.pkgCtx.isMain(){d.Dce().SetAsAlive()"), "root:main", c.Pos(arm.Pos()), "main of package main is always alive")
		} else {
			r.Violation("root:main", c.Pos(fd.Pos()), "no arm for main")
		}
	}
	// the main-call decl is unnamed: no SetName on it
	if fd := c.FuncDecl("compiler", "funcContext.funcDecls"); fd != nil {
		ok := false
		ast.Inspect(fd.Body, func(n ast.Node) bool {
			if cl, isCL := n.(*ast.CompositeLit); isCL && strings.HasSuffix(exprStr(cl.Type), "Decl") && strings.Contains(nodeString(c, cl), "mainFuncDeclFullName()") {
				// used directly as an append argument: nothing can call SetName on it
				ok = true
			}
			return true
		})
		r.Check(ok, "root:main-call-unnamed", c.Pos(fd.Pos()), "the decl that calls main() is appended without a DCE name, which makes it alive")
	}
	// linkname implementations
	if fd := c.FuncDecl("compiler", "WriteProgramCode"); fd != nil {
		okRoot := false
		for _, m := range findGoPattern(fd.Body, `if µg.IsImplementation(µd.LinkingName) { µµa; µf = true; µµb }`) {
			for _, m2 := range findGoPattern(fd.Body, `µs.Include(µd, µf)`) {
				if m2.Env["µf"] == m.Env["µf"] && m2.Env["µd"] == m.Env["µd"] {
					okRoot = true
				}
			}
		}
		r.Check(okRoot, "root:linkname-implementations", c.Pos(fd.Pos()), "a decl that implements a go:linkname reference is handed to the selector as a root")
	}
	if fd := c.FuncDecl("compiler/internal/dce", "Selector.Include"); fd != nil {
		s := squash(nodeString(c, fd.Body))
		r.Check(strings.Contains(s, "ifdce.isAlive(){s.pendingDecls=append(s.pendingDecls,decl)return}") && strings.Contains(s, "ifimplementsLink{s.pendingDecls=append(s.pendingDecls,decl)}"), "root:selector-queues-roots", c.Pos(fd.Pos()), "alive decls and linkname implementations enter the live queue")
	}
	// effect table
	v := c.FuncDecl(analysisPkg, "hasSideEffectVisitor.Visit")
	if v == nil {
		r.Undecided("effects", analysisPkg, "hasSideEffectVisitor.Visit not found")
		return
	}
	for _, k := range []struct{ label, why string }{
		{"*ast.CallExpr", "a call may do anything"},
		{"*ast.UnaryExpr", "a channel receive blocks and consumes a value"},
		{"*ast.IndexExpr", "indexing may panic (index out of range)"},
		{"*ast.SliceExpr", "slicing may panic (bounds out of range)"},
		{"*ast.StarExpr", "dereferencing a nil pointer panics"},
		{"*ast.SelectorExpr", "selecting a field through a nil pointer panics"},
		{"*ast.TypeAssertExpr", "a failed single-value type assertion panics"},
		{"*ast.BinaryExpr", "integer division by zero panics"},
	} {
		arm := armOf(v, k.label)
		ok := arm != nil && strings.Contains(nodeString(c, arm), "v.hasSideEffect = true")
		site := c.Pos(v.Pos())
		if arm != nil {
			site = c.Pos(arm.Pos())
		}
		r.Check(ok, "effects:"+k.label, site, fmt.Sprintf("the initialiser effect test has an arm for %s: %s; a variable whose initialiser contains it must not be eliminated", k.label, k.why))
	}
	// two more forms that panic at run time, recognised inside the CallExpr and SelectorExpr arms
	if arm := armOf(v, "*ast.CallExpr"); arm != nil {
		ok := false
		for _, m := range findGoPattern(&ast.BlockStmt{List: arm.Body}, `if _, µok := µt.(*types.Array); µok { µv.hasSideEffect = true; return nil }`) {
			_ = m
			ok = true
		}
		r.Check(ok && strings.Contains(nodeString(c, arm), "(*types.Slice)"), "effects:slice-to-array-conversion", c.Pos(arm.Pos()), "a conversion from a slice to an array or array pointer panics when the slice is too short: it counts as an effect")
	}
	if arm := armOf(v, "*ast.SelectorExpr"); arm != nil {
		src := squash(nodeString(c, arm))
		r.Check(strings.Contains(src, "types.MethodVal") && strings.Contains(src, "(*types.Interface)"), "effects:method-value-of-interface", c.Pos(arm.Pos()), "a method value taken from an interface (nil interface) or through a pointer panics: it counts as an effect")
	}
	{
	}
}

func ruleC05Record(c *ctx.Ctx, r *core.Reporter) {
	r.Begin("C05.record", "F-MUST", "every function that hands out a JavaScript reference to something another decl defines calls DeclareDCEDep before returning it", 6)
	// objectName: inside `if isPkgLevel(o)` before any return
	if fd := c.FuncDecl("compiler", "funcContext.objectName"); fd != nil {
		ok := false
		ast.Inspect(fd.Body, func(n ast.Node) bool {
			if is, isIf := n.(*ast.IfStmt); isIf && exprStr(is.Cond) == "isPkgLevel(o)" {
				// DeclareDCEDep occurs before the first return of the block
				var dep, ret ast.Node
				ast.Inspect(is.Body, func(m ast.Node) bool {
					if ce, isCE := m.(*ast.CallExpr); isCE && dep == nil {
						if sel, isSel := ce.Fun.(*ast.SelectorExpr); isSel && sel.Sel.Name == "DeclareDCEDep" {
							dep = ce
						}
					}
					if rs, isRet := m.(*ast.ReturnStmt); isRet && ret == nil {
						ret = rs
					}
					return true
				})
				ok = dep != nil && (ret == nil || dep.Pos() < ret.Pos())
			}
			return true
		})
		// and that `if` is the first statement (no return before it)
		first := len(fd.Body.List) > 0
		if first {
			_, first = fd.Body.List[0].(*ast.IfStmt)
		}
		r.Check(ok && first, "record:objectName", c.Pos(fd.Pos()), "objectName records the dependency on a package-level object before producing any reference to it")
	}
	for _, w := range []struct{ fn, id, what string }{
		{"funcContext.instName", "instName", "instName records the dependency on a non-trivial generic instance"},
		{"funcContext.typeName", "typeName", "typeName records the dependency on the synthetic declaration of an anonymous type"},
		{"funcContext.makeReceiver", "makeReceiver", "makeReceiver records the dependency on an unexported method it is about to call"},
	} {
		fd := c.FuncDecl("compiler", w.fn)
		if fd == nil {
			r.Undecided("record:"+w.id, "compiler", "not found")
			continue
		}
		// a DeclareDCEDep call exists and precedes the final return
		calls := callsNamed(fd, "DeclareDCEDep")
		var lastRet *ast.ReturnStmt
		ast.Inspect(fd.Body, func(n ast.Node) bool {
			if rs, ok := n.(*ast.ReturnStmt); ok {
				lastRet = rs
			}
			return true
		})
		ok := len(calls) >= 1 && lastRet != nil && calls[len(calls)-1].Pos() < lastRet.Pos()
		r.Check(ok, "record:"+w.id, c.Pos(fd.Pos()), w.what)
	}
	// makeReceiver: guarded by !Exported (exported methods are kept with their type)
	if fd := c.FuncDecl("compiler", "funcContext.makeReceiver"); fd != nil {
		s := squash(nodeString(c, fd.Body))
		r.Check(strings.Contains(s, "if!sel.Obj().Exported(){fc.pkgCtx.DeclareDCEDep(sel.Obj(),nil,nil)}"), "record:makeReceiver:unexported", c.Pos(fd.Pos()), "the dependency is recorded exactly for unexported methods (which are eliminated individually)")
	}
	if fd := c.FuncDecl("compiler", "funcContext.translateExpr"); fd != nil {
		arm := armOf(fd, "types.MethodExpr")
		// the dependency is recorded for every method expression — T.m as well as I.m: it is a top-level
		// statement of the arm and no return precedes it
		ok := false
		if arm != nil {
			for i, st := range arm.Body {
				es, isExpr := st.(*ast.ExprStmt)
				if !isExpr {
					continue
				}
				if call, isCall := es.X.(*ast.CallExpr); isCall {
					if _, _, nm := callee(c.Pkg("compiler").TypesInfo, call); nm == "DeclareDCEDep" {
						early := false
						for _, prev := range arm.Body[:i] {
							ast.Inspect(prev, func(n ast.Node) bool {
								if _, isRet := n.(*ast.ReturnStmt); isRet {
									early = true
								}
								return true
							})
						}
						ok = !early
					}
				}
			}
		}
		r.Check(ok, "record:method-expression", "compiler/expressions.go", "every method expression (on a concrete type or on an interface type) records the dependency on the method before any return of its arm")
	}
	if fd := c.FuncDecl("compiler", "funcContext.translateStmt"); fd != nil {
		arm := armOf(fd, "token.TYPE")
		ok := arm != nil && len(callsNamed(arm, "DeclareDCEDep")) >= 1 && strings.Contains(nodeString(c, arm), "typeNames.Add(o)")
		r.Check(ok, "record:local-type", "compiler/statements.go", "a type declared inside a function is registered for declaration and recorded as a dependency of the function")
	}
	// DeclareDCEDep forwards to addDep of the active decl
	if fd := c.FuncDecl("compiler/internal/dce", "Collector.DeclareDCEDep"); fd != nil {
		s := squash(nodeString(c, fd.Body))
		r.Check(strings.Contains(s, "ifc.dce!=nil{c.dce.addDep(o,tNest,tArgs)}"), "record:forwarded", c.Pos(fd.Pos()), "DeclareDCEDep adds the dependency to the decl being collected")
	}
}

// codeFieldsOfDecl returns the []byte fields of compiler.Decl.
func codeFieldsOfDecl(c *ctx.Ctx) map[string]bool {
	out := map[string]bool{}
	p := c.Pkg("compiler")
	if o := p.Types.Scope().Lookup("Decl"); o != nil {
		if st, ok := o.Type().Underlying().(*types.Struct); ok {
			for i := 0; i < st.NumFields(); i++ {
				if sl, ok := st.Field(i).Type().(*types.Slice); ok {
					if b, ok := sl.Elem().(*types.Basic); ok && b.Kind() == types.Byte {
						out[st.Field(i).Name()] = true
					}
				}
			}
		}
	}
	return out
}

func ruleC05Scope(c *ctx.Ctx, r *core.Reporter) {
	r.Begin("C05.scope", "F-WHO", "code fields of a Decl that are produced by translating user code are assigned inside the closure passed to CollectDCEDeps; the other assignments are the reviewed always-alive or self-referential ones", 10)
	fields := codeFieldsOfDecl(c)
	reviewed := map[string]string{
		"funcContext.newImportDecl|ImportCode":           "import decl is always alive",
		"funcContext.newImportDecl|InitCode":             "import decl is always alive",
		"funcContext.funcDecls|ExportFuncCode":           "export of the generic function table refers only to the decl's own object",
		"funcContext.funcDecls|InitCode":                 "the main-call decl is unnamed, hence always alive",
		"funcContext.newFuncDecl|InitCode":               "init functions are always alive",
		"funcContext.newNamedTypeVarDecl|ExportTypeCode": "export of a type refers only to the decl's own object",
	}
	n := 0
	for _, fd := range c.AllFuncDecls("compiler") {
		if fd.Body == nil {
			continue
		}
		fn := ctx.FuncName(fd)
		// closures passed to CollectDCEDeps
		var scopes []*ast.FuncLit
		for _, ce := range callsNamed(fd, "CollectDCEDeps") {
			for _, a := range ce.Args {
				if fl, ok := a.(*ast.FuncLit); ok {
					scopes = append(scopes, fl)
				}
			}
		}
		inScope := func(n ast.Node) bool {
			for _, s := range scopes {
				if s.Pos() <= n.Pos() && n.End() <= s.End() {
					return true
				}
			}
			return false
		}
		report := func(field string, at ast.Node, rhs ast.Expr) {
			n++
			key := fn + "|" + field
			if inScope(at) {
				r.OK("scope:"+key, c.Pos(at.Pos()), "assigned inside CollectDCEDeps")
				return
			}
			if why, ok := reviewed[key]; ok {
				r.OK("scope:"+key, c.Pos(at.Pos()), "reviewed: "+why)
				return
			}
			// a right-hand side without translation calls cannot reference other decls
			translates := false
			ast.Inspect(rhs, func(m ast.Node) bool {
				if ce, ok := m.(*ast.CallExpr); ok {
					_, _, nm := callee(c.Pkg("compiler").TypesInfo, ce)
					if strings.HasPrefix(nm, "translate") || nm == "typeName" || nm == "instName" || nm == "objectName" || nm == "initArgs" || nm == "CatchOutput" {
						translates = true
					}
				}
				return true
			})
			if !translates {
				r.OK("scope:"+key, c.Pos(at.Pos()), "no translation call on the right-hand side")
				return
			}
			r.Violation("scope:"+key, c.Pos(at.Pos()), fmt.Sprintf("%s fills Decl.%s with translated code outside CollectDCEDeps: objects referenced by that code are not recorded as dependencies and may be eliminated while still in use", fn, field))
		}
		ast.Inspect(fd.Body, func(x ast.Node) bool {
			switch s := x.(type) {
			case *ast.AssignStmt:
				for i, l := range s.Lhs {
					if sel, ok := l.(*ast.SelectorExpr); ok && fields[sel.Sel.Name] && i < len(s.Rhs) {
						if t := c.Pkg("compiler").TypesInfo.TypeOf(sel.X); t != nil && strings.HasSuffix(strings.TrimPrefix(t.String(), "*"), "compiler.Decl") {
							report(sel.Sel.Name, s, s.Rhs[i])
						}
					}
				}
			case *ast.CompositeLit:
				if strings.HasSuffix(exprStr(s.Type), "Decl") {
					for _, e := range s.Elts {
						if kv, ok := e.(*ast.KeyValueExpr); ok {
							if id, ok := kv.Key.(*ast.Ident); ok && fields[id.Name] {
								report(id.Name, kv, kv.Value)
							}
						}
					}
				}
			}
			return true
		})
	}
	r.Count("assignments to Decl code fields", n)
}

func ruleC05Names(c *ctx.Ctx, r *core.Reporter) {
	r.Begin("C05.names", "F-SIB", "the name a decl is declared under and the names recorded as dependencies come from the same function; the selector indexes a decl under exactly the filters it later clears", 5)
	const dce = "compiler/internal/dce"
	sn := c.FuncDecl(dce, "Info.SetName")
	ad := c.FuncDecl(dce, "Info.addDep")
	if sn == nil || ad == nil {
		r.Undecided("dce", dce, "SetName/addDep not found")
		return
	}
	r.Check(strings.Contains(nodeString(c, sn.Body), "d.objectFilter, d.methodFilter = getFilters(o, tNest, tArgs)"), "names:SetName", c.Pos(sn.Pos()), "SetName derives both filters from getFilters(o, tNest, tArgs)")
	s := nodeString(c, ad.Body)
	r.Check(strings.Contains(s, "objectFilter, methodFilter := getFilters(o, tNest, tArgs)") && strings.Contains(s, "d.addDepName(objectFilter)") && strings.Contains(s, "d.addDepName(methodFilter)"), "names:addDep", c.Pos(ad.Pos()), "addDep derives both filters from the same getFilters and records both")
	// filter strings are invariant under type identity (finer distinctions make a needed decl look unrelated)
	if ft := c.FuncDecl(dce, "filterGen.Type"); ft != nil {
		arm := armOf(ft, "*types.Basic")
		ok := arm != nil && strings.Contains(squash(nodeString(c, arm)), "types.Typ[kind].String()")
		site := c.Pos(ft.Pos())
		if arm != nil {
			site = c.Pos(arm.Pos())
		}
		r.Check(ok, "names:basic-canonical", site, "basic types are rendered through their kind: byte/uint8 and rune/int32 are identical types and must give identical filters (t.String() spells them differently)")
	}
	if fi := c.FuncDecl(dce, "filterGen.Interface"); fi != nil {
		t := squash(nodeString(c, fi.Body))
		r.Check(strings.Contains(t, "parts:=make([]string,inter.NumMethods())") && strings.Contains(t, "fn:=inter.Method(i)"), "names:interface-complete-method-set", c.Pos(fi.Pos()), "an interface is rendered from its complete method set (NumMethods/Method), which is what interface identity is defined on; the explicitly declared methods alone omit embedded interfaces")
		r.Check(strings.Contains(t, "sort.Strings(parts)"), "names:interface-order-free", c.Pos(fi.Pos()), "the method order of an interface does not influence its filter")
	}
	if fu := c.FuncDecl(dce, "filterGen.Union"); fu != nil {
		r.Check(strings.Contains(nodeString(c, fu.Body), "sort.Strings(parts)"), "names:union-order-free", c.Pos(fu.Pos()), "the term order of a union does not influence its filter")
	}
	inc := c.FuncDecl(dce, "Selector.Include")
	al := c.FuncDecl(dce, "Selector.AliveDecls")
	if inc != nil {
		s := squash(nodeString(c, inc.Body))
		r.Check(strings.Contains(s, "ifdce.objectFilter!=``{info.objectFilter=dce.objectFilters.byFilter[info.objectFilter]=append(") && strings.Contains(s, "ifdce.methodFilter!=``{info.methodFilter=dce.methodFilters.byFilter[info.methodFilter]=append("), "names:Include-indexes-both", c.Pos(inc.Pos()), "Include indexes the decl under each non-empty filter")
	}
	if al != nil {
		s := squash(nodeString(c, al.Body))
		r.Check(strings.Contains(s, "ifinfo.objectFilter==dep{info.objectFilter=``}") && strings.Contains(s, "ifinfo.methodFilter==dep{info.methodFilter=``}") && strings.Contains(s, "ifinfo.objectFilter==``&&info.methodFilter==``{s.pendingDecls=append(s.pendingDecls,info.decl)}"), "names:AliveDecls-needs-all-filters", c.Pos(al.Pos()), "a decl becomes alive when every filter it was indexed under has been hit")
		r.Check(strings.Contains(s, "for_,dep:=rangedce.getDeps()"), "names:AliveDecls-follows-deps", c.Pos(al.Pos()), "the live queue follows every recorded dependency of a live decl")
	}
}

// ---------------------------------------------------------------------------
// L7: prelude -> compiled package references are rooted or guarded

func ruleL7(c *ctx.Ctx, r *core.Reporter) {
	r.Begin("LINK.L7", "F-LINK", "each $packages[\"P\"].X the prelude reads names a declaration of natives package P that is kept alive by P's init function, or the access is guarded by an undefined test of the package", 3)
	if !needPrelude(c, r) {
		return
	}
	nat := c.Natives()
	type ref struct {
		pkg, member string
		node        *ctx.JSNode
	}
	var refs []ref
	for _, f := range c.PreludeList() {
		f.AST.Walk(func(n *ctx.JSNode) bool {
			// $packages["P"].X  or  v.X where v = $packages["P"]
			if n.Is("MemberExpression") && !n.B("computed") {
				o := n.N("object")
				if o.Is("MemberExpression") && o.B("computed") && o.N("object").IdentName() == "$packages" {
					if p, ok := o.N("property").StrValue(); ok {
						refs = append(refs, ref{p, n.MemberName(), n})
					}
				}
			}
			return true
		})
	}
	seen := map[string]bool{}
	for _, rf := range refs {
		key := rf.pkg + "." + rf.member
		if seen[key] || strings.HasPrefix(rf.member, "$") {
			continue
		}
		seen[key] = true
		files := nat.PkgFiles(rf.pkg)
		if len(files) == 0 {
			r.Info("ref:"+key, rf.node.Pos(), "package has no natives overlay; not judged")
			continue
		}
		// declared?
		declared := false
		inInit := false
		for _, f := range files {
			for _, d := range f.AST.Decls {
				switch x := d.(type) {
				case *ast.GenDecl:
					for _, sp := range x.Specs {
						if ts, ok := sp.(*ast.TypeSpec); ok && ts.Name.Name == rf.member {
							declared = true
						}
					}
				case *ast.FuncDecl:
					if x.Recv == nil && x.Name.Name == rf.member {
						declared = true
					}
					if x.Recv == nil && x.Name.Name == "init" && x.Body != nil {
						// reachable from init: mentioned directly, or as a field type of a type mentioned directly
						mentioned := map[string]bool{}
						ast.Inspect(x.Body, func(m ast.Node) bool {
							if id, ok := m.(*ast.Ident); ok {
								mentioned[id.Name] = true
							}
							return true
						})
						if mentioned[rf.member] {
							inInit = true
						}
						for _, f2 := range files {
							for _, d2 := range f2.AST.Decls {
								if gd, ok := d2.(*ast.GenDecl); ok {
									for _, sp := range gd.Specs {
										if ts, ok := sp.(*ast.TypeSpec); ok && mentioned[ts.Name.Name] && containsIdent(ts.Type, rf.member) {
											inInit = true
										}
									}
								}
							}
						}
					}
				}
			}
		}
		r.Check(declared && inInit, "ref:"+key, rf.node.Pos(), fmt.Sprintf("the prelude reads $packages[%q].%s: declared in the overlay=%v, kept alive through %s.init=%v", rf.pkg, rf.member, declared, rf.pkg, inInit))
	}
	// guarded packages: var v = $packages["P"]; every use of v is under `v !== undefined`
	for _, fn := range allPreludeFuncs(c) {
		for v, ins := range localInits(fn) {
			for _, in := range ins {
				if in.Is("MemberExpression") && in.B("computed") && in.N("object").IdentName() == "$packages" {
					p, _ := in.N("property").StrValue()
					if p == "runtime" {
						continue
					}
					// every member use v.X is dominated by a test v !== undefined (same expression && chain, or enclosing if)
					bad := ""
					fn.Walk(func(n *ctx.JSNode) bool {
						if n.Is("MemberExpression") && n.N("object").IdentName() == v && n.Parent != nil {
							guarded := false
							for a := n.Parent; a != nil && a != fn.Parent; a = a.Parent {
								var test *ctx.JSNode
								switch {
								case a.Is("IfStatement") && containsNode(a.N("consequent"), n):
									test = a.N("test")
								case a.Is("LogicalExpression") && a.S("operator") == "&&" && containsNode(a.N("right"), n):
									test = a.N("left")
								case a.Is("IfStatement") && containsNode(a.N("test"), n):
									continue
								}
								if test != nil {
									t := squash(test.Src())
									if strings.Contains(t, v+"!==undefined") || strings.Contains(t, v+"===undefined") {
										guarded = true
									}
								}
							}
							// `if (v === undefined) { ...return }` earlier in the same block
							if !guarded {
								for a := n.Parent; a != nil; a = a.Parent {
									if a.Is("SwitchCase", "BlockStatement") {
										var list []*ctx.JSNode
										if a.Is("SwitchCase") {
											list = a.L("consequent")
										} else {
											list = a.L("body")
										}
										for _, st := range list {
											if st.End <= n.Start && st.Is("IfStatement") && strings.Contains(squash(st.N("test").Src()), v+"===undefined") && strings.Contains(st.N("consequent").Src(), "return") {
												guarded = true
											}
										}
									}
								}
							}
							if !guarded {
								bad = n.Pos()
							}
						}
						return true
					})
					r.Check(bad == "", "guarded:"+p+"@"+ctx.JSFuncName(fn), fn.Pos(), fmt.Sprintf("every use of $packages[%q] in %s is under an undefined test (the package may be absent or eliminated) %s", p, ctx.JSFuncName(fn), bad))
				}
			}
		}
	}
}
