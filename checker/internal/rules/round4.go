package rules

import (
	"fmt"
	"go/ast"
	"go/token"
	"strings"

	"verif/checker/internal/core"
	"verif/checker/internal/ctx"
	"verif/checker/internal/tmpl"
)

// Rules added after the fourth round of seeded changes.

// ruleC06Carry: $mul64 multiplies 16-bit limbs; a column holds its previous value (masked to 16 bits), a
// carry and ONE product before the carry is taken with `>>> 16`, which truncates its operand to 32 bits:
// 0xFFFF + 0xFFFF + 0xFFFF*0xFFFF just fits. A column that accumulates two products before its carry is
// taken can exceed 2^32 and lose the carry. Only the top column, whose carry is discarded, may take several.
func ruleC06Carry(c *ctx.Ctx, r *core.Reporter) {
	r.Begin("C06.carry", "F-CONST", "in the limb-wise 64-bit multiplication every column that is later shifted with >>> receives at most one 16×16-bit product per accumulation step", 4)
	if !needPrelude(c, r) {
		return
	}
	fn := c.PreludeFunc("$mul64")
	if fn == nil {
		r.Undecided("mul64", "compiler/prelude/numeric.js", "$mul64 not found")
		return
	}
	// variables that are ever the left operand of >>>
	shifted := map[string]bool{}
	fn.Walk(func(x *ctx.JSNode) bool {
		if x.Is("BinaryExpression") && x.S("operator") == ">>>" && x.N("left").Is("Identifier") {
			if v, ok := x.N("right").NumValue(); ok && v == 16 {
				shifted[x.N("left").IdentName()] = true
			}
		}
		return true
	})
	n := 0
	fn.Walk(func(x *ctx.JSNode) bool {
		if !x.Is("AssignmentExpression") || x.S("operator") != "+=" || !x.N("left").Is("Identifier") {
			return true
		}
		products := 0
		x.N("right").Walk(func(y *ctx.JSNode) bool {
			if y.Is("BinaryExpression") && y.S("operator") == "*" {
				products++
			}
			return true
		})
		if products == 0 {
			return true
		}
		n++
		target := x.N("left").IdentName()
		r.Check(products == 1 || !shifted[target], fmt.Sprintf("carry:%s#%d", target, n), x.Pos(), fmt.Sprintf("`%s` adds %d product(s) to %s, whose carry is %s", squash(x.Src()), products, target, ternary(shifted[target], "taken with >>> 16 afterwards (32-bit truncation: at most one product fits)", "discarded")))
		return true
	})
	r.Check(n >= 7, "carry:steps", fn.Pos(), fmt.Sprintf("%d accumulation steps with products examined (the 10 partial products of the low 64 bits)", n))
}

// ruleC03Deadlock: the all-goroutines-asleep check sits where the number of awake goroutines goes down.
func ruleC03Deadlock(c *ctx.Ctx, r *core.Reporter) {
	r.Begin("C03.deadlock", "F-PAIR", "every decrement of $awakeGoroutines in $go is followed, in the same block, by the test that reports a deadlock when the count reaches zero; a finished goroutine goes through the same path as one that fell asleep", 2)
	if !needPrelude(c, r) {
		return
	}
	fn := c.PreludeFunc("$go")
	if fn == nil {
		r.Undecided("go", "compiler/prelude/goroutines.js", "$go not found")
		return
	}
	n := 0
	fn.Walk(func(x *ctx.JSNode) bool {
		if !(x.Is("UpdateExpression") && x.S("operator") == "--" && x.N("argument").IdentName() == "$awakeGoroutines") {
			return true
		}
		n++
		st := stmtOf(x)
		var list []*ctx.JSNode
		if p := st.Parent; p != nil && p.Is("BlockStatement") {
			list = p.L("body")
		}
		checked := false
		after := false
		for _, s := range list {
			if s == st {
				after = true
				continue
			}
			if after && s.Is("IfStatement") {
				t := squash(s.N("test").Src())
				if strings.Contains(t, "$awakeGoroutines===0") && strings.Contains(t, "$checkForDeadlock") && strings.Contains(squash(s.N("consequent").Src()), "deadlock") {
					checked = true
				}
			}
		}
		r.Check(checked, fmt.Sprintf("awake-decrement-checked#%d", n), x.Pos(), "after $awakeGoroutines-- the block tests `$awakeGoroutines === 0 && $checkForDeadlock …` and reports the deadlock")
		return true
	})
	r.Check(n >= 1, "awake-decrement", fn.Pos(), fmt.Sprintf("%d decrements of $awakeGoroutines in $go", n))
	// a goroutine that exits is marked asleep so that it takes that path
	okExit := false
	fn.Walk(func(x *ctx.JSNode) bool {
		if x.Is("IfStatement") && strings.HasSuffix(squash(x.N("test").Src()), ".exit") {
			cs := squash(x.N("consequent").Src())
			if strings.Contains(cs, "$totalGoroutines--") && strings.Contains(cs, ".asleep=true") {
				okExit = true
			}
		}
		return true
	})
	r.Check(okExit, "exit-counts-as-asleep", fn.Pos(), "a goroutine that finished (or called Goexit) is taken off $totalGoroutines and marked asleep, so the awake count and the deadlock test see it")
}

// ruleC05EffectsWalk: the side-effect visitor stops descending only after it has found an effect.
func ruleC05EffectsWalk(c *ctx.Ctx, r *core.Reporter) {
	r.Begin("C05.effects-walk", "F-MUST", "hasSideEffectVisitor.Visit cuts the walk short (returns nil) only where it has just recorded an effect or one was already found: a conversion T(f()) still has its operand examined", 1)
	fd := c.FuncDecl("compiler/internal/analysis", "hasSideEffectVisitor.Visit")
	if fd == nil {
		r.Undecided("visit", "compiler/internal/analysis/sideeffect.go", "hasSideEffectVisitor.Visit not found")
		return
	}
	n, bad := 0, []string{}
	ast.Inspect(fd.Body, func(x ast.Node) bool {
		blk, ok := x.(*ast.BlockStmt)
		var list []ast.Stmt
		if ok {
			list = blk.List
		} else if cc, isCC := x.(*ast.CaseClause); isCC {
			list = cc.Body
		} else {
			return true
		}
		for i, st := range list {
			ret, isRet := st.(*ast.ReturnStmt)
			if !isRet || len(ret.Results) != 1 || exprStr(ret.Results[0]) != "nil" {
				continue
			}
			n++
			okPrev := false
			if i > 0 {
				if as, isAs := list[i-1].(*ast.AssignStmt); isAs && len(as.Lhs) == 1 && len(as.Rhs) == 1 && strings.HasSuffix(exprStr(as.Lhs[0]), ".hasSideEffect") && exprStr(as.Rhs[0]) == "true" {
					okPrev = true
				}
			}
			for _, is := range enclosingIfs(fd.Body, ret.Pos()) {
				if hasGoPatternExpr(is.Cond, `µv.hasSideEffect`) {
					okPrev = true
				}
			}
			if !okPrev {
				bad = append(bad, c.Pos(ret.Pos()))
			}
		}
		return true
	})
	r.Check(len(bad) == 0 && n >= 2, "nil-only-after-effect", c.Pos(fd.Pos()), fmt.Sprintf("%d `return nil` statements, each directly after `hasSideEffect = true` or under `if v.hasSideEffect` (others: %v)", n, bad))
}

// ruleC10SymbolRoundTrip: symbol.New renders a pointer-receiver method as "(*T).m"; IsMethod must undo
// exactly that, because WritePkgCode decides "pointer receiver" by the leading '*' of what it returns.
func ruleC10SymbolRoundTrip(c *ctx.Ctx, r *core.Reporter) {
	r.Begin("C10.symbol", "F-PAIR", "symbol.Name.IsMethod strips the parentheses that symbol.New puts around a pointer receiver, so that the consumer's test for a leading * sees it", 2)
	nw := c.FuncDecl("compiler/internal/symbol", "New")
	im := c.FuncDecl("compiler/internal/symbol", "Name.IsMethod")
	if nw == nil || im == nil {
		r.Undecided("symbol", "compiler/internal/symbol/symbol.go", "New / Name.IsMethod not found")
		return
	}
	producesParens := false
	ast.Inspect(nw.Body, func(n ast.Node) bool {
		if bl, ok := n.(*ast.BasicLit); ok && bl.Value == `"(*"` {
			producesParens = true
		}
		return true
	})
	strips := hasGoPattern(im.Body, `if µn > 2 && µr[0] == '(' && µr[µn-1] == ')' { µr = µr[1 : µn-1] }`) || hasGoPattern(im.Body, `µr = strings.TrimSuffix(strings.TrimPrefix(µr, "("), ")")`)
	r.Check(producesParens, "new:pointer-receiver-parenthesised", c.Pos(nw.Pos()), "symbol.New renders pointer-receiver methods as (*T).m")
	r.Check(!producesParens || strips, "ismethod:strips-parentheses", c.Pos(im.Pos()), "IsMethod returns the receiver without the parentheses New added ((*T) → *T)")
}

// ruleC01NamedResults: `return v` in a function with named results assigns the results first — always:
// the variables may be captured by a closure or have their address taken, defers or not.
func ruleC01NamedResults(c *ctx.Ctx, r *core.Reporter) {
	r.Begin("C01.named-results", "F-MUST", "a return statement with operands in a function with named results stores the operands in the result variables under no other condition than `the function has named results`", 1)
	ts := c.FuncDecl("compiler", "funcContext.translateStmt")
	if ts == nil {
		r.Undecided("translateStmt", "compiler/statements.go", "not found")
		return
	}
	arm := armOf(ts, "*ast.ReturnStmt")
	if arm == nil {
		r.Undecided("return-arm", c.Pos(ts.Pos()), "no *ast.ReturnStmt arm")
		return
	}
	ok := len(findGoPattern(arm, `if µfc.resultNames != nil { if len(µs.Results) != 0 { µfc.translateStmt(&ast.AssignStmt{Lhs: µfc.resultNames, Tok: token.ASSIGN, Rhs: µs.Results}, nil) }; µres = µfc.resultNames }`)) == 1
	r.Check(ok, "return:assigns-named-results", c.Pos(arm.Pos()), "`return a, b` with named results is translated as `r1, r2 = a, b; return r1, r2`, guarded only by fc.resultNames != nil")
}

// ruleC02ArgOrder: when any later argument suspends, every non-constant argument is evaluated into a temporary.
func ruleC02ArgOrder(c *ctx.Ctx, r *core.Reporter) {
	r.Begin("C02.arg-order", "F-MUST", "translateArgs keeps the left-to-right evaluation order across suspension points: if ANY argument after the first blocks, ALL non-constant arguments go to temporaries (an argument between two blocking ones must not move behind the second)", 2)
	ta := c.FuncDecl("compiler", "funcContext.translateArgs")
	if ta == nil {
		r.Undecided("translateArgs", "compiler/utils.go", "not found")
		return
	}
	flag := ""
	for _, m := range findGoPattern(ta.Body, `µp := false; for µi := 1; µi < len(µa); µi++ { µp = µp || µfc.Blocking[µa[µi]] }`) {
		flag = m.Env["µp"]
	}
	r.Check(flag != "", "any-later-argument-blocks", c.Pos(ta.Pos()), "a flag is the disjunction of fc.Blocking over all arguments after the first (no early exit at the first blocking one)")
	uses := false
	for _, m := range findGoPattern(ta.Body, `if µp && µfc.pkgCtx.Types[µe].Value == nil { µv := µfc.newLocalVariable("_arg"); µfc.Printf("%s = %s;", µv, µarg); µarg = µv }`) {
		if m.Env["µp"] == flag {
			uses = true
		}
	}
	r.Check(uses, "all-arguments-saved", c.Pos(ta.Pos()), "under that flag every non-constant argument is stored in a fresh _arg temporary — independently of the argument's position")
}

// ruleC15KeyConverted: the operand handed to <keyType>.keyFor(...) has been converted to the map's key
// type first (implicit conversion; for an interface-keyed map this boxes the value, so that keyFor sees
// the dynamic type). A raw operand makes delete/lookup compute a different key than the store did.
func ruleC15KeyConverted(c *ctx.Ctx, r *core.Reporter) {
	r.Begin("C15.key-converted", "F-KEY", "every expression spliced into <key type>.keyFor(…) by the compiler went through translateImplicitConversion[WithCloning](…, <the map's key type>) — in map literals, lookups, stores and delete alike", 3)
	n := 0
	for _, t := range usableTemplates(c) {
		if t.Role != tmpl.RoleSink {
			continue
		}
		fd := c.FuncDecl("compiler", t.Func)
		if fd == nil {
			continue
		}
		toks := t.Tokens
		args := t.FmtArgs()
		for i, tk := range toks {
			if tk.Kind != tmpl.TIdent || tk.Text != "keyFor" || identRole(toks, i) != roleProp {
				continue
			}
			// keyFor ( <hole> )
			if i+2 >= len(toks) || toks[i+2].Kind != tmpl.THole {
				continue
			}
			hole := t.Holes[toks[i+2].Holes[0]]
			if hole.Index < 0 || hole.Index >= len(args) {
				continue
			}
			n++
			arg := args[hole.Index]
			ok, how := convertedToKeyType(fd, arg, 0)
			if !ok {
				// a JavaScript temporary: `<tmp> = <converted key>; … keyFor(<tmp>)` inside the same template
				for j := 0; j+3 < len(toks); j++ {
					if toks[j].Kind == tmpl.THole && toks[j+1].Kind == tmpl.TPunct && toks[j+1].Text == "=" && toks[j+2].Kind == tmpl.THole {
						ha, hb := t.Holes[toks[j].Holes[0]], t.Holes[toks[j+2].Holes[0]]
						if ha.Index >= 0 && ha.Index < len(args) && hb.Index >= 0 && hb.Index < len(args) && exprStr(args[ha.Index]) == exprStr(arg) {
							ok, how = convertedToKeyType(fd, args[hb.Index], 0)
							how = exprStr(arg) + " = " + how
						}
					}
				}
			}
			r.Check(ok, "key-converted:"+t.Func+"["+strings.Join(t.CasePath, "/")+"]", c.Pos(t.Pos), fmt.Sprintf("the operand of keyFor is the key converted to the map's key type (%s)", how))
		}
	}
	r.Check(n >= 3, "key-converted:sites", "compiler", fmt.Sprintf("%d keyFor operands examined", n))
}

// convertedToKeyType: e is translateImplicitConversion[WithCloning](x, K) (possibly .String()), or a local
// variable whose definitions are (e.g. a temporary holding the converted key).
func convertedToKeyType(fd *ast.FuncDecl, e ast.Expr, depth int) (bool, string) {
	e = ast.Unparen(e)
	if call, ok := e.(*ast.CallExpr); ok {
		if sel, ok := call.Fun.(*ast.SelectorExpr); ok {
			switch sel.Sel.Name {
			case "translateImplicitConversion", "translateImplicitConversionWithCloning":
				if len(call.Args) == 2 && isMapKeyType(fd, call.Args[1]) {
					return true, exprStr(e)
				}
				return false, "converted to something that is not the map's key type: " + exprStr(e)
			case "String":
				return convertedToKeyType(fd, sel.X, depth)
			}
		}
	}
	if id, ok := e.(*ast.Ident); ok && depth < 3 {
		found, all, last := false, true, ""
		ast.Inspect(fd.Body, func(n ast.Node) bool {
			as, ok := n.(*ast.AssignStmt)
			if !ok {
				return true
			}
			for i, l := range as.Lhs {
				if li, ok := l.(*ast.Ident); ok && li.Name == id.Name && i < len(as.Rhs) && len(as.Lhs) == len(as.Rhs) {
					found = true
					okr, how := convertedToKeyType(fd, as.Rhs[i], depth+1)
					last = how
					if !okr {
						all = false
					}
				}
			}
			return true
		})
		if found {
			return all, id.Name + " := " + last
		}
		// a JS temporary that was assigned the converted key in an earlier template hole of the same call
		return false, "local " + id.Name + " without a converting definition"
	}
	return false, "raw operand " + exprStr(e)
}

// ruleSubarrayOffset: <s>.$array.subarray(a, b) addresses the backing array, so both ends are relative to <s>.$offset.
func ruleSubarrayOffset(c *ctx.Ctx, r *core.Reporter) {
	r.Begin("C14.subarray", "F-PAIR", "every <s>.$array.subarray(from, to) in the prelude adds <s>.$offset to both ends (a slice is a window into its backing array)", 2)
	if !needPrelude(c, r) {
		return
	}
	n := 0
	for _, f := range c.PreludeList() {
		f.AST.Walk(func(x *ctx.JSNode) bool {
			if !x.Is("CallExpression") || !x.N("callee").Is("MemberExpression") || x.N("callee").MemberName() != "subarray" {
				return true
			}
			arr := x.N("callee").N("object")
			if !arr.Is("MemberExpression") || arr.MemberName() != "$array" {
				return true
			}
			owner := squash(arr.N("object").Src())
			fn := x.EnclosingFunc()
			inits := map[string][]*ctx.JSNode{}
			if fn != nil {
				inits = localInits(fn)
			}
			for k, a := range x.L("arguments") {
				n++
				mentions := offsetRelative(a, owner, inits, 0)
				r.Check(mentions, fmt.Sprintf("subarray-offset:%s#%d:arg%d", ctx.JSFuncName(fn), n, k), x.Pos(), fmt.Sprintf("argument %d of %s.$array.subarray(…) is relative to %s.$offset: `%s`", k, owner, owner, squash(a.Src())))
			}
			return true
		})
	}
	r.Check(n >= 4, "subarray-offset:sites", "compiler/prelude", fmt.Sprintf("%d subarray bounds examined", n))
}

// ruleC13Ldexp: the Math.pow fast path of math.Ldexp must exclude every exponent whose power of two is
// not a finite, normal float64: 2^1024 is +Inf.
func ruleC13Ldexp(c *ctx.Ctx, r *core.Reporter) {
	r.Begin("C13.ldexp", "F-CLASS", "the fast path of the math.Ldexp overlay (frac * Math.pow(2, exp)) is not taken for exp = 1024 (2^1024 overflows to +Inf) and is taken for the ordinary exponents", 2)
	nat := c.Natives()
	var fd *ast.FuncDecl
	for _, f := range nat.PkgFiles("math") {
		if f.Test {
			continue
		}
		for _, d := range f.AST.Decls {
			if x, ok := d.(*ast.FuncDecl); ok && x.Recv == nil && x.Name.Name == "Ldexp" && x.Body != nil {
				fd = x
			}
		}
	}
	if fd == nil {
		r.Info("ldexp", nativesRootRel+"/math", "math.Ldexp is not overridden")
		return
	}
	// the if statement whose body calls math.Call("pow", …)
	var guard *ast.IfStmt
	ast.Inspect(fd.Body, func(n ast.Node) bool {
		if is, ok := n.(*ast.IfStmt); ok && guard == nil && strings.Contains(printNode(nat.Fset, is.Body), `"pow"`) {
			guard = is
		}
		return true
	})
	if guard == nil {
		r.Undecided("ldexp:guard", nat.Pos(c, fd.Pos()), "no guarded Math.pow fast path found")
		return
	}
	expName := ""
	if len(fd.Type.Params.List) >= 1 {
		last := fd.Type.Params.List[len(fd.Type.Params.List)-1]
		if len(last.Names) > 0 {
			expName = last.Names[len(last.Names)-1].Name
		}
	}
	eval := func(v int64) (bool, bool) { return evalIntCond(guard.Cond, expName, v) }
	for _, tc := range []struct {
		v    int64
		want bool
		why  string
	}{{1024, false, "2^1024 is +Inf"}, {1023, true, "2^1023 is the largest power of two"}, {0, true, "the identity"}, {-1022, true, "2^-1022 is the smallest normal power of two"}, {2000, false, "far out of range"}, {-2000, false, "far out of range"}} {
		got, ok := eval(tc.v)
		if !ok {
			r.Undecided(fmt.Sprintf("ldexp:fast-path@%d", tc.v), nat.Pos(c, guard.Pos()), "cannot evaluate the guard `"+printNode(nat.Fset, guard.Cond)+"`")
			continue
		}
		r.Check(got == tc.want, fmt.Sprintf("ldexp:fast-path@%d", tc.v), nat.Pos(c, guard.Pos()), fmt.Sprintf("guard `%s` at exp = %d is %v (%s)", printNode(nat.Fset, guard.Cond), tc.v, got, tc.why))
	}
}

// evalIntCond evaluates a condition made of comparisons between the variable and integer literals, && and ||.
func evalIntCond(e ast.Expr, v string, val int64) (bool, bool) {
	num := func(x ast.Expr) (int64, bool) {
		x = ast.Unparen(x)
		if id, ok := x.(*ast.Ident); ok && id.Name == v {
			return val, true
		}
		neg := false
		if u, ok := x.(*ast.UnaryExpr); ok && u.Op == token.SUB {
			neg = true
			x = u.X
		}
		if bl, ok := x.(*ast.BasicLit); ok && bl.Kind == token.INT {
			var n int64
			if _, err := fmt.Sscan(bl.Value, &n); err == nil {
				if neg {
					n = -n
				}
				return n, true
			}
		}
		return 0, false
	}
	switch x := ast.Unparen(e).(type) {
	case *ast.BinaryExpr:
		switch x.Op {
		case token.LAND, token.LOR:
			l, ok1 := evalIntCond(x.X, v, val)
			rr, ok2 := evalIntCond(x.Y, v, val)
			if x.Op == token.LAND {
				return l && rr, ok1 && ok2
			}
			return l || rr, ok1 && ok2
		case token.LSS, token.LEQ, token.GTR, token.GEQ, token.EQL, token.NEQ:
			l, ok1 := num(x.X)
			rr, ok2 := num(x.Y)
			if !ok1 || !ok2 {
				return false, false
			}
			switch x.Op {
			case token.LSS:
				return l < rr, true
			case token.LEQ:
				return l <= rr, true
			case token.GTR:
				return l > rr, true
			case token.GEQ:
				return l >= rr, true
			case token.EQL:
				return l == rr, true
			default:
				return l != rr, true
			}
		}
	}
	return false, false
}

// isMapKeyType: e is `<map type>.Key()` or a local assigned from it.
func isMapKeyType(fd *ast.FuncDecl, e ast.Expr) bool {
	if strings.HasSuffix(exprStr(e), ".Key()") {
		return true
	}
	if id, ok := e.(*ast.Ident); ok {
		found := false
		ast.Inspect(fd.Body, func(n ast.Node) bool {
			if as, ok := n.(*ast.AssignStmt); ok && len(as.Lhs) == 1 && len(as.Rhs) == 1 {
				if l, ok := as.Lhs[0].(*ast.Ident); ok && l.Name == id.Name && strings.HasSuffix(exprStr(as.Rhs[0]), ".Key()") {
					found = true
				}
			}
			return true
		})
		return found
	}
	return false
}

// offsetRelative: the expression is a position in the backing array of slice `owner`: it adds
// owner.$offset on every path (both operands of Math.min/Math.max, one side of + or -).
func offsetRelative(e *ctx.JSNode, owner string, inits map[string][]*ctx.JSNode, depth int) bool {
	e = unparen(e)
	switch {
	case e.Is("MemberExpression"):
		return e.MemberName() == "$offset" && squash(e.N("object").Src()) == owner
	case e.Is("Identifier"):
		if depth > 3 || len(inits[e.IdentName()]) == 0 {
			return false
		}
		for _, in := range inits[e.IdentName()] {
			if !offsetRelative(in, owner, inits, depth+1) {
				return false
			}
		}
		return true
	case e.Is("BinaryExpression") && (e.S("operator") == "+" || e.S("operator") == "-"):
		return offsetRelative(e.N("left"), owner, inits, depth) || (e.S("operator") == "+" && offsetRelative(e.N("right"), owner, inits, depth))
	case e.Is("CallExpression"):
		cal := e.N("callee")
		if cal.Is("MemberExpression") && cal.N("object").IdentName() == "Math" && (cal.MemberName() == "min" || cal.MemberName() == "max") {
			for _, a := range e.L("arguments") {
				if !offsetRelative(a, owner, inits, depth) {
					return false
				}
			}
			return len(e.L("arguments")) > 0
		}
	}
	return false
}

// ruleC20ModTime: the staleness bound handed to the cache covers every source the package is built from.
func ruleC20ModTime(c *ctx.Ctx, r *core.Reporter) {
	r.Begin("C20.modtime", "F-KEY", "PackageData.FileModTime takes the newest of the Go files (by their time stamp in the directory listing; an unknown file means 'now') and of the .inc.js files (by the time stamp recorded when they were loaded)", 3)
	fd := c.FuncDecl("build", "PackageData.FileModTime")
	if fd == nil {
		r.Undecided("FileModTime", "build/build.go", "not found")
		return
	}
	recv := ""
	if fd.Recv != nil && len(fd.Recv.List[0].Names) == 1 {
		recv = fd.Recv.List[0].Names[0].Name
	}
	// JS files: their own ModTime raises the bound
	js := false
	for _, m := range findGoPattern(fd.Body, `for _, µf := range µp.JSFiles { if µf.ModTime.After(µn) { µn = µf.ModTime } }`) {
		if m.Env["µp"] == recv {
			js = true
		}
	}
	r.Check(js, "modtime:js-files", c.Pos(fd.Pos()), "every .inc.js file raises the bound with the modification time it was loaded with")
	// Go files: looked up by the same key the listing was stored under, a miss is 'now'
	keyOK, missOK := false, false
	var mapName string
	for _, m := range findGoPattern(fd.Body, `for _, µf := range µfiles { µm[µf.Name()] = µf.ModTime() }`) {
		mapName = m.Env["µm"]
	}
	for _, m := range findGoPattern(fd.Body, `for _, µg := range µp.GoFiles { µt, µok := µm[µg]; if !µok { µµmiss; return time.Now() }; if µt.After(µn) { µn = µt } }`) {
		if m.Env["µp"] == recv && m.Env["µm"] == mapName && mapName != "" {
			keyOK, missOK = true, true
		}
	}
	r.Check(keyOK, "modtime:go-files", c.Pos(fd.Pos()), "every Go file raises the bound with its time stamp from the directory listing, looked up by base name as stored")
	r.Check(missOK, "modtime:miss-is-now", c.Pos(fd.Pos()), "a source file without a time stamp makes the package look modified now (never silently older)")
}

// ruleC16WriteJS: the minified (or plain) JavaScript of an included .inc.js file is forwarded exactly as
// esbuild produced it: its trailing line break terminates a trailing line comment (legal comments are
// moved to the end of the chunk).
func ruleC16WriteJS(c *ctx.Ctx, r *core.Reporter) {
	r.Begin("C16.writejs", "F-KEY", "Filter.WriteJS hands esbuild's output to the writer unmodified", 1)
	fd := c.FuncDecl("internal/sourcemapx", "Filter.WriteJS")
	if fd == nil {
		r.Undecided("WriteJS", "internal/sourcemapx/filter.go", "not found")
		return
	}
	res := ""
	for _, m := range findGoPattern(fd.Body, `µres := api.Transform(µsrc, µopts)`) {
		res = m.Env["µres"]
	}
	last := fd.Body.List[len(fd.Body.List)-1]
	ok := false
	for _, m := range findGoPattern(&ast.BlockStmt{List: []ast.Stmt{last}}, `return µf.Write(µres.Code)`) {
		if m.Env["µres"] == res && res != "" {
			ok = true
		}
	}
	r.Check(ok, "writejs:output-verbatim", c.Pos(fd.Pos()), "the last statement of WriteJS is `return f.Write(<transform result>.Code)`: no trimming or rewriting of the transformed code (a trailing `//!` legal comment would swallow the code that follows)")
}

// ruleRawBackingArray: handing out <s>.$array itself instead of a window is only right when the slice
// covers the whole array, which needs a test of <s>.$length.
func ruleRawBackingArray(c *ctx.Ctx, r *core.Reporter) {
	r.Begin("C11.raw-array", "F-KEY", "a prelude function returns the backing array <s>.$array of a slice as a whole only under a test of <s>.$length (offset and capacity alone do not say how many elements the slice has)", 1)
	if !needPrelude(c, r) {
		return
	}
	n := 0
	for _, f := range c.PreludeList() {
		f.AST.Walk(func(x *ctx.JSNode) bool {
			if !x.Is("ReturnStatement") || x.N("argument") == nil {
				return true
			}
			a := unparen(x.N("argument"))
			if !a.Is("MemberExpression") || a.MemberName() != "$array" || !a.N("object").Is("Identifier") {
				return true
			}
			owner := a.N("object").IdentName()
			fn := x.EnclosingFunc()
			isParam := false
			for _, p := range funcParams(fn) {
				if p == owner {
					isParam = true
				}
			}
			if !isParam {
				return true
			}
			n++
			guarded := false
			for p := x.Parent; p != nil && p != fn; p = p.Parent {
				if p.Is("IfStatement") && strings.Contains(squash(p.N("test").Src()), owner+".$length") {
					guarded = true
				}
			}
			r.Check(guarded, fmt.Sprintf("raw-array:%s#%d", ctx.JSFuncName(fn), n), x.Pos(), fmt.Sprintf("`return %s.$array` is guarded by a test of %s.$length", owner, owner))
			return true
		})
	}
	r.Check(n >= 1, "raw-array:sites", "compiler/prelude", fmt.Sprintf("%d returns of a raw backing array examined", n))
}
