package rules

import (
	"fmt"
	"go/ast"
	"strings"

	"verif/checker/internal/core"
	"verif/checker/internal/ctx"
)

// Rules added after the fourth round of seeded changes.

// ruleC06Carry: $mul64 multiplies 16-bit limbs; a column holds its previous value (masked to 16 bits), a
// carry and ONE product before the carry is taken with `>>> 16`, which truncates its operand to 32 bits:
// 0xFFFF + 0xFFFF + 0xFFFF*0xFFFF just fits. A column that accumulates two products before its carry is
// taken can exceed 2^32 and lose the carry. Only the top column, whose carry is discarded, may take several.
func ruleC06Carry(c *ctx.Ctx, r *core.Reporter) {
	r.Begin("C06.carry", "F-CONST", "in the limb-wise 64-bit multiplication every column that is later shifted with >>> receives at most one 16×16-bit product per accumulation step", 4)
	if !needPrelude(c, r) {
		return
	}
	fn := c.PreludeFunc("$mul64")
	if fn == nil {
		r.Undecided("mul64", "compiler/prelude/numeric.js", "$mul64 not found")
		return
	}
	// variables that are ever the left operand of >>>
	shifted := map[string]bool{}
	fn.Walk(func(x *ctx.JSNode) bool {
		if x.Is("BinaryExpression") && x.S("operator") == ">>>" && x.N("left").Is("Identifier") {
			if v, ok := x.N("right").NumValue(); ok && v == 16 {
				shifted[x.N("left").IdentName()] = true
			}
		}
		return true
	})
	n := 0
	fn.Walk(func(x *ctx.JSNode) bool {
		if !x.Is("AssignmentExpression") || x.S("operator") != "+=" || !x.N("left").Is("Identifier") {
			return true
		}
		products := 0
		x.N("right").Walk(func(y *ctx.JSNode) bool {
			if y.Is("BinaryExpression") && y.S("operator") == "*" {
				products++
			}
			return true
		})
		if products == 0 {
			return true
		}
		n++
		target := x.N("left").IdentName()
		r.Check(products == 1 || !shifted[target], fmt.Sprintf("carry:%s#%d", target, n), x.Pos(), fmt.Sprintf("`%s` adds %d product(s) to %s, whose carry is %s", squash(x.Src()), products, target, ternary(shifted[target], "taken with >>> 16 afterwards (32-bit truncation: at most one product fits)", "discarded")))
		return true
	})
	r.Check(n >= 7, "carry:steps", fn.Pos(), fmt.Sprintf("%d accumulation steps with products examined (the 10 partial products of the low 64 bits)", n))
}

// ruleC03Deadlock: the all-goroutines-asleep check sits where the number of awake goroutines goes down.
func ruleC03Deadlock(c *ctx.Ctx, r *core.Reporter) {
	r.Begin("C03.deadlock", "F-PAIR", "every decrement of $awakeGoroutines in $go is followed, in the same block, by the test that reports a deadlock when the count reaches zero; a finished goroutine goes through the same path as one that fell asleep", 2)
	if !needPrelude(c, r) {
		return
	}
	fn := c.PreludeFunc("$go")
	if fn == nil {
		r.Undecided("go", "compiler/prelude/goroutines.js", "$go not found")
		return
	}
	n := 0
	fn.Walk(func(x *ctx.JSNode) bool {
		if !(x.Is("UpdateExpression") && x.S("operator") == "--" && x.N("argument").IdentName() == "$awakeGoroutines") {
			return true
		}
		n++
		st := stmtOf(x)
		var list []*ctx.JSNode
		if p := st.Parent; p != nil && p.Is("BlockStatement") {
			list = p.L("body")
		}
		checked := false
		after := false
		for _, s := range list {
			if s == st {
				after = true
				continue
			}
			if after && s.Is("IfStatement") {
				t := squash(s.N("test").Src())
				if strings.Contains(t, "$awakeGoroutines===0") && strings.Contains(t, "$checkForDeadlock") && strings.Contains(squash(s.N("consequent").Src()), "deadlock") {
					checked = true
				}
			}
		}
		r.Check(checked, fmt.Sprintf("awake-decrement-checked#%d", n), x.Pos(), "after $awakeGoroutines-- the block tests `$awakeGoroutines === 0 && $checkForDeadlock …` and reports the deadlock")
		return true
	})
	r.Check(n >= 1, "awake-decrement", fn.Pos(), fmt.Sprintf("%d decrements of $awakeGoroutines in $go", n))
	// a goroutine that exits is marked asleep so that it takes that path
	okExit := false
	fn.Walk(func(x *ctx.JSNode) bool {
		if x.Is("IfStatement") && strings.HasSuffix(squash(x.N("test").Src()), ".exit") {
			cs := squash(x.N("consequent").Src())
			if strings.Contains(cs, "$totalGoroutines--") && strings.Contains(cs, ".asleep=true") {
				okExit = true
			}
		}
		return true
	})
	r.Check(okExit, "exit-counts-as-asleep", fn.Pos(), "a goroutine that finished (or called Goexit) is taken off $totalGoroutines and marked asleep, so the awake count and the deadlock test see it")
}

// ruleC05EffectsWalk: the side-effect visitor stops descending only after it has found an effect.
func ruleC05EffectsWalk(c *ctx.Ctx, r *core.Reporter) {
	r.Begin("C05.effects-walk", "F-MUST", "hasSideEffectVisitor.Visit cuts the walk short (returns nil) only where it has just recorded an effect or one was already found: a conversion T(f()) still has its operand examined", 1)
	fd := c.FuncDecl("compiler/internal/analysis", "hasSideEffectVisitor.Visit")
	if fd == nil {
		r.Undecided("visit", "compiler/internal/analysis/sideeffect.go", "hasSideEffectVisitor.Visit not found")
		return
	}
	n, bad := 0, []string{}
	ast.Inspect(fd.Body, func(x ast.Node) bool {
		blk, ok := x.(*ast.BlockStmt)
		var list []ast.Stmt
		if ok {
			list = blk.List
		} else if cc, isCC := x.(*ast.CaseClause); isCC {
			list = cc.Body
		} else {
			return true
		}
		for i, st := range list {
			ret, isRet := st.(*ast.ReturnStmt)
			if !isRet || len(ret.Results) != 1 || exprStr(ret.Results[0]) != "nil" {
				continue
			}
			n++
			okPrev := false
			if i > 0 && len(findGoPattern(&ast.BlockStmt{List: []ast.Stmt{list[i-1]}}, `µv.hasSideEffect = true`)) > 0 {
				okPrev = true
			}
			for _, is := range enclosingIfs(fd.Body, ret.Pos()) {
				if hasGoPatternExpr(is.Cond, `µv.hasSideEffect`) {
					okPrev = true
				}
			}
			if !okPrev {
				bad = append(bad, c.Pos(ret.Pos()))
			}
		}
		return true
	})
	r.Check(len(bad) == 0 && n >= 2, "nil-only-after-effect", c.Pos(fd.Pos()), fmt.Sprintf("%d `return nil` statements, each directly after `hasSideEffect = true` or under `if v.hasSideEffect` (others: %v)", n, bad))
}

// ruleC10SymbolRoundTrip: symbol.New renders a pointer-receiver method as "(*T).m"; IsMethod must undo
// exactly that, because WritePkgCode decides "pointer receiver" by the leading '*' of what it returns.
func ruleC10SymbolRoundTrip(c *ctx.Ctx, r *core.Reporter) {
	r.Begin("C10.symbol", "F-PAIR", "symbol.Name.IsMethod strips the parentheses that symbol.New puts around a pointer receiver, so that the consumer's test for a leading * sees it", 2)
	nw := c.FuncDecl("compiler/internal/symbol", "New")
	im := c.FuncDecl("compiler/internal/symbol", "Name.IsMethod")
	if nw == nil || im == nil {
		r.Undecided("symbol", "compiler/internal/symbol/symbol.go", "New / Name.IsMethod not found")
		return
	}
	producesParens := false
	ast.Inspect(nw.Body, func(n ast.Node) bool {
		if bl, ok := n.(*ast.BasicLit); ok && bl.Value == `"(*"` {
			producesParens = true
		}
		return true
	})
	strips := hasGoPattern(im.Body, `if µn > 2 && µr[0] == '(' && µr[µn-1] == ')' { µr = µr[1 : µn-1] }`) || hasGoPattern(im.Body, `µr = strings.TrimSuffix(strings.TrimPrefix(µr, "("), ")")`)
	r.Check(producesParens, "new:pointer-receiver-parenthesised", c.Pos(nw.Pos()), "symbol.New renders pointer-receiver methods as (*T).m")
	r.Check(!producesParens || strips, "ismethod:strips-parentheses", c.Pos(im.Pos()), "IsMethod returns the receiver without the parentheses New added ((*T) → *T)")
}

// ruleC01NamedResults: `return v` in a function with named results assigns the results first — always:
// the variables may be captured by a closure or have their address taken, defers or not.
func ruleC01NamedResults(c *ctx.Ctx, r *core.Reporter) {
	r.Begin("C01.named-results", "F-MUST", "a return statement with operands in a function with named results stores the operands in the result variables under no other condition than `the function has named results`", 1)
	ts := c.FuncDecl("compiler", "funcContext.translateStmt")
	if ts == nil {
		r.Undecided("translateStmt", "compiler/statements.go", "not found")
		return
	}
	arm := armOf(ts, "*ast.ReturnStmt")
	if arm == nil {
		r.Undecided("return-arm", c.Pos(ts.Pos()), "no *ast.ReturnStmt arm")
		return
	}
	ok := len(findGoPattern(arm, `if µfc.resultNames != nil { if len(µs.Results) != 0 { µfc.translateStmt(&ast.AssignStmt{Lhs: µfc.resultNames, Tok: token.ASSIGN, Rhs: µs.Results}, nil) }; µres = µfc.resultNames }`)) == 1
	r.Check(ok, "return:assigns-named-results", c.Pos(arm.Pos()), "`return a, b` with named results is translated as `r1, r2 = a, b; return r1, r2`, guarded only by fc.resultNames != nil")
}

// ruleC02ArgOrder: when any later argument suspends, every non-constant argument is evaluated into a temporary.
func ruleC02ArgOrder(c *ctx.Ctx, r *core.Reporter) {
	r.Begin("C02.arg-order", "F-MUST", "translateArgs keeps the left-to-right evaluation order across suspension points: if ANY argument after the first blocks, ALL non-constant arguments go to temporaries (an argument between two blocking ones must not move behind the second)", 2)
	ta := c.FuncDecl("compiler", "funcContext.translateArgs")
	if ta == nil {
		r.Undecided("translateArgs", "compiler/utils.go", "not found")
		return
	}
	flag := ""
	for _, m := range findGoPattern(ta.Body, `µp := false; for µi := 1; µi < len(µa); µi++ { µp = µp || µfc.Blocking[µa[µi]] }`) {
		flag = m.Env["µp"]
	}
	r.Check(flag != "", "any-later-argument-blocks", c.Pos(ta.Pos()), "a flag is the disjunction of fc.Blocking over all arguments after the first (no early exit at the first blocking one)")
	uses := false
	for _, m := range findGoPattern(ta.Body, `if µp && µfc.pkgCtx.Types[µe].Value == nil { µv := µfc.newLocalVariable("_arg"); µfc.Printf("%s = %s;", µv, µarg); µarg = µv }`) {
		if m.Env["µp"] == flag {
			uses = true
		}
	}
	r.Check(uses, "all-arguments-saved", c.Pos(ta.Pos()), "under that flag every non-constant argument is stored in a fresh _arg temporary — independently of the argument's position")
}
