package rules

func init() {
	register(&Property{
		ID:          "C17",
		Explanation: "Decided: (det) every iteration over a map or hash-ordered container in the packages that produce compiler output has order-insensitive effects (keyed stores, monotone accumulation, appends sorted before use, existence tests), no wall-clock/random/process-identity source is consulted there, and unstable sorts compare unique keys; (order) files, imports and sources are sorted before use. NOT decided: byte identity across processes as such (needs two runs), esbuild's determinism.",
		Assumptions: []string{"slices and AST traversal are deterministic", "go/types reports objects in a deterministic order for identical inputs"},
		Rules:       []RuleFunc{ruleDET("C17"), ruleC17Order, ruleC17SortKey, ruleC17NoPosOrder, ruleC17SessionArchives},
	})
}
