package rules

// LINK family (DESIGN §2.1): the compiler / prelude / natives boundary is closed.

import (
	"fmt"
	"go/ast"
	"go/constant"
	"go/printer"
	"go/token"
	"go/types"
	"regexp"
	"sort"
	"strings"

	"verif/checker/internal/core"
	"verif/checker/internal/ctx"
	"verif/checker/internal/tmpl"
)

var jsKeywords = map[string]bool{}
var jsLiterals = map[string]bool{}

func init() {
	for _, k := range strings.Fields(`break case catch class const continue debugger default delete do else export extends finally for function if import in instanceof let new return static super switch this throw try typeof var void while with yield async await of get set`) {
		jsKeywords[k] = true
	}
	for _, k := range strings.Fields(`true false null undefined NaN Infinity arguments`) {
		jsLiterals[k] = true
	}
}

// jsEnv is the symbol environment shared by the LINK rules.
type jsEnv struct {
	preludeDecls map[string][]ctx.JSDecl
	// names the compiler itself declares in generated code (collected)
	compilerDecl map[string]string // name -> where
	// property names written somewhere (prelude, templates, natives)
	propWrites map[string]string
}

var envCache *jsEnv

func needPrelude(c *ctx.Ctx, r *core.Reporter) bool {
	if _, err := c.Prelude(); err != nil {
		r.Undecided("prelude-parse", "compiler/prelude", "prelude cannot be parsed: "+err.Error())
		return false
	}
	return true
}

// usableTemplates are the templates that can reach JavaScript output.
func usableTemplates(c *ctx.Ctx) []*tmpl.Template {
	var out []*tmpl.Template
	js := jsProducing(c)
	for _, t := range corpus(c).Templates {
		if t.Role == tmpl.RoleMessage {
			continue
		}
		if !js[t.Func] {
			continue
		}
		out = append(out, t)
	}
	return out
}

var jsProducingCache map[string]bool

// jsProducing computes the functions of package compiler whose string
// constants can reach JavaScript output: the methods of funcContext, the
// program writers, and every package-level function or method they call
// (transitively, statically resolved inside package compiler).
func jsProducing(c *ctx.Ctx) map[string]bool {
	if jsProducingCache != nil {
		return jsProducingCache
	}
	p := c.Pkg("compiler")
	info := p.TypesInfo
	decls := map[string]*ast.FuncDecl{}
	objName := map[types.Object]string{}
	for _, fd := range c.AllFuncDecls("compiler") {
		n := ctx.FuncName(fd)
		decls[n] = fd
		if o := info.Defs[fd.Name]; o != nil {
			objName[o] = n
		}
	}
	set := map[string]bool{}
	var work []string
	add := func(n string) {
		if !set[n] {
			set[n] = true
			work = append(work, n)
		}
	}
	for n := range decls {
		if strings.HasPrefix(n, "funcContext.") || n == "WriteProgramCode" || n == "WritePkgCode" || n == "writeF" {
			add(n)
		}
	}
	for len(work) > 0 {
		n := work[len(work)-1]
		work = work[:len(work)-1]
		fd := decls[n]
		if fd == nil || fd.Body == nil {
			continue
		}
		ast.Inspect(fd.Body, func(x ast.Node) bool {
			if ce, ok := x.(*ast.CallExpr); ok {
				var id *ast.Ident
				switch f := ast.Unparen(ce.Fun).(type) {
				case *ast.Ident:
					id = f
				case *ast.SelectorExpr:
					id = f.Sel
				}
				if id != nil {
					if o := info.Uses[id]; o != nil {
						if cn, ok := objName[o]; ok {
							add(cn)
						}
					}
				}
			}
			return true
		})
	}
	set["<pkg>"] = true
	jsProducingCache = set
	return set
}

func prevTok(toks []tmpl.Token, i int) *tmpl.Token {
	for j := i - 1; j >= 0; j-- {
		if toks[j].Kind != tmpl.TComment {
			return &toks[j]
		}
	}
	return nil
}
func nextTok(toks []tmpl.Token, i int) *tmpl.Token {
	for j := i + 1; j < len(toks); j++ {
		if toks[j].Kind != tmpl.TComment {
			return &toks[j]
		}
	}
	return nil
}

func isPunct(t *tmpl.Token, p string) bool {
	return t != nil && t.Kind == tmpl.TPunct && t.Text == p
}

// tokenRole classifies an identifier-like token at index i.
type tokRole int

const (
	roleRef tokRole = iota
	roleProp
	roleKey
	roleDecl
	roleLabel
)

func identRole(toks []tmpl.Token, i int) tokRole {
	p, n := prevTok(toks, i), nextTok(toks, i)
	if isPunct(p, ".") || isPunct(p, "?.") {
		return roleProp
	}
	if p != nil && p.Kind == tmpl.TIdent && (p.Text == "break" || p.Text == "continue") {
		return roleLabel
	}
	if isPunct(n, ":") {
		if p == nil || isPunct(p, "{") || isPunct(p, ",") {
			// object key (or a label at the start of a fragment)
			if p == nil {
				return roleLabel
			}
			return roleKey
		}
		if isPunct(p, ";") || isPunct(p, "}") {
			return roleLabel
		}
	}
	if p != nil && p.Kind == tmpl.TIdent && (p.Text == "var" || p.Text == "let" || p.Text == "const" || p.Text == "function") {
		return roleDecl
	}
	return roleRef
}

// declaredInTemplate collects names bound by the template itself: var lists,
// function parameters, catch parameters, destructuring `var {a, b} =`.
func declaredInTemplate(toks []tmpl.Token) map[string]bool {
	d := map[string]bool{}
	for i := 0; i < len(toks); i++ {
		t := toks[i]
		if t.Kind != tmpl.TIdent {
			continue
		}
		switch t.Text {
		case "var", "let", "const":
			// var a, b = x, c;   or   var {a, b} = ...
			depth := 0
			expectName := true
			for j := i + 1; j < len(toks); j++ {
				u := toks[j]
				if u.Kind == tmpl.TPunct {
					switch u.Text {
					case "(", "[":
						depth++
					case ")", "]":
						depth--
					case "{":
						if expectName && depth == 0 {
							// destructuring pattern: names until }
							for j++; j < len(toks) && !isPunct(&toks[j], "}"); j++ {
								if toks[j].Kind == tmpl.TIdent {
									d[toks[j].Text] = true
								}
							}
							expectName = false
							continue
						}
						depth++
					case "}":
						depth--
					case ",":
						if depth == 0 {
							expectName = true
						}
					case "=":
						expectName = false
					case ";":
						if depth == 0 {
							j = len(toks)
						}
					}
					if depth < 0 {
						break
					}
					continue
				}
				if u.Kind == tmpl.TIdent && expectName && depth == 0 {
					d[u.Text] = true
					expectName = false
				}
			}
		case "function":
			// function name? ( params )
			j := i + 1
			if j < len(toks) && toks[j].Kind == tmpl.TIdent {
				d[toks[j].Text] = true
				j++
			}
			if j < len(toks) && isPunct(&toks[j], "(") {
				for j++; j < len(toks) && !isPunct(&toks[j], ")"); j++ {
					if toks[j].Kind == tmpl.TIdent {
						d[toks[j].Text] = true
					}
				}
			}
		case "catch":
			j := i + 1
			if j < len(toks) && isPunct(&toks[j], "(") {
				for j++; j < len(toks) && !isPunct(&toks[j], ")"); j++ {
					if toks[j].Kind == tmpl.TIdent {
						d[toks[j].Text] = true
					}
				}
			}
		}
	}
	return d
}

func buildEnv(c *ctx.Ctx) *jsEnv {
	if envCache != nil {
		return envCache
	}
	e := &jsEnv{preludeDecls: c.PreludeDecls(), compilerDecl: map[string]string{}, propWrites: map[string]string{}}
	// compiler-declared names
	for _, t := range usableTemplates(c) {
		for n := range declaredInTemplate(t.Tokens) {
			if _, ok := e.compilerDecl[n]; !ok {
				e.compilerDecl[n] = c.Pos(t.Pos)
			}
		}
		// whole-string identifiers handed to the variable allocator or to the var lists
		if len(t.Tokens) == 1 && t.Tokens[0].Kind == tmpl.TIdent && t.Role == tmpl.RoleFragment {
			if strings.HasPrefix(t.Why, "argument of newIdent") || strings.HasPrefix(t.Why, "argument of newLocalVariable") || strings.HasPrefix(t.Why, "argument of newVariable") || strings.HasPrefix(t.Why, "argument of append") || t.Why == "composite literal element" {
				if _, ok := e.compilerDecl[t.Tokens[0].Text]; !ok {
					e.compilerDecl[t.Tokens[0].Text] = c.Pos(t.Pos) + " (" + t.Why + ")"
				}
			}
		}
		// "$pkg = {}" in the vars list
		if t.Why == "composite literal element" && len(t.Tokens) >= 2 && t.Tokens[0].Kind == tmpl.TIdent && isPunct(&t.Tokens[1], "=") {
			e.compilerDecl[t.Tokens[0].Text] = c.Pos(t.Pos)
		}
		// property writes in templates: .name = / {name: / name( ) { method
		toks := t.Tokens
		for i, tk := range toks {
			if tk.Kind != tmpl.TIdent {
				continue
			}
			switch identRole(toks, i) {
			case roleProp:
				if n := nextTok(toks, i); isPunct(n, "=") {
					e.addProp(tk.Text, c.Pos(t.Pos))
				}
			case roleKey:
				e.addProp(tk.Text, c.Pos(t.Pos))
			}
			// shorthand {$blk: x, $c: true, $r, ...}: `$r` followed by , or } after a {
		}
	}
	// prelude property writes
	for _, f := range c.PreludeList() {
		f.AST.Walk(func(n *ctx.JSNode) bool {
			switch n.Type {
			case "AssignmentExpression":
				collectAssignTargets(n.N("left"), func(name string, at *ctx.JSNode) { e.addProp(name, at.Pos()) })
			case "Property":
				if !n.B("computed") {
					k := n.N("key")
					if nm := k.IdentName(); nm != "" {
						e.addProp(nm, n.Pos())
					} else if s, ok := k.StrValue(); ok {
						e.addProp(s, n.Pos())
					}
				}
			case "CallExpression":
				// Object.defineProperty(x, "name", ...)
				cal := n.N("callee")
				if cal.Is("MemberExpression") && cal.N("object").IdentName() == "Object" && cal.MemberName() == "defineProperty" {
					args := n.L("arguments")
					if len(args) >= 2 {
						if s, ok := args[1].StrValue(); ok {
							e.addProp(s, n.Pos())
						}
					}
				}
			case "UpdateExpression":
				collectAssignTargets(n.N("argument"), func(name string, at *ctx.JSNode) { e.addProp(name, at.Pos()) })
			}
			return true
		})
	}
	// natives: x.Set("name", ...)
	nat := c.Natives()
	for _, f := range nat.Files {
		if f.Test {
			continue
		}
		for _, ref := range ctx.JSRefs(f.AST) {
			if ref.Method == "Set" && !ref.Global {
				e.addProp(ref.Name, nat.Pos(c, ref.Pos))
			}
		}
	}
	// js package itself (typed)
	if p := c.Pkg("js"); p != nil {
		if o := p.Types.Scope().Lookup("Object"); o != nil {
			if st, ok := o.Type().Underlying().(*types.Struct); ok {
				for i := 0; i < st.NumFields(); i++ {
					e.addProp(st.Field(i).Name(), "field of js.Object (js/js.go)")
				}
			}
		}
		for _, f := range p.Syntax {
			if c.IsTestFile(f.Pos()) {
				continue
			}
			for _, ref := range ctx.JSRefs(f) {
				if ref.Method == "Set" && !ref.Global {
					e.addProp(ref.Name, c.Pos(ref.Pos))
				}
			}
		}
	}
	envCache = e
	return e
}

func (e *jsEnv) addProp(name, where string) {
	if _, ok := e.propWrites[name]; !ok {
		e.propWrites[name] = where
	}
}

func collectAssignTargets(n *ctx.JSNode, f func(string, *ctx.JSNode)) {
	if n == nil {
		return
	}
	switch n.Type {
	case "MemberExpression":
		if nm := n.MemberName(); nm != "" {
			f(nm, n)
		}
	case "AssignmentExpression":
		collectAssignTargets(n.N("left"), f)
	}
}

// ---------------------------------------------------------------------------
// name families (slots filled from the compiler's own code)

// toJSTypeTable evaluates toJavaScriptType over the typed basic kinds by
// reading its switch: constant case returns are taken from the AST, the
// default arm must be Title(t.String()).
func toJSTypeTable(c *ctx.Ctx) (map[types.BasicKind]string, string) {
	fd := c.FuncDecl("compiler", "toJavaScriptType")
	if fd == nil {
		return nil, "function toJavaScriptType not found"
	}
	info := c.Pkg("compiler").TypesInfo
	cases := map[types.BasicKind]string{}
	defaultOK := false
	var sw *ast.SwitchStmt
	ast.Inspect(fd.Body, func(n ast.Node) bool {
		if s, ok := n.(*ast.SwitchStmt); ok && sw == nil {
			sw = s
		}
		return true
	})
	if sw == nil {
		return nil, "toJavaScriptType has no switch"
	}
	for _, st := range sw.Body.List {
		cc := st.(*ast.CaseClause)
		if cc.List == nil {
			// default: strings.ToUpper(name[:1]) + name[1:] with name := t.String()
			src := nodeString(c, cc)
			if strings.Contains(src, "strings.ToUpper(name[:1]) + name[1:]") && strings.Contains(src, "t.String()") {
				defaultOK = true
			}
			continue
		}
		var ret string
		got := false
		for _, s := range cc.Body {
			if rs, ok := s.(*ast.ReturnStmt); ok && len(rs.Results) == 1 {
				if tv, ok := info.Types[rs.Results[0]]; ok && tv.Value != nil && tv.Value.Kind() == constant.String {
					ret, got = constant.StringVal(tv.Value), true
				}
			}
		}
		if !got {
			return nil, "non-constant case arm in toJavaScriptType"
		}
		for _, l := range cc.List {
			tv := info.Types[l]
			if tv.Value == nil {
				return nil, "non-constant case label in toJavaScriptType"
			}
			k, _ := constant.Int64Val(tv.Value)
			cases[types.BasicKind(k)] = ret
		}
	}
	if !defaultOK {
		return nil, "default arm of toJavaScriptType is not Title(t.String())"
	}
	out := map[types.BasicKind]string{}
	for k := types.Bool; k <= types.UnsafePointer; k++ {
		if s, ok := cases[k]; ok {
			out[k] = s
			continue
		}
		name := types.Typ[k].String()
		out[k] = strings.ToUpper(name[:1]) + name[1:]
	}
	// aliases byte/rune resolve to Uint8/Int32 kinds; the explicit cases must agree
	if s, ok := cases[types.Byte]; ok {
		out[types.Byte] = s
	}
	if s, ok := cases[types.Rune]; ok {
		out[types.Rune] = s
	}
	if s, ok := cases[types.UntypedInt]; ok {
		out[types.UntypedInt] = s
	}
	return out, ""
}

// nodeString renders a node with go/printer: canonical formatting, comments dropped.
func nodeString(c *ctx.Ctx, n ast.Node) string {
	if n == nil {
		return ""
	}
	var sb strings.Builder
	if err := (&printer.Config{Mode: printer.RawFormat, Tabwidth: 8}).Fprint(&sb, c.Fset, n); err != nil {
		return ""
	}
	return sb.String()
}

func readFileAbs(c *ctx.Ctx, abs string) ([]byte, error) {
	rel := strings.TrimPrefix(abs, c.Repo+"/")
	return c.ReadFile(rel)
}

// typeKindConsts returns the constant strings typeKind can return for
// composite kinds (switch arms with constant returns).
func typeKindConsts(c *ctx.Ctx) []string {
	fd := c.FuncDecl("compiler", "typeKind")
	if fd == nil {
		return nil
	}
	info := c.Pkg("compiler").TypesInfo
	var out []string
	ast.Inspect(fd.Body, func(n ast.Node) bool {
		if rs, ok := n.(*ast.ReturnStmt); ok && len(rs.Results) == 1 {
			if tv, ok := info.Types[rs.Results[0]]; ok && tv.Value != nil && tv.Value.Kind() == constant.String {
				out = append(out, constant.StringVal(tv.Value))
			}
		}
		return true
	})
	return out
}

// ---------------------------------------------------------------------------
// L1: free $identifiers resolve

func ruleL1(c *ctx.Ctx, r *core.Reporter) {
	r.Begin("LINK.L1", "F-LINK", "every free $name emitted by a template, by package js or by a natives js.Global reference resolves to a prelude declaration, a name the compiler declares in generated code, or a member of a computed name family", 120)
	if !needPrelude(c, r) {
		return
	}
	env := buildEnv(c)
	resolve := func(name string) (string, bool) {
		if _, ok := env.preludeDecls[name]; ok {
			return "prelude", true
		}
		if w, ok := env.compilerDecl[name]; ok {
			return "declared by the compiler at " + w, true
		}
		return "", false
	}
	type use struct{ site, fn string }
	uses := map[string][]use{}
	patterns := map[string][]use{}
	ntempl := 0
	for _, t := range usableTemplates(c) {
		ntempl++
		for i, tk := range t.Tokens {
			switch tk.Kind {
			case tmpl.TIdent:
				if !strings.HasPrefix(tk.Text, "$") || tk.Text == "$" {
					continue
				}
				if role := identRole(t.Tokens, i); role != roleRef && role != roleDecl {
					continue
				}
				if len(t.Tokens) == 1 && t.Role == tmpl.RoleFragment {
					// a bare name held in a Go variable: it may be spliced as a
					// reference or after a dot; accept it if it is a written member
					if _, ok := env.propWrites[tk.Text]; ok {
						continue
					}
				}
				uses[tk.Text] = append(uses[tk.Text], use{c.Pos(t.Pos), t.Func})
			case tmpl.TPattern:
				if !strings.HasPrefix(tk.Text, "$") {
					continue
				}
				if role := identRole(t.Tokens, i); role != roleRef {
					continue
				}
				patterns[tk.Text] = append(patterns[tk.Text], use{c.Pos(t.Pos), t.Func})
			}
		}
	}
	r.Count("templates (non-message string constants of package compiler)", ntempl)
	names := sortedKeys(uses)
	for _, n := range names {
		how, ok := resolve(n)
		u := uses[n][0]
		r.Check(ok, "template:"+n, u.site, ternary(ok, fmt.Sprintf("%s resolves (%s); %d use(s), first in %s", n, how, len(uses[n]), u.fn), fmt.Sprintf("template in %s emits free identifier %s which no prelude file declares and the compiler never declares", u.fn, n)))
	}
	// patterns: $⟨n⟩Type, $kind⟨n⟩, $shiftRight⟨n⟩, $⟨n⟩ ...
	holeRe := regexp.MustCompile(`⟨\d+⟩`)
	for _, p := range sortedKeys(patterns) {
		re := regexp.MustCompile("^" + holeRe.ReplaceAllString(regexp.QuoteMeta(p), `[A-Za-z0-9_]+`) + "$")
		n := 0
		for d := range env.preludeDecls {
			if re.MatchString(d) {
				n++
			}
		}
		u := patterns[p][0]
		r.Check(n > 0, "pattern:"+holeRe.ReplaceAllString(p, "⟨⟩"), u.site, fmt.Sprintf("name pattern %s in %s matches %d prelude declarations", p, u.fn, n))
	}
	// families
	tbl, why := toJSTypeTable(c)
	if tbl == nil {
		r.Undecided("family:toJavaScriptType", c.Pos(c.FuncDecl("compiler", "toJavaScriptType").Pos()), why)
	} else {
		kinds := []types.BasicKind{}
		for k := types.Bool; k <= types.UnsafePointer; k++ {
			kinds = append(kinds, k)
		}
		for _, k := range kinds {
			js := tbl[k]
			_, ok1 := env.preludeDecls["$kind"+js]
			r.Check(ok1, "family:$kind+"+types.Typ[k].Name(), "compiler/utils.go:typeKind", fmt.Sprintf("typeKind(%s) emits $kind%s; declared in prelude: %v", types.Typ[k].Name(), js, ok1))
			_, ok2 := env.preludeDecls["$"+js]
			r.Check(ok2, "family:$+"+types.Typ[k].Name(), "compiler/utils.go:typeName", fmt.Sprintf("typeName(%s) emits $%s; declared in prelude: %v", types.Typ[k].Name(), js, ok2))
		}
		for _, k := range []types.BasicKind{types.Int64, types.Uint64} {
			n := "$shiftRight" + tbl[k]
			_, ok := env.preludeDecls[n]
			r.Check(ok, "family:"+n, "compiler/expressions.go:translateExpr", fmt.Sprintf("64-bit SHR emits %s; declared in prelude: %v", n, ok))
		}
	}
	for _, k := range typeKindConsts(c) {
		_, ok := env.preludeDecls[k]
		r.Check(ok, "family:typeKind:"+k, "compiler/utils.go:typeKind", fmt.Sprintf("typeKind returns %s; declared in prelude: %v", k, ok))
		if k == "$kindStruct" || k == "$kindArray" || k == "$kindChan" || k == "$kindInterface" || k == "$kindMap" || k == "$kindFunc" || k == "$kindSlice" || k == "$kindPtr" {
			ctor := "$" + strings.ToLower(k[5:]) + "Type"
			_, ok := env.preludeDecls[ctor]
			r.Check(ok, "family:anonType:"+ctor, "compiler/decls.go:anonTypeDecls", fmt.Sprintf("anonymous %s types are declared through %s; declared in prelude: %v", k[5:], ctor, ok))
		}
	}

	// package js (typed) and natives (syntactic)
	checkRef := func(ref ctx.JSRef, site, where string) {
		if !ref.Global || !strings.HasPrefix(ref.Name, "$") {
			return
		}
		_, ok := env.preludeDecls[ref.Name]
		if !ok {
			_, ok = env.compilerDecl[ref.Name]
		}
		r.Check(ok, "goref:"+where+":"+ref.Method+":"+ref.Name, site, fmt.Sprintf("js.Global.%s(%q) in %s; declared in prelude: %v", ref.Method, ref.Name, where, ok))
	}
	if p := c.Pkg("js"); p != nil {
		for _, f := range p.Syntax {
			if c.IsTestFile(f.Pos()) {
				continue
			}
			for _, ref := range ctx.JSRefs(f) {
				checkRef(ref, c.Pos(ref.Pos), "js")
			}
		}
	}
	nat := c.Natives()
	for _, e := range nat.Errs {
		r.Undecided("natives-parse", nativesRootRel, e)
	}
	nfiles := 0
	seen := map[string]bool{}
	for _, f := range nat.Files {
		if f.Test {
			continue
		}
		nfiles++
		for _, ref := range ctx.JSRefs(f.AST) {
			k := f.Pkg + ":" + ref.Method + ":" + ref.Name
			if seen[k] {
				continue
			}
			seen[k] = true
			checkRef(ref, nat.Pos(c, ref.Pos), "natives/"+f.Pkg)
		}
	}
	r.Count("natives files parsed", nfiles)
	// prelude variables documented as "set by package runtime"
	for _, name := range []string{"$throwRuntimeError", "$jsObjectPtr", "$jsErrorPtr"} {
		found := ""
		for _, f := range nat.PkgFiles("runtime") {
			for _, ref := range ctx.JSRefs(f.AST) {
				if ref.Global && ref.Method == "Set" && ref.Name == name {
					found = nat.Pos(c, ref.Pos)
				}
			}
		}
		r.Check(found != "", "runtime-sets:"+name, "compiler/natives/src/runtime", fmt.Sprintf("prelude variable %s has no initialiser and must be installed by natives runtime: js.Global.Set at %q", name, found))
	}
}

const nativesRootRel = "compiler/natives/src"

func ternary(b bool, x, y string) string {
	if b {
		return x
	}
	return y
}

func sortedKeys[V any](m map[string]V) []string {
	var ks []string
	for k := range m {
		ks = append(ks, k)
	}
	sort.Strings(ks)
	return ks
}

// ---------------------------------------------------------------------------
// L2: prelude no-undef

var hostGlobals = map[string]string{}

func init() {
	for _, g := range strings.Fields(`Array Boolean Date Error Float32Array Float64Array Function Infinity Int16Array Int32Array Int8Array Map Math NaN Number Object String TextDecoder Uint16Array Uint32Array Uint8Array clearTimeout console parseFloat parseInt setTimeout undefined Symbol Set WeakMap Promise JSON RegExp DataView ArrayBuffer BigInt isNaN isFinite`) {
		hostGlobals[g] = "ECMAScript / host global"
	}
	// environment probes guarded by `typeof x !== "undefined"`
	for _, g := range strings.Fields(`window self global module require`) {
		hostGlobals[g] = "environment probe"
	}
}

func ruleL2(c *ctx.Ctx, r *core.Reporter) {
	r.Begin("LINK.L2", "F-LINK", "every free identifier inside the prelude resolves to a prelude declaration, an enclosing JS scope, a host global of the frozen list, or a name emitted before the prelude", 30)
	if !needPrelude(c, r) {
		return
	}
	decls := c.PreludeDecls()
	emittedBefore := map[string]bool{"$goVersion": true}
	byName := map[string][]ctx.FreeIdent{}
	nfun := 0
	for _, f := range c.PreludeList() {
		f.AST.Walk(func(n *ctx.JSNode) bool {
			if n.IsFunc() {
				nfun++
			}
			return true
		})
		for _, fi := range ctx.FreeIdents(f.AST) {
			byName[fi.Name] = append(byName[fi.Name], fi)
		}
	}
	r.Count("prelude JS functions", nfun)
	r.Count("prelude top-level declarations", len(decls))
	for _, name := range sortedKeys(byName) {
		fi := byName[name][0]
		_, isDecl := decls[name]
		_, isHost := hostGlobals[name]
		ok := isDecl || isHost || emittedBefore[name]
		key := "free:" + name
		if !ok {
			key = "free:" + name + "@" + ctx.JSFuncName(fi.Func)
		}
		r.Check(ok, key, fi.Node.Pos(), ternary(ok, fmt.Sprintf("%s resolves (%d references)", name, len(byName[name])), fmt.Sprintf("identifier %s in %s is not declared anywhere in the prelude and is not a host global: ReferenceError when reached", name, ctx.JSFuncName(fi.Func))))
	}
}

// ---------------------------------------------------------------------------
// L3: arity

type jsParams struct {
	n         int
	rest      bool
	usesArgs  bool
	defaults  map[int]bool
	names     []string
	fn        *ctx.JSNode
	notAFunc  bool
	aliasHost string
}

func preludeParams(c *ctx.Ctx, name string) *jsParams {
	fn := c.PreludeFunc(name)
	if fn == nil {
		return nil
	}
	p := &jsParams{fn: fn, defaults: map[int]bool{}}
	for i, prm := range fn.L("params") {
		switch prm.Type {
		case "RestElement":
			p.rest = true
		case "AssignmentPattern":
			p.defaults[i] = true
			p.names = append(p.names, prm.N("left").IdentName())
			p.n++
		default:
			p.names = append(p.names, prm.IdentName())
			p.n++
		}
	}
	if !fn.Is("ArrowFunctionExpression") {
		fn.Walk(func(n *ctx.JSNode) bool {
			if n != fn && n.IsFunc() && !n.Is("ArrowFunctionExpression") {
				return false
			}
			if n.IdentName() == "arguments" && n.IsRefIdent() {
				p.usesArgs = true
			}
			return true
		})
	}
	return p
}

// guardedBeforeStrictUse: parameter `name` of fn is tested against undefined
// (or has a default) before its first strict use (operand of relational or
// arithmetic operator, object of a member access, callee).
func strictUseBeforeGuard(fn *ctx.JSNode, name string) *ctx.JSNode {
	var firstStrict *ctx.JSNode
	guardedAt := -1
	fn.N("body").Walk(func(n *ctx.JSNode) bool {
		if n.IsFunc() {
			// nested closures: uses there count too, keep walking
		}
		if n.IdentName() != name || !n.IsRefIdent() {
			return true
		}
		p := n.Parent
		switch p.Type {
		case "BinaryExpression":
			op := p.S("operator")
			other := p.N("left")
			if other == n {
				other = p.N("right")
			}
			if (op == "===" || op == "!==" || op == "==" || op == "!=") && (other.IdentName() == "undefined" || other.Src() == "null") {
				if guardedAt < 0 || n.Start < guardedAt {
					guardedAt = n.Start
				}
				return true
			}
			switch op {
			case "<", ">", "<=", ">=", "+", "-", "*", "/", "%", "<<", ">>", ">>>", "&", "|", "^":
				if firstStrict == nil || n.Start < firstStrict.Start {
					firstStrict = n
				}
			}
		case "MemberExpression":
			if n.PKey == "object" {
				if firstStrict == nil || n.Start < firstStrict.Start {
					firstStrict = n
				}
			}
		case "CallExpression", "NewExpression":
			if n.PKey == "callee" {
				if firstStrict == nil || n.Start < firstStrict.Start {
					firstStrict = n
				}
			}
		case "AssignmentExpression":
			if n.PKey == "left" && (guardedAt < 0 || n.Start < guardedAt) {
				// assigned before use: acts as a guard only if it is inside an undefined test; keep simple: treat as guard
				guardedAt = n.Start
			}
		}
		return true
	})
	if firstStrict != nil && (guardedAt < 0 || firstStrict.Start < guardedAt) {
		return firstStrict
	}
	return nil
}

// callSite in a template: $f( args ) with a lower bound and exactness flag.
type tmplCall struct {
	name  string
	nargs int
	exact bool
	t     *tmpl.Template
}

func singleValuedHole(c *ctx.Ctx, t *tmpl.Template, h tmpl.Hole) bool {
	switch h.Verb {
	case 'e', 'f', 'h', 'l', 'r', 'i', 'd', 't', 'q', 'v':
		if h.Verb == 'v' {
			return false
		}
		return true
	case 's':
		args := t.FmtArgs()
		if h.Index < 0 || h.Index >= len(args) {
			return false
		}
		return singleValuedExpr(c, args[h.Index])
	}
	return false
}

func singleValuedExpr(c *ctx.Ctx, e ast.Expr) bool {
	info := c.Pkg("compiler").TypesInfo
	if tv, ok := info.Types[e]; ok {
		if tv.Value != nil {
			return !strings.Contains(tv.Value.ExactString(), ",")
		}
		if tv.Type != nil && strings.HasSuffix(tv.Type.String(), "compiler.expression") {
			return true
		}
	}
	if call, ok := e.(*ast.CallExpr); ok {
		if sel, ok := call.Fun.(*ast.SelectorExpr); ok {
			switch sel.Sel.Name {
			case "typeName", "instName", "objectName", "varPtrName", "newLocalVariable", "String", "translateExpr", "translateImplicitConversion", "translateImplicitConversionWithCloning", "translateConversion", "methodName", "pkgVar", "FormatInt", "FormatUint", "FormatFloat", "FormatBool", "zeroValue", "Itoa":
				return true
			}
		}
		if id, ok := call.Fun.(*ast.Ident); ok {
			switch id.Name {
			case "typeKind", "encodeString", "toJavaScriptType", "fieldName", "encodeIdent":
				return true
			}
		}
	}
	return false
}

func templateCalls(c *ctx.Ctx, t *tmpl.Template) []tmplCall {
	var out []tmplCall
	toks := t.Tokens
	for i, tk := range toks {
		if tk.Kind != tmpl.TIdent || !strings.HasPrefix(tk.Text, "$") {
			continue
		}
		if identRole(toks, i) != roleRef {
			continue
		}
		n := nextTok(toks, i)
		if !isPunct(n, "(") {
			continue
		}
		// find the ( index
		j := i + 1
		for j < len(toks) && !isPunct(&toks[j], "(") {
			j++
		}
		depth, nargs, exact, any, closed := 0, 0, true, false, false
		for k := j; k < len(toks); k++ {
			u := toks[k]
			if u.Kind == tmpl.TPunct {
				switch u.Text {
				case "(", "[", "{":
					depth++
					if depth > 1 {
						any = true
					}
					continue
				case ")", "]", "}":
					depth--
					if depth == 0 {
						closed = true
					}
				case ",":
					if depth == 1 {
						nargs++
						continue
					}
				case "...":
					if depth == 1 {
						exact = false
					}
				}
				if closed {
					break
				}
				if depth >= 1 {
					any = true
				}
				continue
			}
			if u.Kind == tmpl.TComment {
				continue
			}
			any = true
			if depth == 1 {
				for _, hi := range u.Holes {
					if !singleValuedHole(c, t, t.Holes[hi]) {
						exact = false
					}
				}
			}
		}
		if !closed {
			continue
		}
		if any {
			nargs++
		}
		out = append(out, tmplCall{tk.Text, nargs, exact, t})
	}
	return out
}

func ruleL3(c *ctx.Ctx, r *core.Reporter) {
	r.Begin("LINK.L3", "F-LINK", "calls of prelude functions (from templates and inside the prelude) pass at most as many arguments as the function declares; a parameter omitted by some call is guarded (undefined test or default) before its first strict use", 150)
	if !needPrelude(c, r) {
		return
	}
	type site struct {
		n     int
		exact bool
		where string
		what  string
	}
	calls := map[string][]site{}
	for _, t := range usableTemplates(c) {
		for _, tc := range templateCalls(c, t) {
			calls[tc.name] = append(calls[tc.name], site{tc.nargs, tc.exact, c.Pos(t.Pos), "template in " + t.Func})
		}
	}
	decls := c.PreludeDecls()
	for _, f := range c.PreludeList() {
		f.AST.Walk(func(n *ctx.JSNode) bool {
			if n.Is("CallExpression") {
				name := n.N("callee").IdentName()
				if _, ok := decls[name]; ok && strings.HasPrefix(name, "$") {
					exact := true
					for _, a := range n.L("arguments") {
						if a.Is("SpreadElement") {
							exact = false
						}
					}
					calls[name] = append(calls[name], site{len(n.L("arguments")), exact, n.Pos(), "prelude " + ctx.JSFuncName(n.EnclosingFunc())})
				}
			}
			return true
		})
	}
	// natives and js: js.Global.Call("$f", args...)
	addGo := func(ref ctx.JSRef, where, pos string) {
		if ref.Global && ref.Method == "Call" && strings.HasPrefix(ref.Name, "$") {
			exact := !ref.Call.Ellipsis.IsValid()
			calls[ref.Name] = append(calls[ref.Name], site{ref.NArgs, exact, pos, where})
		}
	}
	nat := c.Natives()
	for _, f := range nat.Files {
		if !f.Test {
			for _, ref := range ctx.JSRefs(f.AST) {
				addGo(ref, "natives/"+f.Pkg, nat.Pos(c, ref.Pos))
			}
		}
	}
	if p := c.Pkg("js"); p != nil {
		for _, f := range p.Syntax {
			if !c.IsTestFile(f.Pos()) {
				for _, ref := range ctx.JSRefs(f) {
					addGo(ref, "package js", c.Pos(ref.Pos))
				}
			}
		}
	}
	ncalls := 0
	for _, name := range sortedKeys(calls) {
		p := preludeParams(c, name)
		if p == nil {
			// not a function literal in the prelude (alias of a host function, or a compiler-declared name)
			continue
		}
		for _, s := range calls[name] {
			ncalls++
			if p.rest || p.usesArgs {
				r.OK(fmt.Sprintf("arity:%s/%d@%s", name, s.n, s.what), s.where, "callee takes rest/arguments")
				continue
			}
			key := fmt.Sprintf("arity:%s/%d@%s", name, s.n, s.what)
			if s.n > p.n {
				// JavaScript ignores surplus arguments: drift, but not a behaviour change
				r.Info(key, s.where, fmt.Sprintf("%s is called with %s%d arguments but declares %d parameters (%s): surplus arguments are ignored by JavaScript", name, ternary(s.exact, "", "at least "), s.n, p.n, strings.Join(p.names, ", ")))
				continue
			}
			if s.exact && s.n < p.n {
				bad := ""
				for i := s.n; i < p.n; i++ {
					if p.defaults[i] {
						continue
					}
					if u := strictUseBeforeGuard(p.fn, p.names[i]); u != nil {
						bad = fmt.Sprintf("parameter %q is omitted by this call and used at %s (%s) without a preceding undefined guard", p.names[i], u.Pos(), strings.TrimSpace(u.Parent.Src()))
						key = fmt.Sprintf("optional:%s.%s/%d@%s", name, p.names[i], s.n, s.what)
						break
					}
				}
				if bad != "" {
					r.Violation(key, s.where, bad)
					continue
				}
			}
			r.OK(key, s.where, fmt.Sprintf("%d args for %d params", s.n, p.n))
		}
	}
	r.Count("call sites of prelude functions checked for arity", ncalls)
}

// ---------------------------------------------------------------------------
// L4: properties

var builtinMembers = map[string]bool{}

func init() {
	for _, m := range strings.Fields(`length size keys get set has delete next value prototype constructor apply call bind concat charCodeAt buffer byteOffset byteLength getUint32 getUint8 getUint16 getInt8 getInt16 getInt32 getFloat32 getFloat64 push pop shift unshift slice splice join indexOf forEach map subarray log error substring replace split sort stack name BYTES_PER_ELEMENT toString fromCharCode floor ceil min max abs random imul fround exit stderr write process require Function Array Map Node format stackTraceLimit isExtensible create defineProperty freeze from now getTime lastIndexOf decode then done`) {
		builtinMembers[m] = true
	}
}

func ruleL4(c *ctx.Ctx, r *core.Reporter) {
	r.Begin("LINK.L4", "F-LINK", "every static member name a template reads (.$prop and non-built-in .prop) is written somewhere: in the prelude, in another template, by a natives .Set(\"prop\"), or is a field of js.Object", 45)
	if !needPrelude(c, r) {
		return
	}
	env := buildEnv(c)
	type use struct {
		site, fn string
		n        int
	}
	reads := map[string]*use{}
	for _, t := range usableTemplates(c) {
		for i, tk := range t.Tokens {
			if tk.Kind != tmpl.TIdent || identRole(t.Tokens, i) != roleProp {
				continue
			}
			if p := prevTok(t.Tokens, i); p != nil {
				if pp := prevTokIdx(t.Tokens, i, 2); pp != nil && pp.Kind == tmpl.TNum {
					continue
				}
			}
			if n := nextTok(t.Tokens, i); isPunct(n, "=") {
				continue // a write
			}
			u := reads[tk.Text]
			if u == nil {
				u = &use{c.Pos(t.Pos), t.Func, 0}
				reads[tk.Text] = u
			}
			u.n++
		}
	}
	for _, name := range sortedKeys(reads) {
		u := reads[name]
		w, written := env.propWrites[name]
		ok := written || builtinMembers[name]
		why := "built-in member"
		if written {
			why = "written at " + w
		}
		r.Check(ok, "prop:"+name, u.site, ternary(ok, fmt.Sprintf(".%s read by %d template(s): %s", name, u.n, why), fmt.Sprintf("template in %s reads .%s but nothing in the prelude, the templates or the natives ever writes a member of that name", u.fn, name)))
	}
}

func prevTokIdx(toks []tmpl.Token, i, back int) *tmpl.Token {
	j := i
	for k := 0; k < back; k++ {
		j--
		for j >= 0 && toks[j].Kind == tmpl.TComment {
			j--
		}
		if j < 0 {
			return nil
		}
	}
	return &toks[j]
}

// ---------------------------------------------------------------------------
// L8 / L9: unshadowable names

// reservedKeywordSet extracts the keys of reservedKeywords from compiler.init.
func reservedKeywordSet(c *ctx.Ctx) (map[string]bool, string) {
	p := c.Pkg("compiler")
	info := p.TypesInfo
	out := map[string]bool{}
	found := false
	for _, fd := range c.AllFuncDecls("compiler") {
		if fd.Name.Name != "init" || fd.Recv != nil || fd.Body == nil {
			continue
		}
		// find `reservedKeywords[x] = true` in a range over a slice literal of constants
		writes := false
		ast.Inspect(fd.Body, func(n ast.Node) bool {
			if as, ok := n.(*ast.AssignStmt); ok && len(as.Lhs) == 1 {
				if ix, ok := as.Lhs[0].(*ast.IndexExpr); ok {
					if id, ok := ix.X.(*ast.Ident); ok && id.Name == "reservedKeywords" {
						writes = true
					}
				}
			}
			return true
		})
		if !writes {
			continue
		}
		found = true
		ast.Inspect(fd.Body, func(n ast.Node) bool {
			if cl, ok := n.(*ast.CompositeLit); ok {
				for _, e := range cl.Elts {
					if tv, ok := info.Types[e]; ok && tv.Value != nil && tv.Value.Kind() == constant.String {
						out[constant.StringVal(tv.Value)] = true
					}
				}
			}
			return true
		})
	}
	if !found {
		return nil, "no init function writing reservedKeywords found"
	}
	return out, ""
}

func looksLikeJS(t *tmpl.Template) bool {
	if t.Role == tmpl.RoleSink {
		return true
	}
	if len(t.Tokens) < 2 {
		return false
	}
	for _, tk := range t.Tokens {
		if tk.Kind == tmpl.TPunct {
			switch tk.Text {
			case ";", "(", ")", "{", "}", "=", ".":
				return true
			}
		}
	}
	return false
}

func ruleL8(c *ctx.Ctx, r *core.Reporter) {
	r.Begin("LINK.L8", "F-LINK", "every JavaScript host global the templates depend on is a key of reservedKeywords, so that no Go identifier of the same spelling can capture it", 3)
	kw, why := reservedKeywordSet(c)
	if kw == nil {
		r.Undecided("reservedKeywords", "compiler/compiler.go", why)
		return
	}
	r.Count("reservedKeywords entries", len(kw))
	type use struct {
		site, fn string
		n        int
	}
	globals := map[string]*use{}
	for _, t := range usableTemplates(c) {
		if !looksLikeJS(t) {
			continue
		}
		declared := declaredInTemplate(t.Tokens)
		for i, tk := range t.Tokens {
			if tk.Kind != tmpl.TIdent || strings.HasPrefix(tk.Text, "$") {
				continue
			}
			if jsKeywords[tk.Text] || jsLiterals[tk.Text] || declared[tk.Text] {
				continue
			}
			if identRole(t.Tokens, i) != roleRef {
				continue
			}
			// `s` is the flattening label: `s: while`, `continue s`, `break s`
			if tk.Text == "s" {
				continue
			}
			u := globals[tk.Text]
			if u == nil {
				u = &use{c.Pos(t.Pos), t.Func, 0}
				globals[tk.Text] = u
			}
			u.n++
		}
	}
	// names bound by another template of the same function (err in catch(err) {... $err = err;)
	env := buildEnv(c)
	for _, g := range sortedKeys(globals) {
		u := globals[g]
		if _, ok := env.compilerDecl[g]; ok {
			continue
		}
		if _, isHost := hostGlobals[g]; !isHost {
			r.Info("free-word:"+g, u.site, fmt.Sprintf("template in %s contains the word %q which is neither declared by a template nor in the frozen host-global list (not judged)", u.fn, g))
			continue
		}
		r.Check(kw[g], "host-global:"+g, u.site, ternary(kw[g], g+" is reserved", fmt.Sprintf("generated code relies on host global %q (%d template uses, first in %s) but %q is not in reservedKeywords: a Go variable/function named %s compiles to a JS variable of the same name and captures it", g, u.n, u.fn, g, g)))
	}
}

func ruleL9(c *ctx.Ctx, r *core.Reporter) {
	r.Begin("LINK.L9", "F-LINK", "member names read through the JS object protocol on arbitrary Go values (constructor, __proto__) are mangled for struct fields and methods, i.e. are keys of reservedKeywords, and fieldName/methodName consult reservedKeywords", 4)
	kw, why := reservedKeywordSet(c)
	if kw == nil {
		r.Undecided("reservedKeywords", "compiler/compiler.go", why)
		return
	}
	for _, fn := range []string{"fieldName", "sanitizeName"} {
		fd := c.FuncDecl("compiler", fn)
		uses := false
		if fd != nil {
			ast.Inspect(fd.Body, func(n ast.Node) bool {
				if id, ok := n.(*ast.Ident); ok && id.Name == "reservedKeywords" {
					uses = true
				}
				return true
			})
		}
		site := "compiler"
		if fd != nil {
			site = c.Pos(fd.Pos())
		}
		r.Check(uses, "consults:"+fn, site, fn+" consults reservedKeywords")
	}
	// methodName must go through sanitizeName
	if fd := c.FuncDecl("compiler", "funcContext.methodName"); fd != nil {
		calls := false
		ast.Inspect(fd.Body, func(n ast.Node) bool {
			if ce, ok := n.(*ast.CallExpr); ok {
				if id, ok := ce.Fun.(*ast.Ident); ok && id.Name == "sanitizeName" {
					calls = true
				}
			}
			return true
		})
		r.Check(calls, "consults:methodName", c.Pos(fd.Pos()), "methodName mangles through sanitizeName")
	} else {
		r.Undecided("consults:methodName", "compiler/utils.go", "funcContext.methodName not found")
	}
	reasons := map[string]string{
		"constructor": "every dynamic-type test reads value.constructor (`$assertType`, `$interfaceIsEqual`, `%1e.constructor.elem`); a field or method of that name shadows it",
		"__proto__":   "assigning obj.__proto__ replaces the prototype of the struct object and with it all its methods",
	}
	for _, n := range []string{"__proto__", "constructor"} {
		r.Check(kw[n], "protocol-member:"+n, "compiler/compiler.go:init", ternary(kw[n], n+" is mangled", fmt.Sprintf("%q is not in reservedKeywords, so a Go struct field or method named %s becomes the JS property %s: %s", n, n, n, reasons[n])))
	}
}

var _ = token.NoPos
