// Package rules holds the static rules, one file per property / family.
package rules

import (
	"sort"

	"verif/checker/internal/core"
	"verif/checker/internal/ctx"
)

// RuleFunc evaluates one rule: it must call r.Begin first.
type RuleFunc func(c *ctx.Ctx, r *core.Reporter)

// Property describes what is decided for one property.
type Property struct {
	ID          string
	Explanation string   // what the rules decide and what they do not
	Assumptions []string // trusted base / assumptions
	Rules       []RuleFunc
	Thorough    []RuleFunc // extra rules of the thorough tier
}

var registry = map[string]*Property{}

func register(p *Property) { registry[p.ID] = p }

func Get(id string) *Property { return registry[id] }

func IDs() []string {
	var out []string
	for k := range registry {
		out = append(out, k)
	}
	sort.Strings(out)
	return out
}
