package rules

// Catalogue of single-edit mutants (DESIGN §4). Each still compiles and passes
// the repository's 777 tests (which never execute generated JavaScript); the
// thorough tier applies each one through an in-memory overlay in its own
// process and expects the named rule to fire.

func init() {
	const expr = "compiler/expressions.go"
	const stmts = "compiler/statements.go"
	const typesjs = "compiler/prelude/types.js"
	const preludejs = "compiler/prelude/prelude.js"
	const gojs = "compiler/prelude/goroutines.js"
	const numjs = "compiler/prelude/numeric.js"
	const utils = "compiler/utils.go"
	addMutants(
		// C01
		Mutant{ID: "rename-subslice", Property: "C01", File: preludejs, Old: "var $subslice = (slice, low, high, max) => {", New: "var $subSlice = (slice, low, high, max) => {", Rule: "LINK.L1", Note: "prelude helper renamed on one side"},
		Mutant{ID: "drop-recover", Property: "C01", File: "compiler/package.go", Old: "\t\te := recover()\n\t\tif e == nil {\n\t\t\treturn\n\t\t}\n\t\tif fe, ok := bailingOut(e); ok {", New: "\t\tvar e any\n\t\tif e == nil {\n\t\t\treturn\n\t\t}\n\t\tif fe, ok := bailingOut(e); ok {", Rule: "C01.contain", Note: "Compile no longer recovers"},
		Mutant{ID: "swap-linknames", Property: "C01", File: "compiler/compiler.go", Old: "\tif _, err := writeF(w, false, \"$callForAllPackages(\\\"$finishSetup\\\");\\n\"); err != nil {\n\t\treturn err\n\t}\n\tif _, err := writeF(w, false, \"$synthesizeMethods();\\n\"); err != nil {\n\t\treturn err\n\t}\n", New: "\tif _, err := writeF(w, false, \"$synthesizeMethods();\\n\"); err != nil {\n\t\treturn err\n\t}\n\tif _, err := writeF(w, false, \"$callForAllPackages(\\\"$finishSetup\\\");\\n\"); err != nil {\n\t\treturn err\n\t}\n", Rule: "C01.assembly", Note: "method synthesis before $finishSetup"},
		Mutant{ID: "drop-methodlist-write", Property: "C01", File: "compiler/compiler.go", Old: "\t\tif _, err := w.Write(d.MethodListCode); err != nil {", New: "\t\tif _, err := w.Write(d.TypeInitCode); err != nil {", Rule: "C01.assembly", Note: "MethodListCode never written, TypeInitCode twice"},
		Mutant{ID: "delete-paren-case", Property: "C01", File: expr, Old: "\tcase *ast.ParenExpr:\n\t\treturn fc.formatParenExpr(\"%e\", e.X)", New: "\tcase *ast.BadExpr:\n\t\treturn nil", Rule: "C01.exh", Note: "ParenExpr arm removed from translateExpr"},
		Mutant{ID: "unreserve-console", Property: "C01", File: "compiler/compiler.go", Old: "\"console\", \"DataView\", \"Number\", \"Uint8Array\", // host globals", New: "\"DataView\", \"Number\", \"Uint8Array\", // host globals", Rule: "LINK.L8", Note: "console no longer reserved"},
		Mutant{ID: "minus-noparen", Property: "C01", File: expr, Old: "return fc.formatParenExpr(\"-%e\", e.X)", New: "return fc.formatExpr(\"-%e\", e.X)", Rule: "C01.adj", Note: "float negation no longer parenthesised"},
		Mutant{ID: "undeclared-prop", Property: "C01", File: expr, Old: "return fc.formatExpr(\"%e.$capacity\", args[0])", New: "return fc.formatExpr(\"%e.$cap\", args[0])", Rule: "LINK.L4", Note: "template reads a member nothing writes"},
		Mutant{ID: "wordsize-8", Property: "C01", File: "compiler/compiler.go", Old: "sizes32          = &types.StdSizes{WordSize: 4, MaxAlign: 8}", New: "sizes32          = &types.StdSizes{WordSize: 8, MaxAlign: 8}", Rule: "C01.sizes", Note: "64-bit word size"},
		Mutant{ID: "unterminated-string", Property: "C01", File: expr, Old: "return fc.formatExpr(`$methodVal(%s, \"%s\")`,", New: "return fc.formatExpr(`$methodVal(%s, \"%s)`,", Rule: "C01.lex", Note: "template with an unterminated string literal"},
		// C06
		Mutant{ID: "add-nofix", Property: "C06", File: expr, Old: "\t\t\tcase token.ADD, token.SUB:\n\t\t\t\treturn fc.fixNumber(fc.formatExpr(\"%e %t %e\", e.X, e.Op, e.Y), basic)", New: "\t\t\tcase token.ADD, token.SUB:\n\t\t\t\treturn fc.formatExpr(\"%e %t %e\", e.X, e.Op, e.Y)", Rule: "C06.apply", Note: "ADD/SUB lose their coercion"},
		Mutant{ID: "int16-width", Property: "C06", File: expr, Old: "return fc.formatParenExpr(\"%s << 16 >> 16\", value)", New: "return fc.formatParenExpr(\"%s << 24 >> 24\", value)", Rule: "C06.coerce", Note: "int16 coerced with the int8 width"},
		Mutant{ID: "rem-flag", Property: "C06", File: expr, Old: "return fc.formatExpr(\"$div64(%e, %e, true)\", e.X, e.Y)", New: "return fc.formatExpr(\"$div64(%e, %e, false)\", e.X, e.Y)", Rule: "C06.dispatch", Note: "64-bit % returns the quotient"},
		Mutant{ID: "imul-uint8", Property: "C06", File: expr, Old: "\t\t\t\tcase types.Int32, types.Int:\n\t\t\t\t\treturn fc.formatParenExpr(\"$imul(%e, %e)\", e.X, e.Y)", New: "\t\t\t\tcase types.Int32, types.Int, types.Int8:\n\t\t\t\t\treturn fc.formatParenExpr(\"$imul(%e, %e)\", e.X, e.Y)", Rule: "C06.apply", Note: "int8 multiplication only wrapped to 32 bits"},
		Mutant{ID: "div0-removed", Property: "C06", File: expr, Old: "(%1s = %2e %% %3e, %1s === %1s ? %1s : $throwRuntimeError(\"integer divide by zero\"))", New: "(%1s = %2e %% %3e, %1s === %1s ? %1s : 0)", Rule: "C06.div0", Note: "remainder by zero yields 0"},
		Mutant{ID: "flatten-radix", Property: "C06", File: numjs, Old: "return x.$high * 4294967296 + x.$low;", New: "return x.$high * 4294967295 + x.$low;", Rule: "C06.const", Note: "wrong radix in $flatten64"},
		Mutant{ID: "xor-uint32", Property: "C06", File: expr, Old: "return fc.fixNumber(fc.formatParenExpr(\"%e ^ %e\", e.X, e.Y), basic)", New: "return fc.formatParenExpr(\"%e ^ %e\", e.X, e.Y)", Rule: "C06.apply", Note: "uint32 xor can go negative"},
		// C09
		Mutant{ID: "assert-string-key", Property: "C09", File: typesjs, Old: "var valueTypeID = value.constructor.id;", New: "var valueTypeID = value.constructor.string;", Rule: "C09.id", Note: "interface-satisfaction cache keyed by display string"},
		Mutant{ID: "struct-key-no-tag", Property: "C09", File: typesjs, Old: "f.name + \",\" + f.embedded + \",\" + f.typ.id + \",\" + f.tag;", New: "f.name + \",\" + f.embedded + \",\" + f.typ.id;", Rule: "C09.canon", Note: "struct canonicalisation ignores tags"},
		Mutant{ID: "match-no-pkg", Property: "C09", File: typesjs, Old: "if (vm.name === tm.name && vm.pkg === tm.pkg && vm.typ === tm.typ) {", New: "if (vm.name === tm.name && vm.typ === tm.typ) {", Rule: "C09.match", Note: "unexported methods of different packages match"},
		Mutant{ID: "record-drop-pkg", Property: "C09", File: "compiler/decls.go", Old: "entry = fmt.Sprintf(`{prop: \"%s\", name: %s, pkg: \"%s\", typ: $funcType(%s)}`,\n\t\tname, encodeString(method.Name()), pkgPath, fc.initArgs(t))", New: "entry = fmt.Sprintf(`{prop: \"%s\", name: %s, typ: $funcType(%s)}`,\n\t\tname, encodeString(method.Name()), fc.initArgs(t))\n\t_ = pkgPath", Rule: "C09.schema", Note: "method records lose the pkg key"},
		Mutant{ID: "methodval-rawname", Property: "C09", File: expr, Old: "return fc.formatExpr(`$methodVal(%s, \"%s\")`, fc.makeReceiver(e), fc.methodName(sel.Obj().(*types.Func)))", New: "return fc.formatExpr(`$methodVal(%s, \"%s\")`, fc.makeReceiver(e), sel.Obj().(*types.Func).Name())", Rule: "C09.mname", Note: "method value looked up by the unmangled name"},
		Mutant{ID: "equal-drop-struct", Property: "C09", File: preludejs, Old: "        case $kindStruct:\n            for (var i = 0; i < type.fields.length; i++) {\n                var f = type.fields[i];\n                if (!$equal(a[f.prop], b[f.prop], f.typ)) {", New: "        case $kindUnsafePointer:\n            for (var i = 0; i < type.fields.length; i++) {\n                var f = type.fields[i];\n                if (!$equal(a[f.prop], b[f.prop], f.typ)) {", Rule: "C09.equal", Note: "$equal loses its struct arm"},
		Mutant{ID: "arraytype-key-no-len", Property: "C09", File: typesjs, Old: "var typeKey = elem.id + \"$\" + len;\n    var typ = $arrayTypes[typeKey];", New: "var typeKey = elem.id + \"$\";\n    var typ = $arrayTypes[typeKey];", Rule: "C09.canon", Note: "[3]int and [4]int share a run-time type"},
		// C15
		Mutant{ID: "ifacekey-string", Property: "C15", File: typesjs, Old: "return c.id + '$' + c.keyFor(x.$val);", New: "return c.string + '$' + c.keyFor(x.$val);", Rule: "C09.id", Note: "interface keys discriminated by display string"},
		Mutant{ID: "array-key-no-sep-escape", Property: "C15", File: typesjs, Old: "return String(elem.keyFor(e)).replace(/\\\\/g, \"\\\\\\\\\").replace(/\\$/g, \"\\\\$\");", New: "return String(elem.keyFor(e)).replace(/\\\\/g, \"\\\\\\\\\");", Rule: "C15.inject", Note: "array keys do not escape the separator"},
		Mutant{ID: "struct-key-escape-order", Property: "C15", File: typesjs, Old: "return String(f.typ.keyFor(val[f.prop])).replace(/\\\\/g, \"\\\\\\\\\").replace(/\\$/g, \"\\\\$\");", New: "return String(f.typ.keyFor(val[f.prop])).replace(/\\$/g, \"\\\\$\").replace(/\\\\/g, \"\\\\\\\\\");", Rule: "C15.inject", Note: "escapes applied in the wrong order"},
		Mutant{ID: "chan-no-keyfor", Property: "C15", File: typesjs, Old: "            typ.wrapped = true;\n            typ.keyFor = $idKey;\n            typ.init = (elem, sendOnly, recvOnly) => {", New: "            typ.wrapped = true;\n            typ.init = (elem, sendOnly, recvOnly) => {", Rule: "C15.keyfor", Note: "channels cannot be map keys"},
		Mutant{ID: "map-comparable", Property: "C15", File: typesjs, Old: "                typ.key = key;\n                typ.elem = elem;\n                typ.comparable = false;", New: "                typ.key = key;\n                typ.elem = elem;", Rule: "C15.keyfor", Note: "maps treated as comparable"},
		Mutant{ID: "delete-elem-keyfor", Property: "C15", File: expr, Old: "\t\tkeyType := fc.typeOf(args[0]).Underlying().(*types.Map).Key()", New: "\t\tkeyType := fc.typeOf(args[0]).Underlying().(*types.Map).Elem()", Rule: "C15.ops", Note: "delete hashes the key with the element type"},
		// C03
		Mutant{ID: "recv-no-schedule", Property: "C03", File: gojs, Old: "    var queueEntry = v => {\n        f.value = v;\n        $schedule(thisGoroutine);\n    };", New: "    var queueEntry = v => {\n        f.value = v;\n    };", Rule: "C03.pair", Note: "a blocked receiver is never woken"},
		Mutant{ID: "recv-pop", Property: "C03", File: gojs, Old: "var bufferedValue = chan.$buffer.shift();", New: "var bufferedValue = chan.$buffer.pop();", Rule: "C03.fifo", Note: "buffered channel becomes LIFO"},
		Mutant{ID: "select-no-register", Property: "C03", File: gojs, Old: "                    entries.push([comm[0].$recvQueue, queueEntry]);\n", New: "", Rule: "C03.pair", Note: "select receive case not deregistered"},
		Mutant{ID: "recv-no-block", Property: "C03", File: gojs, Old: "    chan.$recvQueue.push(queueEntry);\n    $block();\n    return f;", New: "    chan.$recvQueue.push(queueEntry);\n    return f;", Rule: "C03.pair", Note: "$recv does not put the goroutine to sleep"},
		Mutant{ID: "close-one-queue", Property: "C03", File: gojs, Old: "        var queuedRecv = chan.$recvQueue.shift();\n        if (queuedRecv === undefined) {\n            break;\n        }\n        queuedRecv([chan.$elem.zero(), false]);", New: "        var queuedRecv = undefined;\n        if (queuedRecv === undefined) {\n            break;\n        }\n        queuedRecv([chan.$elem.zero(), false]);", Rule: "C03.close", Note: "close does not wake blocked receivers"},
		Mutant{ID: "select-send-encoding", Property: "C03", File: stmts, Old: "channels = append(channels, fc.formatExpr(\"[%e, %s]\", comm.Chan,", New: "channels = append(channels, fc.formatExpr(\"[%e, %s, 0]\", comm.Chan,", Rule: "C03.translate", Note: "send case encoded with three elements"},
		Mutant{ID: "close-nil-ok", Property: "C03", File: gojs, Old: "    if (chan === $chanNil) {\n        $throwRuntimeError(\"close of nil channel\");\n    }\n", New: "", Rule: "C03.close", Note: "close(nil) accepted"},
	)
	_ = utils
}
