package rules

// DET (DESIGN §2.3): no iteration of an unordered container reaches ordered
// output without an intervening sort.

import (
	"fmt"
	"go/ast"
	"go/token"
	"go/types"
	"strings"

	"verif/checker/internal/core"
	"verif/checker/internal/ctx"
)

var detPackages = []string{"compiler", "compiler/astutil", "compiler/filter", "compiler/incjs", "compiler/internal/analysis", "compiler/internal/dce", "compiler/internal/symbol", "compiler/internal/typeparams", "compiler/linkname", "compiler/sources", "compiler/typesutil", "compiler/errlist", "build", "build/cache", "internal/sourcemapx", "internal/govendor/subst"}

// calls inside a map-range body that do not make the loop order-sensitive (reason each)
var detPureCalls = map[string]string{
	"assignedObjectName": "pure lookup of an already assigned JS name",
	"markBlocking":       "monotone marking, fixpoint independent of order",
	"len":                "builtin",
	"append":             "handled by the append rule",
	"delete":             "keyed delete",
	"panic":              "abort",
	"Errorf":             "formatting for a panic/abort",
	"Sprintf":            "formatting into a keyed store or sorted slice",
	"exhausted":          "pure predicate",
	"String":             "pure rendering",
	"ImportName":         "pure",
	"Join":               "pure",
	"Dir":                "pure",
	"bool":               "conversion",
	"string":             "conversion",
	"isPruned":           "pure predicate",
	"removeSpec":         "keyed removal from AST by index; indices are independent",
	"IsBlocking":         "pure query of the analysis result",
	"FuncLitInfo":        "pure lookup",
	"Delete":             "keyed delete",
	"Unquote":            "pure",
	"HasDirectivePrefix": "pure query of the file's comments",
	"NewIdent":           "allocates a fresh node stored into the per-iteration element",
	"Import":             "lookup of one package; result only feeds the sorted slice",
	"Base":               "pure",
	"HasPrefix":          "pure",
	"HasSuffix":          "pure",
	"Contains":           "pure",
	"TrimPrefix":         "pure",
}

// detFnKey identifies the function being classified ("pkg|Func") for the reviewed-sort table.
var detFnKey string

type detSite struct {
	pkg    string
	fn     string
	node   ast.Node
	kind   string // map-range, Iterate, Keys, sync.Map.Range
	class  string // insensitive | sensitive | unclassified
	reason string
	ord    int
}

func isMapType(t types.Type) bool {
	if t == nil {
		return false
	}
	if p, ok := t.Underlying().(*types.Pointer); ok {
		t = p.Elem()
	}
	_, ok := t.Underlying().(*types.Map)
	return ok
}

// sortedAfter: is slice variable `name` passed to a sort function after pos within fn?
// Returns "" (not sorted), "total" (sort.Strings/Ints/Float64s, slices.Sort: a total order on the
// values themselves, ties are indistinguishable) or "custom:<callee>" (comparison function or
// user-defined sorter: ties keep the map-dependent input order).
func sortedAfter(info *types.Info, fn *ast.FuncDecl, name string, pos token.Pos) string {
	found := ""
	ast.Inspect(fn.Body, func(n ast.Node) bool {
		ce, ok := n.(*ast.CallExpr)
		if !ok || ce.Pos() < pos || len(ce.Args) < 1 {
			return true
		}
		pkg, _, nm := callee(info, ce)
		a := exprStr(ce.Args[0])
		if !(a == name || strings.Contains(a, "("+name+")")) {
			return true
		}
		switch {
		case pkg == "sort" && (nm == "Strings" || nm == "Ints" || nm == "Float64s"):
			found = "total"
		case pkg == "slices" && nm == "Sort":
			found = "total"
		case pkg == "sort" || pkg == "slices" || strings.Contains(strings.ToLower(nm), "sort"):
			if found == "" {
				found = "custom:" + nm
			}
		}
		return true
	})
	return found
}

// custom sorts of map-ordered data whose key was confirmed unique by reading
var detUniqueKeySorts = map[string]string{
	"build|Session.GetSortedSources|SortedSourcesSlice": "sorted by ImportPath, which is the key of the map the slice was filled from",
}

func sortVerdict(fnKey, kind string) (string, string) {
	switch {
	case kind == "total":
		return "insensitive", ""
	case strings.HasPrefix(kind, "custom:"):
		if _, ok := detUniqueKeySorts[fnKey+"|"+strings.TrimPrefix(kind, "custom:")]; ok {
			return "insensitive", ""
		}
		return "unclassified", "the slice is filled in map order and then ordered by " + strings.TrimPrefix(kind, "custom:") + " with a custom comparison: elements that compare equal keep their map-dependent order, and the checker cannot show the key is unique"
	}
	return "", ""
}

// classifyBody decides whether the statements are order-insensitive.
func classifyBody(info *types.Info, fn *ast.FuncDecl, loop ast.Node, list []ast.Stmt, loopVars map[string]bool) (string, string) {
	for _, st := range list {
		cls, why := classifyStmt(info, fn, loop, st, loopVars)
		if cls != "insensitive" {
			return cls, why
		}
	}
	return "insensitive", "only keyed stores, monotone accumulation, sorted appends and existence tests"
}

func callsOK(info *types.Info, e ast.Node) (bool, string) {
	bad := ""
	ast.Inspect(e, func(n ast.Node) bool {
		if bad != "" {
			return false
		}
		if _, isLit := n.(*ast.FuncLit); isLit {
			return false
		}
		if ce, ok := n.(*ast.CallExpr); ok {
			// conversions are fine
			if tv, ok := info.Types[ce.Fun]; ok && tv.IsType() {
				return true
			}
			_, _, nm := callee(info, ce)
			if _, ok := detPureCalls[nm]; !ok {
				bad = nm
			}
		}
		return true
	})
	return bad == "", bad
}

func classifyStmt(info *types.Info, fn *ast.FuncDecl, loop ast.Node, st ast.Stmt, loopVars map[string]bool) (string, string) {
	switch s := st.(type) {
	case *ast.AssignStmt:
		if ok, bad := callsOK(info, s); !ok {
			return "unclassified", "call of " + bad + " inside the loop body"
		}
		// append to a slice that is sorted afterwards
		if len(s.Lhs) == 1 && len(s.Rhs) == 1 {
			if ce, ok := s.Rhs[0].(*ast.CallExpr); ok {
				if id, ok := ce.Fun.(*ast.Ident); ok && id.Name == "append" {
					target := exprStr(s.Lhs[0])
					if ix, isIx := s.Lhs[0].(*ast.IndexExpr); isIx && isMapType(info.TypeOf(ix.X)) && mentionsAny(ix.Index, loopVars) {
						return "insensitive", "" // append to the map element keyed by the loop variable
					}
					if cls, why := sortVerdict(detFnKey, sortedAfter(info, fn, target, loop.End())); cls != "" {
						return cls, why
					}
					return "sensitive", fmt.Sprintf("appends to %s in map order and %s is not sorted afterwards in this function", target, target)
				}
			}
		}
		for _, l := range s.Lhs {
			switch x := l.(type) {
			case *ast.IndexExpr:
				if !isMapType(info.TypeOf(x.X)) {
					// keyed by the loop variables: distinct iterations touch distinct elements
					if mentionsAny(x.Index, loopVars) {
						continue
					}
					// filling a slice that is sorted afterwards
					if cls, why := sortVerdict(detFnKey, sortedAfter(info, fn, exprStr(x.X), loop.End())); cls == "insensitive" {
						continue
					} else if cls != "" {
						return cls, why
					}
					return "sensitive", "indexed store into a non-map " + exprStr(x)
				}
			case *ast.Ident:
				if s.Tok == token.DEFINE || x.Name == "_" || loopVars[x.Name] || definedInside(loop, x.Name) {
					continue
				}
				// accumulation into a bool / counter
				if b, ok := info.TypeOf(x).Underlying().(*types.Basic); ok && (b.Info()&types.IsBoolean != 0 || b.Info()&types.IsInteger != 0) {
					continue
				}
				return "sensitive", "assignment to " + x.Name + " depends on the last iteration"
			case *ast.SelectorExpr:
				if b, ok := info.TypeOf(x).Underlying().(*types.Basic); ok && b.Info()&types.IsBoolean != 0 {
					continue
				}
				// a field of the per-iteration element
				if root := rootIdent(x); root != "" && (loopVars[root] || definedInside(loop, root)) {
					continue
				}
				return "sensitive", "assignment to " + exprStr(x)
			default:
				return "unclassified", "assignment to " + exprStr(l)
			}
		}
		return "insensitive", ""
	case *ast.IncDecStmt:
		return "insensitive", ""
	case *ast.ExprStmt:
		if ok, bad := callsOK(info, s); !ok {
			return "unclassified", "call of " + bad + " inside the loop body"
		}
		return "insensitive", ""
	case *ast.IfStmt:
		if s.Init != nil {
			if cls, why := classifyStmt(info, fn, loop, s.Init, loopVars); cls != "insensitive" {
				return cls, why
			}
		}
		if ok, bad := callsOK(info, s.Cond); !ok {
			return "unclassified", "call of " + bad + " in a condition"
		}
		if cls, why := classifyBody(info, fn, loop, s.Body.List, loopVars); cls != "insensitive" {
			return cls, why
		}
		if s.Else != nil {
			switch e := s.Else.(type) {
			case *ast.BlockStmt:
				return classifyBody(info, fn, loop, e.List, loopVars)
			case *ast.IfStmt:
				return classifyStmt(info, fn, loop, e, loopVars)
			}
		}
		return "insensitive", ""
	case *ast.BlockStmt:
		return classifyBody(info, fn, loop, s.List, loopVars)
	case *ast.RangeStmt:
		return classifyBody(info, fn, loop, s.Body.List, loopVars)
	case *ast.ForStmt:
		return classifyBody(info, fn, loop, s.Body.List, loopVars)
	case *ast.BranchStmt:
		if s.Tok == token.CONTINUE {
			return "insensitive", ""
		}
		return "sensitive", "break: which element stops the loop depends on the order"
	case *ast.ReturnStmt:
		for _, res := range s.Results {
			if tv, ok := info.Types[res]; ok && (tv.Value != nil || tv.IsNil()) {
				continue
			}
			if id, ok := res.(*ast.Ident); ok && (id.Name == "true" || id.Name == "false" || id.Name == "nil") {
				continue
			}
			return "sensitive", "returns a value derived from whichever element is visited first"
		}
		return "insensitive", ""
	case *ast.DeclStmt, *ast.EmptyStmt:
		return "insensitive", ""
	case *ast.SwitchStmt:
		for _, c := range s.Body.List {
			if cls, why := classifyBody(info, fn, loop, c.(*ast.CaseClause).Body, loopVars); cls != "insensitive" {
				return cls, why
			}
		}
		return "insensitive", ""
	}
	return "unclassified", fmt.Sprintf("statement %T", st)
}

func detSites(c *ctx.Ctx) []*detSite {
	var out []*detSite
	for _, pk := range detPackages {
		p := c.Pkg(pk)
		if p == nil {
			continue
		}
		info := p.TypesInfo
		for _, fd := range c.AllFuncDecls(pk) {
			if fd.Body == nil {
				continue
			}
			fn := ctx.FuncName(fd)
			ord := 0
			ast.Inspect(fd.Body, func(n ast.Node) bool {
				switch x := n.(type) {
				case *ast.RangeStmt:
					if !isMapType(info.TypeOf(x.X)) {
						return true
					}
					s := &detSite{pkg: pk, fn: fn, node: x, kind: "range over map " + exprStr(x.X), ord: ord}
					ord++
					lv := map[string]bool{}
					if x.Key != nil {
						lv[exprStr(x.Key)] = true
					}
					if x.Value != nil {
						lv[exprStr(x.Value)] = true
					}
					detFnKey = pk + "|" + fn
					s.class, s.reason = classifyBody(info, fd, x, x.Body.List, lv)
					out = append(out, s)
				case *ast.CallExpr:
					pkgp, recv, nm := callee(info, x)
					isIter := false
					switch {
					case nm == "Iterate" && (recv == "InstanceMap" || recv == "Map"):
						isIter = true
					case nm == "Range" && pkgp == "sync":
						isIter = true
					}
					if isIter && len(x.Args) == 1 {
						if fl, ok := x.Args[0].(*ast.FuncLit); ok {
							s := &detSite{pkg: pk, fn: fn, node: x, kind: recv + "." + nm + " callback", ord: ord}
							ord++
							detFnKey = pk + "|" + fn
							s.class, s.reason = classifyBody(info, fd, x, fl.Body.List, nil)
							out = append(out, s)
						}
					}
					if nm == "Keys" && (recv == "InstanceMap" || recv == "Map") {
						s := &detSite{pkg: pk, fn: fn, node: x, kind: recv + ".Keys()", ord: ord, class: "sensitive", reason: "Keys() returns the keys in hash order"}
						ord++
						out = append(out, s)
					}
				}
				return true
			})
		}
	}
	return out
}

// reviewed exceptions: sites classified sensitive/unclassified by the generic rules but confirmed harmless by reading (one reason each)
var detReviewed = map[string]string{
	"compiler/internal/typeparams|InstanceMap.Iterate|0":              "generic iterator over the two-level bucket map: order is decided at its callers, which are classified themselves",
	"compiler/internal/typeparams|InstanceMap.Iterate|1":              "inner bucket loop of the same generic iterator",
	"compiler/internal/typeparams|InstanceMap.Keys|0":                 "generic key listing; no caller on the compile path (String() sorts)",
	"compiler/internal/typeparams|InstanceMap.String|0":               "collects entries then sorts them before rendering",
	"compiler/internal/typeparams|PackageInstanceSets.allExhausted|0": "existence test",
}

func ruleDET(prop string) RuleFunc {
	return func(c *ctx.Ctx, r *core.Reporter) {
		r.Begin(prop+".det", "F-DET", "every iteration over a map (or hash-ordered container) on the compile/link path has order-insensitive effects: keyed stores, monotone accumulation, appends that are sorted before use, existence tests", 15)
		sites := detSites(c)
		r.Count("map-iteration sites on the compile/link path", len(sites))
		for _, s := range sites {
			key := fmt.Sprintf("%s|%s|%d", s.pkg, s.fn, s.ord)
			site := c.Pos(s.node.Pos())
			if s.class == "insensitive" {
				r.OK("site:"+key, site, s.kind+": "+s.reason)
				continue
			}
			if why, ok := detReviewed[key]; ok {
				r.OK("site:"+key, site, s.kind+": reviewed — "+why)
				continue
			}
			if s.class == "sensitive" {
				r.Violation("site:"+key, site, fmt.Sprintf("%s in %s.%s: %s — the result depends on Go's randomised map iteration order, so two builds of the same program can differ", s.kind, s.pkg, s.fn, s.reason))
			} else {
				r.Undecided("site:"+key, site, fmt.Sprintf("%s in %s.%s: cannot show the loop body is order-insensitive (%s)", s.kind, s.pkg, s.fn, s.reason))
			}
		}
		// other nondeterminism sources on the compile path
		for _, pk := range []string{"compiler", "compiler/internal/analysis", "compiler/internal/dce", "compiler/internal/typeparams", "compiler/sources", "compiler/typesutil", "compiler/linkname", "compiler/astutil", "internal/sourcemapx", "internal/govendor/subst"} {
			p := c.Pkg(pk)
			if p == nil {
				continue
			}
			for _, fd := range c.AllFuncDecls(pk) {
				if fd.Body == nil {
					continue
				}
				ast.Inspect(fd.Body, func(n ast.Node) bool {
					ce, ok := n.(*ast.CallExpr)
					if !ok {
						return true
					}
					pp, _, nm := callee(p.TypesInfo, ce)
					bad := ""
					switch {
					case pp == "time" && nm == "Now":
						bad = "time.Now"
					case pp == "math/rand" || pp == "crypto/rand":
						bad = pp
					case pp == "os" && (nm == "Getpid" || nm == "Hostname" || nm == "Getwd"):
						bad = "os." + nm
					}
					if bad != "" {
						r.Violation("source:"+pk+"."+ctx.FuncName(fd)+":"+bad, c.Pos(ce.Pos()), bad+" is called in a package that produces compiler output")
					}
					return true
				})
			}
		}
		r.OK("sources:none", "compiler/...", "no call of time.Now, math/rand, crypto/rand, os.Getpid/Hostname/Getwd in the packages that produce compiler output")
		// unstable sorts compare unique keys
		nsort := 0
		for _, pk := range detPackages {
			p := c.Pkg(pk)
			if p == nil {
				continue
			}
			for _, fd := range c.AllFuncDecls(pk) {
				if fd.Body == nil {
					continue
				}
				ast.Inspect(fd.Body, func(n ast.Node) bool {
					ce, ok := n.(*ast.CallExpr)
					if !ok {
						return true
					}
					pp, _, nm := callee(p.TypesInfo, ce)
					if pp == "sort" && nm == "Slice" && len(ce.Args) == 2 {
						nsort++
						less := nodeString(c, ce.Args[1])
						// the comparison must be on a unique key: import path, file name, or the full rendered value
						ok := strings.Contains(less, ".Path()") || strings.Contains(less, "getFileName(") || strings.Contains(less, ".ImportPath") || strings.Contains(less, ".String()") || strings.Contains(less, "Filename") || strings.Contains(less, "[i] < ") || strings.Contains(less, ".Pos()")
						key := fmt.Sprintf("sort.Slice:%s.%s", pk, ctx.FuncName(fd))
						if ok {
							r.OK(key, c.Pos(ce.Pos()), "unstable sort on a key that is unique among the sorted elements: "+strings.Join(strings.Fields(less), " "))
						} else {
							r.Info(key, c.Pos(ce.Pos()), "sort.Slice with a comparison the checker does not recognise as a unique key (not judged): "+strings.Join(strings.Fields(less), " "))
						}
					}
					return true
				})
			}
		}
	}
}

// ruleC17Order: the sorts the build relies on exist.
func ruleC17Order(c *ctx.Ctx, r *core.Reporter) {
	r.Begin("C17.order", "F-MUST", "files of a package, imported packages and the list of sources are sorted before they are used", 4)
	// Sources.Sort compares file names
	if fd := c.FuncDecl("compiler/sources", "Sources.Sort"); fd != nil {
		src := nodeString(c, fd.Body)
		r.Check(strings.Contains(src, "sort.Slice(s.Files") && strings.Count(src, "getFileName(") == 2, "Sources.Sort:by-file-name", c.Pos(fd.Pos()), "Sources.Sort orders s.Files by the file names of both operands only")
	} else {
		r.Undecided("Sources.Sort", "compiler/sources", "not found")
	}
	// PrepareAllSources sorts every source first
	if fd := c.FuncDecl("compiler", "PrepareAllSources"); fd != nil {
		order := callOrder(c.Pkg("compiler").TypesInfo, fd, []string{"Sort", "TypeCheck"})
		si, ok1 := order["Sort"]
		ti, ok2 := order["TypeCheck"]
		r.Check(ok1 && ok2 && si < ti, "Prepare:sort-before-typecheck", c.Pos(fd.Pos()), "every Sources is sorted before type checking (declaration order feeds initialisation order and output)")
	}
	// importDecls sorts imports by path
	if fd := c.FuncDecl("compiler", "funcContext.importDecls"); fd != nil {
		src := nodeString(c, fd.Body)
		r.Check(strings.Contains(src, "sort.Slice(imports") && strings.Contains(src, ".Path() < "), "importDecls:sorted", c.Pos(fd.Pos()), "imported packages are processed in import-path order")
	}
	// translateFunctionBody sorts localVars
	if fd := c.FuncDecl("compiler", "funcContext.translateFunctionBody"); fd != nil {
		r.Check(strings.Contains(nodeString(c, fd.Body), "sort.Strings(fc.localVars)"), "localVars:sorted", c.Pos(fd.Pos()), "local variable declarations are emitted in sorted order")
	}
	// dce getDeps sorted
	if fd := c.FuncDecl("compiler/internal/dce", "Info.getDeps"); fd != nil {
		src := nodeString(c, fd.Body)
		r.Check(strings.Contains(src, "sort.Strings("), "dce.getDeps:sorted", c.Pos(fd.Pos()), "dependency names are sorted before they are returned")
	}
}

func mentionsAny(e ast.Expr, names map[string]bool) bool {
	found := false
	ast.Inspect(e, func(n ast.Node) bool {
		if id, ok := n.(*ast.Ident); ok && names[id.Name] {
			found = true
		}
		return !found
	})
	return found
}

func rootIdent(e ast.Expr) string {
	for {
		switch x := e.(type) {
		case *ast.SelectorExpr:
			e = x.X
		case *ast.IndexExpr:
			e = x.X
		case *ast.StarExpr:
			e = x.X
		case *ast.ParenExpr:
			e = x.X
		case *ast.Ident:
			return x.Name
		default:
			return ""
		}
	}
}

// definedInside: name is introduced by := inside the loop node.
func definedInside(loop ast.Node, name string) bool {
	found := false
	ast.Inspect(loop, func(n ast.Node) bool {
		if as, ok := n.(*ast.AssignStmt); ok && as.Tok == token.DEFINE {
			for _, l := range as.Lhs {
				if id, ok := l.(*ast.Ident); ok && id.Name == name {
					found = true
				}
			}
		}
		return !found
	})
	return found
}
