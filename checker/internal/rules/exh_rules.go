package rules

import (
	"fmt"
	"go/ast"
	"go/token"
	"go/types"
	"sort"
	"strings"

	"verif/checker/internal/core"
	"verif/checker/internal/ctx"
)

// totalSpec describes one totality-claiming dispatch and the labels it must have.
type totalSpec struct {
	id       string // stable obligation id
	pkg      string
	fn       string
	domain   string
	path     string // required substring of the joined case path ("" = top level of fn)
	exact    bool   // path must match exactly
	ordinal  int
	required func(c *ctx.Ctx) ([]string, map[string]string) // required labels, exemptions (label -> reason)
	why      string
}

func req(labels ...string) func(*ctx.Ctx) ([]string, map[string]string) {
	return func(*ctx.Ctx) ([]string, map[string]string) { return labels, nil }
}

func astDomain(iface string, exempt map[string]string) func(*ctx.Ctx) ([]string, map[string]string) {
	return func(c *ctx.Ctx) ([]string, map[string]string) { return astImplementers(c, iface), exempt }
}

var typeExprNodes = map[string]string{
	"ArrayType": "type expression, only in type position", "ChanType": "type expression", "FuncType": "type expression",
	"InterfaceType": "type expression", "MapType": "type expression", "StructType": "type expression",
}

func exprExemptions() map[string]string {
	m := map[string]string{
		"BadExpr":      "rejected by the parser/type checker",
		"Ellipsis":     "only inside call arguments / array length, never translated as an expression",
		"KeyValueExpr": "only under CompositeLit, handled there",
		"BasicLit":     "always constant: handled by the constant fast path at the top of translateExpr",
	}
	for k, v := range typeExprNodes {
		m[k] = v
	}
	return m
}

// opAssignTokens computes X_ASSIGN tokens from go/token.
func opAssignTokens() []string {
	var out []string
	for t := token.ADD_ASSIGN; t <= token.AND_NOT_ASSIGN; t++ {
		out = append(out, t.String())
	}
	return out
}

var totalSpecs = []totalSpec{
	{id: "translateStmt", pkg: "compiler", fn: "funcContext.translateStmt", domain: "ast.Stmt", exact: true,
		required: astDomain("Stmt", map[string]string{
			"BadStmt": "rejected by the parser", "CaseClause": "handled inside switch/type-switch arms", "CommClause": "handled inside the select arm",
			"IncDecStmt": "rewritten to an op-assignment by filter.IncDecStmt before the switch (checked by C01.exh.rewrite)",
		}), why: "every Go statement form has a translation"},
	{id: "translateExpr", pkg: "compiler", fn: "funcContext.translateExpr", domain: "ast.Expr", exact: true, ordinal: 1,
		required: astDomain("Expr", exprExemptions()), why: "every Go expression form has a translation"},
	{id: "translateExpr/CompositeLit", pkg: "compiler", fn: "funcContext.translateExpr", domain: "types.Type.Underlying", path: "type:*ast.CompositeLit",
		required: req("Array", "Slice", "Map", "Struct"), why: "Go spec: composite literals construct structs, arrays, slices and maps (pointer element shorthand is rewritten before the switch)"},
	{id: "translateExpr/AddressOf", pkg: "compiler", fn: "funcContext.translateExpr", domain: "ast.Expr", path: "_.Op:token.AND",
		required: req("CompositeLit", "Ident", "SelectorExpr", "IndexExpr", "StarExpr"), why: "Go spec: addressable operands are variables, pointer indirections, slice/array index operations, field selectors, and composite literals (parentheses are stripped)"},
	{id: "translateExpr/UnaryOp", pkg: "compiler", fn: "funcContext.translateExpr", domain: "token.Token", path: "type:*ast.UnaryExpr", exact: true, ordinal: 1,
		required: req("+", "-", "^", "!"), why: "Go spec unary operators on basic operands (& and <- are handled by the preceding switch, * is ast.StarExpr)"},
	{id: "translateExpr/UnaryOp0", pkg: "compiler", fn: "funcContext.translateExpr", domain: "token.Token", path: "type:*ast.UnaryExpr", exact: true, ordinal: 0,
		required: req("&", "<-"), why: "address-of and receive are translated before the arithmetic operators"},
	{id: "translateExpr/BinaryOp64", pkg: "compiler", fn: "funcContext.translateExpr", domain: "token.Token", path: "type:*ast.BinaryExpr", exact: true, ordinal: 0,
		required: req("*", "/", "%", "<<", ">>", "==", "<", "<=", ">", ">=", "+", "-", "&", "|", "^", "&^"), why: "Go spec: every arithmetic, bitwise, shift and comparison operator applies to 64-bit integers (!= is rewritten to !(==) before)"},
	{id: "translateExpr/BinaryOpComplex", pkg: "compiler", fn: "funcContext.translateExpr", domain: "token.Token", path: "type:*ast.BinaryExpr", exact: true, ordinal: 1,
		required: req("==", "+", "-", "*", "/"), why: "Go spec: complex operands support + - * / and =="},
	{id: "translateExpr/BinaryOpNumeric", pkg: "compiler", fn: "funcContext.translateExpr", domain: "token.Token", path: "type:*ast.BinaryExpr", exact: true, ordinal: 2,
		required: req("==", "<", "<=", ">", ">=", "+", "-", "*", "/", "%", "<<", ">>", "&", "|", "&^", "^"), why: "Go spec: operators of the remaining integer and float types"},
	{id: "translateExpr/BinaryOpOther", pkg: "compiler", fn: "funcContext.translateExpr", domain: "token.Token", path: "type:*ast.BinaryExpr", exact: true, ordinal: 3,
		required: req("+", "<", "<=", ">", ">=", "&&", "||", "=="), why: "Go spec: strings (+, ordering), booleans (&&, ||), and == on every comparable type"},
	{id: "translateExpr/IndexExpr", pkg: "compiler", fn: "funcContext.translateExpr", domain: "types.Type.Underlying", path: "type:*ast.IndexExpr", exact: true,
		required: req("Pointer", "Array", "Slice", "Map", "Basic", "Signature"), why: "Go spec: index expressions apply to arrays, pointers to arrays, slices, strings and maps; a generic function is instantiated with the same syntax"},
	{id: "translateExpr/IndexListExpr", pkg: "compiler", fn: "funcContext.translateExpr", domain: "types.Type.Underlying", path: "type:*ast.IndexListExpr", exact: true,
		required: req("Signature"), why: "multi-argument instantiation applies to generic functions only (types are in type position)"},
	{id: "translateExpr/SelectorKind", pkg: "compiler", fn: "funcContext.translateExpr", domain: "types.SelectionKind", path: "type:*ast.SelectorExpr", exact: true,
		required: req("types.FieldVal", "types.MethodVal", "types.MethodExpr"), why: "go/types selection kinds"},
	{id: "translateExpr/CallSelectorKind", pkg: "compiler", fn: "funcContext.translateExpr", domain: "types.SelectionKind", path: "type:*ast.CallExpr/type:*ast.SelectorExpr", exact: true,
		required: req("types.FieldVal", "types.MethodVal", "types.MethodExpr"), why: "go/types selection kinds"},
	{id: "translateExpr/IdentObject", pkg: "compiler", fn: "funcContext.translateExpr", domain: "types.Object", path: "type:*ast.Ident", exact: true,
		required: req("Var", "Const", "Func", "TypeName", "Nil"), why: "objects an identifier expression can denote (builtins are calls, package names and labels are not expressions)"},
	{id: "translateExpr/NilIdent", pkg: "compiler", fn: "funcContext.translateExpr", domain: "types.Type.Underlying", path: "type:*types.Nil",
		required: req("Basic", "Slice", "Pointer", "Chan", "Map", "Interface", "Signature"), why: "Go spec: nil is the zero value of pointers, functions, slices, maps, channels, interfaces and unsafe.Pointer"},
	{id: "translateBuiltin/make", pkg: "compiler", fn: "funcContext.translateBuiltin", domain: "types.Type.Underlying", path: `_:"make"`,
		required: req("Slice", "Map", "Chan"), why: "Go spec: make applies to slices, maps and channels"},
	{id: "translateBuiltin/len", pkg: "compiler", fn: "funcContext.translateBuiltin", domain: "types.Type.Underlying", path: `_:"len"`,
		required: req("Basic", "Array", "Slice", "Pointer", "Map", "Chan"), why: "Go spec: len applies to strings, arrays, pointers to arrays, slices, maps and channels; len of an array is NOT constant when the operand contains a function call or receive"},
	{id: "translateBuiltin/cap", pkg: "compiler", fn: "funcContext.translateBuiltin", domain: "types.Type.Underlying", path: `_:"cap"`,
		required: req("Array", "Slice", "Chan", "Pointer"), why: "Go spec: cap applies to arrays, pointers to arrays, slices and channels; cap of an array is NOT constant when the operand contains a function call or receive"},
	{id: "translateConversion/toString", pkg: "compiler", fn: "funcContext.translateConversion", domain: "types.Type.Underlying", path: "isString(t)",
		required: req("Basic", "Slice"), why: "Go spec: conversions to string from integers, strings, []byte and []rune"},
	{id: "fixNumber", pkg: "compiler", fn: "funcContext.fixNumber", domain: "types.BasicKind", exact: true,
		required: req("Int8", "Uint8", "Int16", "Uint16", "Int32", "Int", "Uint32", "Uint", "Uintptr", "Float32", "Float64"), why: "every non-64-bit numeric kind has a coercion"},
	{id: "initArgs", pkg: "compiler", fn: "funcContext.initArgs", domain: "types.Type", exact: true,
		required: req("Array", "Chan", "Interface", "Map", "Pointer", "Slice", "Signature", "Struct", "TypeParam"), why: "every unnamed composite type kind has constructor arguments; an unsubstituted type parameter must fail-stop (C04.failstop)"},
	{id: "translateStmt/Range", pkg: "compiler", fn: "funcContext.translateStmt", domain: "types.Type.Underlying", path: "type:*ast.RangeStmt", exact: true,
		required: req("Basic", "Map", "Array", "Pointer", "Slice", "Chan"), why: "Go 1.20 spec: range over strings, maps, arrays, pointers to arrays, slices and channels"},
	{id: "translateStmt/Branch", pkg: "compiler", fn: "funcContext.translateStmt", domain: "token.Token", path: "type:*ast.BranchStmt", exact: true,
		required: req("break", "continue", "goto", "fallthrough"), why: "Go spec branch statements"},
	{id: "translateStmt/SelectComm", pkg: "compiler", fn: "funcContext.translateStmt", domain: "ast.Stmt", path: "type:*ast.SelectStmt", exact: true,
		required: req("nil", "ExprStmt", "AssignStmt", "SendStmt"), why: "Go spec: CommClause is default, a receive expression, a receive assignment or a send"},
	{id: "translateAssign/lhs", pkg: "compiler", fn: "funcContext.translateAssign", domain: "ast.Expr", exact: true,
		required: req("Ident", "SelectorExpr", "StarExpr", "IndexExpr"), why: "Go spec: assignable operands are variables, field selectors, pointer indirections and index expressions (parentheses stripped)"},
	{id: "translateAssign/index", pkg: "compiler", fn: "funcContext.translateAssign", domain: "types.Type.Underlying", path: "type:*ast.IndexExpr",
		required: req("Array", "Pointer", "Slice"), why: "index assignment to arrays, pointers to arrays and slices (maps are handled before the switch; strings are immutable)"},
	{id: "zeroValue", pkg: "compiler", fn: "funcContext.zeroValue", domain: "types.Type.Underlying", exact: true,
		required: req(typeKindsUnderlying...), why: "every type has a zero value"},
	{id: "typeKind", pkg: "compiler", fn: "typeKind", domain: "types.Type.Underlying", exact: true,
		required: req(typeKindsUnderlying...), why: "every type has a run-time kind"},
	{id: "filter.Assign", pkg: "compiler/filter", fn: "Assign", domain: "token.Token", exact: true,
		required: func(*ctx.Ctx) ([]string, map[string]string) { return opAssignTokens(), nil }, why: "every op-assignment token of go/token is desugared"},
	{id: "analysis.visitCallExpr/IndexExpr", pkg: "compiler/internal/analysis", fn: "FuncInfo.visitCallExpr", domain: "ast.Expr", path: "type:*ast.IndexExpr", exact: true,
		required: req("Ident", "SelectorExpr"), why: "explicitly instantiated generic callee forms"},
	{id: "analysis.visitCallExpr/IndexListExpr", pkg: "compiler/internal/analysis", fn: "FuncInfo.visitCallExpr", domain: "ast.Expr", path: "type:*ast.IndexListExpr", exact: true,
		required: req("Ident", "SelectorExpr"), why: "explicitly instantiated generic callee forms"},
	{id: "typeparams.NewResolver", pkg: "compiler/internal/typeparams", fn: "NewResolver", domain: "types.Type", exact: true,
		required: req("Signature", "Named"), why: "instances are functions/methods or named types"},
	{id: "subst.typ", pkg: "internal/govendor/subst", fn: "subster.typ", domain: "types.Type", exact: true,
		required: req(append([]string{"Union"}, typeKindsAll...)...), why: "type substitution must descend into every type kind of Go 1.20 (Union occurs in constraints)"},
}

func findSwitch(all []*switchInfo, s totalSpec) *switchInfo {
	for _, sw := range all {
		if sw.fn != s.fn || sw.domain != s.domain || sw.ordinal != s.ordinal {
			continue
		}
		jp := strings.Join(sw.casePath, "/")
		if s.exact {
			if jp != s.path {
				continue
			}
		} else if !strings.Contains(jp, s.path) {
			continue
		}
		return sw
	}
	return nil
}

var switchCache = map[string][]*switchInfo{}

func switchesOf(c *ctx.Ctx, pkg string) []*switchInfo {
	if s, ok := switchCache[pkg]; ok {
		return s
	}
	s := discoverSwitches(c, pkg)
	switchCache[pkg] = s
	return s
}

// ruleTotal evaluates the totality table restricted to ids with one of the prefixes.
func ruleTotal(ruleID string, min int, prefixes ...string) RuleFunc {
	return func(c *ctx.Ctx, r *core.Reporter) {
		r.Begin(ruleID, "F-EXH", "a dispatch whose default arm panics covers the domain computed from go/ast, go/token and the Go 1.20 type kinds, minus exemptions listed with a reason", min)
		matched := map[*switchInfo]bool{}
		for _, s := range totalSpecs {
			ok := false
			for _, p := range prefixes {
				if strings.HasPrefix(s.id, p) {
					ok = true
				}
			}
			if !ok {
				continue
			}
			sw := findSwitch(switchesOf(c, s.pkg), s)
			if sw == nil {
				r.Undecided("total:"+s.id, s.pkg, fmt.Sprintf("dispatch %s (%s over %s under %q) not found: the anchor moved; re-confirm the totality table", s.id, s.fn, s.domain, s.path))
				continue
			}
			matched[sw] = true
			required, exempt := s.required(c)
			missing := diff(required, sw.labels)
			var bad, ex []string
			for _, m := range missing {
				if why, ok := exempt[m]; ok {
					ex = append(ex, m)
					_ = why
				} else {
					bad = append(bad, m)
				}
			}
			site := c.Pos(sw.node.Pos())
			if !sw.hasDef || !sw.defPanic {
				// a non-panicking default silently accepts unknown forms
				if len(bad) > 0 {
					r.Violation("total:"+s.id, site, fmt.Sprintf("%s: no arm for %s (%s)", s.id, strings.Join(bad, ", "), s.why))
					continue
				}
			}
			if len(bad) > 0 {
				r.Violation("total:"+s.id, site, fmt.Sprintf("switch on %s in %s has no arm for %s and its default arm panics: a valid program using that form crashes the compiler. Required because: %s", sw.subject, sw.fn, strings.Join(bad, ", "), s.why))
				continue
			}
			r.OK("total:"+s.id, site, fmt.Sprintf("%d required labels present (%s); exempt by table: %s", len(required)-len(missing), s.why, strings.Join(ex, ", ")))
		}
		// totality claims not in the table: information only
		for _, pk := range []string{"compiler", "compiler/internal/analysis", "compiler/internal/typeparams", "compiler/filter", "internal/govendor/subst"} {
			for _, sw := range switchesOf(c, pk) {
				if sw.defPanic && !matched[sw] {
					inScope := false
					for _, p := range prefixes {
						if strings.HasPrefix(sw.fn, "funcContext."+p) || strings.HasPrefix(sw.fn, p) {
							inScope = true
						}
					}
					if inScope {
						r.Info("unlisted-total:"+sw.key(), c.Pos(sw.node.Pos()), "switch with a panicking default that is not in the reviewed totality table (not judged)")
					}
				}
			}
		}
	}
}

// ---------------------------------------------------------------------------
// builtins

var go120Builtins = []string{"append", "cap", "close", "complex", "copy", "delete", "imag", "len", "make", "new", "panic", "print", "println", "real", "recover"}
var unsafeSupported = []string{"Sizeof", "Alignof", "Offsetof"}
var unsafeOther = []string{"Add", "Slice", "SliceData", "String", "StringData"}

func ruleBuiltins(c *ctx.Ctx, r *core.Reporter) {
	r.Begin("EXH.builtins", "F-EXH", "translateBuiltin has an arm for every predeclared function of Go 1.20 and for the unsafe functions with constant results", 18)
	var sw *switchInfo
	for _, s := range switchesOf(c, "compiler") {
		if s.fn == "funcContext.translateBuiltin" && s.domain == "string" && len(s.casePath) == 0 {
			sw = s
		}
	}
	if sw == nil {
		r.Undecided("builtins", "compiler/expressions.go", "name switch of translateBuiltin not found")
		return
	}
	have := map[string]bool{}
	for _, l := range sw.labels {
		have[l] = true
	}
	site := c.Pos(sw.node.Pos())
	for _, b := range go120Builtins {
		r.Check(have[b], "builtin:"+b, site, fmt.Sprintf("builtin %s handled: %v", b, have[b]))
	}
	for _, b := range unsafeSupported {
		r.Check(have[b], "builtin:unsafe."+b, site, fmt.Sprintf("unsafe.%s handled: %v", b, have[b]))
	}
	for _, b := range unsafeOther {
		if !have[b] {
			r.Info("builtin:unsafe."+b, site, "unsafe."+b+" has no arm (default panics); package unsafe pointer arithmetic is outside the supported subset (doc/compatibility)")
		}
	}
	// the universe must not contain a builtin function the table does not know (language version drift)
	known := map[string]bool{"min": true, "max": true, "clear": true}
	for _, b := range go120Builtins {
		known[b] = true
	}
	var unknown []string
	for _, n := range types.Universe.Names() {
		if _, ok := types.Universe.Lookup(n).(*types.Builtin); ok && !known[n] {
			unknown = append(unknown, n)
		}
	}
	sort.Strings(unknown)
	r.Check(len(unknown) == 0, "builtin-universe", site, "builtins of the analysing toolchain unknown to the frozen Go 1.20 table: "+strings.Join(unknown, ","))
}

// ruleRewrites: the rewrites the totality exemptions rely on happen before the switch.
func ruleRewrites(c *ctx.Ctx, r *core.Reporter) {
	r.Begin("EXH.rewrite", "F-MUST", "the desugarings the totality exemptions rely on: IncDecStmt and op-assignments are rewritten before translateStmt's switch, != before the operator switches, INC/DEC map to ADD/SUB and X_ASSIGN to X", 15)
	info := c.Pkg("compiler").TypesInfo
	fd := c.FuncDecl("compiler", "funcContext.translateStmt")
	if fd == nil {
		r.Undecided("translateStmt", "compiler/statements.go", "function not found")
		return
	}
	// calls to filter.IncDecStmt and filter.Assign precede the type switch over stmt
	var swPos token.Pos
	ast.Inspect(fd.Body, func(n ast.Node) bool {
		if ts, ok := n.(*ast.TypeSwitchStmt); ok && swPos == token.NoPos {
			swPos = ts.Pos()
		}
		return true
	})
	for _, name := range []string{"IncDecStmt", "Assign"} {
		found := token.NoPos
		ast.Inspect(fd.Body, func(n ast.Node) bool {
			if as, ok := n.(*ast.AssignStmt); ok && len(as.Rhs) == 1 {
				if ce, ok := as.Rhs[0].(*ast.CallExpr); ok {
					if sel, ok := ce.Fun.(*ast.SelectorExpr); ok && sel.Sel.Name == name {
						if o := info.Uses[sel.Sel]; o != nil && o.Pkg() != nil && strings.HasSuffix(o.Pkg().Path(), "compiler/filter") {
							if id, ok := as.Lhs[0].(*ast.Ident); ok && id.Name == "stmt" && found == token.NoPos {
								found = as.Pos()
							}
						}
					}
				}
			}
			return true
		})
		ok := found != token.NoPos && found < swPos
		r.Check(ok, "rewrite:filter."+name, c.Pos(fd.Pos()), fmt.Sprintf("stmt = filter.%s(stmt, ...) precedes the statement switch: %v", name, ok))
	}
	// NEQ rewrite: in translateExpr's BinaryExpr arm, `if e.Op == token.NEQ` returns before the operator switches
	fe := c.FuncDecl("compiler", "funcContext.translateExpr")
	neq := false
	if fe != nil {
		ast.Inspect(fe.Body, func(n ast.Node) bool {
			if is, ok := n.(*ast.IfStmt); ok {
				if be, ok := is.Cond.(*ast.BinaryExpr); ok && be.Op == token.EQL && types.ExprString(be.Y) == "token.NEQ" {
					// body returns a !(...) of an EQL BinaryExpr
					src := nodeString(c, is.Body)
					if strings.Contains(src, "token.EQL") && strings.Contains(src, "return") && strings.Contains(src, "!(") {
						neq = true
					}
				}
			}
			return true
		})
	}
	r.Check(neq, "rewrite:NEQ", "compiler/expressions.go:translateExpr", "x != y is translated as !(x == y) before the operator switches")

	// filter.IncDecStmt: INC -> ADD_ASSIGN, DEC -> SUB_ASSIGN
	fi := c.FuncDecl("compiler/filter", "IncDecStmt")
	if fi == nil {
		r.Undecided("incdec", "compiler/filter", "IncDecStmt not found")
	} else {
		m, why := incDecMapping(fi)
		if m == nil {
			r.Undecided("incdec", c.Pos(fi.Pos()), "cannot recognise how IncDecStmt chooses the assignment token: "+why)
		} else {
			r.Check(m["INC"] == "token.ADD_ASSIGN", "incdec:INC", c.Pos(fi.Pos()), "x++ becomes x += 1: INC maps to "+m["INC"])
			r.Check(m["DEC"] == "token.SUB_ASSIGN", "incdec:DEC", c.Pos(fi.Pos()), "x-- becomes x -= 1: DEC maps to "+m["DEC"])
		}
	}
	// filter.Assign pairing X_ASSIGN -> X
	fa := c.FuncDecl("compiler/filter", "Assign")
	if fa == nil {
		r.Undecided("assign-pairs", "compiler/filter", "Assign not found")
		return
	}
	pairs := map[string]string{}
	ast.Inspect(fa.Body, func(n ast.Node) bool {
		if cc, ok := n.(*ast.CaseClause); ok && len(cc.List) == 1 {
			lab := types.ExprString(cc.List[0])
			for _, st := range cc.Body {
				if as, ok := st.(*ast.AssignStmt); ok && len(as.Rhs) == 1 {
					pairs[lab] = types.ExprString(as.Rhs[0])
				}
			}
		}
		return true
	})
	for t := token.ADD_ASSIGN; t <= token.AND_NOT_ASSIGN; t++ {
		want := t - (token.ADD_ASSIGN - token.ADD)
		lab := "token." + tokenConstName(t)
		got := pairs[lab]
		r.Check(got == "token."+tokenConstName(want), "assign-pair:"+t.String(), c.Pos(fa.Pos()), fmt.Sprintf("%s desugars with operator %s (want token.%s)", t, got, tokenConstName(want)))
	}
}

func tokenConstName(t token.Token) string {
	names := map[token.Token]string{
		token.ADD: "ADD", token.SUB: "SUB", token.MUL: "MUL", token.QUO: "QUO", token.REM: "REM", token.AND: "AND", token.OR: "OR", token.XOR: "XOR", token.SHL: "SHL", token.SHR: "SHR", token.AND_NOT: "AND_NOT",
		token.ADD_ASSIGN: "ADD_ASSIGN", token.SUB_ASSIGN: "SUB_ASSIGN", token.MUL_ASSIGN: "MUL_ASSIGN", token.QUO_ASSIGN: "QUO_ASSIGN", token.REM_ASSIGN: "REM_ASSIGN", token.AND_ASSIGN: "AND_ASSIGN", token.OR_ASSIGN: "OR_ASSIGN", token.XOR_ASSIGN: "XOR_ASSIGN", token.SHL_ASSIGN: "SHL_ASSIGN", token.SHR_ASSIGN: "SHR_ASSIGN", token.AND_NOT_ASSIGN: "AND_NOT_ASSIGN",
	}
	return names[t]
}

// incDecMapping recognises `tok := A; if s.Tok == token.X { tok = B }` (or the
// switch form) and returns the token chosen for INC and DEC.
func incDecMapping(fd *ast.FuncDecl) (map[string]string, string) {
	// the variable used as Tok: in the returned AssignStmt literal
	var tokVar string
	ast.Inspect(fd.Body, func(n ast.Node) bool {
		if kv, ok := n.(*ast.KeyValueExpr); ok {
			if id, ok := kv.Key.(*ast.Ident); ok && id.Name == "Tok" {
				if v, ok := kv.Value.(*ast.Ident); ok {
					tokVar = v.Name
				}
			}
		}
		return true
	})
	if tokVar == "" {
		return nil, "no `Tok: <var>` in a composite literal"
	}
	def := ""
	cond := map[string]string{}
	var walk func(n ast.Node, guard string)
	walk = func(n ast.Node, guard string) {
		ast.Inspect(n, func(x ast.Node) bool {
			switch y := x.(type) {
			case *ast.IfStmt:
				g := ""
				if be, ok := y.Cond.(*ast.BinaryExpr); ok && be.Op == token.EQL {
					l, rr := types.ExprString(be.X), types.ExprString(be.Y)
					if strings.HasSuffix(l, ".Tok") && strings.HasPrefix(rr, "token.") {
						g = strings.TrimPrefix(rr, "token.")
					}
				}
				if g != "" && guard == "" {
					walk(y.Body, g)
					if y.Else != nil {
						walk(y.Else, "")
					}
					return false
				}
			case *ast.CaseClause:
				if len(y.List) == 1 && guard == "" {
					lab := types.ExprString(y.List[0])
					if strings.HasPrefix(lab, "token.") {
						for _, st := range y.Body {
							walk(st, strings.TrimPrefix(lab, "token."))
						}
						return false
					}
				}
			case *ast.AssignStmt:
				if len(y.Lhs) == 1 && len(y.Rhs) == 1 {
					if id, ok := y.Lhs[0].(*ast.Ident); ok && id.Name == tokVar {
						v := types.ExprString(y.Rhs[0])
						if guard == "" {
							def = v
						} else {
							cond[guard] = v
						}
					}
				}
			}
			return true
		})
	}
	walk(fd.Body, "")
	out := map[string]string{}
	for _, k := range []string{"INC", "DEC"} {
		if v, ok := cond[k]; ok {
			out[k] = v
		} else if def != "" {
			out[k] = def
		} else {
			return nil, "no value for " + k
		}
	}
	return out, ""
}
