package rules

import (
	"fmt"
	"go/ast"
	"go/parser"
	"go/token"
	"path/filepath"
	"regexp"
	"runtime"
	"strings"

	"verif/checker/internal/core"
	"verif/checker/internal/ctx"
)

// C13.bits: the math/bits overlay replaces Mul32, Add32 and Div32 by 32-bit versions "adapted from" the
// 64-bit functions of the standard library (to avoid emulated 64-bit arithmetic). The rule compares each
// of them with its 64-bit sibling in GOROOT under the width substitution 64→32, 63→31, 32→16 (applied to
// integer literals and to the digits inside identifiers: uint64→uint32, mask32→mask16,
// LeadingZeros64→LeadingZeros32): every statement of the overlay function must be a statement of the
// sibling, in the same order (the sibling may have additional fast paths; constant declarations may sit
// anywhere). It decides agreement of the algorithms, not the arithmetic itself.

var widthRe = regexp.MustCompile(`64|63|32`)

func halveWidths(s string) string {
	return widthRe.ReplaceAllStringFunc(s, func(m string) string {
		switch m {
		case "64":
			return "32"
		case "63":
			return "31"
		}
		return "16"
	})
}

func stmtTexts(fset *token.FileSet, body *ast.BlockStmt, halve bool) (stmts []string, consts map[string]bool) {
	consts = map[string]bool{}
	for _, st := range body.List {
		// strip comments by printing the bare node
		t := squash(printNode(fset, st))
		if halve {
			t = halveWidths(t)
		}
		if ds, ok := st.(*ast.DeclStmt); ok {
			if gd, ok := ds.Decl.(*ast.GenDecl); ok && gd.Tok == token.CONST {
				for _, sp := range gd.Specs {
					ct := squash(printNode(fset, sp))
					if halve {
						ct = halveWidths(ct)
					}
					consts[ct] = true
				}
				continue
			}
		}
		stmts = append(stmts, t)
	}
	return
}

func ruleC13Bits(c *ctx.Ctx, r *core.Reporter) {
	r.Begin("C13.bits", "F-SIB", "the 32-bit replacements in the math/bits overlay (Mul32, Add32, Div32) are the standard library's 64-bit algorithms under the width substitution 64→32, 63→31, 32→16: every statement of the overlay function is a statement of the GOROOT sibling, in order", 3)
	nat := c.Natives()
	var overlay *ast.File
	for _, f := range nat.PkgFiles("math/bits") {
		if strings.HasSuffix(f.Rel, "/bits.go") && !f.Test {
			overlay = f.AST
		}
	}
	if overlay == nil {
		r.Undecided("overlay", nativesRootRel+"/math/bits", "overlay file bits.go not found")
		return
	}
	goroot := runtime.GOROOT()
	gfset := token.NewFileSet()
	up, err := parser.ParseFile(gfset, filepath.Join(goroot, "src", "math", "bits", "bits.go"), nil, 0)
	if err != nil {
		r.Undecided("goroot", "GOROOT/src/math/bits/bits.go", "cannot parse the standard library's math/bits: "+err.Error())
		return
	}
	find := func(f *ast.File, name string) *ast.FuncDecl {
		for _, d := range f.Decls {
			if fd, ok := d.(*ast.FuncDecl); ok && fd.Recv == nil && fd.Name.Name == name && fd.Body != nil {
				return fd
			}
		}
		return nil
	}
	for _, pair := range [][2]string{{"Mul32", "Mul64"}, {"Add32", "Add64"}, {"Div32", "Div64"}} {
		ov, sib := find(overlay, pair[0]), find(up, pair[1])
		if ov == nil {
			continue // not replaced by the overlay: the standard library's own version is compiled
		}
		if sib == nil {
			r.Undecided("sibling:"+pair[0], nat.Pos(c, ov.Pos()), "GOROOT has no "+pair[1])
			continue
		}
		os, oc := stmtTexts(nat.Fset, ov.Body, false)
		ss, sc := stmtTexts(gfset, sib.Body, true)
		// signature
		sigO := squash(printNode(nat.Fset, ov.Type))
		sigS := halveWidths(squash(printNode(gfset, sib.Type)))
		r.Check(sigO == sigS, "sibling:"+pair[0]+":signature", nat.Pos(c, ov.Pos()), fmt.Sprintf("%s has the signature of %s at half the width (%s vs %s)", pair[0], pair[1], sigO, sigS))
		j := 0
		var missing []string
		for _, st := range os {
			k := j
			for k < len(ss) && ss[k] != st {
				k++
			}
			if k == len(ss) {
				missing = append(missing, st)
				continue
			}
			j = k + 1
		}
		for ct := range oc {
			if !sc[ct] {
				missing = append(missing, "const "+ct)
			}
		}
		r.Check(len(missing) == 0, "sibling:"+pair[0]+":statements", nat.Pos(c, ov.Pos()), fmt.Sprintf("every statement of %s (%d) is a statement of GOROOT's %s under the width substitution, in order; not found: %v", pair[0], len(os), pair[1], missing))
	}
}
