package rules

// Typestate analysis of the nosync replacements (C13, last clause).
//
// The nosync types whose state is a handful of booleans and counters (Mutex,
// RWMutex, WaitGroup, Once) are finite-state machines.  This rule derives, from
// the method bodies, each method's transition function over that finite
// typestate (an abstract interpretation of the small statement language the
// bodies are written in: field tests, constant stores, ++/--, += parameter,
// panic, return, defer, a call of a function-typed parameter that may return or
// panic, a call of another method of the receiver) and checks that the automaton
// reachable from the zero value is bisimilar — outcome by outcome — to the
// specified automaton of the sync type for every uncontended operation, and
// panics (instead of blocking) on every contended one.  Counters are explored
// up to tsBound; the transition functions are uniform beyond it (they only
// compare with 0).  Anything outside the statement language makes the
// obligation undecided, never silently accepted.

import (
	"fmt"
	"go/ast"
	"go/constant"
	"go/token"
	"go/types"
	"sort"
	"strings"

	"verif/checker/internal/core"
	"verif/checker/internal/ctx"
)

const tsBound = 3

type tsVal struct {
	isBool bool
	b      bool
	i      int
}

func (v tsVal) String() string {
	if v.isBool {
		return fmt.Sprint(v.b)
	}
	return fmt.Sprint(v.i)
}

type tsState map[string]tsVal

func (s tsState) clone() tsState {
	o := tsState{}
	for k, v := range s {
		o[k] = v
	}
	return o
}

func (s tsState) key() string {
	var ks []string
	for k := range s {
		ks = append(ks, k)
	}
	sort.Strings(ks)
	var sb strings.Builder
	for _, k := range ks {
		fmt.Fprintf(&sb, "%s=%v ", k, s[k])
	}
	return strings.TrimSpace(sb.String())
}

type tsUnsupported struct{ what string }

type tsCtl int

const (
	tsNext tsCtl = iota
	tsRet
	tsPanic
)

type tsMachine struct {
	c        *ctx.Ctx
	info     *types.Info
	typeName string
	state    tsState
	calls    int
	fPanics  bool
	depth    int
}

type tsFrame struct {
	recv   string
	locals map[string]tsVal
	funcs  map[string]bool // function-typed parameters (user code)
	defers []*ast.FuncLit
}

func (m *tsMachine) unsupported(n ast.Node, what string) {
	panic(tsUnsupported{fmt.Sprintf("%s: %s", m.c.Pos(n.Pos()), what)})
}

func (m *tsMachine) eval(f *tsFrame, e ast.Expr) tsVal {
	if tv, ok := m.info.Types[e]; ok && tv.Value != nil {
		switch tv.Value.Kind() {
		case constant.Bool:
			return tsVal{isBool: true, b: constant.BoolVal(tv.Value)}
		case constant.Int:
			if i, ok := constant.Int64Val(tv.Value); ok {
				return tsVal{i: int(i)}
			}
		}
	}
	switch x := e.(type) {
	case *ast.ParenExpr:
		return m.eval(f, x.X)
	case *ast.Ident:
		if v, ok := f.locals[x.Name]; ok {
			return v
		}
	case *ast.SelectorExpr:
		if id, ok := x.X.(*ast.Ident); ok && id.Name == f.recv {
			if v, ok := m.state[x.Sel.Name]; ok {
				return v
			}
		}
	case *ast.UnaryExpr:
		v := m.eval(f, x.X)
		switch x.Op {
		case token.NOT:
			return tsVal{isBool: true, b: !v.b}
		case token.SUB:
			return tsVal{i: -v.i}
		}
	case *ast.BinaryExpr:
		if x.Op == token.LAND || x.Op == token.LOR {
			l := m.eval(f, x.X)
			if (x.Op == token.LAND && !l.b) || (x.Op == token.LOR && l.b) {
				return l
			}
			return m.eval(f, x.Y)
		}
		l, r := m.eval(f, x.X), m.eval(f, x.Y)
		if l.isBool != r.isBool {
			m.unsupported(e, "mixed operands")
		}
		bv := func(b bool) tsVal { return tsVal{isBool: true, b: b} }
		switch x.Op {
		case token.EQL:
			return bv(l == r)
		case token.NEQ:
			return bv(l != r)
		}
		if !l.isBool {
			switch x.Op {
			case token.LSS:
				return bv(l.i < r.i)
			case token.LEQ:
				return bv(l.i <= r.i)
			case token.GTR:
				return bv(l.i > r.i)
			case token.GEQ:
				return bv(l.i >= r.i)
			case token.ADD:
				return tsVal{i: l.i + r.i}
			case token.SUB:
				return tsVal{i: l.i - r.i}
			}
		}
	}
	m.unsupported(e, "expression outside the typestate language: "+exprStr(e))
	return tsVal{}
}

func (m *tsMachine) store(f *tsFrame, lhs ast.Expr, v tsVal) {
	switch x := lhs.(type) {
	case *ast.Ident:
		if _, ok := f.locals[x.Name]; ok {
			f.locals[x.Name] = v
			return
		}
	case *ast.SelectorExpr:
		if id, ok := x.X.(*ast.Ident); ok && id.Name == f.recv {
			if old, ok := m.state[x.Sel.Name]; ok && old.isBool == v.isBool {
				m.state[x.Sel.Name] = v
				return
			}
		}
	}
	m.unsupported(lhs, "store outside the typestate language: "+exprStr(lhs))
}

func (m *tsMachine) execList(f *tsFrame, list []ast.Stmt) tsCtl {
	for _, st := range list {
		if ctl := m.exec(f, st); ctl != tsNext {
			return ctl
		}
	}
	return tsNext
}

func (m *tsMachine) exec(f *tsFrame, st ast.Stmt) tsCtl {
	switch x := st.(type) {
	case *ast.BlockStmt:
		return m.execList(f, x.List)
	case *ast.IfStmt:
		if x.Init != nil {
			m.unsupported(st, "if with init")
		}
		if m.eval(f, x.Cond).b {
			return m.execList(f, x.Body.List)
		}
		if x.Else != nil {
			return m.exec(f, x.Else)
		}
		return tsNext
	case *ast.ReturnStmt:
		if len(x.Results) != 0 {
			m.unsupported(st, "return with results")
		}
		return tsRet
	case *ast.IncDecStmt:
		v := m.eval(f, x.X)
		if x.Tok == token.INC {
			v.i++
		} else {
			v.i--
		}
		m.store(f, x.X, v)
		return tsNext
	case *ast.AssignStmt:
		if len(x.Lhs) != 1 || len(x.Rhs) != 1 {
			m.unsupported(st, "tuple assignment")
		}
		r := m.eval(f, x.Rhs[0])
		switch x.Tok {
		case token.ASSIGN:
			m.store(f, x.Lhs[0], r)
		case token.ADD_ASSIGN:
			l := m.eval(f, x.Lhs[0])
			m.store(f, x.Lhs[0], tsVal{i: l.i + r.i})
		case token.SUB_ASSIGN:
			l := m.eval(f, x.Lhs[0])
			m.store(f, x.Lhs[0], tsVal{i: l.i - r.i})
		default:
			m.unsupported(st, "assignment operator "+x.Tok.String())
		}
		return tsNext
	case *ast.DeferStmt:
		fl, ok := x.Call.Fun.(*ast.FuncLit)
		if !ok || len(x.Call.Args) != 0 {
			m.unsupported(st, "defer of something other than a parameterless function literal")
		}
		f.defers = append(f.defers, fl)
		return tsNext
	case *ast.ExprStmt:
		call, ok := x.X.(*ast.CallExpr)
		if !ok {
			m.unsupported(st, "expression statement")
		}
		switch fn := call.Fun.(type) {
		case *ast.Ident:
			if fn.Name == "panic" && m.info.Uses[fn] == types.Universe.Lookup("panic") {
				return tsPanic
			}
			if f.funcs[fn.Name] && len(call.Args) == 0 {
				// user code: runs, then returns or panics
				m.calls++
				if m.fPanics {
					return tsPanic
				}
				return tsNext
			}
		case *ast.SelectorExpr:
			if id, ok := fn.X.(*ast.Ident); ok && id.Name == f.recv {
				var args []tsVal
				for _, a := range call.Args {
					args = append(args, m.eval(f, a))
				}
				return m.callMethod(st, fn.Sel.Name, args, nil)
			}
		}
		m.unsupported(st, "call outside the typestate language: "+exprStr(call))
	}
	m.unsupported(st, fmt.Sprintf("statement outside the typestate language (%T)", st))
	return tsNext
}

// callMethod runs method `name` of the analysed type on the machine's state.
// It reports whether the call returned normally or panicked.
func (m *tsMachine) callMethod(at ast.Node, name string, args []tsVal, userFuncs []bool) tsCtl {
	fd := m.c.FuncDecl("nosync", m.typeName+"."+name)
	if fd == nil || fd.Body == nil || fd.Recv == nil || len(fd.Recv.List) != 1 || len(fd.Recv.List[0].Names) != 1 {
		if at != nil {
			m.unsupported(at, "method "+name+" not found")
		}
		panic(tsUnsupported{"method " + m.typeName + "." + name + " not found"})
	}
	m.depth++
	defer func() { m.depth-- }()
	if m.depth > 4 {
		m.unsupported(fd, "recursion")
	}
	f := &tsFrame{recv: fd.Recv.List[0].Names[0].Name, locals: map[string]tsVal{}, funcs: map[string]bool{}}
	k := 0
	for _, fld := range fd.Type.Params.List {
		_, isFunc := m.info.TypeOf(fld.Type).Underlying().(*types.Signature)
		for _, nm := range fld.Names {
			if isFunc {
				f.funcs[nm.Name] = true
			} else {
				if k >= len(args) {
					m.unsupported(fd, "argument count")
				}
				f.locals[nm.Name] = args[k]
			}
			k++
		}
	}
	if fd.Type.Results != nil && len(fd.Type.Results.List) > 0 {
		m.unsupported(fd, "method with results")
	}
	ctl := m.execList(f, fd.Body.List)
	// deferred functions run on every exit, last registered first
	for i := len(f.defers) - 1; i >= 0; i-- {
		df := &tsFrame{recv: f.recv, locals: f.locals, funcs: f.funcs}
		switch m.execList(df, f.defers[i].Body.List) {
		case tsPanic:
			ctl = tsPanic
		}
		if len(df.defers) > 0 {
			m.unsupported(f.defers[i], "nested defer")
		}
	}
	if ctl == tsPanic {
		return tsPanic
	}
	return tsNext
}

// ---------------------------------------------------------------------------
// specified automata of the sync types, uncontended use

type tsOp struct {
	Label    string
	Method   string
	Args     []int
	UserFunc bool // takes a func(); explored with "returns" and "panics"
}

// step applies op to the specified state. kind: "return", "panic" (recoverable, state is defined
// afterwards), "fatal" (sync crashes or panics on misuse: nosync must panic, nothing follows),
// "contended" (sync would block: nosync must panic, nothing follows).
type tsSpec struct {
	Type string
	Doc  string
	Zero map[string]int
	Ops  []tsOp
	Step func(s map[string]int, op tsOp, fPanics bool) (kind string, calls int)
}

var tsSpecs = []tsSpec{
	{
		Type: "Mutex", Doc: "sync.Mutex: Lock of an unlocked mutex locks it; Lock of a locked one blocks; Unlock of a locked one unlocks it; Unlock of an unlocked one is a fatal error",
		Zero: map[string]int{"locked": 0},
		Ops:  []tsOp{{Label: "Lock", Method: "Lock"}, {Label: "Unlock", Method: "Unlock"}},
		Step: func(s map[string]int, op tsOp, _ bool) (string, int) {
			switch op.Method {
			case "Lock":
				if s["locked"] == 1 {
					return "contended", 0
				}
				s["locked"] = 1
			case "Unlock":
				if s["locked"] == 0 {
					return "fatal", 0
				}
				s["locked"] = 0
			}
			return "return", 0
		},
	},
	{
		Type: "RWMutex", Doc: "sync.RWMutex: Lock needs no writer and no readers, RLock needs no writer; the unlock operations undo exactly one matching lock and are fatal errors otherwise",
		Zero: map[string]int{"w": 0, "r": 0},
		Ops:  []tsOp{{Label: "Lock", Method: "Lock"}, {Label: "Unlock", Method: "Unlock"}, {Label: "RLock", Method: "RLock"}, {Label: "RUnlock", Method: "RUnlock"}},
		Step: func(s map[string]int, op tsOp, _ bool) (string, int) {
			switch op.Method {
			case "Lock":
				if s["w"] == 1 || s["r"] > 0 {
					return "contended", 0
				}
				s["w"] = 1
			case "Unlock":
				if s["w"] == 0 {
					return "fatal", 0
				}
				s["w"] = 0
			case "RLock":
				if s["w"] == 1 {
					return "contended", 0
				}
				s["r"]++
			case "RUnlock":
				if s["r"] == 0 {
					return "fatal", 0
				}
				s["r"]--
			}
			return "return", 0
		},
	},
	{
		Type: "WaitGroup", Doc: "sync.WaitGroup: Add adds delta and panics if the counter becomes negative; Done is Add(-1); Wait returns at once when the counter is zero and blocks otherwise",
		Zero: map[string]int{"n": 0},
		Ops:  []tsOp{{Label: "Add(1)", Method: "Add", Args: []int{1}}, {Label: "Add(2)", Method: "Add", Args: []int{2}}, {Label: "Add(-1)", Method: "Add", Args: []int{-1}}, {Label: "Add(0)", Method: "Add", Args: []int{0}}, {Label: "Done", Method: "Done"}, {Label: "Wait", Method: "Wait"}},
		Step: func(s map[string]int, op tsOp, _ bool) (string, int) {
			switch op.Method {
			case "Add":
				s["n"] += op.Args[0]
			case "Done":
				s["n"]--
			case "Wait":
				if s["n"] != 0 {
					return "contended", 0
				}
			}
			if s["n"] < 0 {
				return "fatal", 0
			}
			return "return", 0
		},
	},
	{
		Type: "Once", Doc: "sync.Once: Do calls f if and only if Do is being called for the first time; if f panics, Do considers it to have returned and future calls of Do return without calling f",
		Zero: map[string]int{"done": 0},
		Ops:  []tsOp{{Label: "Do", Method: "Do", UserFunc: true}},
		Step: func(s map[string]int, op tsOp, fPanics bool) (string, int) {
			if s["done"] == 1 {
				return "return", 0
			}
			s["done"] = 1
			if fPanics {
				return "panic", 1
			}
			return "return", 1
		},
	},
}

func specKey(s map[string]int) string {
	var ks []string
	for k := range s {
		ks = append(ks, k)
	}
	sort.Strings(ks)
	var sb strings.Builder
	for _, k := range ks {
		fmt.Fprintf(&sb, "%s=%d ", k, s[k])
	}
	return strings.TrimSpace(sb.String())
}

func ruleC13Typestate(c *ctx.Ctx, r *core.Reporter) {
	r.Begin("C13.typestate", "F-SIB", "the finite-state nosync types (Mutex, RWMutex, WaitGroup, Once): the transition function derived from each method body is, from the zero value on, bisimilar to the specified automaton of the sync type for every uncontended operation (same outcome, same number of calls of the user function, equivalent successor state) and panics on every contended or fatal one", 40)
	np := c.Pkg("nosync")
	if np == nil {
		r.Undecided("package", "nosync", "package nosync not loaded")
		return
	}
	for _, spec := range tsSpecs {
		obj := np.Types.Scope().Lookup(spec.Type)
		if obj == nil {
			r.Undecided("type:"+spec.Type, "nosync", "nosync."+spec.Type+" not found")
			continue
		}
		stT, ok := obj.Type().Underlying().(*types.Struct)
		if !ok {
			r.Undecided("type:"+spec.Type, c.Pos(obj.Pos()), "not a struct")
			continue
		}
		zero := tsState{}
		supported := true
		for i := 0; i < stT.NumFields(); i++ {
			f := stT.Field(i)
			if f.Name() == "_" {
				continue
			}
			b, isBasic := f.Type().Underlying().(*types.Basic)
			switch {
			case isBasic && b.Info()&types.IsBoolean != 0:
				zero[f.Name()] = tsVal{isBool: true}
			case isBasic && b.Info()&types.IsInteger != 0:
				zero[f.Name()] = tsVal{}
			default:
				supported = false
			}
		}
		if !supported {
			r.Undecided("type:"+spec.Type, c.Pos(obj.Pos()), "state is not made of booleans and counters")
			continue
		}
		type item struct {
			impl tsState
			spec map[string]int
			path []string
		}
		zs := map[string]int{}
		for k, v := range spec.Zero {
			zs[k] = v
		}
		queue := []item{{impl: zero, spec: zs}}
		// the relation explored is a function of the specified state: two different implementation
		// states for one specified state are both explored
		seen := map[string]bool{zero.key() + "|" + specKey(zs): true}
		transitions := 0
		usedKeys := map[string]int{}
		for len(queue) > 0 {
			it := queue[0]
			queue = queue[1:]
			for _, op := range spec.Ops {
				variants := []bool{false}
				if op.UserFunc {
					variants = []bool{false, true}
				}
				for _, fPanics := range variants {
					label := op.Label
					if op.UserFunc {
						if fPanics {
							label += "(f panics)"
						} else {
							label += "(f returns)"
						}
					}
					key := fmt.Sprintf("ts:%s.%s@%s", spec.Type, label, specKey(it.spec))
					usedKeys[key]++
					if usedKeys[key] > 1 {
						key += fmt.Sprintf("#%d", usedKeys[key])
					}
					ss := map[string]int{}
					for k, v := range it.spec {
						ss[k] = v
					}
					wantKind, wantCalls := spec.Step(ss, op, fPanics)
					m := &tsMachine{c: c, info: np.TypesInfo, typeName: spec.Type, state: it.impl.clone(), fPanics: fPanics}
					var args []tsVal
					for _, a := range op.Args {
						args = append(args, tsVal{i: a})
					}
					var ctl tsCtl
					var unsup string
					func() {
						defer func() {
							if e := recover(); e != nil {
								if u, ok := e.(tsUnsupported); ok {
									unsup = u.what
									return
								}
								panic(e)
							}
						}()
						ctl = m.callMethod(nil, op.Method, args, nil)
					}()
					pos := c.Pos(obj.Pos())
					if fd := c.FuncDecl("nosync", spec.Type+"."+op.Method); fd != nil {
						pos = c.Pos(fd.Pos())
					}
					if unsup != "" {
						r.Undecided(key, pos, "cannot derive the transition: "+unsup)
						continue
					}
					gotKind := "return"
					if ctl == tsPanic {
						gotKind = "panic"
					}
					history := "zero value"
					if len(it.path) > 0 {
						history = strings.Join(it.path, "; ")
					}
					transitions++
					switch wantKind {
					case "contended", "fatal":
						why := "sync would block (contended use)"
						if wantKind == "fatal" {
							why = "sync reports a fatal error or panics (misuse)"
						}
						r.Check(gotKind == "panic", key, pos, fmt.Sprintf("after [%s], %s: %s, nosync.%s panics instead of continuing (derived outcome: %s; state %s)", history, label, why, spec.Type, gotKind, m.state.key()))
					default:
						okT := gotKind == wantKind && m.calls == wantCalls
						r.Check(okT, key, pos, fmt.Sprintf("after [%s], %s: sync.%s %ss and calls f %d×; nosync.%s %ss and calls f %d× (state %s → %s)", history, label, spec.Type, wantKind, wantCalls, spec.Type, gotKind, m.calls, it.impl.key(), m.state.key()))
						if !okT {
							continue
						}
						// continue from the successor pair while the counters stay within the explored bound
						within := true
						for _, v := range m.state {
							if !v.isBool && (v.i > tsBound || v.i < -tsBound) {
								within = false
							}
						}
						for _, v := range ss {
							if v > tsBound {
								within = false
							}
						}
						k := m.state.key() + "|" + specKey(ss)
						if within && !seen[k] {
							seen[k] = true
							queue = append(queue, item{impl: m.state, spec: ss, path: append(append([]string{}, it.path...), label)})
						}
					}
				}
			}
		}
		r.Check(transitions >= 4, "ts:"+spec.Type+":explored", c.Pos(obj.Pos()), fmt.Sprintf("%s — %d transitions of nosync.%s derived and compared (%d reachable state pairs, counters up to %d)", spec.Doc, transitions, spec.Type, len(seen), tsBound))
	}
}
