package rules

import (
	"go/parser"
	"go/token"
	"testing"
)

const patSrc = `package p
func f(list []int, allInfo []*T) {
	stable := false
	for !stable {
		stable = true
		// comment
		for _, info := range allInfo {
			if !info.step() {
				stable = false
			}
		}
	}
	if a[i] > 0 && b { return }
	x := g(1, 2, 3)
	_ = x
}`

func TestGoPattern(t *testing.T) {
	f, err := parser.ParseFile(token.NewFileSet(), "x.go", patSrc, parser.ParseComments)
	if err != nil {
		t.Fatal(err)
	}
	cases := []struct {
		pat  string
		want int
	}{
		{"for !µf { µf = true; µµbody }", 1},
		{"for !µf { µf = false; µµbody }", 0},
		{"if !µx.step() { µf = false }", 1},
		{"µa[µi] > 0", 1},
		{"g(1, µµrest)", 1},
		{"g(2, µµrest)", 0},
		{"g(µ_, µ_, µ_)", 1},
		{"g(µ_, µ_)", 0},
		{"µf := false; for !µf { µµb }", 1},
		{"µx := g(µµa); _ = µx", 1},
		{"µx := g(µµa); _ = µy", 1},
		{"µx := g(µµa); µx = µx", 0},
	}
	for _, c := range cases {
		if got := len(findGoPattern(f, c.pat)); got != c.want {
			t.Errorf("%q: got %d matches, want %d", c.pat, got, c.want)
		}
	}
}
