package rules

import (
	"fmt"
	"go/ast"
	"go/token"
	"go/types"
	"sort"
	"strings"

	"verif/checker/internal/core"
	"verif/checker/internal/ctx"
	"verif/checker/internal/tmpl"
)

func init() {
	register(&Property{
		ID:          "C09",
		Explanation: "Decided: (id) no type display string (.string) flows into a run-time table key, Map key or keyFor result — tables about types are keyed by identity; (canon) every canonicalising type constructor builds its memo key from all its parameters and from every identity-relevant record key (Go spec type identity); (match) $assertType compares name, pkg and typ of methods; (schema) the method/field records the compiler emits contain every key the prelude reads on them; (mname) every method name emitted as a property or lookup string is the mangled name; (emit) method lists split value/pointer receivers and cover all methods of the instantiated type; (equal) $equal/$interfaceIsEqual cover every object-represented comparable kind; LINK on the helpers involved. NOT decided: embedding/promotion results for arbitrary type graphs, receiver copying at run time.",
		Assumptions: []string{"typ.id assigned by $newType is unique per run-time type object", "Go spec type identity rules are frozen in the checker as the required key tables"},
		Rules:       []RuleFunc{ruleC09ID, ruleC09Canon, ruleC09Match, ruleC09Schema, ruleC09Provenance, ruleC09Mname, ruleC09Emit, ruleC09Equal, ruleL9, ruleTotal("C09.exh", 2, "translateExpr/SelectorKind", "translateExpr/CallSelectorKind"), ruleC09MethodSet, ruleStructComparable, ruleBlankFields, ruleOwnMethods, ruleOwnKeys, rulePromotePtr, ruleNamedLookThrough, ruleC09ReceiverClone, ruleC07ReceiverCopy},
	})
}

// stringTaint reports the first `.string` mention that flows into key expression e.
func stringTaint(e *ctx.JSNode, inits map[string][]*ctx.JSNode) *ctx.JSNode {
	var found *ctx.JSNode
	seen := map[string]bool{}
	var rec func(x *ctx.JSNode, d int)
	rec = func(x *ctx.JSNode, d int) {
		if x == nil || found != nil {
			return
		}
		x.Walk(func(n *ctx.JSNode) bool {
			if found != nil {
				return false
			}
			// X.length is a number, not the string
			if n.Is("MemberExpression") && !n.B("computed") && n.MemberName() == "length" {
				return false
			}
			if isStringMember(n) {
				found = n
				return false
			}
			if n.Is("Identifier") && n.IsRefIdent() && d > 0 {
				nm := n.S("name")
				if !seen[nm] {
					seen[nm] = true
					for _, in := range inits[nm] {
						rec(in, d-1)
					}
				}
			}
			return true
		})
	}
	rec(e, 3)
	return found
}

type keySink struct {
	node *ctx.JSNode // the key expression
	what string
	fn   *ctx.JSNode
}

// keySinks enumerates key positions in root: computed member keys, Map keys, keyFor results.
func keySinks(c *ctx.Ctx, root *ctx.JSNode, keyForFuncs map[*ctx.JSNode]bool) []keySink {
	var out []keySink
	root.Walk(func(n *ctx.JSNode) bool {
		switch n.Type {
		case "MemberExpression":
			if n.B("computed") {
				p := n.N("property")
				if _, isNum := p.NumValue(); !isNum {
					out = append(out, keySink{p, "computed member key " + strings.TrimSpace(n.Src()), n.EnclosingFunc()})
				}
			}
		case "CallExpression":
			cal := n.N("callee")
			if cal.Is("MemberExpression") {
				switch cal.MemberName() {
				case "set", "get", "has", "delete":
					if args := n.L("arguments"); len(args) >= 1 && !cal.N("object").Is("ThisExpression") {
						out = append(out, keySink{args[0], "Map key in " + strings.TrimSpace(n.Src()), n.EnclosingFunc()})
					}
				}
			}
		case "ReturnStatement":
			if fn := n.EnclosingFunc(); fn != nil && keyForFuncs[fn] && n.N("argument") != nil {
				out = append(out, keySink{n.N("argument"), "result of key function " + ctx.JSFuncName(fn), fn})
			}
		}
		return true
	})
	return out
}

// keyForFunctions finds functions used as map-key functions.
func keyForFunctions(c *ctx.Ctx) map[*ctx.JSNode]bool {
	out := map[*ctx.JSNode]bool{}
	for _, f := range c.PreludeList() {
		f.AST.Walk(func(n *ctx.JSNode) bool {
			if n.Is("AssignmentExpression") && n.N("left").Is("MemberExpression") && n.N("left").MemberName() == "keyFor" {
				r := n.N("right")
				if r.IsFunc() {
					out[r] = true
					// helper functions called to build the result
					r.Walk(func(m *ctx.JSNode) bool {
						if m.Is("CallExpression") {
							if fn := c.PreludeFunc(m.N("callee").IdentName()); fn != nil && strings.HasSuffix(m.N("callee").IdentName(), "Key") {
								out[fn] = true
							}
						}
						return true
					})
				} else if id := r.IdentName(); id != "" {
					if fn := c.PreludeFunc(id); fn != nil {
						out[fn] = true
					}
				}
			}
			return true
		})
	}
	return out
}

func ruleC09ID(c *ctx.Ctx, r *core.Reporter) {
	r.Begin("C09.id", "F-KEY", "no <type>.string (display name), nor a variable or concatenation derived from one, flows into a computed member key, a Map key or the result of a keyFor function", 40)
	if !needPrelude(c, r) {
		return
	}
	kf := keyForFunctions(c)
	r.Count("keyFor functions", len(kf))
	nsinks, nstring := 0, 0
	check := func(root *ctx.JSNode, label string) {
		for _, s := range keySinks(c, root, kf) {
			nsinks++
			scope := s.fn
			var inits map[string][]*ctx.JSNode
			if scope != nil {
				// include enclosing functions' locals (closures)
				inits = map[string][]*ctx.JSNode{}
				for f := scope; f != nil; f = f.EnclosingFunc() {
					for k, v := range localInits(f) {
						inits[k] = append(inits[k], v...)
					}
				}
			} else {
				inits = localInits(root)
			}
			src := stringTaint(s.node, inits)
			key := fmt.Sprintf("key:%s:%s", ctx.JSFuncName(s.fn), strings.Join(strings.Fields(s.node.Src()), ""))
			if src != nil {
				r.Violation(key, s.node.Pos(), fmt.Sprintf("%s is derived from the type display string %s (%s): distinct Go types can share a display string (same name in different functions or packages), so the table conflates them; key by .id instead", s.what, strings.TrimSpace(src.Src()), src.Pos()))
			} else {
				r.OK(key, s.node.Pos(), s.what+" does not depend on a type display string")
			}
		}
		root.Walk(func(n *ctx.JSNode) bool {
			if isStringMember(n) {
				nstring++
			}
			return true
		})
	}
	for _, f := range c.PreludeList() {
		check(f.AST, f.Name)
	}
	r.Count("key positions examined", nsinks)
	r.Count(".string reads in the prelude", nstring)
	// positive control: the rule must fire on a tiny built-in example
	ctl, err := c.ParseJS(map[string]string{"<control>": "var $t = (x, tbl) => { var s = x.constructor.string; return tbl[s]; };"})
	fired := false
	if err == nil && ctl["<control>"].AST != nil {
		for _, s := range keySinks(c, ctl["<control>"].AST, nil) {
			if stringTaint(s.node, localInits(s.fn)) != nil {
				fired = true
			}
		}
	}
	r.Check(fired, "control:string-key", "<built-in example>", "the rule fires on the built-in positive example `tbl[x.constructor.string]`")
}

// ---------------------------------------------------------------------------
// C09.canon

type canonSpec struct {
	fn        string
	params    []string            // identity-relevant parameters (Go spec type identity)
	recordKey map[string][]string // array-of-record parameter -> identity keys of each record
	why       string
}

var canonSpecs = []canonSpec{
	{"$arrayType", []string{"elem", "len"}, nil, "array types are identical if element types and lengths are"},
	{"$chanType", []string{"elem", "sendOnly", "recvOnly"}, nil, "channel types are identical if element types and direction are"},
	{"$funcType", []string{"params", "results", "variadic"}, nil, "function types are identical if parameter and result types and variadic-ness are"},
	{"$interfaceType", []string{"methods"}, map[string][]string{"methods": {"name", "pkg", "typ"}}, "interface types are identical if they have the same method names (unexported names qualified by package) with identical types"},
	{"$mapType", []string{"key", "elem"}, nil, "map types are identical if key and element types are"},
	{"$ptrType", []string{"elem"}, nil, "pointer types are identical if base types are"},
	{"$sliceType", []string{"elem"}, nil, "slice types are identical if element types are"},
	{"$structType", []string{"pkgPath", "fields"}, map[string][]string{"fields": {"name", "embedded", "typ", "tag"}}, "struct types are identical if corresponding fields have the same names, identical types, identical tags and are both embedded or not; unexported names of different packages differ"},
}

func ruleC09Canon(c *ctx.Ctx, r *core.Reporter) {
	r.Begin("C09.canon", "F-KEY", "every canonicalising type constructor derives its memo key (typeKey or the per-element cache slot) from all identity-relevant parameters and record keys", 14)
	if !needPrelude(c, r) {
		return
	}
	for _, sp := range canonSpecs {
		fn := c.PreludeFunc(sp.fn)
		if fn == nil {
			r.Undecided("canon:"+sp.fn, "compiler/prelude/types.js", "constructor not found")
			continue
		}
		inits := localInits(fn)
		// the memo lookup: `var typ = TABLE[KEY]` or `var typ = elem.slot` / `elem[field]`
		var memo *ctx.JSNode
		for _, in := range inits["typ"] {
			if in.Is("MemberExpression") && memo == nil {
				memo = in
			}
		}
		if memo == nil {
			r.Undecided("canon:"+sp.fn, fn.Pos(), "no memo lookup `var typ = <table>[<key>]` found")
			continue
		}
		// identifiers the memo lookup depends on (object + key)
		deps := identsIn(memo, inits, 3)
		for _, p := range sp.params {
			r.Check(deps[p], "canon:"+sp.fn+":"+p, memo.Pos(), fmt.Sprintf("memo lookup %s of %s depends on parameter %s (%s)", strings.TrimSpace(memo.Src()), sp.fn, p, sp.why))
		}
		for arr, keys := range sp.recordKey {
			// callbacks over the array inside the key expression: $mapArray(arr, f => ...) reachable from memo
			var keyExprs []*ctx.JSNode
			keyExprs = append(keyExprs, memo)
			for nm := range deps {
				keyExprs = append(keyExprs, inits[nm]...)
			}
			read := map[string]bool{}
			for _, ke := range keyExprs {
				ke.Walk(func(n *ctx.JSNode) bool {
					if n.Is("CallExpression") && n.N("callee").IdentName() == "$mapArray" {
						args := n.L("arguments")
						if len(args) == 2 && args[0].IdentName() == arr && args[1].IsFunc() {
							ps := funcParams(args[1])
							if len(ps) == 1 {
								for k := range memberNamesOn(args[1], ps[0]) {
									read[k] = true
								}
							}
						}
					}
					return true
				})
			}
			for _, k := range keys {
				r.Check(read[k], "canon:"+sp.fn+":"+arr+"."+k, memo.Pos(), fmt.Sprintf("the memo key of %s includes %s.%s of every record (%s)", sp.fn, arr, k, sp.why))
			}
		}
	}
}

// ---------------------------------------------------------------------------
// C09.match

func ruleC09Match(c *ctx.Ctx, r *core.Reporter) {
	r.Begin("C09.match", "F-KEY", "$assertType's method match compares every identity key of a method record (name, pkg, typ)", 3)
	if !needPrelude(c, r) {
		return
	}
	fn := c.PreludeFunc("$assertType")
	if fn == nil {
		r.Undecided("$assertType", "compiler/prelude/types.js", "not found")
		return
	}
	// the && chain comparing two records member-wise
	best := map[string]bool{}
	var at *ctx.JSNode
	fn.Walk(func(n *ctx.JSNode) bool {
		if n.Is("IfStatement") {
			cmp := map[string]bool{}
			n.N("test").Walk(func(m *ctx.JSNode) bool {
				if m.Is("BinaryExpression") && m.S("operator") == "===" {
					l, rr := m.N("left"), m.N("right")
					if l.Is("MemberExpression") && rr.Is("MemberExpression") && l.MemberName() == rr.MemberName() && l.MemberName() != "" && l.N("object").IdentName() != rr.N("object").IdentName() {
						cmp[l.MemberName()] = true
					}
				}
				return true
			})
			if len(cmp) > len(best) {
				best, at = cmp, n
			}
		}
		return true
	})
	for _, k := range []string{"name", "pkg", "typ"} {
		r.Check(best[k], "match:"+k, at.Pos(), fmt.Sprintf("the method comparison of $assertType tests .%s of both records", k))
	}
}

// ---------------------------------------------------------------------------
// C09.schema (L5)

// emittedRecordKeys finds object-literal templates `{k1: .., k2: ..}` in the given function and returns key sets.
func emittedRecordKeys(c *ctx.Ctx, fn string) [][]string {
	var out [][]string
	for _, t := range usableTemplates(c) {
		if t.Func != fn || t.Role != tmpl.RoleSink {
			continue
		}
		toks := t.Tokens
		if len(toks) == 0 || !isPunct(&toks[0], "{") {
			continue
		}
		var keys []string
		for i, tk := range toks {
			if tk.Kind == tmpl.TIdent && identRole(toks, i) == roleKey {
				keys = append(keys, tk.Text)
			}
		}
		if len(keys) > 0 {
			out = append(out, keys)
		}
	}
	return out
}

// recordReads collects member names read on elements of `.fields` / `.methods` arrays in the prelude.
func recordReads(c *ctx.Ctx, arrayProp string, extraSources []string) map[string]string {
	out := map[string]string{}
	isSource := func(e *ctx.JSNode) bool {
		if e == nil {
			return false
		}
		if e.Is("MemberExpression") && e.MemberName() == arrayProp {
			return true
		}
		if e.Is("Identifier") && e.S("name") == arrayProp {
			return true // parameter or closure variable named like the property (init(pkgPath, fields))
		}
		if e.Is("CallExpression") {
			for _, s := range extraSources {
				if e.N("callee").IdentName() == s {
					return true
				}
			}
		}
		return false
	}
	for _, fn := range allPreludeFuncs(c) {
		inits := localInits(fn)
		// variables holding the array
		arrVars := map[string]bool{}
		for v, ins := range inits {
			for _, in := range ins {
				if isSource(in) {
					arrVars[v] = true
				}
			}
		}
		isArr := func(e *ctx.JSNode) bool {
			return isSource(e) || (e.Is("Identifier") && arrVars[e.S("name")])
		}
		// element variables: var f = ARR[i];  callbacks ARR.forEach(f => ..), $mapArray(ARR, f => ..)
		elemVars := map[string]*ctx.JSNode{}
		for v, ins := range inits {
			for _, in := range ins {
				if in.Is("MemberExpression") && in.B("computed") && isArr(in.N("object")) {
					elemVars[v] = fn
				}
			}
		}
		note := func(scope *ctx.JSNode, v string) {
			for k := range memberNamesOn(scope, v) {
				if _, ok := out[k]; !ok {
					out[k] = scope.Pos()
				}
			}
		}
		for v := range elemVars {
			note(fn, v)
		}
		fn.Walk(func(n *ctx.JSNode) bool {
			if n != fn && n.IsFunc() {
				// handled as its own function in allPreludeFuncs, but closures see outer element vars: fine
			}
			if !n.Is("CallExpression") {
				return true
			}
			cal := n.N("callee")
			args := n.L("arguments")
			var arr, cb *ctx.JSNode
			if cal.Is("MemberExpression") && (cal.MemberName() == "forEach" || cal.MemberName() == "map") && len(args) >= 1 {
				arr, cb = cal.N("object"), args[0]
			} else if cal.IdentName() == "$mapArray" && len(args) == 2 {
				arr, cb = args[0], args[1]
			}
			if arr != nil && cb != nil && cb.IsFunc() && isArr(arr) {
				if ps := funcParams(cb); len(ps) >= 1 {
					note(cb, ps[0])
				}
			}
			return true
		})
	}
	return out
}

func ruleC09Schema(c *ctx.Ctx, r *core.Reporter) {
	r.Begin("C09.schema", "F-LINK", "the method and field records emitted by the compiler contain every key the prelude reads on elements of .methods / .fields", 8)
	if !needPrelude(c, r) {
		return
	}
	union := func(sets [][]string) map[string]bool {
		m := map[string]bool{}
		for _, s := range sets {
			for _, k := range s {
				m[k] = true
			}
		}
		return m
	}
	methodSets := append(emittedRecordKeys(c, "funcContext.methodListEntry"), emittedRecordKeys(c, "funcContext.initArgs")...)
	var mrec, frec [][]string
	for _, s := range methodSets {
		isField := false
		for _, k := range s {
			if k == "embedded" || k == "tag" {
				isField = true
			}
		}
		if isField {
			frec = append(frec, s)
		} else {
			mrec = append(mrec, s)
		}
	}
	if len(mrec) < 2 || len(frec) < 1 {
		r.Undecided("schema:emitters", "compiler/decls.go", fmt.Sprintf("expected method records from methodListEntry and initArgs and a field record from initArgs; found %d method and %d field record templates", len(mrec), len(frec)))
		return
	}
	// every method-record emitter must emit the same key set
	for i := 1; i < len(mrec); i++ {
		a, b := append([]string{}, mrec[0]...), append([]string{}, mrec[i]...)
		sort.Strings(a)
		sort.Strings(b)
		r.Check(strings.Join(a, ",") == strings.Join(b, ","), fmt.Sprintf("schema:method-emitters-agree#%d", i), "compiler", fmt.Sprintf("method record key sets agree: %v vs %v", a, b))
	}
	mkeys, fkeys := union(mrec), union(frec)
	mreads := recordReads(c, "methods", []string{"$methodSet"})
	freads := recordReads(c, "fields", nil)
	builtin := map[string]bool{"length": true, "forEach": true, "push": true, "concat": true, "sort": true}
	for _, k := range sortedKeys(mreads) {
		if builtin[k] {
			continue
		}
		r.Check(mkeys[k], "schema:method."+k, mreads[k], fmt.Sprintf("the prelude reads .%s on a method record; emitted keys: %v", k, sortedBoolKeys(mkeys)))
	}
	for _, k := range sortedKeys(freads) {
		if builtin[k] {
			continue
		}
		r.Check(fkeys[k], "schema:field."+k, freads[k], fmt.Sprintf("the prelude reads .%s on a field record; emitted keys: %v", k, sortedBoolKeys(fkeys)))
	}
}

func sortedBoolKeys(m map[string]bool) []string {
	var out []string
	for k := range m {
		out = append(out, k)
	}
	sort.Strings(out)
	return out
}

// ---------------------------------------------------------------------------
// C09.mname

func ruleC09Mname(c *ctx.Ctx, r *core.Reporter) {
	r.Begin("C09.mname", "F-SIB", "wherever a method name is emitted as a JavaScript property or as the lookup string of $methodVal/$methodExpr/$ifaceMethodExpr it is the mangled name (methodName/sanitizeName), the one under which the method is stored", 6)
	info := c.Pkg("compiler").TypesInfo
	isMangled := func(fn *ast.FuncDecl, e ast.Expr) (bool, string) {
		src := exprStr(e)
		if strings.Contains(src, "methodName(") || strings.Contains(src, "sanitizeName(") {
			return true, src
		}
		if id, ok := e.(*ast.Ident); ok {
			// local variable assigned from a mangling call
			ok2 := false
			def := ""
			ast.Inspect(fn.Body, func(n ast.Node) bool {
				if as, isAs := n.(*ast.AssignStmt); isAs && len(as.Lhs) == 1 && len(as.Rhs) == 1 {
					if l, isId := as.Lhs[0].(*ast.Ident); isId && info.ObjectOf(l) == info.ObjectOf(id) {
						def = exprStr(as.Rhs[0])
						if strings.Contains(def, "methodName(") || strings.Contains(def, "sanitizeName(") {
							ok2 = true
						}
					}
				}
				return true
			})
			return ok2, id.Name + " := " + def
		}
		return false, src
	}
	n := 0
	for _, t := range usableTemplates(c) {
		if t.Role != tmpl.RoleSink {
			continue
		}
		fd := c.FuncDecl("compiler", t.Func)
		if fd == nil {
			continue
		}
		toks := t.Tokens
		args := t.FmtArgs()
		argOfHoleInStr := func(tk tmpl.Token) (ast.Expr, bool) {
			if tk.Kind != tmpl.TStr || len(tk.Holes) != 1 {
				return nil, false
			}
			h := t.Holes[tk.Holes[0]]
			if h.Index < 0 || h.Index >= len(args) {
				return nil, false
			}
			return args[h.Index], true
		}
		for i, tk := range toks {
			// prop: "<hole>"
			if tk.Kind == tmpl.TIdent && tk.Text == "prop" && identRole(toks, i) == roleKey && i+2 < len(toks) {
				e, ok := argOfHoleInStr(toks[i+2])
				if !ok {
					continue
				}
				// only method records (typ: $funcType...) – field records use fieldName
				isMethodRec := strings.Contains(t.Text, "$funcType(")
				if !isMethodRec {
					continue
				}
				n++
				good, how := isMangled(fd, e)
				r.Check(good, "mname:prop@"+t.Func, c.Pos(t.Pos), fmt.Sprintf("method record in %s sets prop from %s; must be the mangled method name", t.Func, how))
			}
			// $methodVal(x, "<hole>"), $methodExpr(T, "<hole>"), $ifaceMethodExpr("<hole>")
			if tk.Kind == tmpl.TIdent && (tk.Text == "$methodVal" || tk.Text == "$methodExpr" || tk.Text == "$ifaceMethodExpr") {
				for j := i + 1; j < len(toks); j++ {
					if e, ok := argOfHoleInStr(toks[j]); ok {
						n++
						good, how := isMangled(fd, e)
						r.Check(good, "mname:"+tk.Text+"@"+t.Func+"["+strings.Join(t.CasePath, "/")+"]", c.Pos(t.Pos), fmt.Sprintf("%s looks the method up by %s; must be the mangled method name under which translateMethod stores it", tk.Text, how))
						break
					}
				}
			}
		}
	}
	// go:linkname'd method implementations: $unsafeMethodToFunction(T, "<name>", isPtr) looks the method up
	// on the receiver by name, so the name must be the mangled one as well
	for _, t := range corpus(c).Templates {
		if !strings.Contains(t.Text, "$unsafeMethodToFunction(") {
			continue
		}
		fd := c.FuncDecl("compiler", t.Func)
		if fd == nil {
			continue
		}
		args := t.FmtArgs()
		var after []int
		seenCallee := false
		for _, tk := range t.Tokens {
			if tk.Kind == tmpl.TIdent && tk.Text == "$unsafeMethodToFunction" {
				seenCallee = true
				continue
			}
			if seenCallee {
				after = append(after, tk.Holes...)
			}
		}
		if len(after) < 2 || t.Holes[after[1]].Index < 0 || t.Holes[after[1]].Index >= len(args) {
			r.Undecided("mname:$unsafeMethodToFunction@"+t.Func, c.Pos(t.Pos), "cannot identify the method-name argument")
			continue
		}
		n++
		good, how := isMangled(fd, args[t.Holes[after[1]].Index])
		r.Check(good, "mname:$unsafeMethodToFunction@"+t.Func, c.Pos(t.Pos), fmt.Sprintf("$unsafeMethodToFunction looks the linknamed method up by %s; must be the mangled method name under which translateMethod stores it", how))
	}
	// the definition side: translateMethod stores under methodName
	if tm := c.FuncDecl("compiler", "funcContext.translateMethod"); tm != nil {
		ok := false
		ast.Inspect(tm.Body, func(x ast.Node) bool {
			if as, isAs := x.(*ast.AssignStmt); isAs && len(as.Rhs) == 1 && strings.Contains(exprStr(as.Rhs[0]), "fc.methodName(") {
				ok = true
			}
			return true
		})
		r.Check(ok, "mname:definition", c.Pos(tm.Pos()), "translateMethod derives the property under which a method is stored from methodName")
	}
	r.Count("method-name emission sites", n)
}

// ---------------------------------------------------------------------------
// C09.emit

func ruleC09Emit(c *ctx.Ctx, r *core.Reporter) {
	r.Begin("C09.emit", "F-MUST", "method lists are split by receiver kind taken from the method's own receiver type and cover all methods of the instantiated type", 3)
	me := c.FuncDecl("compiler", "funcContext.methodListEntry")
	if me == nil {
		r.Undecided("methodListEntry", "compiler/decls.go", "not found")
		return
	}
	src := nodeString(c, me.Body)
	r.Check(strings.Contains(src, ".Recv().Type().(*types.Pointer)"), "emit:isPtr-from-receiver", c.Pos(me.Pos()), "isPtr is computed from the method signature's receiver type being a *types.Pointer")
	nd := c.FuncDecl("compiler", "funcContext.newNamedTypeInstDecl")
	if nd == nil {
		r.Undecided("newNamedTypeInstDecl", "compiler/decls.go", "not found")
		return
	}
	// loop `for i := 0; i < instanceType.NumMethods(); i++` calling methodListEntry(instanceType.Method(i))
	loopOK, splitOK := false, false
	ast.Inspect(nd.Body, func(n ast.Node) bool {
		fs, ok := n.(*ast.ForStmt)
		if !ok || fs.Cond == nil {
			return true
		}
		cond := exprStr(fs.Cond)
		if strings.Contains(cond, ".NumMethods()") {
			recv := strings.TrimSuffix(strings.SplitN(cond, " < ", 2)[1], ".NumMethods()")
			body := nodeString(c, fs.Body)
			if strings.Contains(body, "methodListEntry("+recv+".Method(") {
				loopOK = true
			}
			if strings.Contains(body, "ptrMethods = append(ptrMethods") && strings.Contains(body, "methods = append(methods") {
				splitOK = true
			}
			// the iterated type must be the instantiated/substituted one
			if recv != "instanceType" {
				loopOK = false
			}
		}
		return true
	})
	r.Check(loopOK, "emit:all-methods-of-instance", c.Pos(nd.Pos()), "MethodListCode iterates 0..instanceType.NumMethods() and describes instanceType.Method(i)")
	r.Check(splitOK, "emit:value/pointer-split", c.Pos(nd.Pos()), "entries are appended to the value or pointer method list according to isPtr")
}

// ---------------------------------------------------------------------------
// C09.equal

func ruleC09Equal(c *ctx.Ctx, r *core.Reporter) {
	r.Begin("C09.equal", "F-EXH", "$equal has an arm for every comparable kind whose values are JavaScript objects; $interfaceIsEqual compares constructors before values and rejects non-comparable dynamic types", 9)
	if !needPrelude(c, r) {
		return
	}
	eq := c.PreludeFunc("$equal")
	if eq == nil {
		r.Undecided("$equal", "compiler/prelude/prelude.js", "not found")
		return
	}
	arms := kindSwitchArms(eq, "type")
	if arms == nil {
		r.Undecided("$equal:switch", eq.Pos(), "switch (type.kind) not found")
		return
	}
	// object-represented comparable kinds: === on them compares identity, not value
	for _, k := range []string{"$kindComplex64", "$kindComplex128", "$kindInt64", "$kindUint64", "$kindArray", "$kindStruct", "$kindInterface"} {
		arm := arms[k]
		ok := arm != nil && arm != arms["default"]
		site := eq.Pos()
		if arm != nil {
			site = arm.Pos()
		}
		r.Check(ok, "equal:"+k, site, k+" values are objects (two halves, element arrays, field objects, boxed values): $equal needs a structural arm, the default === compares identity")
	}
	ie := c.PreludeFunc("$interfaceIsEqual")
	if ie == nil {
		r.Undecided("$interfaceIsEqual", "compiler/prelude/prelude.js", "not found")
		return
	}
	// order of top-level statements: constructor comparison precedes comparable test precedes $equal call
	var posCtor, posComparable, posEqual int = -1, -1, -1
	for i, st := range ie.N("body").L("body") {
		s := st.Src()
		if posCtor < 0 && strings.Contains(s, "a.constructor !== b.constructor") {
			posCtor = i
		}
		if posComparable < 0 && strings.Contains(s, ".comparable") && strings.Contains(s, "$throwRuntimeError") {
			posComparable = i
		}
		if posEqual < 0 && strings.Contains(s, "$equal(") {
			posEqual = i
		}
	}
	r.Check(posCtor >= 0 && posEqual > posCtor, "ifaceEqual:type-first", ie.Pos(), "dynamic types are compared (constructor identity) before values")
	r.Check(posComparable >= 0 && posComparable < posEqual && posComparable > posCtor, "ifaceEqual:uncomparable-panics", ie.Pos(), "comparing two values of the same non-comparable dynamic type throws a run-time error before $equal is consulted")
}

var _ = types.Typ

// ---------------------------------------------------------------------------
// C09.provenance: the values put into method / field records come from the object the record describes

// localAssignments returns the right-hand sides assigned to the named variable inside scope, each with its enclosing conditions.
type guardedRHS struct {
	rhs   ast.Expr
	conds []string
}

func localAssignments(scope ast.Node, name string) []guardedRHS {
	var out []guardedRHS
	ast.Inspect(scope, func(n ast.Node) bool {
		switch x := n.(type) {
		case *ast.AssignStmt:
			for i, l := range x.Lhs {
				if id, ok := l.(*ast.Ident); ok && id.Name == name && i < len(x.Rhs) {
					out = append(out, guardedRHS{x.Rhs[i], enclosingConds(scope, x.Pos())})
				}
			}
		case *ast.ValueSpec:
			for i, id := range x.Names {
				if id.Name == name && i < len(x.Values) {
					out = append(out, guardedRHS{x.Values[i], enclosingConds(scope, x.Pos())})
				}
			}
		}
		return true
	})
	return out
}

// smallestScope returns the innermost block/case/loop body of fd that contains pos.
func smallestScope(fd *ast.FuncDecl, pos token.Pos) ast.Node {
	var best ast.Node = fd.Body
	ast.Inspect(fd.Body, func(n ast.Node) bool {
		if n == nil {
			return true
		}
		if !(n.Pos() <= pos && pos < n.End()) {
			return false
		}
		switch n.(type) {
		case *ast.ForStmt, *ast.RangeStmt, *ast.CaseClause:
			best = n
		}
		return true
	})
	return best
}

func ruleC09Provenance(c *ctx.Ctx, r *core.Reporter) {
	r.Begin("C09.provenance", "F-KEY", "in every method and field record the compiler emits, the identity keys are taken from the object the record describes: name from its Name(), typ from its type, and the package qualifier is empty for exported names and otherwise the Path() of the object's own package", 6)
	n := 0
	for _, t := range usableTemplates(c) {
		if t.Role != tmpl.RoleSink || (t.Func != "funcContext.methodListEntry" && t.Func != "funcContext.initArgs") {
			continue
		}
		toks := t.Tokens
		if len(toks) == 0 {
			continue
		}
		fd := c.FuncDecl("compiler", t.Func)
		args := t.FmtArgs()
		holeArg := func(key string) ast.Expr {
			for i, tk := range toks {
				if tk.Kind == tmpl.TIdent && tk.Text == key && identRole(toks, i) == roleKey {
					for j := i + 2; j < len(toks) && j <= i+3; j++ {
						if len(toks[j].Holes) == 1 {
							h := t.Holes[toks[j].Holes[0]]
							if h.Index >= 0 && h.Index < len(args) {
								return args[h.Index]
							}
						}
					}
				}
			}
			return nil
		}
		isRecord := isPunct(&toks[0], "{") && holeArg("name") != nil
		scope := smallestScope(fd, t.Pos)
		// the struct pkgPath is the first argument of the struct init args template `"%s", [%s]`
		if !isRecord {
			if t.Text == `"⟨0⟩", [⟨1⟩]` && len(args) == 2 {
				if id, ok := args[0].(*ast.Ident); ok {
					n++
					checkPkgProvenance(c, r, "struct-pkgPath@"+t.Func, fd, smallestScope(fd, t.Pos), id.Name, "", t)
				}
			}
			continue
		}
		// subject: receiver of the .Name() call feeding name:
		nameArg := holeArg("name")
		subject := ""
		ast.Inspect(nameArg, func(x ast.Node) bool {
			if ce, ok := x.(*ast.CallExpr); ok {
				if sel, ok := ce.Fun.(*ast.SelectorExpr); ok && sel.Sel.Name == "Name" && len(ce.Args) == 0 {
					subject = exprStr(sel.X)
				}
			}
			return true
		})
		kind := "method"
		if strings.Contains(t.Text, "embedded:") {
			kind = "field"
		}
		id := kind + "-record@" + t.Func
		if subject == "" {
			r.Undecided("provenance:"+id+":name", c.Pos(t.Pos), "cannot find <object>.Name() behind the name key: "+exprStr(nameArg))
			continue
		}
		n++
		r.OK("provenance:"+id+":name", c.Pos(t.Pos), "name is "+exprStr(nameArg))
		// typ: derives from subject's type (method: initArgs(subject.Type()) or a variable assigned from it; field: typeName(fieldType(..)))
		if ta := holeArg("typ"); ta != nil && kind == "method" {
			src := exprStr(ta)
			ok := strings.Contains(src, subject+".Type()")
			if !ok {
				// variable assigned from subject.Type()
				ast.Inspect(ta, func(x ast.Node) bool {
					if idn, isId := x.(*ast.Ident); isId {
						for _, a := range localAssignments(fd.Body, idn.Name) {
							if strings.Contains(exprStr(a.rhs), subject+".Type()") {
								ok = true
							}
						}
					}
					return true
				})
			}
			r.Check(ok, "provenance:"+id+":typ", c.Pos(t.Pos), fmt.Sprintf("typ describes the type of %s: %s", subject, src))
		}
		if pa := holeArg("pkg"); pa != nil {
			if idn, ok := pa.(*ast.Ident); ok {
				checkPkgProvenance(c, r, id, fd, scope, idn.Name, subject, t)
			} else {
				r.Check(strings.Contains(exprStr(pa), subject+".Pkg().Path()"), "provenance:"+id+":pkg", c.Pos(t.Pos), "pkg is "+exprStr(pa))
			}
		}
	}
	r.Count("record templates examined for provenance", n)
}

// checkPkgProvenance: variable v holds "" or <subject>.Pkg().Path(), the latter only under !<subject>.Exported().
func checkPkgProvenance(c *ctx.Ctx, r *core.Reporter, id string, fd *ast.FuncDecl, scope ast.Node, v, subject string, t *tmpl.Template) {
	as := localAssignments(scope, v)
	if len(as) == 0 {
		as = localAssignments(fd.Body, v)
	}
	okAll, sawPath := len(as) > 0, false
	detail := ""
	for _, a := range as {
		src := exprStr(a.rhs)
		switch {
		case src == `""`:
		case strings.HasSuffix(src, ".Pkg().Path()"):
			owner := strings.TrimSuffix(src, ".Pkg().Path()")
			if subject != "" && owner != subject {
				okAll = false
				detail = fmt.Sprintf("%s is set from %s, not from the described object %s", v, src, subject)
			}
			guarded := false
			for _, cd := range a.conds {
				if squash(cd) == "!"+owner+".Exported()" {
					guarded = true
				}
			}
			if !guarded {
				okAll = false
				detail = fmt.Sprintf("%s = %s is not guarded by !%s.Exported()", v, src, owner)
			}
			sawPath = true
		default:
			okAll = false
			detail = fmt.Sprintf("%s is set from %s: the qualifier of an unexported name must be the path of the package that declares it (Go spec: unexported names from different packages are always different), not of any other package", v, src)
		}
	}
	if okAll && !sawPath {
		okAll, detail = false, v+" is never set to a package path"
	}
	r.Check(okAll, "provenance:"+id+":pkg", c.Pos(t.Pos), ternary(okAll, fmt.Sprintf("%s is \"\" for exported names and the declaring package's Path() otherwise", v), detail))
}
