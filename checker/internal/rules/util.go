package rules

import (
	"go/ast"
	"go/token"
	"go/types"
	"strings"

	"golang.org/x/tools/go/types/typeutil"

	"verif/checker/internal/ctx"
)

// callee returns (pkgpath, receiver type name, function name) of a call.
func callee(info *types.Info, call *ast.CallExpr) (string, string, string) {
	obj := typeutil.Callee(info, call)
	if obj == nil {
		switch f := ast.Unparen(call.Fun).(type) {
		case *ast.Ident:
			return "", "", f.Name
		case *ast.SelectorExpr:
			return "", "?", f.Sel.Name
		}
		return "", "", ""
	}
	pkg := ""
	if obj.Pkg() != nil {
		pkg = obj.Pkg().Path()
	}
	recv := ""
	if fn, ok := obj.(*types.Func); ok {
		if sig, ok := fn.Type().(*types.Signature); ok && sig.Recv() != nil {
			t := sig.Recv().Type()
			if p, ok := t.(*types.Pointer); ok {
				t = p.Elem()
			}
			if n, ok := t.(*types.Named); ok {
				recv = n.Obj().Name()
			} else {
				recv = t.String()
			}
		}
	}
	return pkg, recv, obj.Name()
}

func modPath(rel string) string {
	if rel == "" {
		return ctx.Module
	}
	return ctx.Module + "/" + rel
}

// isCallTo reports whether call resolves to pkgRel-relative function name ("F" or "T.M").
func isCallTo(info *types.Info, call *ast.CallExpr, pkgPath, name string) bool {
	p, r, n := callee(info, call)
	if p != pkgPath {
		return false
	}
	if r != "" {
		n = r + "." + n
	}
	return n == name
}

// findCalls returns calls inside n resolving to (pkgPath, name).
func findCalls(info *types.Info, n ast.Node, pkgPath, name string) []*ast.CallExpr {
	var out []*ast.CallExpr
	ast.Inspect(n, func(x ast.Node) bool {
		if ce, ok := x.(*ast.CallExpr); ok && isCallTo(info, ce, pkgPath, name) {
			out = append(out, ce)
		}
		return true
	})
	return out
}

// hasErrorResult reports whether the call's type contains an error result and its index.
func errorResultIndex(info *types.Info, call *ast.CallExpr) int {
	t := info.TypeOf(call)
	if t == nil {
		return -1
	}
	errT := types.Universe.Lookup("error").Type()
	if tup, ok := t.(*types.Tuple); ok {
		for i := 0; i < tup.Len(); i++ {
			if types.Identical(tup.At(i).Type(), errT) {
				return i
			}
		}
		return -1
	}
	if types.Identical(t, errT) {
		return 0
	}
	return -1
}

// droppedErrors lists calls in fd whose error result is discarded: expression
// statements, blank assignment of the error position, go/defer statements.
func droppedErrors(info *types.Info, fd *ast.FuncDecl) []*ast.CallExpr {
	var out []*ast.CallExpr
	ast.Inspect(fd.Body, func(n ast.Node) bool {
		switch s := n.(type) {
		case *ast.ExprStmt:
			if ce, ok := s.X.(*ast.CallExpr); ok && errorResultIndex(info, ce) >= 0 {
				out = append(out, ce)
			}
		case *ast.DeferStmt:
			if errorResultIndex(info, s.Call) >= 0 {
				out = append(out, s.Call)
			}
		case *ast.GoStmt:
			if errorResultIndex(info, s.Call) >= 0 {
				out = append(out, s.Call)
			}
		case *ast.AssignStmt:
			if len(s.Rhs) == 1 {
				if ce, ok := s.Rhs[0].(*ast.CallExpr); ok {
					if i := errorResultIndex(info, ce); i >= 0 && i < len(s.Lhs) {
						if id, ok := s.Lhs[i].(*ast.Ident); ok && id.Name == "_" {
							out = append(out, ce)
						}
					}
				}
			}
		}
		return true
	})
	return out
}

// topLevelIndex returns the index of the top-level statement of body containing pos.
func topLevelIndex(body *ast.BlockStmt, pos token.Pos) int {
	for i, s := range body.List {
		if s.Pos() <= pos && pos < s.End() {
			return i
		}
	}
	return -1
}

func containsIdent(n ast.Node, name string) bool {
	found := false
	ast.Inspect(n, func(x ast.Node) bool {
		if id, ok := x.(*ast.Ident); ok && id.Name == name {
			found = true
		}
		return !found
	})
	return found
}

func exprStr(e ast.Expr) string { return types.ExprString(e) }

func hasPrefixAny(s string, ps ...string) bool {
	for _, p := range ps {
		if strings.HasPrefix(s, p) {
			return true
		}
	}
	return false
}
