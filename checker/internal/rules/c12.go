package rules

import (
	"fmt"
	"go/ast"
	"go/constant"
	"go/token"
	"go/types"
	"regexp"
	"sort"
	"strings"

	"verif/checker/internal/core"
	"verif/checker/internal/ctx"
)

func init() {
	register(&Property{
		ID:          "C12",
		Explanation: "Decided: (directives) the directive actions documented in doc/pargma.md are exactly the ones the build tests for, and the keep-original prefix in the code is the documented one; (shapes) both augment functions handle function declarations and type/value specifications (single- and multi-value), and a purged type purges its methods; (finalize) every path that marks a declaration, specification, name/value or import as removed reaches finalizeRemovals, which squeezes every such list, and import pruning follows; (imports) blank and dot imports and directive-bearing unsafe/embed imports are never pruned from a file that still has declarations; (call) all overlay files are scanned before any original file is rewritten and init is never treated as an override; the sync→nosync substitution applies to the documented package list only. NOT decided: the merged declaration multiset for arbitrary shapes; type checking of the merged package (the overlays need a Go 1.20 GOROOT).",
		Assumptions: []string{"ast.Inspect visits comments attached to declarations"},
		Rules:       []RuleFunc{ruleC12Directives, ruleC12Shapes, ruleC12Finalize, ruleC12Imports, ruleC12Call, ruleC12ObjectResolution, ruleC12BlankSpecKept, ruleC12DirectiveImportByPath},
	})
}

func ruleC12Directives(c *ctx.Ctx, r *core.Reporter) {
	r.Begin("C12.directives", "F-TABLE", "documented directive actions = actions tested by the build; documented keep-original prefix = prefix used", 5)
	p := c.Pkg("compiler/astutil")
	if p == nil {
		r.Undecided("astutil", "compiler/astutil", "not loaded")
		return
	}
	// actions tested: constant second argument of hasDirective calls
	tested := map[string]string{}
	for _, fd := range c.AllFuncDecls("compiler/astutil") {
		if fd.Body == nil {
			continue
		}
		for _, ce := range callsNamed(fd, "hasDirective") {
			if len(ce.Args) == 2 {
				if tv, ok := p.TypesInfo.Types[ce.Args[1]]; ok && tv.Value != nil {
					tested[constant.StringVal(tv.Value)] = fd.Name.Name
				}
			}
		}
	}
	// and each tester is used by package build
	used := map[string]bool{}
	for _, fd := range c.AllFuncDecls("build") {
		if fd.Body == nil {
			continue
		}
		ast.Inspect(fd.Body, func(n ast.Node) bool {
			if sel, ok := n.(*ast.SelectorExpr); ok && exprStr(sel.X) == "astutil" {
				used[sel.Sel.Name] = true
			}
			return true
		})
	}
	doc, err := c.ReadFile("doc/pargma.md")
	documented := map[string]bool{}
	if err == nil {
		for _, m := range regexp.MustCompile("(?m)^## `gopherjs:([\\w-]+)`").FindAllStringSubmatch(string(doc), -1) {
			documented[m[1]] = true
		}
	}
	if len(documented) == 0 {
		r.Info("doc:pargma", "doc/pargma.md", "no `## gopherjs:<action>` headings found; documentation agreement skipped")
	}
	for _, a := range sortedKeys(tested) {
		r.Check(used[tested[a]], "directive:used:"+a, "build/build.go", fmt.Sprintf("the directive gopherjs:%s (astutil.%s) is consulted by package build", a, tested[a]))
		if len(documented) > 0 {
			r.Check(documented[a], "directive:documented:"+a, "doc/pargma.md", "gopherjs:"+a+" is documented")
		}
	}
	for a := range documented {
		_, ok := tested[a]
		r.Check(ok, "directive:implemented:"+a, "compiler/astutil/astutil.go", "documented directive gopherjs:"+a+" is implemented")
	}
	// directive syntax: //gopherjs:<action> or /*gopherjs:<action>
	for _, f := range p.Syntax {
		ast.Inspect(f, func(n ast.Node) bool {
			if vs, ok := n.(*ast.ValueSpec); ok && len(vs.Names) == 1 && vs.Names[0].Name == "directiveMatcher" {
				src := nodeString(c, vs)
				r.Check(strings.Contains(src, "gopherjs:([\\w-]+)"), "directive:syntax", c.Pos(vs.Pos()), "a directive is a comment starting with gopherjs:<action>")
			}
			return true
		})
	}
	// prefix
	if fd := c.FuncDecl("build", "augmentOriginalFile"); fd != nil {
		s := nodeString(c, fd.Body)
		prefix := ""
		if m := regexp.MustCompile(`d\.Name\.Name = "([^"]+)" \+ d\.Name\.Name`).FindStringSubmatch(s); m != nil {
			prefix = m[1]
		}
		ok := prefix != ""
		if err == nil && ok && strings.Contains(string(doc), "_gopherjs_original_") {
			ok = prefix == "_gopherjs_original_"
		}
		r.Check(ok, "keep-original:prefix", c.Pos(fd.Pos()), fmt.Sprintf("keep-original renames the original function with the documented prefix (%q)", prefix))
	}
}

func ruleC12Shapes(c *ctx.Ctx, r *core.Reporter) {
	r.Begin("C12.shapes", "F-EXH", "overlay scanning and original rewriting handle every declaration shape that can be overridden", 10)
	ov := c.FuncDecl("build", "augmentOverlayFile")
	og := c.FuncDecl("build", "augmentOriginalFile")
	if ov == nil || og == nil {
		r.Undecided("augment", "build/build.go", "augment functions not found")
		return
	}
	for _, fd := range []*ast.FuncDecl{ov, og} {
		for _, lab := range []string{"*ast.FuncDecl", "*ast.GenDecl", "*ast.TypeSpec", "*ast.ValueSpec"} {
			r.Check(armOf(fd, lab) != nil, "shape:"+fd.Name.Name+":"+lab, c.Pos(fd.Pos()), fd.Name.Name+" has an arm for "+lab)
		}
	}
	// overlay side records (patterns over the syntax tree: local names are free, surrounding statements too)
	pat := func(fd *ast.FuncDecl, p string) bool { return hasGoPattern(fd.Body, p) }
	r.Check(pat(ov, `µk := astutil.FuncKey(µd); µµa; µo[µk] = µoi`) || pat(ov, `µk := astutil.FuncKey(µd); µµa; if µc { µo[µk] = µoi }`), "overlay:func-keyed", c.Pos(ov.Pos()), "an overlay function is recorded under its receiver-qualified key")
	r.Check(pat(ov, `µo[µs.Name.Name] = overrideInfo{purgeMethods: µp}`), "overlay:type-recorded", c.Pos(ov.Pos()), "an overlay type is recorded, with purgeMethods when it is purged")
	r.Check(pat(ov, `for _, µn := range µs.Names { µµa; µo[µn.Name] = overrideInfo{} }`), "overlay:every-name-of-value-spec", c.Pos(ov.Pos()), "every name of a multi-name var/const specification is recorded")
	r.Check(pat(ov, "for _, µn := range µs.Names { if µn.Name == `_` { µµa; continue }; µµb }") || pat(ov, "for _, µn := range µs.Names { if µn.Name != `_` { µµa } }"), "overlay:blank-is-not-an-override", c.Pos(ov.Pos()), "the blank identifier in an overlay value specification is not recorded as an override (it would delete every blank declaration of the original, with the side effects of their initialisers)")
	r.Check(pat(ov, "µk := astutil.FuncKey(µd); µµa; if µd.Name.Name != `_` { µo[µk] = µoi }") || pat(ov, "if µd.Name.Name == `_` { µµx; break }; µµa; µo[µk] = µoi"), "overlay:blank-func-is-not-an-override", c.Pos(ov.Pos()), "an overlay `func _()` (a compile-time assertion) or a method named `_` declares nothing and is not recorded: under the key `_` it would delete every `func _()` AND every `var _ = f()` of the original, with the side effects of the initialisers")
	r.Check(pat(ov, `for µj, µspec := range µd.Specs { µp := µpd || astutil.Purge(µspec); µµrest }`), "overlay:purge-decided-per-spec", c.Pos(ov.Pos()), "whether a specification of a group is purged is decided afresh for each specification (the declaration's directive or its own), never carried over from an earlier one")
	r.Check(pat(ov, `if astutil.OverrideSignature(µd) { µoi.overrideSignature = µd; µpurge = true }`), "overlay:override-signature-removes-stub", c.Pos(ov.Pos()), "an override-signature stub is recorded and removed from the overlay")
	// original side
	r.Check(pat(og, `if µinfo.keepOriginal { µµa; µrm = false }`), "original:keep-original", c.Pos(og.Pos()), "keep-original renames instead of removing")
	r.Check(pat(og, `µd.Recv = µo.Recv`) && pat(og, `µd.Type.TypeParams = µo.Type.TypeParams`) && pat(og, `µd.Type.Params = µo.Type.Params`) && pat(og, `µd.Type.Results = µo.Type.Results`), "original:override-signature", c.Pos(og.Pos()), "override-signature copies receiver, type parameters, parameters and results onto the original body")
	r.Check(pat(og, `if µinfo, µok := µo[µk]; µok && µinfo.purgeMethods { µµa; µf.Decls[µi] = nil }`), "original:purged-type-methods", c.Pos(og.Pos()), "methods of a purged type are removed from the original")
	r.Check(pat(og, `if len(µs.Names) == len(µs.Values) { µµa } else { µµb }`) && pat(og, `µs.Names[µk] = nil; µs.Values[µk] = nil`), "original:multi-value", c.Pos(og.Pos()), "in `var a, b = x, y` an overridden name is removed together with its own value")
	r.Check(pat(og, "µn.Name = `_`") && pat(og, `if µall { µµa; µd.Specs[µj] = nil }`), "original:single-value", c.Pos(og.Pos()), "in `var a, b = f()` overridden names are blanked and the specification is removed only when every name is blank")
	// constant groups: a specification that later ones depend on (implicit repetition, iota) keeps its place
	{
		ok := false
		for _, m := range findGoPattern(og.Body, `if µd.Tok == token.CONST && µdep { µµbody }`) {
			if is, isIf := m.Node.(*ast.IfStmt); isIf && hasGoPattern(is.Body, "µn.Name = `_`") && len(nilStoresIn(is.Body)) == 0 {
				ok = true
			}
		}
		// the predicate that decides it looks at EVERY later specification of the group, not only the next one
		if ok {
			okAll := false
			for _, m := range findGoPattern(og.Body, `if µd.Tok == token.CONST && µp(µd, µj) { µµbody }`) {
				if pd := c.FuncDecl("build", m.Env["µp"]); pd != nil && pd.Body != nil {
					// a loop over the specifications after the index whose body never returns false / an
					// arbitrary value: only `return true` may leave the loop early
					ast.Inspect(pd.Body, func(n ast.Node) bool {
						rs, isRange := n.(*ast.RangeStmt)
						if !isRange || !strings.Contains(squash(exprStr(rs.X)), ".Specs[") {
							return true
						}
						early := 0
						ast.Inspect(rs.Body, func(x ast.Node) bool {
							if _, isLit := x.(*ast.FuncLit); isLit {
								return false
							}
							if ret, isRet := x.(*ast.ReturnStmt); isRet {
								if len(ret.Results) != 1 || exprStr(ret.Results[0]) != "true" {
									early++
								}
							}
							return true
						})
						okAll = early == 0
						return false
					})
				}
			}
			r.Check(okAll, "original:const-group-examines-all-later-specs", c.Pos(og.Pos()), "the test for position-dependent later constants walks all specifications after the overridden one (an iota run may follow an intervening plain specification); only a positive answer ends the walk early")
		}
		r.Check(ok, "original:const-group-keeps-positions", c.Pos(og.Pos()), "in a constant group whose later specifications repeat earlier expressions or use iota, an overridden constant is blanked, not removed (removal shifts iota and orphans the implicit repetitions)")
	}
}

func nilStoresIn(n ast.Node) []*ast.AssignStmt {
	var out []*ast.AssignStmt
	ast.Inspect(n, func(x ast.Node) bool {
		if as, ok := x.(*ast.AssignStmt); ok {
			for i, l := range as.Lhs {
				if _, isIx := l.(*ast.IndexExpr); isIx && i < len(as.Rhs) && exprStr(as.Rhs[i]) == "nil" {
					out = append(out, as)
				}
			}
		}
		return true
	})
	return out
}

// nilStores lists `X[...] = nil` statements in fd.
func nilStores(fd *ast.FuncDecl) []*ast.AssignStmt {
	var out []*ast.AssignStmt
	ast.Inspect(fd.Body, func(n ast.Node) bool {
		if as, ok := n.(*ast.AssignStmt); ok {
			for i, l := range as.Lhs {
				if _, isIx := l.(*ast.IndexExpr); isIx && i < len(as.Rhs) && exprStr(as.Rhs[i]) == "nil" {
					out = append(out, as)
					break
				}
			}
		}
		return true
	})
	return out
}

// subtreeStores lists assignments in fd that overwrite a field holding an AST subtree
// (static type declared in go/ast, or a pointer to / slice of such) with a non-nil value.
func subtreeStores(c *ctx.Ctx, fd *ast.FuncDecl) []*ast.AssignStmt {
	pkg := c.Pkg("build")
	if pkg == nil {
		return nil
	}
	isAST := func(t types.Type) bool {
		for {
			switch x := t.(type) {
			case *types.Pointer:
				t = x.Elem()
				continue
			case *types.Slice:
				t = x.Elem()
				continue
			case *types.Named:
				return x.Obj().Pkg() != nil && x.Obj().Pkg().Path() == "go/ast"
			}
			return false
		}
	}
	var out []*ast.AssignStmt
	ast.Inspect(fd.Body, func(n ast.Node) bool {
		as, ok := n.(*ast.AssignStmt)
		if !ok || as.Tok != token.ASSIGN {
			return true
		}
		for i, l := range as.Lhs {
			sel, isSel := l.(*ast.SelectorExpr)
			if !isSel || i >= len(as.Rhs) || exprStr(as.Rhs[i]) == "nil" {
				continue
			}
			// only stores into the file's tree: the selector chain is rooted at a variable holding an AST node
			var root ast.Expr = sel
			for {
				if s2, ok := root.(*ast.SelectorExpr); ok {
					root = s2.X
					continue
				}
				break
			}
			if rt := pkg.TypesInfo.TypeOf(root); rt == nil || !isAST(rt) {
				continue
			}
			if t := pkg.TypesInfo.TypeOf(sel); t != nil && isAST(t) {
				// squeezing a list in place (X = astutil.Squeeze(X)) is the clean-up itself
				if call, isCall := as.Rhs[i].(*ast.CallExpr); isCall && len(call.Args) == 1 && exprStr(call.Args[0]) == exprStr(l) {
					continue
				}
				out = append(out, as)
				break
			}
		}
		return true
	})
	return out
}

// flaggedBefore: walking outwards from the store, some enclosing statement list contains a direct
// `flag = true` statement (in the same list as an ancestor of the store).
func flagAccompanies(fd *ast.FuncDecl, store ast.Node, flag string) bool {
	found := false
	var lists [][]ast.Stmt
	ast.Inspect(fd.Body, func(n ast.Node) bool {
		if n == nil || !(n.Pos() <= store.Pos() && store.End() <= n.End()) {
			return n == fd.Body
		}
		switch x := n.(type) {
		case *ast.BlockStmt:
			lists = append(lists, x.List)
		case *ast.CaseClause:
			lists = append(lists, x.Body)
		}
		return true
	})
	for _, list := range lists {
		for _, st := range list {
			if as, ok := st.(*ast.AssignStmt); ok && len(as.Lhs) == 1 && exprStr(as.Lhs[0]) == flag && exprStr(as.Rhs[0]) == "true" {
				found = true
			}
		}
		// stop at the loop body boundary: only lists that are inside the outermost range statement count
	}
	return found
}

func ruleC12Finalize(c *ctx.Ctx, r *core.Reporter) {
	r.Begin("C12.finalize", "F-MUST", "every removal mark (nil store) is accompanied by setting the change flag, the flag leads to finalizeRemovals and pruneImports, and finalizeRemovals squeezes every list that can hold marks", 12)
	for _, name := range []string{"augmentOverlayFile", "augmentOriginalFile"} {
		fd := c.FuncDecl("build", name)
		if fd == nil {
			r.Undecided("finalize:"+name, "build/build.go", "not found")
			continue
		}
		// the change flag: the variable tested by the function's last statement, which runs the clean-up
		flag := ""
		file := ""
		if len(fd.Type.Params.List) > 0 && len(fd.Type.Params.List[0].Names) > 0 {
			file = fd.Type.Params.List[0].Names[0].Name
		}
		last := fd.Body.List[len(fd.Body.List)-1]
		for _, m := range findGoPattern(&ast.BlockStmt{List: []ast.Stmt{last}}, `if µflag { finalizeRemovals(µf); pruneImports(µf) }`) {
			if m.Env["µf"] == file {
				flag = m.Env["µflag"]
			}
		}
		r.Check(flag != "", "flag-finalizes:"+name, c.Pos(last.Pos()), name+" ends with `if <flag> { finalizeRemovals(file); pruneImports(file) }`")
		stores := nilStores(fd)
		for i, st := range stores {
			// the flag assignment must sit in a list enclosing the store but inside the function's top-level loop
			ok := flagAccompanies(fd, st, flag)
			r.Check(ok, fmt.Sprintf("mark-sets-flag:%s#%d:%s", name, i, squash(exprStr(st.Lhs[0]))), c.Pos(st.Pos()), fmt.Sprintf("%s = nil is accompanied by anyChange = true on its path (otherwise the nil entry survives into the type checker)", exprStr(st.Lhs[0])))
		}
		if len(stores) == 0 {
			r.Undecided("finalize:stores:"+name, c.Pos(fd.Pos()), "no removal marks found")
		}
		// replacing a subtree of the file (a receiver, parameter or result list, an expression) drops the
		// identifiers used in the old subtree just like a removal does, so it needs the same clean-up
		for i, st := range subtreeStores(c, fd) {
			ok := flagAccompanies(fd, st, flag)
			r.Check(ok, fmt.Sprintf("replace-sets-flag:%s#%d:%s", name, i, squash(exprStr(st.Lhs[0]))), c.Pos(st.Pos()), fmt.Sprintf("%s = … replaces a subtree of the file and is accompanied by anyChange = true on its path (otherwise an import used only in the old subtree is left behind)", exprStr(st.Lhs[0])))
		}
		// anyChange declared false at the top and never reset
		resets := 0
		ast.Inspect(fd.Body, func(n ast.Node) bool {
			if as, ok := n.(*ast.AssignStmt); ok && len(as.Lhs) == 1 && exprStr(as.Lhs[0]) == flag && exprStr(as.Rhs[0]) == "false" && as.Tok.String() == "=" {
				resets++
			}
			return true
		})
		r.Check(resets == 0, "flag-never-reset:"+name, c.Pos(fd.Pos()), "the change flag is never cleared once set")
	}
	// pruneImports marks and finalizes
	if pi := c.FuncDecl("build", "pruneImports"); pi != nil {
		stores := nilStores(pi)
		last := squash(nodeString(c, pi.Body.List[len(pi.Body.List)-1]))
		r.Check(len(stores) >= 2 && last == "finalizeRemovals(file)", "pruneImports:finalizes", c.Pos(pi.Pos()), fmt.Sprintf("pruneImports marks unused import specs and file.Imports entries (%d stores) and ends with finalizeRemovals(file)", len(stores)))
		// between the first nil store and the end there is no return
		first := stores[0].Pos()
		early := false
		ast.Inspect(pi.Body, func(n ast.Node) bool {
			if rs, ok := n.(*ast.ReturnStmt); ok && rs.Pos() > first {
				early = true
			}
			return true
		})
		r.Check(!early, "pruneImports:no-return-after-mark", c.Pos(pi.Pos()), "no return statement follows the first removal mark")
	}
	// comments: directives may stand alone (`//go:linkname a b` separated from any declaration). The list of
	// comments of a rewritten file must therefore be derived from the previous list, not only from the
	// comment groups still attached to declarations
	if fr := c.FuncDecl("build", "finalizeRemovals"); fr != nil {
		resets := findGoPattern(fr.Body, `µf.Comments = nil`)
		usesOld := false
		if len(resets) > 0 {
			ast.Inspect(fr.Body, func(n ast.Node) bool {
				if sel, ok := n.(*ast.SelectorExpr); ok && sel.Sel.Name == "Comments" && sel.Pos() < resets[0].Node.Pos() {
					usesOld = true
				}
				return true
			})
		}
		r.Check(len(resets) == 0 || usesOld, "comments:floating-directives-kept", c.Pos(fr.Pos()), "finalizeRemovals rebuilds file.Comments without consulting the previous list: a free-standing directive comment of a rewritten file is lost")
	}
	// finalizeRemovals squeezes Decls, Specs, Names, Values, Imports
	if fr := c.FuncDecl("build", "finalizeRemovals"); fr != nil {
		s := squash(nodeString(c, fr.Body))
		for _, lst := range []string{"file.Decls", "d.Specs", "s.Names", "s.Values", "file.Imports"} {
			r.Check(strings.Contains(s, lst+"=astutil.Squeeze("+lst+")"), "squeeze:"+lst, c.Pos(fr.Pos()), "finalizeRemovals squeezes "+lst)
		}
		// a value spec whose names all vanished is removed, a GenDecl without specs is removed
		r.Check(strings.Contains(s, "iflen(s.Names)==0{declChanged=trued.Specs[j]=nil}"), "squeeze:empty-spec-removed", c.Pos(fr.Pos()), "a specification without remaining names is removed")
		r.Check(strings.Contains(s, "iflen(d.Specs)==0{fileChanged=truefile.Decls[i]=nil}"), "squeeze:empty-decl-removed", c.Pos(fr.Pos()), "a declaration group without remaining specifications is removed")
		// Imports squeezed unconditionally
		r.Check(strings.Contains(s, "}file.Imports=astutil.Squeeze(file.Imports)"), "squeeze:imports-unconditional", c.Pos(fr.Pos()), "file.Imports is squeezed on every call (pruneImports relies on it)")
	}
}

func ruleC12Imports(c *ctx.Ctx, r *core.Reporter) {
	r.Begin("C12.imports", "F-MUST", "import pruning never considers blank or dot imports and keeps directive-bearing unsafe/embed imports", 5)
	in := c.FuncDecl("compiler/astutil", "ImportName")
	if in == nil {
		r.Undecided("ImportName", "compiler/astutil", "not found")
	} else {
		ainfo := c.Pkg("compiler/astutil").TypesInfo
		ok := false
		ast.Inspect(in.Body, func(n ast.Node) bool {
			cc, isCC := n.(*ast.CaseClause)
			if !isCC {
				return true
			}
			labs := map[string]bool{}
			for _, l := range cc.List {
				if tv, has := ainfo.Types[l]; has && tv.Value != nil {
					labs[constant.StringVal(tv.Value)] = true
				}
			}
			if labs["_"] && labs["."] {
				for _, st := range cc.Body {
					if rs, isRet := st.(*ast.ReturnStmt); isRet && len(rs.Results) == 1 {
						if tv, has := ainfo.Types[rs.Results[0]]; has && tv.Value != nil && constant.StringVal(tv.Value) == "" {
							ok = true
						}
					}
				}
			}
			return true
		})
		r.Check(ok, "ImportName:blank-dot-empty", c.Pos(in.Pos()), "ImportName returns \"\" for blank and dot imports, so they are never candidates for pruning")
	}
	pi := c.FuncDecl("build", "pruneImports")
	if pi == nil {
		r.Undecided("pruneImports", "build/build.go", "not found")
		return
	}
	s := squash(nodeString(c, pi.Body))
	candMap := ""
	for _, m := range findGoPattern(pi.Body, `for µi, µin := range µf.Imports { if µname := astutil.ImportName(µin); len(µname) > 0 { µmap[µname] = µi } }`) {
		candMap = m.Env["µmap"]
	}
	r.Check(candMap != "", "prune:candidates-named-only", c.Pos(pi.Pos()), "only imports with a usable name are candidates")
	r.Check(func() bool {
		for _, m := range findGoPattern(pi.Body, `if µsel, µok := µn.(*ast.SelectorExpr); µok { if µid, µok2 := µsel.X.(*ast.Ident); µok2 && µid.Obj == nil { delete(µmap, µid.Name) } }`) {
			if m.Env["µmap"] == candMap {
				return true
			}
		}
		return false
	}(), "prune:used-by-selector", c.Pos(pi.Pos()), "an import is used if some selector expression has its name as (unresolved) qualifier")
	// directive imports
	got := map[string]string{}
	binfo := c.Pkg("build").TypesInfo
	ast.Inspect(pi.Body, func(n ast.Node) bool {
		if kv, ok := n.(*ast.KeyValueExpr); ok {
			k, ok1 := binfo.Types[kv.Key]
			v, ok2 := binfo.Types[kv.Value]
			if ok1 && ok2 && k.Value != nil && v.Value != nil && k.Value.Kind() == constant.String && v.Value.Kind() == constant.String {
				got[constant.StringVal(k.Value)] = constant.StringVal(v.Value)
			}
		}
		return true
	})
	r.Check(got["unsafe"] == "//go:linkname " && got["embed"] == "//go:embed ", "prune:directive-imports", c.Pos(pi.Pos()), fmt.Sprintf("unsafe is kept (as _) when the file has a //go:linkname directive, embed when it has //go:embed (table: %v)", got))
	r.Check(func() bool {
		for _, m := range findGoPattern(pi.Body, "µin.Name = ast.NewIdent(`_`); delete(µmap, µname)") {
			if m.Env["µmap"] == candMap {
				return true
			}
		}
		return false
	}(), "prune:directive-import-blanked", c.Pos(pi.Pos()), "a directive-only import is turned into a blank import instead of being removed")
	// the all-imports wipe happens only for files without any other declaration and without linkname directives
	r.Check(strings.Contains(s, "ifisOnlyImports(file)&&!astutil.HasDirectivePrefix(file,`//go:linkname`)") || strings.Contains(s, "ifisOnlyImports(file)&&!astutil.HasDirectivePrefix(file,`//go:linkname`){file.Imports=nilfile.Decls=nilreturn}"), "prune:empty-file-only", c.Pos(pi.Pos()), "all imports (including blank and dot) are dropped only from a file that has nothing but imports and no linkname directive")
}

func ruleC12Call(c *ctx.Ctx, r *core.Reporter) {
	r.Begin("C12.call", "F-MUST", "overlay files are all scanned before any original is rewritten; init is never an override; the sync→nosync substitution applies to the listed packages only", 5)
	pa := c.FuncDecl("build", "parseAndAugment")
	if pa == nil {
		r.Undecided("parseAndAugment", "build/build.go", "not found")
		return
	}
	info := c.Pkg("build").TypesInfo
	order := callOrder(info, pa, []string{"augmentOverlayFile", "augmentOriginalImports", "augmentOriginalFile"})
	a, ok1 := order["augmentOverlayFile"]
	b, ok2 := order["augmentOriginalFile"]
	r.Check(ok1 && ok2 && a < b, "call:overlay-scan-first", c.Pos(pa.Pos()), "every overlay file is scanned (its own top-level loop) before the loop that rewrites original files")
	// delete(overrides, "init") between
	iDel := -1
	for i, st := range pa.Body.List {
		if squash(nodeString(c, st)) == `delete(overrides,"init")` {
			iDel = i
		}
	}
	r.Check(iDel > a && iDel < b, "call:init-not-overridden", c.Pos(pa.Pos()), "`init` is removed from the override table before originals are rewritten (both the overlay's and the original's init functions run)")
	// result: overlay files then original files
	last := squash(nodeString(c, pa.Body.List[len(pa.Body.List)-1]))
	r.Check(strings.Contains(last, "returnappend(overlayFiles,originalFiles...),jsFiles,nil"), "call:result-order", c.Pos(pa.Pos()), "the merged package is the overlay files followed by the rewritten original files")
	// nosync substitution list
	if ai := c.FuncDecl("build", "augmentOriginalImports"); ai != nil {
		var pkgs []string
		ast.Inspect(ai.Body, func(n ast.Node) bool {
			if cc, ok := n.(*ast.CaseClause); ok {
				for _, l := range cc.List {
					if tv, ok := info.Types[l]; ok && tv.Value != nil {
						pkgs = append(pkgs, constant.StringVal(tv.Value))
					}
				}
			}
			return true
		})
		sort.Strings(pkgs)
		want := []string{"crypto/rand", "encoding/gob", "encoding/json", "expvar", "go/token", "log", "math/big", "math/rand", "regexp", "time"}
		r.Check(strings.Join(pkgs, ",") == strings.Join(want, ","), "nosync:package-list", c.Pos(ai.Pos()), fmt.Sprintf("sync is replaced by nosync in %v (reviewed list %v)", pkgs, want))
		s := squash(nodeString(c, ai.Body))
		r.Check(strings.Contains(s, `ifpath=="sync"{ifspec.Name==nil{spec.Name=ast.NewIdent("sync")}spec.Path.Value=`+"`"+`"github.com/gopherjs/gopherjs/nosync"`+"`"+`}`), "nosync:keeps-name", c.Pos(ai.Pos()), "only the import path changes; the package keeps the local name sync so that the code is untouched")
	}
}
