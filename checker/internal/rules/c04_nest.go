package rules

import (
	"fmt"
	"go/ast"
	"go/types"
	"sort"
	"strings"

	"verif/checker/internal/core"
	"verif/checker/internal/ctx"
)

// C04.nest: types declared inside a generic function are a different type in every instantiation of
// that function, although nothing in their go/types representation says so. Two consequences are
// checked where they are visible in the code.
func ruleC04Nest(c *ctx.Ctx, r *core.Reporter) {
	r.Begin("C04.nest", "F-KEY", "function-local types of generic functions: (anon) typeName does not share an anonymous composite type that mentions such a type through its package-level cache, whose key is the go/types type alone; (canon) a type substituted by one Resolver is identical to the same type substituted by another Resolver of the same instance, since instances are looked up by type identity in sets filled by different resolvers", 2)
	// ---- (anon) every path of typeName that reaches the anonymous-type cache has excluded nest-dependent types
	tn := c.FuncDecl("compiler", "funcContext.typeName")
	if tn == nil {
		r.Undecided("anon:cache", "compiler/utils.go", "funcContext.typeName not found")
	} else {
		info := c.Pkg("compiler").TypesInfo
		var cachePos ast.Node
		ast.Inspect(tn.Body, func(n ast.Node) bool {
			if call, ok := n.(*ast.CallExpr); ok && cachePos == nil {
				if sel, ok := call.Fun.(*ast.SelectorExpr); ok && (sel.Sel.Name == "At" || sel.Sel.Name == "Set") && strings.HasSuffix(exprStr(sel.X), "anonTypeMap") {
					cachePos = call
				}
			}
			return true
		})
		if cachePos == nil {
			r.Undecided("anon:cache", c.Pos(tn.Pos()), "anonymous-type cache not found in typeName")
		} else {
			excluded, how := false, "no early return for types that depend on the type arguments of an enclosing generic function precedes the cache"
			for _, st := range tn.Body.List {
				if st.Pos() >= cachePos.Pos() {
					break
				}
				is, ok := st.(*ast.IfStmt)
				if !ok || len(is.Body.List) == 0 {
					continue
				}
				if _, isRet := is.Body.List[len(is.Body.List)-1].(*ast.ReturnStmt); !isRet {
					continue
				}
				// the guard calls a predicate that (transitively, inside package compiler) consults FindNestingFunc
				ast.Inspect(is.Cond, func(n ast.Node) bool {
					if call, ok := n.(*ast.CallExpr); ok {
						if reachesCallee(c, info, call, "FindNestingFunc", 3) {
							excluded, how = true, "guard `"+exprStr(is.Cond)+"` consults FindNestingFunc"
						}
					}
					return true
				})
			}
			r.Check(excluded, "anon:nest-dependent-not-cached", c.Pos(cachePos.Pos()), "the package-level cache of anonymous types is keyed by the go/types type only, so a type such as []slot with slot declared in a generic function must not go through it ("+how+")")
		}
	}
	// ---- (canon)
	substPkg := c.Pkg("internal/govendor/subst")
	if substPkg == nil {
		r.Undecided("canon:subst", "internal/govendor/subst", "package not loaded")
		return
	}
	var mints []string
	for _, fd := range c.AllFuncDecls("internal/govendor/subst") {
		if fd.Body == nil || c.IsTestFile(fd.Pos()) {
			continue
		}
		ast.Inspect(fd.Body, func(n ast.Node) bool {
			if call, ok := n.(*ast.CallExpr); ok {
				if pkg, _, name := callee(substPkg.TypesInfo, call); pkg == "go/types" && name == "NewNamed" {
					mints = append(mints, ctx.FuncName(fd)+" ("+c.Pos(call.Pos())+")")
				}
			}
			return true
		})
	}
	// is the substituter (and with it its cache of minted types) created per Resolver?
	perResolver := false
	if nr := c.FuncDecl("compiler/internal/typeparams", "NewResolver"); nr != nil {
		ast.Inspect(nr.Body, func(n ast.Node) bool {
			if call, ok := n.(*ast.CallExpr); ok {
				if pkg, _, name := callee(c.Pkg("compiler/internal/typeparams").TypesInfo, call); strings.HasSuffix(pkg, "internal/govendor/subst") && name == "New" {
					perResolver = true
				}
			}
			return true
		})
	}
	// who creates resolvers?
	creators := map[string]bool{}
	for _, rel := range []string{"compiler", "compiler/internal/typeparams", "compiler/internal/analysis"} {
		p := c.Pkg(rel)
		if p == nil {
			continue
		}
		for _, fd := range c.AllFuncDecls(rel) {
			if fd.Body == nil || c.IsTestFile(fd.Pos()) {
				continue
			}
			ast.Inspect(fd.Body, func(n ast.Node) bool {
				if call, ok := n.(*ast.CallExpr); ok {
					if pkg, _, name := callee(p.TypesInfo, call); strings.HasSuffix(pkg, "compiler/internal/typeparams") && name == "NewResolver" {
						creators[rel] = true
					}
				}
				return true
			})
		}
	}
	var cs []string
	for k := range creators {
		cs = append(cs, k)
	}
	sort.Strings(cs)
	bad := len(mints) > 0 && perResolver && len(cs) > 1
	r.Check(!bad, "canon:local-named-per-resolver", "internal/govendor/subst/subst.go", fmt.Sprintf("substitution mints new named types for function-local types (%s); the substituter is created per Resolver (%v) and Resolvers are created independently in %v: the same local type of the same instance is represented by non-identical types in the collector, the analysis and the translator, so an instance that has such a type among its type arguments is not found again", strings.Join(mints, ", "), perResolver, cs))
}

// reachesCallee: call's callee is name, or is a function of package compiler whose body calls (within depth) name.
func reachesCallee(c *ctx.Ctx, info *types.Info, call *ast.CallExpr, name string, depth int) bool {
	_, recv, n := callee(info, call)
	if n == name {
		return true
	}
	if depth == 0 {
		return false
	}
	key := n
	if recv != "" && recv != "?" {
		key = recv + "." + n
	}
	fd := c.FuncDecl("compiler", key)
	if fd == nil || fd.Body == nil {
		return false
	}
	found := false
	ast.Inspect(fd.Body, func(x ast.Node) bool {
		if inner, ok := x.(*ast.CallExpr); ok && !found {
			if reachesCallee(c, info, inner, name, depth-1) {
				found = true
			}
		}
		return true
	})
	return found
}
