package rules

import (
	"fmt"
	"go/ast"
	"go/types"
	"sort"
	"strings"

	"verif/checker/internal/core"
	"verif/checker/internal/ctx"
)

// C04.nest: types declared inside a generic function are a different type in every instantiation of
// that function, although nothing in their go/types representation says so. Two consequences are
// checked where they are visible in the code.
func ruleC04Nest(c *ctx.Ctx, r *core.Reporter) {
	r.Begin("C04.nest", "F-KEY", "function-local types of generic functions: (anon) typeName does not share an anonymous composite type that mentions such a type through its package-level cache, whose key is the go/types type alone; (canon) a type substituted by one Resolver is identical to the same type substituted by another Resolver of the same instance, since instances are looked up by type identity in sets filled by different resolvers", 2)
	// ---- (anon) every path of typeName that reaches the anonymous-type cache has excluded nest-dependent types
	tn := c.FuncDecl("compiler", "funcContext.typeName")
	if tn == nil {
		r.Undecided("anon:cache", "compiler/utils.go", "funcContext.typeName not found")
	} else {
		info := c.Pkg("compiler").TypesInfo
		var cachePos ast.Node
		ast.Inspect(tn.Body, func(n ast.Node) bool {
			if call, ok := n.(*ast.CallExpr); ok && cachePos == nil {
				if sel, ok := call.Fun.(*ast.SelectorExpr); ok && (sel.Sel.Name == "At" || sel.Sel.Name == "Set") && strings.HasSuffix(exprStr(sel.X), "anonTypeMap") {
					cachePos = call
				}
			}
			return true
		})
		if cachePos == nil {
			r.Undecided("anon:cache", c.Pos(tn.Pos()), "anonymous-type cache not found in typeName")
		} else {
			excluded, how := false, "no early return for types that depend on the type arguments of an enclosing generic function precedes the cache"
			for _, st := range tn.Body.List {
				if st.Pos() >= cachePos.Pos() {
					break
				}
				is, ok := st.(*ast.IfStmt)
				if !ok || len(is.Body.List) == 0 {
					continue
				}
				if _, isRet := is.Body.List[len(is.Body.List)-1].(*ast.ReturnStmt); !isRet {
					continue
				}
				// the guard calls a predicate that (transitively, inside package compiler) consults FindNestingFunc
				ast.Inspect(is.Cond, func(n ast.Node) bool {
					if call, ok := n.(*ast.CallExpr); ok {
						if reachesCallee(c, info, call, "FindNestingFunc", 3) {
							excluded, how = true, "guard `"+exprStr(is.Cond)+"` consults FindNestingFunc"
						}
					}
					return true
				})
			}
			r.Check(excluded, "anon:nest-dependent-not-cached", c.Pos(cachePos.Pos()), "the package-level cache of anonymous types is keyed by the go/types type only, so a type such as []slot with slot declared in a generic function must not go through it ("+how+")")
		}
	}
	// ---- (canon)
	substPkg := c.Pkg("internal/govendor/subst")
	if substPkg == nil {
		r.Undecided("canon:subst", "internal/govendor/subst", "package not loaded")
		return
	}
	var mints []string
	for _, fd := range c.AllFuncDecls("internal/govendor/subst") {
		if fd.Body == nil || c.IsTestFile(fd.Pos()) {
			continue
		}
		ast.Inspect(fd.Body, func(n ast.Node) bool {
			if call, ok := n.(*ast.CallExpr); ok {
				if pkg, _, name := callee(substPkg.TypesInfo, call); pkg == "go/types" && name == "NewNamed" {
					mints = append(mints, ctx.FuncName(fd)+" ("+c.Pos(call.Pos())+")")
				}
			}
			return true
		})
	}
	// is the substituter (and with it its cache of minted types) created per Resolver?
	perResolver := false
	if nr := c.FuncDecl("compiler/internal/typeparams", "NewResolver"); nr != nil {
		ast.Inspect(nr.Body, func(n ast.Node) bool {
			if call, ok := n.(*ast.CallExpr); ok {
				if pkg, _, name := callee(c.Pkg("compiler/internal/typeparams").TypesInfo, call); strings.HasSuffix(pkg, "internal/govendor/subst") && name == "New" {
					perResolver = true
				}
			}
			return true
		})
	}
	// who creates resolvers?
	creators := map[string]bool{}
	for _, rel := range []string{"compiler", "compiler/internal/typeparams", "compiler/internal/analysis"} {
		p := c.Pkg(rel)
		if p == nil {
			continue
		}
		for _, fd := range c.AllFuncDecls(rel) {
			if fd.Body == nil || c.IsTestFile(fd.Pos()) {
				continue
			}
			ast.Inspect(fd.Body, func(n ast.Node) bool {
				if call, ok := n.(*ast.CallExpr); ok {
					if pkg, _, name := callee(p.TypesInfo, call); strings.HasSuffix(pkg, "compiler/internal/typeparams") && name == "NewResolver" {
						creators[rel] = true
					}
				}
				return true
			})
		}
	}
	var cs []string
	for k := range creators {
		cs = append(cs, k)
	}
	sort.Strings(cs)
	bad := len(mints) > 0 && perResolver && len(cs) > 1
	r.Check(!bad, "canon:local-named-per-resolver", "internal/govendor/subst/subst.go", fmt.Sprintf("substitution mints new named types for function-local types (%s); the substituter is created per Resolver (%v) and Resolvers are created independently in %v: the same local type of the same instance is represented by non-identical types in the collector, the analysis and the translator, so an instance that has such a type among its type arguments is not found again", strings.Join(mints, ", "), perResolver, cs))
}

// reachesCallee: call's callee is name, or is a function of package compiler whose body calls (within depth) name.
func reachesCallee(c *ctx.Ctx, info *types.Info, call *ast.CallExpr, name string, depth int) bool {
	_, recv, n := callee(info, call)
	if n == name {
		return true
	}
	if depth == 0 {
		return false
	}
	key := n
	if recv != "" && recv != "?" {
		key = recv + "." + n
	}
	fd := c.FuncDecl("compiler", key)
	if fd == nil || fd.Body == nil {
		return false
	}
	found := false
	ast.Inspect(fd.Body, func(x ast.Node) bool {
		if inner, ok := x.(*ast.CallExpr); ok && !found {
			if reachesCallee(c, info, inner, name, depth-1) {
				found = true
			}
		}
		return true
	})
	return found
}

// ruleC04SubstAttrs: substitution rebuilds composite types from their substituted components. Every
// attribute of the original that is not a component — channel direction, array length, variadicity,
// the embedded flag of a field, the tilde of a union term, struct tags — has to be carried over from the
// original, otherwise the instance has a different type than the one go/types computed.
func ruleC04SubstAttrs(c *ctx.Ctx, r *core.Reporter) {
	r.Begin("C04.subst-attrs", "F-SIB", "every go/types constructor call in the substitution takes the non-component attributes (direction, length, variadic, embedded, tilde, tags) from the type being substituted", 6)
	p := c.Pkg("internal/govendor/subst")
	if p == nil {
		r.Undecided("package", "internal/govendor/subst", "not loaded")
		return
	}
	table := map[string]struct {
		arg  int
		attr string
	}{
		"NewChan":          {0, "Dir"},
		"NewArray":         {1, "Len"},
		"NewSignatureType": {5, "Variadic"},
		"NewField":         {4, "Embedded"},
		"NewTerm":          {0, "Tilde"},
	}
	seen := map[string]int{}
	for _, fd := range c.AllFuncDecls("internal/govendor/subst") {
		if fd.Body == nil || c.IsTestFile(fd.Pos()) {
			continue
		}
		ast.Inspect(fd.Body, func(n ast.Node) bool {
			call, ok := n.(*ast.CallExpr)
			if !ok {
				return true
			}
			pkg, _, name := callee(p.TypesInfo, call)
			if pkg != "go/types" {
				return true
			}
			if want, ok := table[name]; ok && want.arg < len(call.Args) {
				seen[name]++
				good := false
				if ac, ok := ast.Unparen(call.Args[want.arg]).(*ast.CallExpr); ok && len(ac.Args) == 0 {
					if sel, ok := ac.Fun.(*ast.SelectorExpr); ok && sel.Sel.Name == want.attr {
						good = true
					}
				}
				r.Check(good, fmt.Sprintf("attr:%s.%s@%s#%d", name, want.attr, ctx.FuncName(fd), seen[name]), c.Pos(call.Pos()), fmt.Sprintf("types.%s receives the original's %s() (argument: `%s`)", name, want.attr, exprStr(call.Args[want.arg])))
			}
			if name == "NewStruct" && len(call.Args) == 2 {
				seen[name]++
				// the tags slice is filled from <orig>.Tag(i)
				tagsVar := exprStr(call.Args[1])
				filled := false
				ast.Inspect(fd.Body, func(m ast.Node) bool {
					if as, ok := m.(*ast.AssignStmt); ok && len(as.Lhs) == 1 && len(as.Rhs) == 1 {
						if ix, ok := as.Lhs[0].(*ast.IndexExpr); ok && exprStr(ix.X) == tagsVar {
							if rc, ok := as.Rhs[0].(*ast.CallExpr); ok {
								if sel, ok := rc.Fun.(*ast.SelectorExpr); ok && sel.Sel.Name == "Tag" {
									filled = true
								}
							}
						}
					}
					return true
				})
				r.Check(filled, "attr:NewStruct.Tag@"+ctx.FuncName(fd), c.Pos(call.Pos()), "types.NewStruct receives tags copied from the original's Tag(i)")
			}
			return true
		})
	}
	for name := range table {
		r.Check(seen[name] >= 1, "attr:"+name+":present", "internal/govendor/subst/subst.go", fmt.Sprintf("types.%s is used by the substitution (%d call(s))", name, seen[name]))
	}
}
