package rules

import (
	"fmt"
	"go/ast"
	"go/token"
	"go/types"
	"strings"

	"verif/checker/internal/core"
	"verif/checker/internal/ctx"
	"verif/checker/internal/tmpl"
)

func init() {
	register(&Property{
		ID:          "C16",
		Explanation: "Decided: (names) the short-name allocator records every name it hands out in the scope's table before returning, tests candidates against that table, package-level names are propagated to every enclosing scope and nested scopes start from a copy of their parent's table, which is seeded with every reserved word; reservedKeywords contains the ECMAScript reserved words and the names the generated code depends on; (space) the whitespace remover keeps a separator exactly where two identifier-class bytes (evaluated over all 256 byte values) or two minus signs would otherwise touch, copies string literals and source-map hints verbatim; (lex) the template corpus contains none of the token shapes the remover does not understand (line comments, single-quoted/template strings, punctuator pairs separated only by a blank that would merge into another token, comment terminators inside generated comments); every code field of a Decl is minified. NOT decided: behavioural equivalence of minified output; esbuild's minification of the prelude.",
		Assumptions: []string{"esbuild's minifier preserves the behaviour of the prelude and .inc.js files"},
		Rules:       []RuleFunc{ruleC16Names, ruleC16Space, ruleC16Lex, ruleL8, ruleL9, ruleC16WriteJS, ruleKeepNames, ruleStatementTemplatesTerminated},
	})
}

var ecmaReserved = strings.Fields(`break case catch class const continue debugger default delete do else enum export extends false finally for function if implements import in instanceof interface let new null package private protected public return static super switch this throw true try typeof var void while with yield await arguments eval undefined`)

func ruleC16Names(c *ctx.Ctx, r *core.Reporter) {
	r.Begin("C16.names", "F-KEY", "a name handed out by the variable allocator is recorded before it is returned, candidates are tested against the recorded names, nested scopes inherit their parent's names, and the root scope is seeded with every reserved word", 50)
	nv := c.FuncDecl("compiler", "funcContext.newVariable")
	if nv == nil {
		r.Undecided("newVariable", "compiler/utils.go", "not found")
		return
	}
	pat := func(n ast.Node, p string) bool { return hasGoPattern(n, p) }
	// minify loop tests allVars: candidates are generated until one is unused
	r.Check(pat(nv.Body, `if µfc.pkgCtx.minify { µµa }`) && pat(nv.Body, `for { µµa; if µfc.allVars[µname] == 0 { break }; µi++ }`), "minify:fresh-against-allVars", c.Pos(nv.Pos()), "under minification candidate short names are generated until one is unused in fc.allVars")
	// record before return: n := allVars[name]; allVars[name] = n + 1 precedes every return
	rec := findGoPattern(nv.Body, `µn := µfc.allVars[µname]; µfc.allVars[µname] = µn + 1`)
	firstRet := token.NoPos
	ast.Inspect(nv.Body, func(n ast.Node) bool {
		if _, isLit := n.(*ast.FuncLit); isLit {
			return false
		}
		if rs, ok := n.(*ast.ReturnStmt); ok && firstRet == token.NoPos {
			firstRet = rs.Pos()
		}
		return true
	})
	r.Check(len(rec) == 1 && firstRet > rec[0].Node.Pos() && len(enclosingIfs(nv.Body, rec[0].Node.Pos())) == 0, "record-before-return", c.Pos(nv.Pos()), "the use count of the chosen name is incremented in fc.allVars, unconditionally, before any return")
	r.Check(pat(nv.Body, `if µn > 0 { µv = fmt.Sprintf("%s$%d", µname, µn) }`), "collision-suffix", c.Pos(nv.Pos()), "a name that is already in use gets a numeric suffix that cannot clash with another allocated name ($ is not produced by encodeIdent for plain identifiers)")
	r.Check(pat(nv.Body, `if µp { for µc := µfc.parent; µc != nil; µc = µc.parent { µc.allVars[µname] = µn + 1 }; return µv }`), "pkg-level-propagated", c.Pos(nv.Pos()), "a package-level name is recorded in every enclosing scope, so no function-level variable can take it")
	// the two alphabets differ for package level vs local (A.. vs a..), so they cannot collide
	r.Check(pat(nv.Body, `µo := int('a'); if µp { µo = int('A') }`), "minify:disjoint-alphabets", c.Pos(nv.Pos()), "minified package-level names use upper-case letters, local names lower-case letters")
	if nf := c.FuncDecl("compiler", "funcContext.nestedFunctionContext"); nf != nil {
		r.Check(pat(nf.Body, `for µk, µv := range µfc.allVars { µc.allVars[µk] = µv }`), "nested-inherits", c.Pos(nf.Pos()), "a nested function scope starts with a copy of its parent's name table (closures can see the parent's variables)")
	}
	if rc := c.FuncDecl("compiler", "newRootCtx"); rc != nil {
		ms := findGoPattern(rc.Body, `for µname := range reservedKeywords { µctx.allVars[µname] = 1 }`)
		r.Check(len(ms) == 1 && len(enclosingIfs(rc.Body, ms[0].Node.Pos())) == 0, "root-seeded-with-reserved", c.Pos(rc.Pos()), "the package scope marks every reserved word as taken — in every build mode: the short names of a minified build (do, if, in, …) are tested against this table")
	}
	kw, why := reservedKeywordSet(c)
	if kw == nil {
		r.Undecided("reservedKeywords", "compiler/compiler.go", why)
		return
	}
	for _, w := range ecmaReserved {
		r.Check(kw[w], "reserved:"+w, "compiler/compiler.go:init", "ECMAScript reserved word / restricted identifier "+w+" is in reservedKeywords (a Go identifier of that spelling is renamed, a minified name of that spelling is skipped)")
	}
	// the two-letter names the allocator can produce (`do`, `if`, `in`) are covered above; sanitizeName consults the table
	if sn := c.FuncDecl("compiler", "sanitizeName"); sn != nil {
		r.Check(hasGoPattern(sn.Body, `if reservedKeywords[µname] { µname += "$" }`), "sanitizeName", c.Pos(sn.Pos()), "labels and method names that are reserved get a $ suffix")
	}
}

func ruleC16Space(c *ctx.Ctx, r *core.Reporter) {
	r.Begin("C16.space", "F-CLASS", "needsSpace holds for every byte that can be part of a JavaScript identifier, keyword or number and for the hint magic; removeWhitespace drops a blank only when one neighbour is outside that class and the neighbours are not two minus signs; strings and hints are copied verbatim", 70)
	ns := c.FuncDecl("compiler", "needsSpace")
	if ns == nil {
		r.Undecided("needsSpace", "compiler/utils.go", "not found")
		return
	}
	info := c.Pkg("compiler").TypesInfo
	param := ns.Type.Params.List[0].Names[0].Name
	if _, ok := evalBytePredBody(info, ns.Body.List, param, 'a'); !ok {
		r.Undecided("needsSpace:shape", c.Pos(ns.Pos()), "the predicate is not made of returns, ifs and switches over comparisons of its parameter with constants")
		return
	}
	for b := int64(0); b < 256; b++ {
		must := (b >= 'a' && b <= 'z') || (b >= 'A' && b <= 'Z') || (b >= '0' && b <= '9') || b == '_' || b == '$' || b == 8 || b >= 0x80 // bytes of non-ASCII identifier characters (labels keep their Go spelling)
		if !must {
			continue
		}
		v, ok := evalBytePredBody(info, ns.Body.List, param, b)
		if !ok {
			r.Undecided(fmt.Sprintf("needsSpace:0x%02X", b), c.Pos(ns.Pos()), "cannot evaluate the predicate")
			return
		}
		r.Check(v, fmt.Sprintf("needsSpace:0x%02X", b), c.Pos(ns.Pos()), fmt.Sprintf("byte %q is identifier-class (or the hint magic): two such bytes must stay separated", rune(b)))
	}
	rw := c.FuncDecl("compiler", "removeWhitespace")
	if rw == nil {
		r.Undecided("removeWhitespace", "compiler/utils.go", "not found")
		return
	}
	s := squash(nodeString(c, rw.Body))
	r.Check(hasGoPattern(rw.Body, `if (!needsSpace(µp) || !needsSpace(µb[1])) && !(µp == '-' && µb[1] == '-') { µb = µb[1:]; continue }`), "drop-condition", c.Pos(rw.Pos()), "a blank is dropped only if one neighbour is not identifier-class and the neighbours are not `-` `-` (which would become a decrement)")
	r.Check(strings.Contains(s, "if!minify{returnb}"), "noop-without-minify", c.Pos(rw.Pos()), "without minification the code is returned unchanged")
	if arm := armOf(rw, `'"'`); arm != nil {
		t := squash(nodeString(c, arm))
		r.Check(strings.Contains(t, `bytes.IndexAny(b,"\"\\")`) && strings.Contains(t, "out=append(out,b[:2]...)b=b[2:]"), "strings-verbatim", c.Pos(arm.Pos()), "string literals are copied up to the closing quote, an escape sequence is copied as a unit (so an escaped quote does not end the literal)")
	} else {
		r.Violation("strings-verbatim", c.Pos(rw.Pos()), "no arm for string literals")
	}
	if arm := armOf(rw, `'/'`); arm != nil {
		t := squash(nodeString(c, arm))
		r.Check(strings.Contains(t, "ifb[1]=='*'{i:=bytes.Index(b[2:],[]byte(\"*/\"))b=b[i+4:]continue}"), "comments-removed", c.Pos(arm.Pos()), "a /* */ comment is removed up to its first terminator")
	}
	checkPreviousIsCodeByte(c, r, rw)
	// writeF minifies program-level text, Decl.minify the per-decl code (C01.assembly checks field coverage)
	if wf := c.FuncDecl("compiler", "writeF"); wf != nil {
		r.Check(strings.Contains(squash(nodeString(c, wf.Body)), "removeWhitespace([]byte(fmt.Sprintf(format,args...)),minify)"), "writeF-minifies", c.Pos(wf.Pos()), "program-level text goes through the same remover")
	}
}

var jsLongPuncts = []string{">>>=", "...", "===", "!==", "**=", "<<=", ">>=", ">>>", "&&=", "||=", "??=", "=>", "==", "!=", "<=", ">=", "&&", "||", "??", "?.", "++", "--", "+=", "-=", "*=", "/=", "%=", "&=", "|=", "^=", "<<", ">>", "**", "//", "/*", "*/"}

// mergesToLonger: do the two punctuators, written without the blank, lex differently?
func mergesToLonger(a, b string) string {
	j := a + b
	for _, p := range jsLongPuncts {
		if len(p) > len(a) && strings.HasPrefix(j, p) && strings.HasPrefix(p, a) {
			return p
		}
	}
	// a's tail + b's head forming a longer token at the junction
	for _, p := range jsLongPuncts {
		for k := 1; k < len(p); k++ {
			if strings.HasSuffix(a, p[:k]) && strings.HasPrefix(b, p[k:]) && len(p) > 1 {
				if !(len(a) >= len(p)) {
					_ = k
				}
				// only relevant if p is not already a token boundary of a (e.g. a="=" b="=" -> "==")
				if a[len(a)-k:] == p[:k] && b[:len(p)-k] == p[k:] {
					return p
				}
			}
		}
	}
	return ""
}

func ruleC16Lex(c *ctx.Ctx, r *core.Reporter) {
	r.Begin("C16.lex", "F-LEX", "no template contains a token shape the whitespace remover mishandles: line comments, non-double-quoted strings, two punctuators separated only by blanks whose concatenation is a different token (other than `-` `-`), or a comment terminator inside a generated comment", 300)
	n, pairs := 0, 0
	for _, t := range usableTemplates(c) {
		if t.Role != tmpl.RoleSink || t.Func == "encodeString" {
			continue
		}
		n++
		var probs []string
		toks := t.Tokens
		for i, tk := range toks {
			if tk.Kind == tmpl.TErr && (strings.Contains(tk.Err, "line comment") || strings.Contains(tk.Err, "non double-quoted")) {
				probs = append(probs, tk.Err+" "+tk.Text)
			}
			if i == 0 || !tk.SpaceBefore {
				continue
			}
			p := toks[i-1]
			if p.Kind == tmpl.TPunct && tk.Kind == tmpl.TPunct {
				pairs++
				if p.Text == "-" && tk.Text == "-" {
					continue // kept apart by the remover
				}
				if m := mergesToLonger(p.Text, tk.Text); m != "" {
					// closing brackets followed by anything never merge
					probs = append(probs, fmt.Sprintf("`%s %s` becomes `%s` when the blank is removed", p.Text, tk.Text, m))
				}
			}
			// operator hole followed by operand hole: `%e %t %e` expands to `a + +b` only if an expansion starts with +
			if p.Kind == tmpl.THole && tk.Kind == tmpl.THole && t.Holes[p.Holes[0]].Verb == 't' {
				// token operators that double: + (++), - handled, & (&&), | (||), < (<<), > (>>), = (==), * (**)
				// operand expansions start with an identifier, a literal, `(`, `!`, `~`, `-` or `new`; never with + & | < > = *
				continue
			}
		}
		r.Check(len(probs) == 0, "lex:"+t.Key(), c.Pos(t.Pos), ternary(len(probs) == 0, "no mergeable shapes", strings.Join(probs, "; ")))
	}
	r.Count("templates examined for minifier-unsafe shapes", n)
	r.Count("blank-separated punctuator pairs examined", pairs)
	// PrintCond escapes the comment terminator in the commented-out alternative
	if pc := c.FuncDecl("compiler", "funcContext.PrintCond"); pc != nil {
		s := squash(nodeString(c, pc.Body))
		r.Check(strings.Contains(s, `strings.ReplaceAll(onTrue,"*/","<star>/")`), "PrintCond:escapes-terminator", c.Pos(pc.Pos()), "the alternative that PrintCond comments out cannot terminate the comment early")
	}
	// no expression template starts with + (so `a + ⟨e⟩` can never become `a++…`)
	plus := ""
	for _, t := range usableTemplates(c) {
		if t.Role == tmpl.RoleSink && t.Dialect == tmpl.DialectExpr && len(t.Tokens) > 0 && t.Tokens[0].Kind == tmpl.TPunct && strings.HasPrefix(t.Tokens[0].Text, "+") {
			plus = c.Pos(t.Pos)
		}
	}
	r.Check(plus == "", "no-leading-plus", "compiler/expressions.go", "no expression template starts with `+`: an operand after a binary `+` cannot merge into `++` "+plus)
}

// checkPreviousIsCodeByte: the byte that decides whether a blank may be dropped is the last CODE byte
// emitted; bytes of a source-map hint (copied verbatim by the hint arm) must never become `previous`.
func checkPreviousIsCodeByte(c *ctx.Ctx, r *core.Reporter, rw *ast.FuncDecl) {
	// the "previous byte" variable is the one the drop condition tests together with the next input byte;
	// the input is the function's first parameter
	prevName, inName := "", firstParamName(rw)
	for _, m := range findGoPattern(rw.Body, `!needsSpace(µp) || !needsSpace(µb[1])`) {
		if m.Env["µb"] == inName {
			prevName = m.Env["µp"]
		}
	}
	if prevName == "" {
		r.Violation("previous-is-last-code-byte", c.Pos(rw.Pos()), "the drop condition `!needsSpace(<previous>) || !needsSpace(<input>[1])` was not found")
		return
	}
	// declared once, outside the loop
	declOutside := false
	for _, st := range rw.Body.List {
		if ds, ok := st.(*ast.DeclStmt); ok {
			ast.Inspect(ds, func(n ast.Node) bool {
				if vs, ok := n.(*ast.ValueSpec); ok {
					for _, nm := range vs.Names {
						if nm.Name == prevName {
							declOutside = true
						}
					}
				}
				return true
			})
		}
	}
	var bad []string
	nAssign := 0
	ast.Inspect(rw.Body, func(n ast.Node) bool {
		switch x := n.(type) {
		case *ast.AssignStmt:
			for i, l := range x.Lhs {
				if id, ok := l.(*ast.Ident); ok && id.Name == prevName && i < len(x.Rhs) {
					nAssign++
					if exprStr(x.Rhs[i]) != inName+"[0]" {
						bad = append(bad, "previous = "+exprStr(x.Rhs[i])+" at "+c.Pos(x.Pos()))
					}
					for _, cd := range enclosingConds(rw.Body, x.Pos()) {
						if strings.Contains(cd, `'\\b'`) || strings.Contains(cd, "HintMagic") {
							bad = append(bad, "previous assigned inside the hint arm at "+c.Pos(x.Pos()))
						}
					}
				}
			}
		case *ast.ValueSpec:
			for i, nm := range x.Names {
				if nm.Name == prevName && i < len(x.Values) {
					bad = append(bad, "previous initialised from "+exprStr(x.Values[i]))
				}
			}
		}
		return true
	})
	ok := declOutside && nAssign >= 1 && len(bad) == 0
	r.Check(ok, "previous-is-last-code-byte", c.Pos(rw.Pos()), ternary(ok, "`previous` lives across iterations and is only ever set to the code byte just emitted (b[0]); hint payload bytes copied by the hint arm never influence whitespace decisions, so minified code does not depend on hint values", fmt.Sprintf("`previous` must be the last emitted code byte: declared outside the loop=%v, assignments=%d, problems: %s — deriving it from the output buffer lets the last payload byte of a source-map hint decide whether the following blank is kept", declOutside, nAssign, strings.Join(bad, "; "))))
}

// evalBytePredBody evaluates a boolean predicate over one byte parameter for a given value: the body may
// consist of return statements, if/else chains and switches (tagless with boolean cases, or on the
// parameter with constant cases). It returns the result and whether the body was within that language.
func evalBytePredBody(info *types.Info, list []ast.Stmt, param string, b int64) (result bool, ok bool) {
	var run func(list []ast.Stmt) (done bool, val bool, ok bool)
	run = func(list []ast.Stmt) (bool, bool, bool) {
		for _, st := range list {
			switch x := st.(type) {
			case *ast.ReturnStmt:
				if len(x.Results) != 1 {
					return false, false, false
				}
				v, ok := evalByteCond(info, x.Results[0], param, b)
				return true, v, ok
			case *ast.IfStmt:
				if x.Init != nil {
					return false, false, false
				}
				cv, ok := evalByteCond(info, x.Cond, param, b)
				if !ok {
					return false, false, false
				}
				if cv {
					if d, v, ok := run(x.Body.List); !ok || d {
						return d, v, ok
					}
				} else if x.Else != nil {
					var els []ast.Stmt
					switch e := x.Else.(type) {
					case *ast.BlockStmt:
						els = e.List
					default:
						els = []ast.Stmt{e}
					}
					if d, v, ok := run(els); !ok || d {
						return d, v, ok
					}
				}
			case *ast.SwitchStmt:
				if x.Init != nil {
					return false, false, false
				}
				var chosen, def *ast.CaseClause
				for _, cs := range x.Body.List {
					cc := cs.(*ast.CaseClause)
					if cc.List == nil {
						def = cc
						continue
					}
					for _, l := range cc.List {
						var hit, ok bool
						if x.Tag == nil {
							hit, ok = evalByteCond(info, l, param, b)
						} else {
							hit, ok = evalByteCond(info, &ast.BinaryExpr{X: x.Tag, Op: token.EQL, Y: l}, param, b)
						}
						if !ok {
							return false, false, false
						}
						if hit && chosen == nil {
							chosen = cc
						}
					}
				}
				if chosen == nil {
					chosen = def
				}
				if chosen != nil {
					for _, bs := range chosen.Body {
						if br, isBranch := bs.(*ast.BranchStmt); isBranch && br.Tok == token.FALLTHROUGH {
							return false, false, false
						}
					}
					if d, v, ok := run(chosen.Body); !ok || d {
						return d, v, ok
					}
				}
			default:
				return false, false, false
			}
		}
		return false, false, true
	}
	done, val, ok := run(list)
	return val, ok && done
}
