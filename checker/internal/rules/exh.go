package rules

// EXH family (DESIGN §2.2): dispatch totality. A switch whose default arm
// panics (or bails out) claims to be total; its domain is computed from the
// toolchain (go/ast implementers, the types.Type kinds of the supported
// language version, go/token constants) and missing labels must be listed in
// the per-switch exemption table with a reason.

import (
	"fmt"
	"go/ast"
	"go/constant"
	"go/token"
	"go/types"
	"sort"
	"strings"

	"verif/checker/internal/core"
	"verif/checker/internal/ctx"
	"verif/checker/internal/tmpl"
)

// Go 1.20 type kinds (Alias does not exist before 1.22; Union only occurs inside constraints).
var typeKindsAll = []string{"Basic", "Array", "Slice", "Struct", "Pointer", "Tuple", "Signature", "Interface", "Map", "Chan", "Named", "TypeParam"}
var typeKindsUnderlying = []string{"Basic", "Array", "Slice", "Struct", "Pointer", "Signature", "Interface", "Map", "Chan"}

type switchInfo struct {
	fn       string
	casePath []string
	node     ast.Node
	subject  string // rendered discriminant
	domain   string // "ast.Stmt", "ast.Expr", "types.Type", "types.Type.Underlying", "token.Token", "string", "other"
	labels   []string
	hasDef   bool
	defPanic bool
	ordinal  int
}

func (s *switchInfo) key() string {
	return fmt.Sprintf("%s[%s]%s#%d", s.fn, strings.Join(s.casePath, "/"), s.domain, s.ordinal)
}

func endsInPanic(info *types.Info, body []ast.Stmt) bool {
	if len(body) == 0 {
		return false
	}
	// any statement of the default arm that is a panic call (directly or `err := bailout(..); panic(err)`)
	for _, st := range body {
		es, ok := st.(*ast.ExprStmt)
		if !ok {
			continue
		}
		ce, ok := es.X.(*ast.CallExpr)
		if !ok {
			continue
		}
		if id, ok := ce.Fun.(*ast.Ident); ok && id.Name == "panic" {
			if _, isBuiltin := info.Uses[id].(*types.Builtin); isBuiltin {
				return true
			}
		}
	}
	return false
}

func typeLabel(info *types.Info, e ast.Expr) string {
	tv, ok := info.Types[e]
	if !ok || tv.Type == nil {
		return types.ExprString(e)
	}
	if tv.IsNil() {
		return "nil"
	}
	t := tv.Type
	if p, ok := t.(*types.Pointer); ok {
		t = p.Elem()
	}
	if n, ok := t.(*types.Named); ok {
		return n.Obj().Name()
	}
	return t.String()
}

// discoverSwitches lists all switch statements of the given package.
func discoverSwitches(c *ctx.Ctx, pkgRel string) []*switchInfo {
	p := c.Pkg(pkgRel)
	if p == nil {
		return nil
	}
	info := p.TypesInfo
	var out []*switchInfo
	for _, fd := range c.AllFuncDecls(pkgRel) {
		if fd.Body == nil {
			continue
		}
		fn := ctx.FuncName(fd)
		ord := map[string]int{}
		var stack []ast.Node
		ast.Inspect(fd.Body, func(n ast.Node) bool {
			if n == nil {
				stack = stack[:len(stack)-1]
				return true
			}
			stack = append(stack, n)
			switch sw := n.(type) {
			case *ast.TypeSwitchStmt:
				si := &switchInfo{fn: fn, node: sw, casePath: casePathOf(info, stack[:len(stack)-1])}
				var x ast.Expr
				switch a := sw.Assign.(type) {
				case *ast.AssignStmt:
					x = a.Rhs[0].(*ast.TypeAssertExpr).X
				case *ast.ExprStmt:
					x = a.X.(*ast.TypeAssertExpr).X
				}
				si.subject = types.ExprString(x)
				st := info.TypeOf(x)
				si.domain = "other:" + fmt.Sprint(st)
				if st != nil {
					switch st.String() {
					case "go/ast.Stmt":
						si.domain = "ast.Stmt"
					case "go/ast.Expr":
						si.domain = "ast.Expr"
					case "go/ast.Node":
						si.domain = "ast.Node"
					case "go/ast.Decl":
						si.domain = "ast.Decl"
					case "go/ast.Spec":
						si.domain = "ast.Spec"
					case "go/types.Type":
						si.domain = "types.Type"
						if ce, ok := ast.Unparen(x).(*ast.CallExpr); ok {
							if sel, ok := ce.Fun.(*ast.SelectorExpr); ok && sel.Sel.Name == "Underlying" {
								si.domain = "types.Type.Underlying"
							}
						}
					case "go/types.Object":
						si.domain = "types.Object"
					}
				}
				for _, st := range sw.Body.List {
					cc := st.(*ast.CaseClause)
					if cc.List == nil {
						si.hasDef = true
						si.defPanic = endsInPanic(info, cc.Body)
						continue
					}
					for _, l := range cc.List {
						si.labels = append(si.labels, typeLabel(info, l))
					}
				}
				k := si.fn + "|" + strings.Join(si.casePath, "/") + "|" + si.domain
				si.ordinal = ord[k]
				ord[k]++
				out = append(out, si)
			case *ast.SwitchStmt:
				if sw.Tag == nil {
					return true
				}
				si := &switchInfo{fn: fn, node: sw, casePath: casePathOf(info, stack[:len(stack)-1]), subject: tmpl.CanonTag(info, sw.Tag)}
				tt := info.TypeOf(sw.Tag)
				si.domain = "other:" + fmt.Sprint(tt)
				if tt != nil {
					switch tt.String() {
					case "go/token.Token":
						si.domain = "token.Token"
					case "string":
						si.domain = "string"
					case "go/types.BasicKind":
						si.domain = "types.BasicKind"
					case "go/types.SelectionKind":
						si.domain = "types.SelectionKind"
					}
				}
				for _, st := range sw.Body.List {
					cc := st.(*ast.CaseClause)
					if cc.List == nil {
						si.hasDef = true
						si.defPanic = endsInPanic(info, cc.Body)
						continue
					}
					for _, l := range cc.List {
						if tv, ok := info.Types[l]; ok && tv.Value != nil {
							switch si.domain {
							case "token.Token":
								v, _ := constant.Int64Val(tv.Value)
								si.labels = append(si.labels, token.Token(v).String())
							case "string":
								si.labels = append(si.labels, constant.StringVal(tv.Value))
							case "types.BasicKind":
								v, _ := constant.Int64Val(tv.Value)
								si.labels = append(si.labels, basicKindName(types.BasicKind(v), l))
							default:
								si.labels = append(si.labels, types.ExprString(l))
							}
						} else {
							si.labels = append(si.labels, types.ExprString(l))
						}
					}
				}
				k := si.fn + "|" + strings.Join(si.casePath, "/") + "|" + si.domain
				si.ordinal = ord[k]
				ord[k]++
				out = append(out, si)
			}
			return true
		})
	}
	return out
}

func basicKindName(k types.BasicKind, l ast.Expr) string {
	s := types.ExprString(l)
	return strings.TrimPrefix(s, "types.")
}

func casePathOf(info *types.Info, stack []ast.Node) []string {
	var out []string
	for i, n := range stack {
		cc, ok := n.(*ast.CaseClause)
		if !ok {
			continue
		}
		tag := ""
		if i >= 2 {
			switch sw := stack[i-2].(type) {
			case *ast.SwitchStmt:
				if sw.Tag != nil {
					tag = tmpl.CanonTag(info, sw.Tag)
				}
			case *ast.TypeSwitchStmt:
				tag = "type"
			}
		}
		var labels []string
		for _, l := range cc.List {
			labels = append(labels, types.ExprString(l))
		}
		lab := strings.Join(labels, ",")
		if cc.List == nil {
			lab = "default"
		}
		if tag != "" {
			lab = tag + ":" + lab
		}
		out = append(out, lab)
	}
	return out
}

// astImplementers returns the names of concrete go/ast types implementing the interface.
func astImplementers(c *ctx.Ctx, iface string) []string {
	p := c.All["go/ast"]
	if p == nil {
		return nil
	}
	obj := p.Types.Scope().Lookup(iface)
	if obj == nil {
		return nil
	}
	it, ok := obj.Type().Underlying().(*types.Interface)
	if !ok {
		return nil
	}
	var out []string
	for _, name := range p.Types.Scope().Names() {
		tn, ok := p.Types.Scope().Lookup(name).(*types.TypeName)
		if !ok || !tn.Exported() {
			continue
		}
		if _, isIface := tn.Type().Underlying().(*types.Interface); isIface {
			continue
		}
		if types.Implements(types.NewPointer(tn.Type()), it) {
			out = append(out, name)
		}
	}
	sort.Strings(out)
	return out
}

func diff(domain, have []string) []string {
	h := map[string]bool{}
	for _, x := range have {
		h[x] = true
	}
	var out []string
	for _, d := range domain {
		if !h[d] {
			out = append(out, d)
		}
	}
	return out
}

// exemption table: switch key prefix (function + domain [+ case path]) -> label -> reason
type exemption struct {
	fn, domain string
	path       string // substring of the joined case path ("" = any)
	labels     map[string]string
}

func lookupExempt(tab []exemption, s *switchInfo) map[string]string {
	out := map[string]string{}
	jp := strings.Join(s.casePath, "/")
	for _, e := range tab {
		if e.fn == s.fn && e.domain == s.domain && (e.path == "" || strings.Contains(jp, e.path)) {
			for k, v := range e.labels {
				out[k] = v
			}
		}
	}
	return out
}

// checkTotal evaluates one totality-claiming switch.
func checkTotal(c *ctx.Ctx, r *core.Reporter, s *switchInfo, domain []string, exempt map[string]string) {
	missing := diff(domain, s.labels)
	var bad []string
	var ex []string
	for _, m := range missing {
		if why, ok := exempt[m]; ok {
			ex = append(ex, m+" ("+why+")")
		} else {
			bad = append(bad, m)
		}
	}
	site := c.Pos(s.node.Pos())
	if len(bad) > 0 {
		r.Violation("total:"+s.key(), site, fmt.Sprintf("switch on %s in %s claims totality (default arm panics) but has no arm for %s of its domain %s", s.subject, s.fn, strings.Join(bad, ", "), s.domain))
		return
	}
	r.OK("total:"+s.key(), site, fmt.Sprintf("switch on %s covers %d/%d of %s; exempt: %s", s.subject, len(domain)-len(missing), len(domain), s.domain, strings.Join(ex, "; ")))
}

// DumpSwitches prints discovered switches (debug).
func DumpSwitches(c *ctx.Ctx) {
	for _, pk := range []string{"compiler", "compiler/internal/analysis", "compiler/internal/typeparams", "compiler/internal/dce", "compiler/typesutil", "compiler/astutil", "compiler/filter", "compiler/sources", "internal/sourcemapx", "internal/govendor/subst", "build"} {
		for _, s := range discoverSwitches(c, pk) {
			dom := []string{}
			switch s.domain {
			case "ast.Stmt":
				dom = astImplementers(c, "Stmt")
			case "ast.Expr":
				dom = astImplementers(c, "Expr")
			case "ast.Decl":
				dom = astImplementers(c, "Decl")
			case "ast.Spec":
				dom = astImplementers(c, "Spec")
			case "types.Type":
				dom = typeKindsAll
			case "types.Type.Underlying":
				dom = typeKindsUnderlying
			}
			fmt.Printf("%s\t%s\t%s\tdef=%v panic=%v\tsubject=%s\n\tlabels=%v\n\tmissing=%v\n", c.Pos(s.node.Pos()), pk, s.key(), s.hasDef, s.defPanic, s.subject, s.labels, diff(dom, s.labels))
		}
	}
}
