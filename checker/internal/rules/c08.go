package rules

import (
	"fmt"
	"go/ast"
	"regexp"
	"strings"

	"verif/checker/internal/core"
	"verif/checker/internal/ctx"
	"verif/checker/internal/tmpl"
)

func init() {
	register(&Property{
		ID:          "C08",
		Explanation: "Decided: (checks) every translation arm of an operation that the Go spec says must be able to panic carries its run-time check — index read/write on arrays, pointers to arrays, slices and strings, slice expressions, nil-map store, integer division, make bounds, slice-to-array conversion, type assertion, nil array pointer (read and write arm agree), close/send on nil or closed channels, comparison of uncomparable interface values; (errors) $throwRuntimeError is installed by runtime.init and raises a value with a RuntimeError method, TypeAssertionError has one too; (defer) defer evaluates callee and arguments at the statement, functions with defers get the deferral prologue and the finally epilogue under the same condition, builtins and js.Object methods are wrapped before delegation; LINK arity/guard obligations on the helpers. NOT decided: $callDeferred/$panic/$recover stack-depth logic, nested/re-panic behaviour, the position of the panic in the evaluation order.",
		Assumptions: []string{"the natives overlay is analysed syntactically only"},
		Rules:       []RuleFunc{ruleC08Checks, ruleC08Errors, ruleC08Defer, ruleC08DynScope, ruleC06Div0, ruleNegativeShift, ruleOperandOrder, ruleC03Close, ruleC03Wakers, ruleL3, ruleC02Protocol, ruleC01NamedResults, ruleStructComparable, ruleDelegatedArgs, ruleC02DeferredSuspendFirst, ruleDeferRecover, ruleDeferredAfterRecovery, ruleRuntimeErrorTypes, ruleC15UnhashablePanics},
	})
}

// armTemplates returns sink templates whose position lies inside node n.
var holeRe = regexp.MustCompile(`⟨\d+⟩`)

func templatesIn(c *ctx.Ctx, n ast.Node) []*tmpl.Template {
	var out []*tmpl.Template
	for _, t := range corpus(c).Templates {
		if t.Pos >= n.Pos() && t.Pos < n.End() {
			out = append(out, t)
		}
	}
	return out
}

// findCase finds the first CaseClause in fd whose single label renders as label and whose path contains pathContains.
func findCases(c *ctx.Ctx, fd *ast.FuncDecl, pred func(labels []string, path []string) bool) []*ast.CaseClause {
	info := c.Pkg("compiler").TypesInfo
	var out []*ast.CaseClause
	var stack []ast.Node
	ast.Inspect(fd.Body, func(n ast.Node) bool {
		if n == nil {
			stack = stack[:len(stack)-1]
			return true
		}
		stack = append(stack, n)
		if cc, ok := n.(*ast.CaseClause); ok {
			var labs []string
			for _, l := range cc.List {
				labs = append(labs, exprStr(l))
			}
			if pred(labs, casePathOf(info, stack[:len(stack)-1])) {
				out = append(out, cc)
			}
		}
		return true
	})
	return out
}

func hasLabel(labs []string, l string) bool {
	for _, x := range labs {
		if x == l {
			return true
		}
	}
	return false
}

func ruleC08Checks(c *ctx.Ctx, r *core.Reporter) {
	r.Begin("C08.checks", "F-MUST", "each translation arm of an operation that must be able to panic contains its run-time check", 16)
	info := c.Pkg("compiler").TypesInfo
	te := c.FuncDecl("compiler", "funcContext.translateExpr")
	ta := c.FuncDecl("compiler", "funcContext.translateAssign")
	if te == nil || ta == nil {
		r.Undecided("anchors", "compiler", "translateExpr/translateAssign not found")
		return
	}
	usesRangeCheck := func(cc *ast.CaseClause) bool {
		return len(findCalls(info, cc, modPath("compiler"), "rangeCheck")) > 0
	}
	// index reads
	for _, k := range []string{"*types.Array", "*types.Slice", "*types.Pointer", "*types.Basic"} {
		cs := findCases(c, te, func(labs, path []string) bool {
			return hasLabel(labs, k) && len(path) > 0 && path[len(path)-1] == "type:*ast.IndexExpr"
		})
		if len(cs) == 0 {
			r.Undecided("index-read:"+k, c.Pos(te.Pos()), "arm not found")
			continue
		}
		ok := usesRangeCheck(cs[0])
		if k == "*types.Pointer" && !ok {
			// accepted alternative: rewrite to (*p)[i] handled by the array arm; then the nil check obligation below decides
			ok = strings.Contains(nodeString(c, cs[0]), "ast.StarExpr")
		}
		r.Check(ok, "index-read:"+k, c.Pos(cs[0].Pos()), "x[i] on "+k+" is translated with rangeCheck (index out of range panics)")
	}
	// index writes
	for _, k := range []string{"*types.Array", "*types.Slice"} {
		cs := findCases(c, ta, func(labs, path []string) bool {
			return hasLabel(labs, k) && len(path) > 0 && path[len(path)-1] == "type:*ast.IndexExpr"
		})
		if len(cs) == 0 {
			r.Undecided("index-write:"+k, c.Pos(ta.Pos()), "arm not found")
			continue
		}
		r.Check(usesRangeCheck(cs[0]), "index-write:"+k, c.Pos(cs[0].Pos()), "x[i] = v on "+k+" is translated with rangeCheck")
	}
	// nil array pointer: read and write arm both touch nilCheck
	nilRead, nilWrite := false, false
	for _, cc := range findCases(c, te, func(labs, path []string) bool {
		return hasLabel(labs, "*types.Pointer") && len(path) > 0 && path[len(path)-1] == "type:*ast.IndexExpr"
	}) {
		for _, t := range templatesIn(c, cc) {
			if strings.Contains(t.Text, ".nilCheck") {
				nilRead = true
			}
		}
	}
	for _, cc := range findCases(c, ta, func(labs, path []string) bool {
		return hasLabel(labs, "*types.Pointer") && len(path) > 0 && path[len(path)-1] == "type:*ast.IndexExpr"
	}) {
		for _, t := range templatesIn(c, cc) {
			if strings.Contains(t.Text, ".nilCheck") {
				nilWrite = true
			}
		}
	}
	r.Check(nilWrite, "nil-array-pointer:write", c.Pos(ta.Pos()), "p[i] = v through a *[N]T touches p.nilCheck, which throws for the nil pointer")
	r.Check(nilRead, "nil-array-pointer:read", c.Pos(te.Pos()), "reading p[i] through a *[N]T touches p.nilCheck like the write arm does (sibling agreement)")
	if needPrelude(c, r) {
		env := buildEnv(c)
		_, w := env.propWrites["nilCheck"]
		r.Check(w, "nil-array-pointer:getter", "compiler/prelude/types.js", "the nil value of array pointer types defines a throwing nilCheck property")
	}
	// slices: $subslice for every slice-expression form
	n := 0
	for _, t := range usableTemplates(c) {
		if t.Func == "funcContext.translateExpr" && strings.Contains(strings.Join(t.CasePath, "/"), "type:*ast.SliceExpr") && strings.HasPrefix(t.Text, "$subslice(") {
			n++
		}
	}
	r.Check(n >= 5, "slice-expr:$subslice", "compiler/expressions.go", fmt.Sprintf("all forms of a[l:h:m] on slices call $subslice (%d templates)", n))
	if needPrelude(c, r) {
		throwsIn := func(fn string, what string, pred func(src string) bool) {
			f := c.PreludeFunc(fn)
			if f == nil {
				r.Undecided("prelude:"+fn, "compiler/prelude", "not found")
				return
			}
			ok := false
			f.Walk(func(x *ctx.JSNode) bool {
				if x.Is("IfStatement") && isThrowIf(x, func(t *ctx.JSNode) bool { return pred(squash(t.Src())) }) {
					ok = true
				}
				return true
			})
			r.Check(ok, "prelude:"+fn+":"+what, f.Pos(), fn+" throws a run-time error when "+what)
		}
		throwsIn("$subslice", "bounds are out of range", func(s string) bool {
			return strings.Contains(s, "low<0") && strings.Contains(s, "high<low") && strings.Contains(s, "max<high") && strings.Contains(s, ".$capacity")
		})
		throwsIn("$makeSlice", "the length is negative or too large", func(s string) bool { return strings.Contains(s, "length<0") })
		throwsIn("$makeSlice", "the capacity is smaller than the length", func(s string) bool { return strings.Contains(s, "capacity<length") })
		throwsIn("$Chan", "the capacity is negative or too large", func(s string) bool { return strings.Contains(s, "capacity<0") })
		throwsIn("$sliceToGoArray", "the slice is shorter than the array", func(s string) bool { return strings.Contains(s, ".$length<") && strings.Contains(s, ".len") })
		throwsIn("$interfaceIsEqual", "the dynamic type is not comparable", func(s string) bool { return strings.Contains(s, ".comparable") })
		// $assertType panics with TypeAssertionError unless the comma-ok form is used
		if at := c.PreludeFunc("$assertType"); at != nil {
			src := squash(at.Src())
			r.Check(strings.Contains(src, "if(returnTuple){return[") && strings.Contains(src, `$panic(new$packages["runtime"].TypeAssertionError.ptr(`), "prelude:$assertType:panics", at.Pos(), "a failed single-value assertion panics with *runtime.TypeAssertionError, the comma-ok form returns the zero value and false")
		}
	}
	// nil map store
	t := hasTemplate(c, "funcContext.translateAssign", "", func(t *tmpl.Template) bool {
		return strings.Contains(t.Text, `|| $throwRuntimeError("assignment to entry in nil map")`)
	})
	r.Check(t != nil, "nil-map-store", "compiler/statements.go:translateAssign", "m[k] = v throws for a nil map before calling .set")
	// make(map, n) size check
	t = hasTemplate(c, "funcContext.translateBuiltin", `_:"make"/type:*types.Map`, func(t *tmpl.Template) bool {
		return strings.Contains(t.Text, "< 0 ||") && strings.Contains(t.Text, `$throwRuntimeError("makemap: size out of range")`)
	})
	r.Check(t != nil, "make-map-size", "compiler/expressions.go:translateBuiltin", "make(map, n) with a non-constant n checks the size")
	// slice -> array pointer conversion
	t = hasTemplate(c, "funcContext.translateConversion", "type:*types.Pointer/type:*types.Array", func(t *tmpl.Template) bool { return strings.HasPrefix(t.Text, "$sliceToGoArray(") })
	r.Check(t != nil, "slice-to-array-pointer", "compiler/expressions.go:translateConversion", "(*[N]T)(slice) goes through $sliceToGoArray, which checks the length")
	// type assertion templates
	na := 0
	for _, t := range usableTemplates(c) {
		if strings.HasPrefix(t.Text, "$assertType(") {
			na++
		}
	}
	r.Check(na >= 3, "type-assert:$assertType", "compiler", fmt.Sprintf("type assertions and type switches use $assertType (%d templates)", na))
	// nil func: zero value of function types throws when called
	t = hasTemplate(c, "funcContext.translateExpr", "type:*types.Nil/type:*types.Signature", func(t *tmpl.Template) bool { return t.Text == "$throwNilPointerError" })
	r.Check(t != nil, "nil-func", "compiler/expressions.go", "a nil function value is $throwNilPointerError, so calling it panics")
}

func ruleC08Errors(c *ctx.Ctx, r *core.Reporter) {
	r.Begin("C08.errors", "F-LINK", "run-time errors raised by the prelude are Go values implementing runtime.Error: $throwRuntimeError is installed by package runtime's init and panics with a type that has RuntimeError and Error methods; TypeAssertionError has them too and is kept alive", 6)
	nat := c.Natives()
	files := nat.PkgFiles("runtime")
	if len(files) == 0 {
		r.Undecided("natives-runtime", nativesRootRel+"/runtime", "no overlay files")
		return
	}
	methods := map[string]map[string]bool{} // type -> method names
	var initSets = map[string]string{}
	var throwFn *ast.FuncDecl
	var pos = map[string]string{}
	for _, f := range files {
		for _, d := range f.AST.Decls {
			fd, ok := d.(*ast.FuncDecl)
			if !ok {
				continue
			}
			if fd.Recv != nil && len(fd.Recv.List) == 1 {
				t := fd.Recv.List[0].Type
				if s, ok := t.(*ast.StarExpr); ok {
					t = s.X
				}
				if id, ok := t.(*ast.Ident); ok {
					if methods[id.Name] == nil {
						methods[id.Name] = map[string]bool{}
					}
					methods[id.Name][fd.Name.Name] = true
				}
				continue
			}
			if fd.Name.Name == "throw" {
				throwFn = fd
			}
			if fd.Name.Name == "init" && fd.Body != nil {
				tmp := &ast.File{Decls: []ast.Decl{fd}}
				for _, ref := range ctx.JSRefs(tmp) {
					if ref.Global && ref.Method == "Set" && len(ref.Call.Args) == 2 {
						initSets[ref.Name] = exprStr(ref.Call.Args[1])
						pos[ref.Name] = nat.Pos(c, ref.Pos)
					}
				}
				// keep-alive of TypeAssertionError
				src := ""
				ast.Inspect(fd.Body, func(n ast.Node) bool {
					if cl, ok := n.(*ast.CompositeLit); ok {
						src += exprStr(cl.Type) + ";"
					}
					return true
				})
				r.Check(strings.Contains(src, "TypeAssertionError"), "keepalive:TypeAssertionError", nat.Pos(c, fd.Pos()), "runtime.init references TypeAssertionError so that dead-code elimination keeps the type the prelude instantiates by name")
			}
		}
	}
	v, ok := initSets["$throwRuntimeError"]
	r.Check(ok && strings.Contains(v, "throw"), "init:sets-$throwRuntimeError", pos["$throwRuntimeError"], "runtime.init installs $throwRuntimeError = "+v)
	if throwFn == nil {
		r.Violation("throw:exists", nativesRootRel+"/runtime/runtime.go", "func throw not found")
	} else {
		// body: panic(<T>(s)) with T having RuntimeError and Error
		typ := ""
		ast.Inspect(throwFn.Body, func(n ast.Node) bool {
			if ce, ok := n.(*ast.CallExpr); ok {
				if id, ok := ce.Fun.(*ast.Ident); ok && id.Name == "panic" && len(ce.Args) == 1 {
					if conv, ok := ce.Args[0].(*ast.CallExpr); ok {
						typ = exprStr(conv.Fun)
					}
				}
			}
			return true
		})
		r.Check(typ != "" && methods[typ]["RuntimeError"] && methods[typ]["Error"], "throw:runtime.Error", nat.Pos(c, throwFn.Pos()), fmt.Sprintf("throw panics with %s, which has RuntimeError() and Error() (implements runtime.Error)", typ))
	}
	r.Check(methods["TypeAssertionError"]["RuntimeError"] && methods["TypeAssertionError"]["Error"], "TypeAssertionError:runtime.Error", nativesRootRel+"/runtime/runtime.go", "*TypeAssertionError has RuntimeError() and Error()")
	// the record the prelude builds matches the struct's field count
	if needPrelude(c, r) {
		if at := c.PreludeFunc("$assertType"); at != nil {
			nargs := -1
			at.Walk(func(n *ctx.JSNode) bool {
				if n.Is("NewExpression") && strings.Contains(squash(n.N("callee").Src()), "TypeAssertionError.ptr") {
					nargs = len(n.L("arguments"))
				}
				return true
			})
			nfields := -1
			for _, f := range files {
				for _, d := range f.AST.Decls {
					if gd, ok := d.(*ast.GenDecl); ok {
						for _, sp := range gd.Specs {
							if ts, ok := sp.(*ast.TypeSpec); ok && ts.Name.Name == "TypeAssertionError" {
								if st, ok := ts.Type.(*ast.StructType); ok {
									nfields = 0
									for _, fl := range st.Fields.List {
										if len(fl.Names) == 0 {
											nfields++
										}
										nfields += len(fl.Names)
									}
								}
							}
						}
					}
				}
			}
			r.Check(nargs == nfields && nargs > 0, "TypeAssertionError:arity", at.Pos(), fmt.Sprintf("$assertType constructs TypeAssertionError with %d arguments; the struct has %d fields", nargs, nfields))
		}
		// $throwNilPointerError raises through $throwRuntimeError
		decls := c.PreludeDecls()
		if d, ok := decls["$throwNilPointerError"]; ok && len(d) > 0 && d[0].Init != nil {
			r.Check(strings.Contains(d[0].Init.Src(), "$throwRuntimeError("), "nil-pointer:runtime-error", d[0].Node.Pos(), "nil dereferences raise through $throwRuntimeError (a runtime.Error)")
		}
	}
}

func ruleC08Defer(c *ctx.Ctx, r *core.Reporter) {
	r.Begin("C08.defer", "F-MUST", "defer evaluates callee and arguments at the statement; functions with defers get the deferral-stack prologue and the finally epilogue under the same condition; builtins and js.Object methods are wrapped before delegation", 8)
	info := c.Pkg("compiler").TypesInfo
	ts := c.FuncDecl("compiler", "funcContext.translateStmt")
	if ts == nil {
		r.Undecided("translateStmt", "compiler/statements.go", "not found")
		return
	}
	for _, kind := range []struct{ label, tmplPrefix, what string }{
		{"*ast.DeferStmt", "$deferred.push([", "defer"},
		{"*ast.GoStmt", "$go(", "go"},
	} {
		cs := findCases(c, ts, func(labs, path []string) bool { return hasLabel(labs, kind.label) && len(path) == 0 })
		if len(cs) != 1 {
			r.Undecided(kind.what+":arm", c.Pos(ts.Pos()), "arm not found")
			continue
		}
		cc := cs[0]
		// first statement: callable, arglist := fc.delegatedCall(s.Call); second: Printf(template, callable, arglist)
		calls := findCalls(info, cc, modPath("compiler"), "funcContext.delegatedCall")
		var pr *tmpl.Template
		for _, t := range templatesIn(c, cc) {
			if strings.HasPrefix(t.Text, kind.tmplPrefix) {
				pr = t
			}
		}
		ok := len(calls) == 1 && pr != nil && calls[0].Pos() < pr.Pos
		r.Check(ok, kind.what+":evaluate-then-push", c.Pos(cc.Pos()), fmt.Sprintf("the %s statement obtains (callable, evaluated argument list) from delegatedCall and only then emits %s…", kind.what, kind.tmplPrefix))
		if pr != nil {
			args := pr.FmtArgs()
			ok := len(args) == 2 && exprStr(args[0]) == "callable" && exprStr(args[1]) == "arglist"
			r.Check(ok, kind.what+":passes-both", c.Pos(pr.Pos), "both the callable and the argument list computed at the statement are what gets queued")
		}
	}
	// delegatedCall: args translated before the wrapper is built; wrapper for builtins and js methods
	dc := c.FuncDecl("compiler", "funcContext.delegatedCall")
	if dc == nil {
		r.Undecided("delegatedCall", "compiler/expressions.go", "not found")
	} else {
		src := nodeString(c, dc.Body)
		ta := findCalls(info, dc, modPath("compiler"), "funcContext.translateArgs")
		r.Check(len(ta) == 1, "delegated:args-evaluated-once", c.Pos(dc.Pos()), "delegatedCall translates the call's arguments exactly once (at the defer/go statement)")
		r.Check(strings.Contains(src, "!isBuiltin && !isJs"), "delegated:wrap-condition", c.Pos(dc.Pos()), "plain calls are delegated directly; builtins and js.Object methods take the wrapper path")
		var wr *tmpl.Template
		for _, t := range templatesIn(c, dc) {
			if strings.HasPrefix(t.Text, "function(") {
				wr = t
			}
		}
		r.Check(wr != nil, "delegated:wrapper", c.Pos(dc.Pos()), "builtins and js.Object methods are wrapped in a function expression taking the pre-evaluated arguments")
	}
	// translateFunctionBody: prologue and epilogue under fc.HasDefer
	fb := c.FuncDecl("compiler", "funcContext.translateFunctionBody")
	if fb == nil {
		r.Undecided("translateFunctionBody", "compiler/functions.go", "not found")
		return
	}
	var prologue, tryOpen, catchPart, finallyPart bool
	ast.Inspect(fb.Body, func(n ast.Node) bool {
		is, ok := n.(*ast.IfStmt)
		if !ok || exprStr(is.Cond) != "fc.HasDefer" {
			return true
		}
		for _, t := range templatesIn(c, is.Body) {
			s := t.Text
			if strings.Contains(s, "$deferred = []") && strings.Contains(s, "$curGoroutine.deferStack.push($deferred)") {
				prologue = true
			}
			if strings.Contains(s, "var $err = null; try {") {
				tryOpen = true
			}
			if strings.Contains(s, "} catch(err) { $err = err;") {
				catchPart = true
			}
			if strings.Contains(s, "} finally { $callDeferred($deferred, $err);") {
				finallyPart = true
			}
		}
		return true
	})
	r.Check(prologue, "body:prologue", c.Pos(fb.Pos()), "under fc.HasDefer the function creates its $deferred list and pushes it on the goroutine's defer stack")
	r.Check(tryOpen && catchPart && finallyPart, "body:try-catch-finally", c.Pos(fb.Pos()), "under fc.HasDefer the body is wrapped in try { … } catch(err) { $err = err … } finally { $callDeferred($deferred, $err) … }")
	// each part of the wrapper is emitted under exactly its own condition: a part that moves under a
	// narrower (or wider) guard changes what happens after a panic in the functions it no longer (or newly) covers
	for _, g := range []struct {
		frag, id, why string
		guards        []string
	}{
		{"} catch(err) { $err = err;", "catch", "every function with defers records the panic", []string{"fc.HasDefer"}},
		{" $s = -1;", "catch-stops-resume", "after a panic a flattened body must never be re-entered: the resume label is reset in every blocking function with defers, whatever its result list looks like", []string{"fc.HasDefer", "fc.IsBlocking()"}},
		{" return%s;", "catch-returns-zero", "with unnamed results the catch block returns the zero results", []string{"fc.HasDefer", "fc.resultNames==nil&&fc.sig.HasResults()"}},
		{"} finally { $callDeferred($deferred, $err);", "finally", "deferred calls run on every exit", []string{"fc.HasDefer"}},
		{" if (!$curGoroutine.asleep) { return %s; }", "finally-returns-named", "named results are returned after the deferred calls ran, unless one of them suspended", []string{"fc.HasDefer", "fc.resultNames!=nil"}},
		{" if($curGoroutine.asleep) {", "finally-suspends", "a blocking function whose deferred call suspended saves its frame", []string{"fc.HasDefer", "fc.IsBlocking()"}},
	} {
		var hit *tmpl.Template
		for _, t := range templatesIn(c, fb.Body) {
			if strings.TrimSpace(holeRe.ReplaceAllString(t.Text, "%s")) == strings.TrimSpace(g.frag) {
				if fc := enclosingIfs(fb.Body, t.Pos); len(fc) > 0 && squash(exprStr(fc[0].Cond)) == "fc.HasDefer" {
					hit = t
				}
			}
		}
		if hit == nil {
			r.Violation("wrapper:"+g.id, c.Pos(fb.Pos()), fmt.Sprintf("the defer wrapper no longer emits %q under fc.HasDefer", g.frag))
			continue
		}
		var got []string
		for _, is := range enclosingIfs(fb.Body, hit.Pos) {
			got = append(got, squash(exprStr(is.Cond)))
		}
		r.Check(strings.Join(got, " ∧ ") == strings.Join(g.guards, " ∧ "), "wrapper:"+g.id, c.Pos(hit.Pos), fmt.Sprintf("%q is emitted exactly under %s (found %s): %s", g.frag, strings.Join(g.guards, " ∧ "), strings.Join(got, " ∧ "), g.why))
	}
	// a flattened body that was abandoned by a panic ($s = -1) and is resumed because a deferred call
	// suspended falls out of the switch: wherever the catch block returns zero results, the end of the
	// switch must return them too (otherwise the function yields undefined after a recovered panic)
	{
		var end *tmpl.Template
		var plainEnd *tmpl.Template
		for _, t := range templatesIn(c, fb.Body) {
			switch strings.TrimSpace(holeRe.ReplaceAllString(t.Text, "%s")) {
			case "} return%s; }":
				end = t
			case "} return; }":
				plainEnd = t
			}
		}
		okEnd := false
		detail := "no switch end that returns the zero results"
		if end != nil && plainEnd != nil {
			var conds []string
			for _, is := range enclosingIfs(fb.Body, end.Pos) {
				for _, cj := range conjuncts(is.Cond) {
					conds = append(conds, squash(exprStr(cj)))
				}
			}
			have := map[string]bool{}
			for _, cd := range conds {
				have[cd] = true
			}
			okEnd = have["len(fc.Flattened)!=0"] && have["fc.HasDefer"] && have["fc.resultNames==nil"] && have["fc.sig.HasResults()"] && len(conds) == 4
			detail = "guard: " + strings.Join(conds, " ∧ ")
		}
		r.Check(okEnd, "wrapper:resume-after-abandon-returns-zero", c.Pos(fb.Pos()), "in a flattened function with defers and unnamed results the end of the resume switch returns the zero results, under the same condition as the catch block ("+detail+")")
	}
	// HasDefer is set by the analysis for every defer statement
	if fi := c.FuncDecl("compiler/internal/analysis", "FuncInfo.Visit"); fi != nil {
		ok := false
		ast.Inspect(fi.Body, func(n ast.Node) bool {
			if cc, isCC := n.(*ast.CaseClause); isCC && len(cc.List) == 1 && exprStr(cc.List[0]) == "*ast.DeferStmt" {
				ok = strings.Contains(nodeString(c, cc), "HasDefer = true")
			}
			return true
		})
		r.Check(ok, "analysis:HasDefer", c.Pos(fi.Pos()), "the analysis sets HasDefer when it visits a defer statement")
	}
}

// ---------------------------------------------------------------------------
// C08.dynscope: dynamically scoped run-time globals are saved and restored symmetrically

func ruleC08DynScope(c *ctx.Ctx, r *core.Reporter) {
	r.Begin("C08.dynscope", "F-PAIR", "every prelude global that $callDeferred assigns while unwinding is saved into a local at entry and restored in the finally block; every decrement of $stackDepthOffset is paired with an increment in a finally block of the same function", 4)
	if !needPrelude(c, r) {
		return
	}
	cd := c.PreludeFunc("$callDeferred")
	if cd == nil {
		r.Undecided("$callDeferred", "compiler/prelude/goroutines.js", "not found")
		return
	}
	decls := c.PreludeDecls()
	// globals assigned (=) inside $callDeferred
	assigned := map[string]*ctx.JSNode{}
	cd.Walk(func(n *ctx.JSNode) bool {
		if n.Is("AssignmentExpression") && n.S("operator") == "=" {
			if id := n.N("left").IdentName(); id != "" {
				if _, isGlobal := decls[id]; isGlobal {
					if _, seen := assigned[id]; !seen {
						assigned[id] = n
					}
				}
			}
		}
		return true
	})
	// saved: var outerX = $X at function top level; restored: $X = outerX inside the finalizer of the top-level try
	saved := map[string]string{}
	for v, ins := range localInits(cd) {
		for _, in := range ins {
			if g := in.IdentName(); g != "" {
				if _, isGlobal := decls[g]; isGlobal && in.Parent.Is("VariableDeclarator") {
					saved[g] = v
				}
			}
		}
	}
	var finalizer *ctx.JSNode
	for _, st := range cd.N("body").L("body") {
		if st.Is("TryStatement") && st.N("finalizer") != nil {
			finalizer = st.N("finalizer")
		}
	}
	for _, g := range sortedKeys(assigned) {
		v, isSaved := saved[g]
		restored := false
		if finalizer != nil && isSaved {
			finalizer.Walk(func(n *ctx.JSNode) bool {
				if n.Is("AssignmentExpression") && n.N("left").IdentName() == g && n.N("right").IdentName() == v {
					restored = true
				}
				return true
			})
		}
		r.Check(isSaved && restored, "save-restore:"+g, assigned[g].Pos(), fmt.Sprintf("$callDeferred assigns the global %s while running deferred calls of one frame: it is saved at entry (local %q, found=%v) and restored in the finally block (found=%v), so a nested unwinding that starts and ends inside a deferred call leaves the outer panic state unchanged", g, v, isSaved, restored))
	}
	if len(assigned) < 2 {
		r.Undecided("save-restore:globals", cd.Pos(), fmt.Sprintf("expected $callDeferred to assign the panic depth and the panic value globals; found %d assigned globals", len(assigned)))
	}
	// $stackDepthOffset-- / ++ pairing
	for _, fn := range allPreludeFuncs(c) {
		var dec *ctx.JSNode
		for _, st := range unconditionalStmts(fn) {
			if st.Is("ExpressionStatement") {
				e := st.N("expression")
				if e.Is("UpdateExpression") && e.S("operator") == "--" && e.N("argument").IdentName() == "$stackDepthOffset" {
					dec = e
				}
			}
		}
		if dec == nil {
			continue
		}
		inc := false
		fn.Walk(func(n *ctx.JSNode) bool {
			if n != fn && n.IsFunc() {
				return false
			}
			if n.Is("TryStatement") && n.N("finalizer") != nil {
				n.N("finalizer").Walk(func(m *ctx.JSNode) bool {
					if m.Is("UpdateExpression") && m.S("operator") == "++" && m.N("argument").IdentName() == "$stackDepthOffset" {
						inc = true
					}
					return true
				})
			}
			return true
		})
		r.Check(inc, "depth-offset-paired:"+ctx.JSFuncName(fn), dec.Pos(), "the stack-depth offset decremented on entry is incremented again in a finally block, on every exit (recover() compares stack depths)")
	}
}
