package rules

import (
	"fmt"
	"strings"

	"verif/checker/internal/core"
	"verif/checker/internal/ctx"
)

// C03.flow: where channel values may travel inside $send and $recv. FIFO order of a
// buffered channel with parked senders rests on three facts that are visible in the
// data flow of the two functions: a parked sender's value enters the buffer at the
// tail, a receiver is only ever handed the head of the buffer, and a sender hands its
// value to a parked receiver, to the tail of a non-full buffer, or parks it.

// queueTaken maps local variables of fn to the queue they were shifted from:
// `var x = <chan>.$sendQueue.shift()` ↦ "$sendQueue".
func queueTaken(fn *ctx.JSNode) map[string]string {
	out := map[string]string{}
	for name, inits := range localInits(fn) {
		for _, in := range inits {
			if in.Is("CallExpression") && in.N("callee").Is("MemberExpression") && in.N("callee").MemberName() == "shift" {
				q := in.N("callee").N("object")
				if q.Is("MemberExpression") {
					out[name] = q.MemberName()
				}
			}
		}
	}
	return out
}

func isQueueCall(n *ctx.JSNode, queue, method string) bool {
	if !n.Is("CallExpression") || !n.N("callee").Is("MemberExpression") || n.N("callee").MemberName() != method {
		return false
	}
	q := n.N("callee").N("object")
	return q.Is("MemberExpression") && q.MemberName() == queue
}

func ruleC03Flow(c *ctx.Ctx, r *core.Reporter) {
	r.Begin("C03.flow", "F-KEY", "value flow in $send/$recv: a parked sender's value enters the buffer at the tail, a receiver is handed only the head of the buffer (or the zero value of a closed channel), a sender's value goes to a parked receiver, to the tail of a non-full buffer, or is parked", 8)
	if !needPrelude(c, r) {
		return
	}
	recv := c.PreludeFunc("$recv")
	send := c.PreludeFunc("$send")
	if recv == nil || send == nil {
		r.Undecided("anchors", "compiler/prelude/goroutines.js", "$send/$recv not found")
		return
	}
	// ---- $recv
	taken := queueTaken(recv)
	nCalls := 0
	recv.Walk(func(x *ctx.JSNode) bool {
		if x != recv && x.IsFunc() {
			return false
		}
		if x.Is("CallExpression") && x.N("callee").Is("Identifier") && taken[x.N("callee").IdentName()] == "$sendQueue" {
			nCalls++
			p := x.Parent
			ok := p != nil && isQueueCall(p, "$buffer", "push") && len(p.L("arguments")) == 1 && p.L("arguments")[0] == x
			r.Check(ok, fmt.Sprintf("recv:parked-value-enters-buffer-tail#%d", nCalls), x.Pos(), fmt.Sprintf("the value released by a parked sender (`%s`) is appended to the channel buffer and nothing else (found in `%s`)", squash(x.Src()), squash(stmtOf(x).Src())))
		}
		return true
	})
	r.Check(nCalls >= 1, "recv:wakes-parked-sender", recv.Pos(), "$recv releases a parked sender, if any")
	// every successful result [v, true] carries the head of the buffer
	nRet := 0
	inits := localInits(recv)
	recv.Walk(func(x *ctx.JSNode) bool {
		if x != recv && x.IsFunc() {
			return false
		}
		if x.Is("ReturnStatement") && x.N("argument") != nil && x.N("argument").Is("ArrayExpression") {
			els := x.N("argument").L("elements")
			if len(els) == 2 && squash(els[1].Src()) == "true" {
				nRet++
				v := els[0]
				ok := false
				if isQueueCall(v, "$buffer", "shift") {
					ok = true
				} else if v.Is("Identifier") {
					all := len(inits[v.IdentName()]) > 0
					for _, in := range inits[v.IdentName()] {
						if !isQueueCall(in, "$buffer", "shift") {
							all = false
						}
					}
					ok = all
				}
				r.Check(ok, fmt.Sprintf("recv:result-is-buffer-head#%d", nRet), x.Pos(), fmt.Sprintf("a receive that succeeds at once returns the oldest buffered value (`%s`)", squash(x.Src())))
			}
		}
		return true
	})
	r.Check(nRet >= 1, "recv:immediate-result", recv.Pos(), "$recv has an immediate success path")
	// the sender is released before the head is taken (so that a rendezvous value can be the head)
	pPush, pShift := -1, -1
	recv.Walk(func(x *ctx.JSNode) bool {
		if x != recv && x.IsFunc() {
			return false
		}
		if isQueueCall(x, "$buffer", "push") && pPush < 0 {
			pPush = x.Start
		}
		if isQueueCall(x, "$buffer", "shift") && pShift < 0 {
			pShift = x.Start
		}
		return true
	})
	r.Check(pPush >= 0 && pShift > pPush, "recv:release-before-take", recv.Pos(), "the parked sender's value is appended before the head of the buffer is taken")

	// ---- $send
	params := funcParams(send)
	if len(params) != 2 {
		r.Undecided("send:params", send.Pos(), "unexpected parameter list")
		return
	}
	val := params[1]
	takenS := queueTaken(send)
	uses := 0
	send.Walk(func(x *ctx.JSNode) bool {
		if !(x.Is("Identifier") && x.IsRefIdent() && x.IdentName() == val) || x.PKey == "params" {
			return true
		}
		uses++
		// classify the use
		kind := ""
		p := x.Parent
		switch {
		case p.Is("ArrayExpression") && p.Parent != nil && p.Parent.Is("CallExpression") && p.Parent.N("callee").Is("Identifier") && takenS[p.Parent.N("callee").IdentName()] == "$recvQueue" && len(p.L("elements")) == 2 && squash(p.L("elements")[1].Src()) == "true":
			kind = "handoff"
		case isQueueCall(p, "$buffer", "push"):
			// must be guarded by length < capacity
			kind = "buffer?"
			for a := p.Parent; a != nil && a != send; a = a.Parent {
				if a.Is("IfStatement") {
					t := squash(a.N("test").Src())
					if strings.Contains(t, ".$buffer.length<") && strings.Contains(t, ".$capacity") {
						kind = "buffer"
					}
					break
				}
			}
		case p.Is("ReturnStatement") && x.EnclosingFunc() != send:
			// the parked closure returns the value when a receiver (or close) releases it
			kind = "parked?"
			fn := x.EnclosingFunc()
			if fn.Parent != nil && isQueueCall(fn.Parent, "$sendQueue", "push") {
				kind = "parked"
			}
		}
		ok := kind == "handoff" || kind == "buffer" || kind == "parked"
		r.Check(ok, fmt.Sprintf("send:value-use#%d:%s", uses, kind), x.Pos(), fmt.Sprintf("the sent value is handed to a parked receiver as [v, true], appended to a non-full buffer, or returned by the parked sender's entry (found in `%s`)", squash(stmtOf(x).Src())))
		return true
	})
	r.Check(uses == 3, "send:three-destinations", send.Pos(), fmt.Sprintf("the sent value has exactly the three destinations receiver / buffer / parked entry (%d uses)", uses))
	// order: receiver hand-off is tried before the buffer, the buffer before parking
	pos := map[string]int{}
	send.Walk(func(x *ctx.JSNode) bool {
		switch {
		case isQueueCall(x, "$recvQueue", "shift"):
			pos["recvq"] = x.Start
		case isQueueCall(x, "$buffer", "push"):
			pos["buf"] = x.Start
		case isQueueCall(x, "$sendQueue", "push"):
			pos["park"] = x.Start
		}
		return true
	})
	r.Check(pos["recvq"] > 0 && pos["buf"] > pos["recvq"] && pos["park"] > pos["buf"], "send:order", send.Pos(), "a send first serves a parked receiver, then the buffer, and parks only when neither is possible")
}

// stmtOf returns the statement containing x.
func stmtOf(x *ctx.JSNode) *ctx.JSNode {
	for p := x; p != nil; p = p.Parent {
		if strings.HasSuffix(p.Type, "Statement") || p.Is("VariableDeclaration") {
			return p
		}
	}
	return x
}

// ruleC03Wakers: a function placed on a wait queue is called by whoever makes the operation possible — a
// sender, a receiver, or close — in THAT goroutine. It may record, deregister and schedule, but it must not
// throw: the panic of "send on closed channel" belongs to the parked sender and is raised when it resumes
// (in $blk). A throw inside the entry lands in the closer and leaves the remaining waiters asleep.
func ruleC03Wakers(c *ctx.Ctx, r *core.Reporter) {
	r.Begin("C03.wakers", "F-WHO", "functions placed on $sendQueue/$recvQueue never throw (they run in the waking goroutine); a sender woken by close learns it through the argument of its entry and panics in its own $blk", 4)
	if !needPrelude(c, r) {
		return
	}
	n := 0
	for _, fnName := range []string{"$send", "$recv", "$select"} {
		fn := c.PreludeFunc(fnName)
		if fn == nil {
			r.Undecided("entry:"+fnName, "compiler/prelude/goroutines.js", fnName+" not found")
			continue
		}
		inits := localInits(fn)
		fn.Walk(func(x *ctx.JSNode) bool {
			for _, q := range []string{"$sendQueue", "$recvQueue"} {
				if !isQueueCall(x, q, "push") || len(x.L("arguments")) != 1 {
					continue
				}
				arg := x.L("arguments")[0]
				entry := arg
				if arg.Is("Identifier") {
					for _, in := range inits[arg.IdentName()] {
						if in.IsFunc() && containsNode(x.EnclosingFunc(), in) {
							entry = in
						}
					}
				}
				if !entry.IsFunc() {
					r.Undecided(fmt.Sprintf("entry:%s:%s", fnName, q), x.Pos(), "queue entry is not a function literal")
					continue
				}
				n++
				throws := 0
				entry.Walk(func(y *ctx.JSNode) bool {
					if y.Is("ThrowStatement") || (y.Is("CallExpression") && strings.HasPrefix(y.N("callee").IdentName(), "$throw")) || (y.Is("CallExpression") && y.N("callee").IdentName() == "$panic") {
						throws++
					}
					return true
				})
				r.Check(throws == 0, fmt.Sprintf("entry-never-throws:%s:%s#%d", fnName, q, n), entry.Pos(), fmt.Sprintf("the entry %s puts on %s records and schedules but does not throw (throwing statements: %d)", fnName, q, throws))
				if q == "$sendQueue" {
					// the entry takes the "closed" flag, and the frame's $blk throws under it
					ps := funcParams(entry)
					flagStored := ""
					if len(ps) == 1 {
						entry.Walk(func(y *ctx.JSNode) bool {
							if y.Is("AssignmentExpression") && y.N("right").IdentName() == ps[0] {
								flagStored = squash(y.N("left").Src())
							}
							return true
						})
					}
					blkThrows := false
					fn.Walk(func(y *ctx.JSNode) bool {
						if (y.Is("Property") || y.Is("MethodDefinition")) && y.N("key") != nil && y.N("key").IdentName() == "$blk" {
							y.Walk(func(z *ctx.JSNode) bool {
								if z.Is("IfStatement") && flagStored != "" {
									t := squash(z.N("test").Src())
									leaf := flagStored
									if i := strings.LastIndex(leaf, "."); i >= 0 {
										leaf = leaf[i+1:]
									}
									if strings.HasSuffix(t, leaf) && strings.Contains(squash(z.N("consequent").Src()), "$throwRuntimeError(") {
										blkThrows = true
									}
								}
								return true
							})
						}
						return true
					})
					r.Check(len(ps) == 1 && flagStored != "" && blkThrows, fmt.Sprintf("closed-sender-panics-on-resume:%s#%d", fnName, n), entry.Pos(), fmt.Sprintf("a parked sender's entry stores its argument (closed) in %q and the goroutine's $blk throws \"send on closed channel\" under it", flagStored))
				}
			}
			return true
		})
	}
	r.Check(n >= 4, "entries", "compiler/prelude/goroutines.js", fmt.Sprintf("%d wait-queue entries examined", n))
}
