package rules

import (
	"bytes"
	"fmt"
	"go/ast"
	"go/constant"
	"go/token"
	"go/types"
	"strings"

	"verif/checker/internal/core"
	"verif/checker/internal/ctx"
	"verif/checker/internal/tmpl"
)

func init() {
	register(&Property{
		ID:          "C19",
		Explanation: "Decided: (magic) the hint byte 0x08 can enter the output stream only through Hint.WriteTo — the string-literal encoder escapes it, no template, prelude file or identifier encoder can contain it; (codec) WriteTo and ReadHint agree on the 3-byte header (magic, big-endian 16-bit size) and on the consumed length, Pack and Unpack agree on the (flag, type) table and Filter.Write handles every packed type; (pos) translateStmt sets the position before any emission, every write flushes a pending position hint first, and CatchOutput flushes before returning its buffer; (filter) Filter.Write counts lines and columns on exactly the bytes it forwards and skips exactly the length ReadHint reports, prelude/inc.js mappings are offset by the current line and column; the minifier copies hints verbatim by the same length. NOT decided: column arithmetic of esbuild's maps, mapping completeness, behaviour when a Write call splits a hint (documented precondition).",
		Assumptions: []string{"callers never split a hint across Write calls (documented precondition of the filter)", "net/url.QueryEscape percent-encodes control bytes"},
		Rules:       []RuleFunc{ruleC19Magic, ruleC19Codec, ruleC19Pos, ruleC19Filter, ruleC19WriteJSSource, ruleC19FirstLine, ruleNarrowShift},
	})
}

const smPkg = "internal/sourcemapx"

func ruleC19Magic(c *ctx.Ctx, r *core.Reporter) {
	r.Begin("C19.magic", "F-WHO", "the source-map hint byte 0x08 is written into generated code only by Hint.WriteTo", 9)
	p := c.Pkg(smPkg)
	if p == nil {
		r.Undecided("package", smPkg, "not loaded")
		return
	}
	// HintMagic value
	if o, ok := p.Types.Scope().Lookup("HintMagic").(*types.Const); ok {
		v, _ := constant.Int64Val(o.Val())
		r.Check(v == 8, "magic:value", smPkg+"/hint.go", fmt.Sprintf("HintMagic is 0x%02X (the byte the minifier and the filter look for)", v))
	} else {
		r.Undecided("magic:value", smPkg, "HintMagic not found")
	}
	// uses of HintMagic across the module: only WriteTo constructs data from it
	nuses := 0
	for _, pk := range c.ModulePkgs() {
		for _, f := range pk.Syntax {
			if c.IsTestFile(f.Pos()) {
				continue
			}
			for _, d := range f.Decls {
				fd, ok := d.(*ast.FuncDecl)
				if !ok || fd.Body == nil {
					continue
				}
				ast.Inspect(fd.Body, func(n ast.Node) bool {
					id, ok := n.(*ast.Ident)
					if !ok || id.Name != "HintMagic" {
						return true
					}
					if o := pk.TypesInfo.Uses[id]; o == nil || o.Pkg() == nil || !strings.HasSuffix(o.Pkg().Path(), smPkg) {
						return true
					}
					nuses++
					fn := ctx.FuncName(fd)
					// classify the use: comparison / search (read side) or data construction (write side)
					writes := false
					ast.Inspect(fd.Body, func(m ast.Node) bool {
						if cl, ok := m.(*ast.CompositeLit); ok && cl.Pos() <= id.Pos() && id.End() <= cl.End() {
							writes = true
						}
						if ce, ok := m.(*ast.CallExpr); ok {
							if _, _, nm := callee(pk.TypesInfo, ce); (nm == "WriteByte" || nm == "append" || nm == "Write") && ce.Pos() <= id.Pos() && id.End() <= ce.End() {
								writes = true
							}
						}
						return true
					})
					if writes {
						r.Check(fn == "Hint.WriteTo", "magic:writer:"+ctx.RelPkg(pk.PkgPath)+"."+fn, c.Pos(id.Pos()), "HintMagic is put into a byte sequence in "+fn+" (only Hint.WriteTo may do that)")
					} else {
						r.OK("magic:reader:"+ctx.RelPkg(pk.PkgPath)+"."+fn, c.Pos(id.Pos()), "HintMagic is only compared or searched for")
					}
					return true
				})
			}
		}
	}
	if nuses < 3 {
		r.Undecided("magic:uses", smPkg, fmt.Sprintf("expected uses of HintMagic in FindHint, ReadHint and WriteTo; found %d", nuses))
	}
	// string literals: encodeString escapes 0x08 (shared evaluation with C14.literal, single byte)
	if fd := c.FuncDecl("compiler", "encodeString"); fd != nil {
		ok := false
		if arm := armOf(fd, `'\b'`); arm != nil {
			ok = strings.Contains(nodeString(c, arm), "`\\b`")
		} else {
			// falls to the default arm: escaped when r < 0x20
			ast.Inspect(fd.Body, func(n ast.Node) bool {
				if is, isIf := n.(*ast.IfStmt); isIf {
					if v, known := evalByteCond(c.Pkg("compiler").TypesInfo, is.Cond, "r", 8); known && v {
						ok = true
					}
				}
				return true
			})
		}
		r.Check(ok, "magic:string-literals", c.Pos(fd.Pos()), "a backspace byte inside a Go string constant is escaped by encodeString, never copied raw into the output")
	}
	// templates
	bad := ""
	n := 0
	for _, t := range corpus(c).Templates {
		if t.Role == tmpl.RoleMessage {
			continue
		}
		n++
		if strings.ContainsRune(t.Text, '\b') {
			bad = c.Pos(t.Pos)
		}
	}
	r.Check(bad == "", "magic:templates", "compiler", fmt.Sprintf("none of the %d string constants of package compiler that can reach the output contains byte 0x08 %s", n, bad))
	// prelude files
	for _, name := range ctx.PreludeFiles {
		b, err := c.ReadFile("compiler/prelude/" + name)
		if err != nil {
			r.Undecided("magic:prelude:"+name, "compiler/prelude/"+name, err.Error())
			continue
		}
		r.Check(!bytes.Contains(b, []byte{8}), "magic:prelude:"+name, "compiler/prelude/"+name, "the prelude file contains no 0x08 byte")
	}
	// identifiers: encodeIdent goes through url.QueryEscape
	if fd := c.FuncDecl("compiler", "encodeIdent"); fd != nil {
		first := ""
		if len(fd.Body.List) > 0 {
			first = nodeString(c, fd.Body.List[0])
		}
		r.Check(strings.Contains(first, "url.QueryEscape(name)"), "magic:identifiers", c.Pos(fd.Pos()), "generated identifiers are percent-encoded first (control bytes cannot survive)")
	}
	// the only producers of hint bytes in package compiler: writePos and Identifier.EncodeHint via funcRef
	nw := 0
	for _, pk := range c.ModulePkgs("compiler", "build") {
		for _, f := range pk.Syntax {
			if c.IsTestFile(f.Pos()) {
				continue
			}
			ast.Inspect(f, func(n ast.Node) bool {
				if ce, ok := n.(*ast.CallExpr); ok {
					if pkgp, recv, nm := callee(pk.TypesInfo, ce); strings.HasSuffix(pkgp, smPkg) && recv == "Hint" && nm == "WriteTo" {
						nw++
					}
				}
				return true
			})
		}
	}
	r.Check(nw >= 1, "magic:hint-writers", "compiler/utils.go", fmt.Sprintf("%d call(s) of Hint.WriteTo outside sourcemapx (writePos)", nw))
}

func ruleC19Codec(c *ctx.Ctx, r *core.Reporter) {
	r.Begin("C19.codec", "F-SIB", "WriteTo/ReadHint agree on the hint header and length; Pack/Unpack agree on the type flags; the filter handles every packed type", 9)
	wt := c.FuncDecl(smPkg, "Hint.WriteTo")
	rh := c.FuncDecl(smPkg, "ReadHint")
	pk := c.FuncDecl(smPkg, "Hint.Pack")
	up := c.FuncDecl(smPkg, "Hint.Unpack")
	fw := c.FuncDecl(smPkg, "Filter.Write")
	if wt == nil || rh == nil || pk == nil || up == nil || fw == nil {
		r.Undecided("anchors", smPkg, "WriteTo/ReadHint/Pack/Unpack/Filter.Write not found")
		return
	}
	w := squash(nodeString(c, wt.Body))
	_ = rh
	{
		// order of the three header parts in WriteTo, whatever the buffer handling looks like:
		// first mention of the magic ≺ big-endian 16-bit length of the payload ≺ payload appended
		recv := "h"
		if wt.Recv != nil && len(wt.Recv.List) == 1 && len(wt.Recv.List[0].Names) == 1 {
			recv = wt.Recv.List[0].Names[0].Name
		}
		pMagic, pLen, pPayload := token.NoPos, token.NoPos, token.NoPos
		little := false
		ast.Inspect(wt.Body, func(n ast.Node) bool {
			switch x := n.(type) {
			case *ast.Ident:
				if x.Name == "HintMagic" && pMagic == token.NoPos {
					pMagic = x.Pos()
				}
			case *ast.CallExpr:
				if sel, ok := x.Fun.(*ast.SelectorExpr); ok {
					switch exprStr(sel.X) {
					case "binary.BigEndian":
						if (sel.Sel.Name == "AppendUint16" || sel.Sel.Name == "PutUint16") && strings.Contains(squash(exprStr(x)), "uint16(len("+recv+".Payload))") && pLen == token.NoPos {
							pLen = x.Pos()
						}
					case "binary.LittleEndian":
						little = true
					}
				}
				// hand-coded big-endian length: append(buf, …, byte(S>>8), byte(S)) with S the payload length
				if exprStr(x.Fun) == "append" && !x.Ellipsis.IsValid() && pLen == token.NoPos {
					for i := 1; i+1 < len(x.Args); i++ {
						hi, lo := squash(exprStr(x.Args[i])), squash(exprStr(x.Args[i+1]))
						if strings.HasPrefix(hi, "byte(") && strings.HasSuffix(hi, ">>8)") && strings.HasPrefix(lo, "byte(") {
							sv := strings.TrimSuffix(strings.TrimPrefix(hi, "byte("), ">>8)")
							if lo == "byte("+sv+")" && (sv == "len("+recv+".Payload)" || len(findGoPattern(wt.Body, sv+` := len(`+recv+`.Payload)`)) > 0) {
								pLen = x.Args[i].Pos()
							}
						}
					}
				}
				if exprStr(x.Fun) == "append" && x.Ellipsis.IsValid() && len(x.Args) == 2 && exprStr(x.Args[1]) == recv+".Payload" && pPayload == token.NoPos {
					pPayload = x.Pos()
				}
			}
			return true
		})
		r.Check(pMagic != token.NoPos && pLen > pMagic && pPayload > pLen && !little, "header:writer", c.Pos(wt.Pos()), "WriteTo emits magic, big-endian uint16 payload length, payload — in this order")
	}
	r.Check(func() bool {
		in := firstParamName(rh)
		sizeDefs := findGoPattern(rh.Body, `µsize := int(binary.BigEndian.Uint16(µb[1:3]))`)
		sizeDefs = append(sizeDefs, findGoPattern(rh.Body, `µsize := int(µb[1])<<8 | int(µb[2])`)...)
		for _, m := range sizeDefs {
			if m.Env["µb"] != in {
				continue
			}
			sz := m.Env["µsize"]
			okCopy, okRet := false, false
			for _, m2 := range findGoPattern(rh.Body, `copy(µh.Payload, µb[3:])`) {
				okCopy = okCopy || m2.Env["µb"] == in
			}
			for _, m2 := range findGoPattern(rh.Body, `return µh, µs + 3`) {
				okRet = okRet || m2.Env["µs"] == sz
			}
			return okCopy && okRet
		}
		return false
	}(), "header:reader", c.Pos(rh.Pos()), "ReadHint reads the size from bytes 1..2 big-endian (binary.BigEndian.Uint16, or int(b[1])<<8 | int(b[2]) with the bytes widened BEFORE the shift), the payload from byte 3 and reports size+3 consumed bytes")
	r.Check(strings.Contains(w, "iflen(h.Payload)>0xFFFF{panic("), "header:size-fits", c.Pos(wt.Pos()), "a payload that does not fit the 16-bit size field is rejected instead of being truncated")
	r.Check(hasGoPattern(rh.Body, `if µb[0] != HintMagic { panic(µ_) }`) && hasGoPattern(rh.Body, `if len(µb) < µsize+3 { panic(µ_) }`), "header:reader-checks", c.Pos(rh.Pos()), "ReadHint refuses input that does not start with the magic or is shorter than the announced payload")
	// flags
	info := c.Pkg(smPkg).TypesInfo
	packFlags := map[string]string{} // type -> flag
	ast.Inspect(pk.Body, func(n ast.Node) bool {
		if cc, ok := n.(*ast.CaseClause); ok && len(cc.List) == 1 {
			for _, ce := range callsNamed(cc, "WriteByte") {
				if tv, ok := info.Types[ce.Args[0]]; ok && tv.Value != nil {
					packFlags[exprStr(cc.List[0])] = tv.Value.ExactString()
				}
			}
		}
		return true
	})
	unpackFlags := map[string]string{} // flag -> type
	ast.Inspect(up.Body, func(n ast.Node) bool {
		if cc, ok := n.(*ast.CaseClause); ok && len(cc.List) == 1 {
			if tv, ok := info.Types[cc.List[0]]; ok && tv.Value != nil {
				src := nodeString(c, cc)
				switch {
				case strings.Contains(src, "token.NoPos"):
					unpackFlags[tv.Value.ExactString()] = "token.Pos"
				case strings.Contains(src, "&Identifier{}"):
					unpackFlags[tv.Value.ExactString()] = "Identifier"
				}
			}
		}
		return true
	})
	for t, fl := range packFlags {
		r.Check(unpackFlags[fl] == t, "flags:"+t, c.Pos(pk.Pos()), fmt.Sprintf("Pack writes flag %s for %s; Unpack decodes flag %s as %s", fl, t, fl, unpackFlags[fl]))
	}
	if len(packFlags) < 2 {
		r.Undecided("flags", c.Pos(pk.Pos()), fmt.Sprintf("expected flags for token.Pos and Identifier; found %v", packFlags))
	}
	// flags distinct
	seen := map[string]bool{}
	distinct := true
	for _, fl := range packFlags {
		if seen[fl] {
			distinct = false
		}
		seen[fl] = true
	}
	r.Check(distinct, "flags:distinct", c.Pos(pk.Pos()), "every packed type has its own flag")
	// filter handles every packed type
	handled := map[string]bool{}
	ast.Inspect(fw.Body, func(n ast.Node) bool {
		if ts, ok := n.(*ast.TypeSwitchStmt); ok {
			for _, cl := range ts.Body.List {
				for _, l := range cl.(*ast.CaseClause).List {
					handled[exprStr(l)] = true
				}
			}
		}
		return true
	})
	for t := range packFlags {
		r.Check(handled[t], "filter-handles:"+t, c.Pos(fw.Pos()), "Filter.Write has an arm for hints carrying "+t)
	}
	// the minifier copies hints by ReadHint's length
	if rw := c.FuncDecl("compiler", "removeWhitespace"); rw != nil {
		if arm := armOf(rw, `'\b'`); arm != nil {
			s := squash(nodeString(c, arm))
			r.Check(strings.Contains(s, "_,length:=sourcemapx.ReadHint(b)out=append(out,b[:length]...)b=b[length:]continue"), "minify:copies-hint-verbatim", c.Pos(arm.Pos()), "removeWhitespace copies a hint verbatim using the length reported by ReadHint (payload bytes are not interpreted as code)")
		} else {
			r.Violation("minify:copies-hint-verbatim", c.Pos(rw.Pos()), "removeWhitespace has no arm for the hint magic: payload bytes would be treated as code")
		}
		checkPreviousIsCodeByte(c, r, rw)
	}
}

func ruleC19Pos(c *ctx.Ctx, r *core.Reporter) {
	r.Begin("C19.pos", "F-MUST", "a statement's position is set before any of its code is emitted; every write flushes a pending position first", 5)
	ts := c.FuncDecl("compiler", "funcContext.translateStmt")
	if ts == nil {
		r.Undecided("translateStmt", "compiler/statements.go", "not found")
		return
	}
	// SetPos(stmt.Pos()) is a top-level statement that precedes every other top-level statement except the defer
	iSet := -1
	for i, st := range ts.Body.List {
		if strings.HasPrefix(nodeString(c, st), "fc.SetPos(stmt.Pos())") {
			iSet = i
		}
	}
	ok := iSet >= 0
	for i := 0; i < iSet; i++ {
		if _, isDefer := ts.Body.List[i].(*ast.DeferStmt); !isDefer {
			ok = false
		}
	}
	r.Check(ok, "translateStmt:SetPos-first", c.Pos(ts.Pos()), "fc.SetPos(stmt.Pos()) is the first action of translateStmt (only the recover handler precedes it)")
	if w := c.FuncDecl("compiler", "funcContext.Write"); w != nil {
		s := squash(nodeString(c, w.Body))
		r.Check(strings.HasPrefix(s, "{fc.writePos()fc.output=append(fc.output,b...)"), "Write:flush-then-append", c.Pos(w.Pos()), "funcContext.Write emits the pending position hint before appending the bytes")
	}
	if wp := c.FuncDecl("compiler", "funcContext.writePos"); wp != nil {
		s := squash(nodeString(c, wp.Body))
		r.Check(strings.Contains(s, "iffc.posAvailable{fc.posAvailable=false") && strings.Contains(s, "h.Pack(fc.pos)") && strings.Contains(s, "h.WriteTo(fc)"), "writePos:once", c.Pos(wp.Pos()), "a pending position is packed and written exactly once (the flag is cleared before writing, which re-enters Write)")
	}
	if sp := c.FuncDecl("compiler", "funcContext.SetPos"); sp != nil {
		s := squash(nodeString(c, sp.Body))
		r.Check(strings.Contains(s, "fc.posAvailable=true") && strings.Contains(s, "fc.pos=pos"), "SetPos:arms", c.Pos(sp.Pos()), "SetPos records the position and marks it pending")
	}
	if co := c.FuncDecl("compiler", "funcContext.CatchOutput"); co != nil {
		s := squash(nodeString(c, co.Body))
		iF := strings.Index(s, "f()")
		iW := strings.Index(s, "fc.writePos()")
		iC := strings.Index(s, "caught:=fc.output")
		r.Check(iF >= 0 && iW > iF && iC > iW, "CatchOutput:flushes", c.Pos(co.Pos()), "CatchOutput flushes a pending position into the captured buffer before handing it back (the hint stays with the code it belongs to)")
	}
	// branch clauses set their own position
	if tb := c.FuncDecl("compiler", "funcContext.translateBranchingStmt"); tb != nil {
		r.Check(strings.Contains(nodeString(c, tb.Body), "fc.SetPos(clause.Pos())"), "branch-clauses:SetPos", c.Pos(tb.Pos()), "each case clause sets its own position before its code")
	}
	// synthetic identifiers stand for the objects they refer to — also in the source map: the statements the
	// compiler builds itself (package-level initialisers, the calls of init and main) get their position
	// from the identifier of the object
	if ni := c.FuncDecl("compiler", "funcContext.newIdentFor"); ni != nil {
		obj := firstParamName(ni)
		ok := false
		for _, m := range findGoPattern(ni.Body, `µid.NamePos = µo.Pos()`) {
			if m.Env["µo"] == obj && len(enclosingIfs(ni.Body, m.Node.Pos())) == 0 {
				ok = true
			}
		}
		r.Check(ok, "newIdentFor:carries-object-position", c.Pos(ni.Pos()), "an identifier synthesised for an object is positioned at the object's declaration, so synthesised statements (variable initialisers, init and main calls) are mapped")
	} else {
		r.Undecided("newIdentFor:carries-object-position", "compiler/utils.go", "funcContext.newIdentFor not found")
	}

}

func ruleC19Filter(c *ctx.Ctx, r *core.Reporter) {
	r.Begin("C19.filter", "F-KEY", "the filter counts lines and columns on exactly the bytes it forwards, skips exactly the hint length, and offsets foreign mappings by the current position", 6)
	fw := c.FuncDecl(smPkg, "Filter.Write")
	if fw == nil {
		r.Undecided("Filter.Write", smPkg, "not found")
		return
	}
	s := squash(nodeString(c, fw.Body))
	// w := p (or p[:i]); Writer.Write(w); newline scan over w
	r.Check(strings.Contains(s, "w:=pifi!=-1{w=p[:i]}"), "filter:chunk-before-hint", c.Pos(fw.Pos()), "the forwarded chunk is everything before the next hint")
	r.Check(strings.Contains(s, "f.Writer.Write(w)") && strings.Contains(s, "bytes.IndexByte(w,'\\n')") && strings.Contains(s, "f.column+=len(w)") && strings.Contains(s, "f.line++f.column=0w=w[i+1:]"), "filter:count-what-is-forwarded", c.Pos(fw.Pos()), "line/column accounting scans the same slice that was forwarded to the underlying writer")
	r.Check(strings.Contains(s, "h,length:=ReadHint(p[i:])") && strings.Contains(s, "p=p[i+length:]"), "filter:skip-exact-length", c.Pos(fw.Pos()), "after a hint the input advances by exactly the length ReadHint consumed")
	r.Check(strings.Contains(s, "n+=length"), "filter:reports-consumed", c.Pos(fw.Pos()), "hint bytes count as consumed input (io.Writer contract: n == len(p) on success)")
	r.Check(strings.Contains(s, "f.goMappingCallback(f.line+1,f.column,"), "filter:mapping-position", c.Pos(fw.Pos()), "a mapping is recorded at the current (1-based line, 0-based column) output position")
	if jc := c.FuncDecl(smPkg, "Filter.defaultJSMappingCallback"); jc != nil {
		r.Check(hasGoPattern(jc.Body, `if µm.GeneratedLine == µ_ { µm.GeneratedColumn += µf.column }; µm.GeneratedLine += µf.line`), "filter:js-offset", c.Pos(jc.Pos()), "mappings of prelude/inc.js chunks are shifted by the current line; the column only on their first line (which line number is the first is decided by C19.first-line)")
	}
	// WriteJS computes mappings before writing the code (so that f.line/f.column are the chunk's start)
	if wj := c.FuncDecl(smPkg, "Filter.WriteJS"); wj != nil {
		t := nodeString(c, wj.Body)
		iM := strings.Index(t, "f.jsMappingCallback(mapping)")
		iW := strings.LastIndex(t, "return f.Write(result.Code)")
		r.Check(iM >= 0 && iW > iM, "filter:js-mappings-before-write", c.Pos(wj.Pos()), "the mappings of a JS chunk are registered before the chunk advances the line/column counters")
	}
	// every hint (and every mapping of an included JavaScript file) ends up in the map: the default
	// callbacks add their mapping unconditionally — a mapping dropped as "redundant" leaves the generated
	// line it belongs to without any position
	for _, name := range []string{"Filter.defaultGoMappingCallback", "Filter.defaultJSMappingCallback"} {
		fd := c.FuncDecl(smPkg, name)
		if fd == nil {
			r.Undecided("mapping:always-added:"+name, smPkg, name+" not found")
			continue
		}
		top := -1
		for i, st := range fd.Body.List {
			if es, ok := st.(*ast.ExprStmt); ok {
				if call, ok := es.X.(*ast.CallExpr); ok {
					if sel, ok := call.Fun.(*ast.SelectorExpr); ok && sel.Sel.Name == "AddMapping" {
						top = i
					}
				}
			}
		}
		early := 0
		if top >= 0 {
			for _, st := range fd.Body.List[:top] {
				ast.Inspect(st, func(n ast.Node) bool {
					switch x := n.(type) {
					case *ast.FuncLit:
						return false
					case *ast.ReturnStmt:
						early++
					case *ast.CallExpr:
						if id, ok := x.Fun.(*ast.Ident); ok && id.Name == "panic" {
							early++
						}
					}
					return true
				})
			}
		}
		r.Check(top >= 0 && early == 0, "mapping:always-added:"+name, c.Pos(fd.Pos()), fmt.Sprintf("%s calls AddMapping as an unconditional statement of its body, with no return before it (early exits: %d)", name, early))
	}

}

var _ = token.NoPos
