package rules

import (
	"fmt"
	"go/ast"
	"go/token"
	"go/types"
	"strings"

	"verif/checker/internal/core"
	"verif/checker/internal/ctx"
	"verif/checker/internal/tmpl"
)

func init() {
	register(&Property{
		ID:          "C10",
		Explanation: "Decided: (order) a package's declarations are assembled as imports, types, variables, functions; implicitly initialised variables precede the explicit initialisers, which follow go/types' InitOrder; the call of main is the last function decl; the package $init replaces itself first (runs once), emits InitCode in decl order, and import initialisers are blocking and flattened; dependencies are linked in post-order with runtime first; the program-level chain $finishSetup ≺ method synthesis ≺ $initLinknames ≺ runtime init ≺ main init; (files) files are ordered by name only, before type checking; (linkname) the three unsupported uses are rejected on error paths, implementations are registered in $linknames during $finishSetup and references bound in $initLinknames afterwards, method implementations go through $unsafeMethodToFunction with the pointer flag taken from the symbol. NOT decided: the run-time order for every import DAG; behaviour of blocking initialisers.",
		Assumptions: []string{"go/types' InitOrder is the specification's variable initialisation order"},
		Rules:       []RuleFunc{ruleC10Order, ruleC17Order, ruleC10Linkname, ruleAssembly, ruleC09Mname, ruleC10SymbolRoundTrip, ruleC10LinknameSplit, ruleC05LinknamesBeforeSelection, ruleC10ExportedReference, ruleBlockingOnlyGrows, ruleC10LocalSymbolIsFunction},
	})
}

func ruleC10Order(c *ctx.Ctx, r *core.Reporter) {
	r.Begin("C10.order", "F-MUST", "declaration, initialiser and package link order", 10)
	info := c.Pkg("compiler").TypesInfo
	if fd := c.FuncDecl("compiler", "Compile"); fd != nil {
		s := squash(nodeString(c, fd.Body))
		r.Check(strings.Contains(s, "allDecls:=append(append(append(importDecls,typeDecls...),varDecls...),funcDecls...)"), "decls:imports-types-vars-funcs", c.Pos(fd.Pos()), "the decl list is imports, then types, then variables, then functions (InitCode is emitted in this order: imported packages initialise first, variables before init functions, main last)")
		// anon types appended to typeDecls after named types, and named types after functions were translated
		order := callOrder(info, fd, []string{"importDecls", "varDecls", "funcDecls", "namedTypeDecls", "anonTypeDecls"})
		a, ok1 := order["funcDecls"]
		b, ok2 := order["namedTypeDecls"]
		d, ok3 := order["anonTypeDecls"]
		r.Check(ok1 && ok2 && ok3 && a < b && b < d, "decls:types-discovered-last", c.Pos(fd.Pos()), "named types are declared after all functions were translated (local types are discovered there) and anonymous types after that")
	}
	if fd := c.FuncDecl("compiler", "funcContext.varDecls"); fd != nil {
		s := squash(nodeString(c, fd.Body))
		iZ := strings.Index(s, "ifvarsWithInit[o]{continue}")
		iA := strings.Index(s, "initializers=append(initializers,fc.pkgCtx.InitOrder...)")
		iL := strings.Index(s, "for_,init:=rangeinitializers{varDecls=append(varDecls,fc.newVarDecl(init))}")
		r.Check(iZ >= 0 && iA > iZ && iL > iA, "vars:zero-then-InitOrder", c.Pos(fd.Pos()), "variables without initialiser get their zero value first; the explicit initialisers follow in go/types' InitOrder (dependency order, then declaration order)")
	}
	if fd := c.FuncDecl("compiler", "funcContext.funcDecls"); fd != nil {
		// the decl with mainFuncDeclFullName is appended after the loop over functions
		var loopEnd, mainPos int
		for i, st := range fd.Body.List {
			if _, ok := st.(*ast.RangeStmt); ok {
				loopEnd = i
			}
			if strings.Contains(nodeString(c, st), "mainFuncDeclFullName()") {
				mainPos = i
			}
		}
		r.Check(mainPos > loopEnd && loopEnd > 0, "funcs:main-call-last", c.Pos(fd.Pos()), "the decl that invokes main() is appended after every function (including every init) of the package")
		// the entry point is chosen among functions only: a method may be called main as well
		{
			// the variable handed to callMainFunc
			entry := ""
			for _, m := range findGoPattern(fd.Body, `µfc.callMainFunc(µv)`) {
				entry = m.Env["µv"]
			}
			nAssign, nGuarded := 0, 0
			ast.Inspect(fd.Body, func(n ast.Node) bool {
				as, ok := n.(*ast.AssignStmt)
				if !ok || len(as.Lhs) != 1 || exprStr(as.Lhs[0]) != entry || as.Tok != token.ASSIGN {
					return true
				}
				nAssign++
				for _, is := range enclosingIfs(fd.Body, as.Pos()) {
					for _, cj := range conjuncts(is.Cond) {
						switch squash(exprStr(cj)) {
						case "fun.Recv==nil", "!typesutil.IsMethod(o)", "o.Type().(*types.Signature).Recv()==nil":
							nGuarded++
						}
					}
				}
				return true
			})
			r.Check(entry != "" && nAssign >= 1 && nGuarded == nAssign, "funcs:main-is-a-function", c.Pos(fd.Pos()), fmt.Sprintf("the declaration invoked as the program's main() is selected only among declarations without receiver (%d of %d selections guarded)", nGuarded, nAssign))
		}
		s := squash(nodeString(c, fd.Body))
		_ = s
		r.Check(func() bool {
			for _, m := range findGoPattern(fd.Body, `if µm == nil { return nil, fmt.Errorf(µmsg) }`) {
				// the tested variable is the one handed to callMainFunc
				for _, m2 := range findGoPattern(fd.Body, `µfc.callMainFunc(µv)`) {
					if m2.Env["µv"] == m.Env["µm"] {
						return true
					}
				}
			}
			return false
		}(), "funcs:main-required", c.Pos(fd.Pos()), "a main package without main() is rejected")
	}
	if fd := c.FuncDecl("compiler", "funcContext.newFuncDecl"); fd != nil {
		if arm := armOf(fd, `"init"`); arm != nil {
			r.Check(strings.Contains(nodeString(c, arm), "d.InitCode = fc.CatchOutput(1, func() { fc.translateStmt(fc.callInitFunc(o), nil) })"), "funcs:init-called-in-InitCode", c.Pos(arm.Pos()), "every init function is called from the InitCode of its own decl (source order within the sorted files)")
		}
	}
	// topLevelObjects iterates files then decls in order
	if fd := c.FuncDecl("compiler", "funcContext.topLevelObjects"); fd != nil {
		s := squash(nodeString(c, fd.Body))
		r.Check(strings.Contains(s, "for_,file:=rangesrcs.Files{for_,decl:=rangefile.Decls{"), "objects:source-order", c.Pos(fd.Pos()), "functions, variables and types are collected in file order, then declaration order")
	}
	// WritePkgCode: $init protocol
	wp := c.FuncDecl("compiler", "WritePkgCode")
	if wp != nil {
		var texts []string
		var idxInitOpen, idxReplace, idxInitCode, idxAssign = -1, -1, -1, -1
		n := 0
		ast.Inspect(wp.Body, func(x ast.Node) bool {
			ce, ok := x.(*ast.CallExpr)
			if !ok {
				return true
			}
			_, recv, nm := callee(info, ce)
			if nm == "writeF" {
				if t := templateOfCallArg(c, ce, 2); t != nil {
					n++
					texts = append(texts, t.Text)
					switch {
					case strings.Contains(t.Text, "$pkg.$init = function() {};"):
						idxReplace = n
					case strings.Contains(t.Text, "$init = function() {"):
						idxInitOpen = n
					case strings.Contains(t.Text, "$pkg.$init = $init;"):
						idxAssign = n
					}
				}
			}
			if nm == "Write" && recv == "Filter" && len(ce.Args) == 1 && strings.HasSuffix(exprStr(ce.Args[0]), ".InitCode") {
				n++
				idxInitCode = n
			}
			return true
		})
		r.Check(idxInitOpen > 0 && idxReplace == idxInitOpen+1, "init:replaces-itself-first", c.Pos(wp.Pos()), "the first statement of a package's $init replaces $pkg.$init with a no-op, so a second call (another importer) does nothing")
		r.Check(idxInitCode > idxReplace && idxAssign > idxInitCode, "init:code-inside", c.Pos(wp.Pos()), "InitCode of the alive decls is written inside $init, and $pkg.$init is assigned after the function is complete")
		_ = texts
	}
	// ImportDependencies: post-order, runtime first
	if fd := c.FuncDecl("compiler", "ImportDependencies"); fd != nil {
		checkImportDependencies(c, r, fd)
	}
	if ii := c.FuncDecl("compiler", "funcContext.importInitializer"); ii != nil {
		r.Check(importInitWaits(ii), "init:importer-waits", c.Pos(ii.Pos()), "an importing package always waits for the $init of the imported one (the call is marked blocking and flattened unconditionally), so nothing overtakes an initialisation that suspends")
	} else {
		r.Undecided("init:importer-waits", "compiler/decls.go", "funcContext.importInitializer not found")
	}
	// GetSortedSources
	if fd := c.FuncDecl("build", "Session.GetSortedSources"); fd != nil {
		r.Check(strings.Contains(nodeString(c, fd.Body), "sources.SortedSourcesSlice(allSources)"), "sources:sorted-by-import-path", c.Pos(fd.Pos()), "the session hands sources to the compiler sorted by import path")
	}
}

// templateOfCallArg finds the corpus template that is argument idx of call.
func templateOfCallArg(c *ctx.Ctx, call *ast.CallExpr, idx int) *tmpl.Template {
	if idx >= len(call.Args) {
		return nil
	}
	for _, t := range corpus(c).Templates {
		if t.Expr == call.Args[idx] {
			return t
		}
	}
	return nil
}

func ruleC10Linkname(c *ctx.Ctx, r *core.Reporter) {
	r.Begin("C10.linkname", "F-MUST", "unsupported go:linkname uses are rejected; implementations are registered before references are bound; method implementations carry the receiver kind", 9)
	fd := c.FuncDecl("compiler/linkname", "ParseGoLinknames")
	if fd == nil {
		r.Undecided("ParseGoLinknames", "compiler/linkname", "not found")
		return
	}
	var pc *ast.FuncLit
	ast.Inspect(fd.Body, func(n ast.Node) bool {
		if as, ok := n.(*ast.AssignStmt); ok && len(as.Lhs) == 1 && exprStr(as.Lhs[0]) == "processComment" {
			pc, _ = as.Rhs[0].(*ast.FuncLit)
		}
		return true
	})
	if pc == nil {
		r.Undecided("processComment", c.Pos(fd.Pos()), "closure not found")
		return
	}
	// each rejection: an if with the guard whose body returns fmt.Errorf, with the mitigation test returning nil before
	type rej struct{ id, guard, msg, mitig string }
	for _, w := range []rej{
		{"no-unsafe-import", "!isUnsafe", "only allowed in Go files that import", ""},
		{"non-function", "!isFunc", "only supported for functions", "isMitigatedVarLinkname(link.Reference)"},
		{"local-body", "decl.Body != nil", "can not insert local implementation", "isMitigatedInsertLinkname(link.Reference)"},
	} {
		found := false
		ast.Inspect(pc.Body, func(n ast.Node) bool {
			is, ok := n.(*ast.IfStmt)
			if !ok || exprStr(is.Cond) != w.guard {
				return true
			}
			body := nodeString(c, is.Body)
			last := is.Body.List[len(is.Body.List)-1]
			rs, isRet := last.(*ast.ReturnStmt)
			if !isRet || len(rs.Results) != 1 || !strings.HasPrefix(exprStr(rs.Results[0]), "fmt.Errorf(") || !strings.Contains(body, w.msg) {
				return true
			}
			if w.mitig != "" {
				// the only other return in the body is `return nil` under the mitigation test
				okM := true
				for _, st := range is.Body.List[:len(is.Body.List)-1] {
					inner, isIf := st.(*ast.IfStmt)
					if !isIf || exprStr(inner.Cond) != w.mitig {
						okM = false
					}
				}
				if !okM {
					return true
				}
			} else if len(is.Body.List) != 1 {
				return true
			}
			found = true
			return true
		})
		r.Check(found, "reject:"+w.id, c.Pos(pc.Pos()), fmt.Sprintf("a //go:linkname directive with %s is rejected with an error (only the listed known cases are tolerated)", w.guard))
	}
	// errors returned by processComment are collected and returned
	s := squash(nodeString(c, fd.Body))
	r.Check(strings.Contains(s, "iferr:=processComment(c);err!=nil{errs=append(errs,errorAt(err,fset,c.Pos()))}") && strings.Contains(s, "returndirectives,errs.ErrOrNil()"), "reject:errors-returned", c.Pos(fd.Pos()), "every rejection ends up in the error returned by ParseGoLinknames")
	r.Check(strings.Contains(s, "for_,cg:=rangefile.Comments{for_,c:=rangecg.List{"), "scan:all-comments", c.Pos(fd.Pos()), "every comment of the file is examined")
	// the error aborts the build: Sources.ParseGoLinknames returns it, PrepareAllSources returns it
	if sf := c.FuncDecl("compiler/sources", "Sources.ParseGoLinknames"); sf != nil {
		t := squash(nodeString(c, sf.Body))
		r.Check(strings.Contains(t, "errs=errs.Append(err)") && strings.Contains(t, "iferr:=errs.ErrOrNil();err!=nil{returnerr}"), "reject:propagated:sources", c.Pos(sf.Pos()), "Sources.ParseGoLinknames returns the collected errors")
	}
	if pa := c.FuncDecl("compiler", "PrepareAllSources"); pa != nil {
		t := squash(nodeString(c, pa.Body))
		r.Check(strings.Contains(t, "iferr:=srcs.ParseGoLinknames();err!=nil{returnerr}"), "reject:propagated:prepare", c.Pos(pa.Pos()), "PrepareAllSources aborts on a linkname error")
	}
	// WritePkgCode: registration inside $finishSetup, binding in $initLinknames
	wp := c.FuncDecl("compiler", "WritePkgCode")
	if wp == nil {
		r.Undecided("WritePkgCode", "compiler/compiler.go", "not found")
		return
	}
	var seq []string
	info := c.Pkg("compiler").TypesInfo
	ast.Inspect(wp.Body, func(x ast.Node) bool {
		ce, ok := x.(*ast.CallExpr)
		if !ok {
			return true
		}
		if _, _, nm := callee(info, ce); nm == "writeF" {
			if t := templateOfCallArg(c, ce, 2); t != nil {
				switch {
				case strings.Contains(t.Text, "$pkg.$finishSetup = function() {"):
					seq = append(seq, "finishSetup-open")
				case strings.Contains(t.Text, "$linknames[⟨0⟩] = $unsafeMethodToFunction("):
					seq = append(seq, "register-method")
				case strings.HasPrefix(strings.TrimSpace(t.Text), "$linknames[⟨0⟩] = ⟨1⟩;"):
					seq = append(seq, "register-func")
				case strings.Contains(t.Text, "$pkg.$initLinknames = function() {"):
					seq = append(seq, "initLinknames")
				case strings.TrimSpace(t.Text) == "};":
					seq = append(seq, "close")
				}
			}
		}
		if _, _, nm := callee(info, ce); nm == "Sprintf" {
			if t := templateOfCallArg(c, ce, 0); t != nil && strings.Contains(t.Text, "= $linknames[⟨1⟩];") {
				seq = append(seq, "bind")
			}
		}
		return true
	})
	js := strings.Join(seq, ",")
	iOpen := strings.Index(js, "finishSetup-open")
	iReg := strings.Index(js, "register-")
	iInit := strings.Index(js, "initLinknames")
	r.Check(iOpen >= 0 && iReg > iOpen, "register:inside-finishSetup", c.Pos(wp.Pos()), "implementations are stored in $linknames while $finishSetup runs (sequence: "+js+")")
	r.Check(strings.Contains(js, "bind") && iInit >= 0, "bind:in-initLinknames", c.Pos(wp.Pos()), "references are bound from $linknames inside $initLinknames, which the program calls after every $finishSetup (C01.assembly)")
	// the Decl fields spliced into the registration code as JavaScript expressions hold JavaScript names:
	// every store into them comes from the compiler's name allocators (a Go name differs from the JS
	// variable when the name is reserved, minified or collides)
	{
		info := c.Pkg("compiler").TypesInfo
		allocators := map[string]bool{"objectName": true, "instName": true, "typeName": true}
		for _, field := range []string{"NamedRecvType", "RefExpr"} {
			n := 0
			for _, fd := range c.AllFuncDecls("compiler") {
				if fd.Body == nil || c.IsTestFile(fd.Pos()) {
					continue
				}
				ast.Inspect(fd.Body, func(x ast.Node) bool {
					as, ok := x.(*ast.AssignStmt)
					if !ok {
						return true
					}
					for i, l := range as.Lhs {
						sel, ok := l.(*ast.SelectorExpr)
						if !ok || sel.Sel.Name != field || i >= len(as.Rhs) {
							continue
						}
						if v, ok := info.ObjectOf(sel.Sel).(*types.Var); !ok || !v.IsField() || v.Pkg() == nil || v.Pkg().Path() != modPath("compiler") {
							continue
						}
						n++
						good := false
						if call, ok := as.Rhs[i].(*ast.CallExpr); ok {
							if _, _, name := callee(info, call); allocators[name] {
								good = true
							}
						}
						r.Check(good, fmt.Sprintf("js-name:%s@%s#%d", field, ctx.FuncName(fd), n), c.Pos(as.Pos()), fmt.Sprintf("Decl.%s (spliced into $linknames registration and binding code as a JavaScript expression) is assigned from a name allocator: `%s`", field, exprStr(as.Rhs[i])))
					}
					return true
				})
			}
			r.Check(n >= 1, "js-name:"+field, "compiler/decls.go", fmt.Sprintf("Decl.%s has %d stores", field, n))
		}
	}
	// method flag
	t := hasTemplate(c, "WritePkgCode", "", func(t *tmpl.Template) bool { return strings.Contains(t.Text, "$unsafeMethodToFunction(") })
	if t != nil {
		a := t.FmtArgs()
		ok := len(a) == 4 && exprStr(a[0]) == "d.LinkingName.String()" && exprStr(a[1]) == "d.NamedRecvType" && mentionsIdent(a[2], "method") && squash(exprStr(a[3])) == `strings.HasPrefix(recv,"*")`
		r.Check(ok, "register:method-flag", c.Pos(t.Pos), "a method implementation is registered with its receiver type, method name and pointer-receiver flag derived from the symbol name")
	} else {
		r.Violation("register:method-flag", c.Pos(wp.Pos()), "no $unsafeMethodToFunction registration")
	}
	// lookups use the symbol of the decl
	ws := squash(nodeString(c, wp.Body))
	r.Check(strings.Contains(ws, "ifgls.IsImplementation(d.LinkingName){") && strings.Contains(ws, "impl,found:=gls.FindImplementation(d.LinkingName)"), "symbols:decl-linking-name", c.Pos(wp.Pos()), "registration and binding are keyed by the decl's LinkingName")
	// GoLinknameSet.Add conflict (information)
	if wpc := c.FuncDecl("compiler", "WriteProgramCode"); wpc != nil {
		for _, d := range droppedErrors(info, wpc) {
			if _, _, nm := callee(info, d); nm == "Add" {
				r.Info("dup:gls.Add", c.Pos(d.Pos()), "the conflict error of GoLinknameSet.Add is dropped; conflicting directives are not among the rejected uses the property lists")
			}
		}
	}
}

// checkImportDependencies: structural reading of the dependency walk. The recursive closure
// is found by its self-call, the result list by the function's return statement; local names are free.
func checkImportDependencies(c *ctx.Ctx, r *core.Reporter, fd *ast.FuncDecl) {
	pos := c.Pos(fd.Pos())
	// result list: `return <ident>, nil` as the last statement
	var result string
	if rs, ok := fd.Body.List[len(fd.Body.List)-1].(*ast.ReturnStmt); ok && len(rs.Results) == 2 {
		if id, ok := rs.Results[0].(*ast.Ident); ok {
			result = id.Name
		}
	}
	// recursive closure: <name> = func(p string) error { … <name>(…) … }
	var rec *ast.FuncLit
	var recName string
	ast.Inspect(fd.Body, func(n ast.Node) bool {
		if as, ok := n.(*ast.AssignStmt); ok && len(as.Lhs) == 1 && len(as.Rhs) == 1 {
			if fl, ok := as.Rhs[0].(*ast.FuncLit); ok {
				if id, ok := as.Lhs[0].(*ast.Ident); ok && len(callsToIdent(fl.Body, id.Name)) > 0 {
					rec, recName = fl, id.Name
				}
			}
		}
		return true
	})
	if rec == nil || result == "" || len(rec.Type.Params.List) != 1 || len(rec.Type.Params.List[0].Names) != 1 {
		r.Undecided("link:post-order", pos, "could not identify the recursive dependency walk or the result list")
		return
	}
	param := rec.Type.Params.List[0].Names[0].Name
	isAppendTo := func(st ast.Stmt, list string) (ast.Expr, bool) {
		as, ok := st.(*ast.AssignStmt)
		if !ok || len(as.Lhs) != 1 || len(as.Rhs) != 1 || exprStr(as.Lhs[0]) != list {
			return nil, false
		}
		call, ok := as.Rhs[0].(*ast.CallExpr)
		if !ok || exprStr(call.Fun) != "append" || len(call.Args) != 2 || exprStr(call.Args[0]) != list {
			return nil, false
		}
		return call.Args[1], true
	}
	// inside the closure (top-level statement list): the range with the recursive call precedes the append
	iRec, iApp, nApp := -1, -1, 0
	for i, st := range rec.Body.List {
		if rs, ok := st.(*ast.RangeStmt); ok && len(callsToIdent(rs.Body, recName)) > 0 && iRec < 0 {
			// an error of the recursive call must leave the closure
			iRec = i
		}
		if _, ok := isAppendTo(st, result); ok {
			iApp = i
			nApp++
		}
	}
	r.Check(iRec >= 0 && nApp == 1 && iApp > iRec, "link:post-order", pos, "a package is appended to the link list exactly once per visit, after the walk over all packages it imports")
	// visited set: first statement returns early on M[param]; M[…] = true is set in the closure
	var visited string
	if is, ok := rec.Body.List[0].(*ast.IfStmt); ok && is.Init == nil {
		if ix, ok := is.Cond.(*ast.IndexExpr); ok && exprStr(ix.Index) == param && len(is.Body.List) == 1 {
			if _, isRet := is.Body.List[0].(*ast.ReturnStmt); isRet {
				visited = exprStr(ix.X)
			}
		}
	}
	marks := false
	for _, st := range rec.Body.List {
		if as, ok := st.(*ast.AssignStmt); ok && len(as.Lhs) == 1 && exprStr(as.Rhs[0]) == "true" {
			if ix, ok := as.Lhs[0].(*ast.IndexExpr); ok && exprStr(ix.X) == visited {
				marks = true
			}
		}
	}
	r.Check(visited != "" && marks, "link:once", pos, "each package is linked once: the walk returns at once for a visited path and marks every package it appends")
	// outer order: walk("runtime") ≺ range over the archive's imports ≺ append of the archive itself
	iRt, iImp, iSelf := -1, -1, -1
	archive := ""
	if len(fd.Type.Params.List) > 0 && len(fd.Type.Params.List[0].Names) > 0 {
		archive = fd.Type.Params.List[0].Names[0].Name
	}
	for i, st := range fd.Body.List {
		for _, call := range callsToIdent(st, recName) {
			if _, inClosure := st.(*ast.AssignStmt); inClosure {
				continue
			}
			if len(call.Args) == 1 && exprStr(call.Args[0]) == `"runtime"` && iRt < 0 {
				iRt = i
			}
		}
		if rs, ok := st.(*ast.RangeStmt); ok && exprStr(rs.X) == archive+".Imports" && len(callsToIdent(rs.Body, recName)) > 0 {
			iImp = i
		}
		if arg, ok := isAppendTo(st, result); ok && exprStr(arg) == archive {
			iSelf = i
		}
	}
	r.Check(iRt >= 0 && iImp > iRt && iSelf > iImp, "link:runtime-first-main-last", pos, "runtime and its dependencies come first, the main archive last")
}

// callsToIdent lists calls whose function is the plain identifier name.
func callsToIdent(n ast.Node, name string) []*ast.CallExpr {
	var out []*ast.CallExpr
	ast.Inspect(n, func(x ast.Node) bool {
		if call, ok := x.(*ast.CallExpr); ok {
			if id, ok := call.Fun.(*ast.Ident); ok && id.Name == name {
				out = append(out, call)
			}
		}
		return true
	})
	return out
}

// mentionsIdent reports whether identifier name occurs in e.
func mentionsIdent(e ast.Expr, name string) bool {
	found := false
	ast.Inspect(e, func(n ast.Node) bool {
		if id, ok := n.(*ast.Ident); ok && id.Name == name {
			found = true
		}
		return true
	})
	return found
}
