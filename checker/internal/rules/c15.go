package rules

import (
	"fmt"
	"go/ast"
	"regexp"
	"strings"

	"verif/checker/internal/core"
	"verif/checker/internal/ctx"
	"verif/checker/internal/tmpl"
)

func init() {
	register(&Property{
		ID:          "C15",
		Explanation: "Decided: (keyfor) in $newType every comparable kind installs a keyFor and exactly func/map/slice are marked non-comparable, arrays and structs inherit comparability from their parts; (inject) composite keys escape the escape character and then the separator of every sub-key before joining with that separator, 64-bit/complex keys join numbers, interface keys are discriminated by type identity (no display string reaches a key function); (ops) map literal, index, store and delete compute T.keyFor with the map's key type, entries are {k, v} on both sides, nil-map read/len/range/write arms exist. (contexts, shared with C07) keys and values are copied into the map on store and in map literals — a stored array or struct key that aliases the caller's variable changes under the map. NOT decided: behaviour over operation histories, range-with-deletion, float key formatting.",
		Assumptions: []string{"String(number) never contains '$' or '\\\\'", "JavaScript Map preserves insertion order and compares string keys by value"},
		Rules:       []RuleFunc{ruleC15Keyfor, ruleC15Inject, ruleC15Ops, ruleC09ID, ruleC07Contexts, ruleC15KeyConverted, ruleStructComparable, ruleBlankFields, ruleC15NaNKeys, ruleC15IdKey, ruleC15UnhashablePanics},
	})
}

var comparableKinds = []string{"$kindBool", "$kindInt", "$kindInt8", "$kindInt16", "$kindInt32", "$kindInt64", "$kindUint", "$kindUint8", "$kindUint16", "$kindUint32", "$kindUint64", "$kindUintptr", "$kindFloat32", "$kindFloat64", "$kindComplex64", "$kindComplex128", "$kindString", "$kindUnsafePointer", "$kindArray", "$kindChan", "$kindInterface", "$kindPtr", "$kindStruct"}
var nonComparableKinds = []string{"$kindFunc", "$kindMap", "$kindSlice"}

func armSrc(arm *ctx.JSNode) string {
	var sb strings.Builder
	for _, st := range arm.L("consequent") {
		sb.WriteString(st.Src())
		sb.WriteString("\n")
	}
	return sb.String()
}

// assignsMember reports whether arm contains an assignment <x>.<prop> = ...
func assignsMember(arm *ctx.JSNode, prop string) *ctx.JSNode {
	var found *ctx.JSNode
	for _, st := range arm.L("consequent") {
		st.Walk(func(n *ctx.JSNode) bool {
			if found == nil && n.Is("AssignmentExpression") && n.N("left").Is("MemberExpression") && n.N("left").MemberName() == prop {
				found = n
			}
			return found == nil
		})
	}
	return found
}

func ruleC15Keyfor(c *ctx.Ctx, r *core.Reporter) {
	r.Begin("C15.keyfor", "F-EXH", "every comparable kind's arm of $newType assigns keyFor; exactly func, map and slice set comparable=false; array and struct derive comparability from their element/field types", 28)
	if !needPrelude(c, r) {
		return
	}
	nt := c.PreludeFunc("$newType")
	if nt == nil {
		r.Undecided("$newType", "compiler/prelude/types.js", "not found")
		return
	}
	arms := switchArmsByDiscriminant(nt, "kind")
	if arms == nil {
		r.Undecided("$newType:switch", nt.Pos(), "switch (kind) not found")
		return
	}
	// kinds declared in types.js
	decls := c.PreludeDecls()
	for _, k := range append(append([]string{}, comparableKinds...), nonComparableKinds...) {
		if _, ok := decls[k]; !ok {
			r.Violation("kind-declared:"+k, "compiler/prelude/types.js", k+" is not declared")
		}
	}
	for _, k := range comparableKinds {
		arm := arms[k]
		if arm == nil || arm == arms["default"] {
			r.Violation("keyFor:"+k, nt.Pos(), "$newType has no arm for comparable kind "+k)
			continue
		}
		as := assignsMember(arm, "keyFor")
		r.Check(as != nil, "keyFor:"+k, arm.Pos(), "values of kind "+k+" can be map keys: the arm installs typ.keyFor")
		setsFalse := false
		for _, st := range arm.L("consequent") {
			st.Walk(func(n *ctx.JSNode) bool {
				if n.Is("AssignmentExpression") && n.N("left").MemberName() == "comparable" && n.N("right").Src() == "false" {
					// allowed only when conditional on a part's comparability (struct)
					cond := false
					for p := n.Parent; p != nil && p != arm; p = p.Parent {
						if p.Is("IfStatement") && strings.Contains(p.N("test").Src(), ".comparable") {
							cond = true
						}
					}
					if !cond {
						setsFalse = true
					}
				}
				return true
			})
		}
		r.Check(!setsFalse, "comparable:"+k, arm.Pos(), k+" is comparable: the arm does not unconditionally set comparable=false")
	}
	for _, k := range nonComparableKinds {
		arm := arms[k]
		if arm == nil {
			r.Violation("noncomparable:"+k, nt.Pos(), "no arm for "+k)
			continue
		}
		ok := strings.Contains(armSrc(arm), "typ.comparable = false")
		r.Check(ok, "noncomparable:"+k, arm.Pos(), k+" values are not comparable: the arm sets typ.comparable = false (using one as an interface map key or in == panics)")
	}
	// how arrays and structs derive their comparability is decided by C08.comparable (ruleStructComparable),
	// which C15 evaluates as well
	// the default of the generic part: typ.comparable = true assigned AFTER the switch would overwrite; it must precede init (assigned in $newType tail, init runs later)
	tail := nt.N("body").Src()
	r.Check(strings.Contains(tail, "typ.comparable = true;"), "comparable:default-true", nt.Pos(), "$newType defaults comparable to true (init, which runs later, lowers it)")
}

// replaceChain extracts the chain of .replace(regex, repl) calls applied to the innermost expression.
type replaceCall struct {
	pattern string
	repl    string
}

func replaceChainOf(e *ctx.JSNode) (inner *ctx.JSNode, chain []replaceCall) {
	cur := e
	for cur.Is("CallExpression") && cur.N("callee").Is("MemberExpression") && cur.N("callee").MemberName() == "replace" {
		args := cur.N("arguments")
		_ = args
		al := cur.L("arguments")
		rc := replaceCall{}
		if len(al) == 2 {
			if rx, ok := al[0].F["regex"].(map[string]any); ok {
				rc.pattern, _ = rx["pattern"].(string)
				if fl, _ := rx["flags"].(string); !strings.Contains(fl, "g") {
					rc.pattern = "(non-global)" + rc.pattern
				}
			}
			rc.repl, _ = al[1].StrValue()
		}
		chain = append([]replaceCall{rc}, chain...)
		cur = cur.N("callee").N("object")
	}
	return cur, chain
}

func ruleC15Inject(c *ctx.Ctx, r *core.Reporter) {
	r.Begin("C15.inject", "F-SIB", "array and struct keyFor escape the escape character and then the separator in every sub-key before joining with that separator; 64-bit and complex keys join two number renderings; the string key is a constant prefix plus the value", 8)
	if !needPrelude(c, r) {
		return
	}
	nt := c.PreludeFunc("$newType")
	if nt == nil {
		r.Undecided("$newType", "compiler/prelude/types.js", "not found")
		return
	}
	arms := switchArmsByDiscriminant(nt, "kind")
	for _, k := range []string{"$kindArray", "$kindStruct"} {
		arm := arms[k]
		if arm == nil {
			r.Violation("inject:"+k, nt.Pos(), "no arm")
			continue
		}
		// locate the keyFor function
		var kf *ctx.JSNode
		for _, st := range arm.L("consequent") {
			st.Walk(func(n *ctx.JSNode) bool {
				if kf == nil && n.Is("AssignmentExpression") && n.N("left").MemberName() == "keyFor" && n.N("right").IsFunc() {
					kf = n.N("right")
				}
				return kf == nil
			})
		}
		if kf == nil {
			r.Violation("inject:"+k, arm.Pos(), "keyFor is not a function literal")
			continue
		}
		// separator: the string literal argument of a join call
		sep := ""
		var subKey *ctx.JSNode
		kf.Walk(func(n *ctx.JSNode) bool {
			if n.Is("CallExpression") {
				cal := n.N("callee")
				args := n.L("arguments")
				if cal.Is("MemberExpression") && cal.MemberName() == "join" && len(args) == 1 {
					sep, _ = args[0].StrValue()
				}
				if cal.Is("MemberExpression") && cal.MemberName() == "call" && strings.HasSuffix(strings.ReplaceAll(cal.N("object").Src(), " ", ""), "prototype.join") && len(args) == 2 {
					sep, _ = args[1].StrValue()
				}
				isMap := cal.IdentName() == "$mapArray" && len(args) == 2 && args[1].IsFunc()
				// Array.prototype.map.call(x, cb)
				if cal.Is("MemberExpression") && cal.MemberName() == "call" && strings.HasSuffix(strings.ReplaceAll(cal.N("object").Src(), " ", ""), "prototype.map") && len(args) == 2 && args[1].IsFunc() {
					isMap = true
				}
				if isMap {
					// the callback's returned expression is the escaped sub-key
					args[1].Walk(func(m *ctx.JSNode) bool {
						if m.Is("ReturnStatement") && subKey == nil {
							subKey = m.N("argument")
						}
						return true
					})
					if subKey == nil && !args[1].N("body").Is("BlockStatement") {
						subKey = args[1].N("body")
					}
				}
			}
			return true
		})
		if sep == "" || subKey == nil {
			r.Undecided("inject:"+k, kf.Pos(), fmt.Sprintf("cannot recognise the join separator (%q) or the per-element key expression", sep))
			continue
		}
		inner, chain := replaceChainOf(subKey)
		// required: first escape backslash (pattern \\ -> \\\\), then the separator (pattern \<sep> -> \\<sep>)
		okEsc, okSep, order := false, false, false
		escIdx, sepIdx := -1, -1
		for i, rc := range chain {
			if rc.pattern == `\\` && rc.repl == `\\` {
				okEsc, escIdx = true, i
			}
			if (rc.pattern == `\`+sep || rc.pattern == sep) && rc.repl == `\`+sep {
				okSep, sepIdx = true, i
			}
		}
		order = okEsc && okSep && escIdx < sepIdx
		r.Check(okEsc, "inject:"+k+":escape-escape-char", subKey.Pos(), fmt.Sprintf("every sub-key escapes the escape character globally (chain %v)", chain))
		r.Check(okSep, "inject:"+k+":escape-separator", subKey.Pos(), fmt.Sprintf("every sub-key escapes the separator %q globally (chain %v)", sep, chain))
		r.Check(order, "inject:"+k+":order", subKey.Pos(), "the escape character is escaped before the separator (otherwise the separator's escape is escaped again)")
		// the escaped value is the sub-key of the element/field type
		r.Check(strings.Contains(inner.Src(), ".keyFor("), "inject:"+k+":recursive", subKey.Pos(), "the escaped value is String(<part type>.keyFor(part)): "+strings.TrimSpace(inner.Src()))
	}
	// number pairs
	for _, k := range []string{"$kindInt64", "$kindUint64", "$kindComplex64", "$kindComplex128"} {
		arm := arms[k]
		if arm == nil {
			continue
		}
		as := assignsMember(arm, "keyFor")
		if as == nil {
			continue
		}
		src := strings.ReplaceAll(as.N("right").Src(), " ", "")
		a, b := "x.$high", "x.$low"
		if strings.Contains(k, "Complex") {
			a, b = "x.$real", "x.$imag"
		}
		ok := strings.Contains(src, a+`+"$"+`+b) || strings.Contains(src, "$floatKey("+a+`)+"$"+$floatKey(`+b+")")
		r.Check(ok, "inject:"+k, as.Pos(), fmt.Sprintf("the key joins the two numeric components %s and %s with a separator numbers cannot contain", a, b))
	}
	if arm := arms["$kindString"]; arm != nil {
		if as := assignsMember(arm, "keyFor"); as != nil {
			src := strings.ReplaceAll(as.N("right").Src(), " ", "")
			r.Check(strings.Contains(src, `return"$"+x`), "inject:$kindString", as.Pos(), "string keys are a constant prefix followed by the string itself (injective)")
		}
	}
	// $floatKey: NaN gets a fresh key
	if fk := c.PreludeFunc("$floatKey"); fk != nil {
		src := fk.Src()
		r.Check(strings.Contains(src, "f !== f") && strings.Contains(src, "$idCounter++"), "inject:$floatKey:NaN", fk.Pos(), "NaN keys never collide: each NaN gets a fresh counter value")
	}
}

func ruleC15Ops(c *ctx.Ctx, r *core.Reporter) {
	r.Begin("C15.ops", "F-LINK", "map literal, index, store and delete compute <key type>.keyFor(key); entries are {k, v} records on the compiler and the prelude side; nil-map read, len, range and write arms are present", 10)
	info := c.Pkg("compiler").TypesInfo
	_ = info
	// each template containing `.keyFor` preceded by a hole: the hole's Go argument must be fc.typeName(<something>.Key()) or a variable assigned from .Key()
	n := 0
	for _, t := range usableTemplates(c) {
		if t.Role != tmpl.RoleSink {
			continue
		}
		fd := c.FuncDecl("compiler", t.Func)
		if fd == nil {
			continue
		}
		toks := t.Tokens
		for i, tk := range toks {
			if tk.Kind != tmpl.TIdent || tk.Text != "keyFor" || identRole(toks, i) != roleProp || i < 2 {
				continue
			}
			h := toks[i-2]
			if h.Kind != tmpl.THole {
				continue
			}
			n++
			hole := t.Holes[h.Holes[0]]
			args := t.FmtArgs()
			ok, how := false, "?"
			if hole.Index >= 0 && hole.Index < len(args) {
				how = exprStr(args[hole.Index])
				ok = keyTypeExpr(fd, args[hole.Index])
			}
			r.Check(ok, "keyFor-type:"+t.Func+"["+strings.Join(t.CasePath, "/")+"]", c.Pos(t.Pos), fmt.Sprintf("the type whose keyFor is applied is the map's key type: %s", how))
		}
	}
	r.Count("keyFor call templates", n)
	// entry records {k: .., v: ..}
	nrec := 0
	for _, t := range usableTemplates(c) {
		if t.Role != tmpl.RoleSink {
			continue
		}
		s := strings.ReplaceAll(t.Text, " ", "")
		if strings.Contains(s, "{k:") {
			nrec++
			r.Check(strings.Contains(s, ",v:"), "entry-record:"+t.Func+"["+strings.Join(t.CasePath, "/")+"]", c.Pos(t.Pos), "map entries are emitted as {k: key, v: value}")
		}
	}
	if nrec < 2 {
		r.Undecided("entry-records", "compiler", fmt.Sprintf("only %d {k, v} templates found (map literal and map store expected)", nrec))
	}
	// readers use .k / .v
	reads := map[string]bool{}
	for _, t := range usableTemplates(c) {
		for i, tk := range t.Tokens {
			if tk.Kind == tmpl.TIdent && (tk.Text == "k" || tk.Text == "v") && identRole(t.Tokens, i) == roleProp {
				reads[tk.Text+"@"+t.Func] = true
			}
		}
		if strings.HasSuffix(t.Text, ".k") || strings.HasSuffix(t.Text, ".v") || t.Text == ".k" || t.Text == ".v" {
			reads[t.Text[len(t.Text)-1:]+"@"+t.Func] = true
		}
	}
	r.Check(reads["v@funcContext.translateExpr"], "entry-read:index", "compiler/expressions.go", "map index reads the value as <entry>.v")
	r.Check(reads["k@funcContext.translateStmt"] && reads["v@funcContext.translateStmt"], "entry-read:range", "compiler/statements.go", "range over a map reads <entry>.k and <entry>.v")
	if needPrelude(c, r) {
		if mm := c.PreludeFunc("$makeMap"); mm != nil {
			src := strings.ReplaceAll(mm.Src(), " ", "")
			r.Check(strings.Contains(src, "m.set(keyForFunc(e.k),e)"), "entry:$makeMap", mm.Pos(), "$makeMap stores each {k, v} record under keyFor(e.k)")
		}
		if mi := c.PreludeFunc("$mapIndex"); mi != nil {
			r.Check(strings.Contains(mi.Src(), `typeof m.get === "function"`), "nilmap:read", mi.Pos(), "$mapIndex yields undefined for a nil map (false) instead of failing")
		}
		if md := c.PreludeFunc("$mapDelete"); md != nil {
			r.Check(strings.Contains(md.Src(), `typeof m.delete === "function"`), "nilmap:delete", md.Pos(), "$mapDelete is a no-op on a nil map")
		}
	}
	// nil-map arms in the compiler
	var lenT, rangeT, storeT bool
	for _, t := range usableTemplates(c) {
		s := t.Text
		if strings.Contains(s, ".size : 0") {
			lenT = true
		}
		if strings.Contains(s, `$throwRuntimeError("assignment to entry in nil map")`) && strings.Contains(s, "||") {
			storeT = true
		}
	}
	r.Check(lenT, "nilmap:len", "compiler/expressions.go", "len of a nil map is 0 (`m ? m.size : 0`)")
	// range over a map: every template of the Map arm of the range statement that calls into the Map object
	// (keys/values/entries/size) is guarded by the reference itself: `<m> ? <m>.… : <nothing>`
	nRange := 0
	rangeT = true
	for _, t := range usableTemplates(c) {
		if t.Func != "funcContext.translateStmt" || !strings.Contains(strings.Join(t.CasePath, "/"), "type:*ast.RangeStmt/type:*types.Map") {
			continue
		}
		for _, m := range []string{".keys()", ".values()", ".entries()", ".size"} {
			if !strings.Contains(t.Text, m) {
				continue
			}
			nRange++
			mm := nilGuardRe.FindStringSubmatch(t.Text)
			args := t.FmtArgs()
			ok := false
			if mm != nil {
				var a, b int
				fmt.Sscanf(mm[1], "%d", &a)
				fmt.Sscanf(mm[2], "%d", &b)
				ok = a < len(args) && b < len(args) && exprStr(args[a]) == exprStr(args[b])
			}
			if !ok {
				rangeT = false
			}
		}
	}
	r.Check(rangeT && nRange >= 1, "nilmap:range", "compiler/statements.go", fmt.Sprintf("range over a nil map iterates nothing: each of the %d reads of the Map object set up before the loop is guarded `<m> ? <m>.… : …`", nRange))
	// every iteration looks the entry up again and skips a key that has been deleted in the meantime
	// (Go spec: "If a map entry that has not yet been reached is removed during iteration, the corresponding
	// iteration value will not be produced"; a value assigned during iteration is the one produced)
	if ts := c.FuncDecl("compiler", "funcContext.translateStmt"); ts != nil {
		live := false
		for _, m := range findGoPattern(ts.Body, `µfc.Printf("%s = %s.get(%s);", µe, µref, µk); µfc.translateStmt(&ast.IfStmt{Cond: µfc.newIdent(µe+" === undefined", µt), Body: &ast.BlockStmt{List: []ast.Stmt{&ast.BranchStmt{Tok: token.CONTINUE}}}}, nil)`) {
			_ = m
			live = true
		}
		r.Check(live, "range:live-entries", c.Pos(ts.Pos()), "each iteration of a range over a map fetches the entry of the next key from the map (`<e> = <m>.get(<key>)`) and continues with the next key when it is gone: entries deleted before they are reached are not produced, values overwritten before they are reached are produced as overwritten")
	}
	r.Check(storeT, "nilmap:store", "compiler/statements.go", "assignment to an entry of a nil map throws the run-time error")
}

var nilGuardRe = regexp.MustCompile(`⟨(\d+)⟩ \? (?:\[\.\.\.)?⟨(\d+)⟩\.(?:keys\(\)|values\(\)|entries\(\)|size)`)

// keyTypeExpr: e is fc.typeName(X.Key()) or fc.typeName(v) with v := X.Key() / X.(*types.Map).Key()
func keyTypeExpr(fd *ast.FuncDecl, e ast.Expr) bool {
	ce, ok := e.(*ast.CallExpr)
	if !ok || len(ce.Args) != 1 {
		return false
	}
	if sel, ok := ce.Fun.(*ast.SelectorExpr); !ok || sel.Sel.Name != "typeName" {
		return false
	}
	a := ce.Args[0]
	if strings.HasSuffix(exprStr(a), ".Key()") {
		return true
	}
	if id, ok := a.(*ast.Ident); ok {
		found := false
		ast.Inspect(fd.Body, func(n ast.Node) bool {
			if as, ok := n.(*ast.AssignStmt); ok && len(as.Lhs) == 1 && len(as.Rhs) == 1 {
				if l, ok := as.Lhs[0].(*ast.Ident); ok && l.Name == id.Name && strings.HasSuffix(exprStr(as.Rhs[0]), ".Key()") {
					found = true
				}
			}
			return true
		})
		return found
	}
	return false
}
