package rules

import (
	"fmt"
	"go/ast"
	"go/token"
	"go/types"
	"reflect"
	"sort"
	"strings"

	"verif/checker/internal/core"
	"verif/checker/internal/ctx"
)

func init() {
	register(&Property{
		ID:          "C20",
		Explanation: "Decided: (key) every configuration field of BuildCache except the tested-package marker, and the import path, flow into the cache key (fields enumerated from the struct type, so a new unkeyed field is reported), Store and Load derive the file name from the same key function; (atomic) the final path is only ever the target of os.Rename, which is reached only after serialisation succeeded and the temporary file was closed, the temporary is removed on the error path, and no other call in the package creates or writes a file; (stale) the stored build time is compared with the source modification time before the payload is decoded, Load reports a hit only on the no-error, not-old path, gzip close errors (checksum) become the result error; (test) the package-under-test exclusion precedes every file operation; (codec) every concrete go/ast node type that can sit in an interface-typed field is registered with gob, Write and Read touch the same fields in the same order, and the caller uses the loaded object only when Load returned true. NOT decided: round-trip equality of ASTs, behaviour under truncation at every offset (gzip/gob trusted), crash points inside os.Rename.",
		Assumptions: []string{"os.Rename is atomic on the cache file system", "compress/gzip verifies the checksum when the stream is read to its end and closed", "encoding/gob reports truncated input as an error"},
		Rules:       []RuleFunc{ruleC20Key, ruleC20Atomic, ruleC20Stale, ruleC20Codec, ruleC20ModTime, ruleC20PrepareNoAlias, ruleC20MonotoneModTime},
	})
}

const cachePkg = "build/cache"

func ruleC20Key(c *ctx.Ctx, r *core.Reporter) {
	r.Begin("C20.key", "F-KEY", "every build-configuration field of BuildCache and the import path flow into the cache key; Store and Load use the same key function", 9)
	p := c.Pkg(cachePkg)
	if p == nil {
		r.Undecided("package", cachePkg, "not loaded")
		return
	}
	obj := p.Types.Scope().Lookup("BuildCache")
	st, ok := obj.Type().Underlying().(*types.Struct)
	if !ok {
		r.Undecided("BuildCache", cachePkg, "not a struct")
		return
	}
	ck := c.FuncDecl(cachePkg, "BuildCache.commonKey")
	pk := c.FuncDecl(cachePkg, "BuildCache.packageKey")
	if ck == nil || pk == nil {
		r.Undecided("keys", cachePkg, "commonKey/packageKey not found")
		return
	}
	recv := ck.Recv.List[0].Names[0].Name
	// values flowing into the returned string: fields read on the receiver inside commonKey
	read := map[string]bool{}
	ast.Inspect(ck.Body, func(n ast.Node) bool {
		if sel, ok := n.(*ast.SelectorExpr); ok {
			if id, ok := sel.X.(*ast.Ident); ok && id.Name == recv {
				read[sel.Sel.Name] = true
			}
		}
		return true
	})
	// the struct literal that is formatted must itself be what is returned (every keyed field assigned from the receiver)
	retUsesLit := false
	ast.Inspect(ck.Body, func(n ast.Node) bool {
		if rs, ok := n.(*ast.ReturnStmt); ok && len(rs.Results) == 1 {
			s := exprStr(rs.Results[0])
			if strings.HasPrefix(s, "fmt.Sprintf(") {
				retUsesLit = true
			}
		}
		return true
	})
	for i := 0; i < st.NumFields(); i++ {
		f := st.Field(i).Name()
		if f == "TestedPackage" {
			r.OK("key:field:"+f, c.Pos(ck.Pos()), "TestedPackage selects which package bypasses the cache; it is not a build parameter of cached packages")
			continue
		}
		r.Check(read[f] && retUsesLit, "key:field:"+f, c.Pos(ck.Pos()), fmt.Sprintf("BuildCache.%s is part of the key material (a cache written under a different %s must not be read)", f, f))
	}
	// commonKey renders with %#v (field names and values, no ambiguity between adjacent strings)
	r.Check(func() bool {
		// return fmt.Sprintf("%#v", <the key struct value>) where the value is a local initialised by a composite literal
		for _, m := range findGoPattern(ck.Body, `return fmt.Sprintf("%#v", µk)`) {
			for _, m2 := range findGoPattern(ck.Body, `µk := µT{µµfields}`) {
				if m2.Env["µk"] == m.Env["µk"] {
					return true
				}
			}
		}
		return false
	}(), "key:rendering", c.Pos(ck.Pos()), "the key material is rendered with %#v (quoted values: adjacent fields cannot run into each other)")
	// packageKey joins commonKey and the import path
	s := nodeString(c, pk.Body)
	param := pk.Type.Params.List[0].Names[0].Name
	r.Check(strings.Contains(s, ".commonKey()") && strings.Contains(s, param), "key:package", c.Pos(pk.Pos()), "packageKey combines commonKey() with the import path")
	// Store and Load derive the path identically
	for _, fn := range []string{"BuildCache.Store", "BuildCache.Load"} {
		fd := c.FuncDecl(cachePkg, fn)
		ok := false
		if fd != nil {
			recvName, ipath := "", ""
			if fd.Recv != nil && len(fd.Recv.List[0].Names) == 1 {
				recvName = fd.Recv.List[0].Names[0].Name
			}
			for _, f := range fd.Type.Params.List {
				if exprStr(f.Type) == "string" && len(f.Names) == 1 {
					ipath = f.Names[0].Name
				}
			}
			for _, m := range findGoPattern(fd.Body, `µp := cachedPath(µbc.packageKey(µi))`) {
				if m.Env["µbc"] == recvName && m.Env["µi"] == ipath && ipath != "" {
					ok = true
				}
			}
		}
		r.Check(ok, "key:same-path:"+fn, cachePkg+"/cache.go", fn+" computes the file name as cachedPath(bc.packageKey(importPath))")
	}
	// cachedPath hashes the whole key
	if cp := c.FuncDecl(cachePkg, "cachedPath"); cp != nil {
		s := nodeString(c, cp.Body)
		r.Check(strings.Contains(s, "sha256.Sum256([]byte(key))") && strings.Contains(s, "path.Join(keys...)"), "key:hash-whole-key", c.Pos(cp.Pos()), "the file name is the SHA-256 of the complete joined key")
	}
}

// stmtIndex returns the index of the first top-level statement of body for which pred holds.
func stmtIndex(c *ctx.Ctx, body *ast.BlockStmt, pred func(src string, st ast.Stmt) bool) int {
	for i, st := range body.List {
		if pred(nodeString(c, st), st) {
			return i
		}
	}
	return -1
}

func ruleC20Atomic(c *ctx.Ctx, r *core.Reporter) {
	r.Begin("C20.atomic", "F-MUST", "a cache entry appears under its final name only by renaming a completely written, closed temporary file; failures leave no partial entry; nothing else in the package writes files; the test-package exclusion precedes all file operations", 8)
	p := c.Pkg(cachePkg)
	info := p.TypesInfo
	st := c.FuncDecl(cachePkg, "BuildCache.Store")
	if st == nil {
		r.Undecided("Store", cachePkg, "not found")
		return
	}
	iTest := stmtIndex(c, st.Body, func(s string, _ ast.Stmt) bool {
		return strings.HasPrefix(s, "if bc.isTestPackage(importPath)") && strings.Contains(s, "return false")
	})
	iTemp := stmtIndex(c, st.Body, func(s string, _ ast.Stmt) bool { return strings.Contains(s, "os.CreateTemp(") })
	iSer := stmtIndex(c, st.Body, func(s string, _ ast.Stmt) bool { return strings.HasPrefix(s, "if err := bc.serialize(") })
	iClose := stmtIndex(c, st.Body, func(s string, x ast.Stmt) bool {
		_, isExpr := x.(*ast.ExprStmt)
		return isExpr && strings.HasSuffix(strings.TrimSpace(s), ".Close()")
	})
	iRen := stmtIndex(c, st.Body, func(s string, _ ast.Stmt) bool { return strings.Contains(s, "os.Rename(") })
	iPath := stmtIndex(c, st.Body, func(s string, _ ast.Stmt) bool { return strings.Contains(s, "cachedPath(") })
	r.Check(iTest >= 0 && iPath > iTest && iTemp > iTest, "store:test-package-first", c.Pos(st.Pos()), "Store returns for the package under test before computing a path or touching the file system")
	r.Check(iTemp >= 0 && iSer > iTemp && iClose > iSer && iRen > iClose, "store:temp-serialize-close-rename", c.Pos(st.Pos()), fmt.Sprintf("Store creates a temporary file (stmt %d), serialises into it (%d), closes it (%d) and only then renames it to the final path (%d)", iTemp, iSer, iClose, iRen))
	if iSer >= 0 {
		is := st.Body.List[iSer].(*ast.IfStmt)
		body := nodeString(c, is.Body)
		r.Check(strings.Contains(body, "os.Remove(f.Name())") && strings.Contains(body, "return false"), "store:cleanup-on-error", c.Pos(is.Pos()), "if serialisation fails the temporary file is removed and Store reports failure (no rename)")
	}
	if iRen >= 0 {
		s := nodeString(c, st.Body.List[iRen])
		r.Check(strings.Contains(s, "os.Rename(f.Name(), path)"), "store:rename-temp-to-final", c.Pos(st.Body.List[iRen].Pos()), "the temporary file is renamed to the keyed path")
	}
	if iTemp >= 0 {
		s := nodeString(c, st.Body.List[iTemp])
		r.Check(strings.Contains(s, "os.CreateTemp(filepath.Dir(path)"), "store:temp-same-directory", c.Pos(st.Body.List[iTemp].Pos()), "the temporary file is created in the directory of the final path (rename stays within one file system)")
	}
	// who may write files in package cache
	allowed := map[string]bool{"CreateTemp": true, "Rename": true, "Remove": true, "RemoveAll": true, "MkdirAll": true, "Open": true}
	writers := []string{}
	for _, fd := range c.AllFuncDecls(cachePkg) {
		if fd.Body == nil {
			continue
		}
		ast.Inspect(fd.Body, func(n ast.Node) bool {
			if ce, ok := n.(*ast.CallExpr); ok {
				pkg, _, nm := callee(info, ce)
				if (pkg == "os" || pkg == "io/ioutil") && !allowed[nm] {
					switch nm {
					case "Create", "OpenFile", "WriteFile", "Link", "Symlink", "Truncate":
						writers = append(writers, fmt.Sprintf("%s.%s in %s at %s", pkg, nm, ctx.FuncName(fd), c.Pos(ce.Pos())))
					}
				}
				if pkg == "os" && nm == "Rename" && ctx.FuncName(fd) != "BuildCache.Store" {
					writers = append(writers, "os.Rename in "+ctx.FuncName(fd))
				}
			}
			return true
		})
	}
	sort.Strings(writers)
	r.Check(len(writers) == 0, "who-may-write", cachePkg, "no function of package cache creates, opens for writing, truncates or links a file other than through os.CreateTemp + os.Rename in Store: "+strings.Join(writers, "; "))
	// Load: test exclusion first
	ld := c.FuncDecl(cachePkg, "BuildCache.Load")
	if ld != nil {
		iT := stmtIndex(c, ld.Body, func(s string, _ ast.Stmt) bool {
			return strings.HasPrefix(s, "if bc.isTestPackage(importPath)") && strings.Contains(s, "return false")
		})
		iO := stmtIndex(c, ld.Body, func(s string, _ ast.Stmt) bool { return strings.Contains(s, "os.Open(") })
		r.Check(iT >= 0 && iO > iT, "load:test-package-first", c.Pos(ld.Pos()), "Load returns for the package under test before opening any file")
	}
	if tp := c.FuncDecl(cachePkg, "BuildCache.isTestPackage"); tp != nil {
		s := squash(nodeString(c, tp.Body))
		r.Check(strings.Contains(s, "importPath==bc.TestedPackage||importPath==bc.TestedPackage+\"_test\""), "test-package:both-variants", c.Pos(tp.Pos()), "both the package under test and its external _test package are excluded")
	}
}

func ruleC20Stale(c *ctx.Ctx, r *core.Reporter) {
	r.Begin("C20.stale", "F-MUST", "staleness is decided before the payload is decoded; Load reports a hit only when decoding succeeded and the entry is not old; gzip close errors are propagated", 6)
	ds := c.FuncDecl(cachePkg, "BuildCache.deserialize")
	ld := c.FuncDecl(cachePkg, "BuildCache.Load")
	sr := c.FuncDecl(cachePkg, "BuildCache.serialize")
	if ds == nil || ld == nil || sr == nil {
		r.Undecided("anchors", cachePkg, "serialize/deserialize/Load not found")
		return
	}
	iTime := stmtIndex(c, ds.Body, func(s string, _ ast.Stmt) bool { return strings.Contains(s, ".Decode(&buildTime)") })
	iCmp := stmtIndex(c, ds.Body, func(s string, _ ast.Stmt) bool {
		return strings.HasPrefix(s, "if srcModTime.After(buildTime)") && strings.Contains(s, "true, nil")
	})
	iRead := stmtIndex(c, ds.Body, func(s string, _ ast.Stmt) bool { return strings.Contains(s, "c.Read(") })
	// integrity: gzip verifies its checksum only when a read reaches the end of the stream; the gob decoder
	// stops after the last value it needs, so the reader has to be drained before the archive is accepted
	{
		zr := ""
		for _, m := range findGoPattern(ds.Body, `µzr, µerr := gzip.NewReader(µr)`) {
			zr = m.Env["µzr"]
		}
		drained := false
		for _, pat := range []string{`io.Copy(io.Discard, µz)`, `io.ReadAll(µz)`, `io.Copy(ioutil.Discard, µz)`} {
			for _, m := range findGoPattern(ds.Body, pat) {
				if m.Env["µz"] == zr && zr != "" {
					// its error must leave the function
					for _, is := range enclosingIfStmtsWithInit(ds.Body, m.Node) {
						if hasReturn(is.Body) {
							drained = true
						}
					}
				}
			}
		}
		r.Check(drained, "decode:checksum-verified", c.Pos(ds.Pos()), "after the payload is decoded the gzip reader is read to its end and an error (checksum or length mismatch, truncation) makes the load fail")
	}
	r.Check(iTime >= 0 && iCmp > iTime && iRead > iCmp, "stale:compare-before-read", c.Pos(ds.Pos()), fmt.Sprintf("deserialize decodes the build time (stmt %d), returns old=true if the sources are newer (%d) and only otherwise decodes the payload (%d)", iTime, iCmp, iRead))
	// the time that is compared on load is the time that was handed to Store: it reaches the encoder as the
	// plain parameter (no rounding, no truncation, no clock read) and is compared as decoded
	{
		tparam := ""
		for _, f := range sr.Type.Params.List {
			if exprStr(f.Type) == "time.Time" && len(f.Names) == 1 {
				tparam = f.Names[0].Name
			}
		}
		// first Encode call of serialize
		var first *ast.CallExpr
		ast.Inspect(sr.Body, func(n ast.Node) bool {
			if call, ok := n.(*ast.CallExpr); ok && first == nil {
				if sel, ok := call.Fun.(*ast.SelectorExpr); ok && sel.Sel.Name == "Encode" && len(call.Args) == 1 {
					first = call
				}
			}
			return true
		})
		okEnc := first != nil && tparam != "" && exprStr(first.Args[0]) == tparam
		reassigned := false
		ast.Inspect(sr.Body, func(n ast.Node) bool {
			if as, ok := n.(*ast.AssignStmt); ok {
				for _, l := range as.Lhs {
					if exprStr(l) == tparam {
						reassigned = true
					}
				}
			}
			return true
		})
		got := "<none>"
		if first != nil {
			got = exprStr(first.Args[0])
		}
		r.Check(okEnc && !reassigned, "stale:build-time-stored-verbatim", c.Pos(sr.Pos()), fmt.Sprintf("serialize writes its build-time parameter itself as the header (`Encode(%s)`): a rounded or re-read time makes `srcModTime.After(buildTime)` answer for a different instant", got))
		// Store hands its own parameter on
		if st := c.FuncDecl(cachePkg, "BuildCache.Store"); st != nil {
			sparam := ""
			for _, f := range st.Type.Params.List {
				if exprStr(f.Type) == "time.Time" && len(f.Names) == 1 {
					sparam = f.Names[0].Name
				}
			}
			pass := false
			for _, m := range findGoPattern(st.Body, `µbc.serialize(µc, µt, µf)`) {
				if m.Env["µt"] == sparam && sparam != "" {
					pass = true
				}
			}
			r.Check(pass, "stale:store-passes-build-time", c.Pos(st.Pos()), "Store hands the caller's build time to serialize unchanged")
		}
		// deserialize compares the decoded value itself
		dec := findGoPattern(ds.Body, `µgd.Decode(&µt)`)
		cmp := findGoPattern(ds.Body, `µs.After(µt)`)
		okCmp := len(dec) >= 1 && len(cmp) == 1 && dec[0].Env["µt"] == cmp[0].Env["µt"]
		if okCmp {
			// the source time is deserialize's parameter
			okCmp = false
			for _, f := range ds.Type.Params.List {
				for _, nm := range f.Names {
					if nm.Name == cmp[0].Env["µs"] && exprStr(f.Type) == "time.Time" {
						okCmp = true
					}
				}
			}
		}
		r.Check(okCmp, "stale:compares-decoded-time", c.Pos(ds.Pos()), "deserialize compares the caller's source modification time with the decoded build time itself")
	}
	// Load: return true is the last statement; preceded by err check and old check both returning false
	iErr := stmtIndex(c, ld.Body, func(s string, _ ast.Stmt) bool {
		return strings.HasPrefix(s, "if err != nil") && strings.Contains(s, "return false") && !strings.Contains(s, "os.IsNotExist")
	})
	iOld := stmtIndex(c, ld.Body, func(s string, _ ast.Stmt) bool {
		return strings.HasPrefix(s, "if old") && strings.Contains(s, "return false")
	})
	iDes := stmtIndex(c, ld.Body, func(s string, _ ast.Stmt) bool { return strings.Contains(s, "bc.deserialize(") })
	trues := 0
	lastTrue := false
	ast.Inspect(ld.Body, func(n ast.Node) bool {
		if rs, ok := n.(*ast.ReturnStmt); ok && len(rs.Results) == 1 && exprStr(rs.Results[0]) == "true" {
			trues++
			lastTrue = rs == ld.Body.List[len(ld.Body.List)-1]
		}
		return true
	})
	r.Check(iDes >= 0 && iErr > iDes && iOld > iDes && trues == 1 && lastTrue, "load:hit-only-if-ok-and-fresh", c.Pos(ld.Pos()), "Load returns true exactly once, as its last statement, after the error check and the staleness check have returned false")
	// open failure is a miss
	iOpen := stmtIndex(c, ld.Body, func(s string, _ ast.Stmt) bool { return strings.Contains(s, "os.Open(") })
	if iOpen >= 0 && iOpen+1 < len(ld.Body.List) {
		s := nodeString(c, ld.Body.List[iOpen+1])
		r.Check(strings.HasPrefix(s, "if err != nil") && strings.Contains(s, "return false"), "load:open-error-is-miss", c.Pos(ld.Body.List[iOpen+1].Pos()), "a missing or unreadable cache file is a cache miss, not an error")
	}
	// gzip close errors propagate into the named result
	for _, fd := range []*ast.FuncDecl{sr, ds} {
		named := false
		if fd.Type.Results != nil {
			for _, f := range fd.Type.Results.List {
				for _, nm := range f.Names {
					if nm.Name == "err" {
						named = true
					}
				}
			}
		}
		ok := false
		ast.Inspect(fd.Body, func(n ast.Node) bool {
			if d, isDefer := n.(*ast.DeferStmt); isDefer {
				s := squash(nodeString(c, d))
				if strings.Contains(s, ".Close();err==nil{err=closeErr}") {
					ok = true
				}
			}
			return true
		})
		r.Check(named && ok, "gzip-close-propagated:"+ctx.FuncName(fd), c.Pos(fd.Pos()), "the deferred gzip Close stores its error (flush failure / checksum mismatch) into the named result when no earlier error occurred")
	}
	// the gzip reader wraps the file before gob
	s := nodeString(c, ds.Body)
	r.Check(strings.Contains(s, "gzip.NewReader(r)") && strings.Contains(s, "gob.NewDecoder(zr)"), "decode:gzip-then-gob", c.Pos(ds.Pos()), "the payload is read through the gzip reader (integrity check) by the gob decoder")
}

func ruleC20Codec(c *ctx.Ctx, r *core.Reporter) {
	r.Begin("C20.codec", "F-EXH", "every concrete go/ast node type that can be stored in an interface-typed AST field is registered with gob; Write and Read process the same fields in the same order; the caller uses the loaded Sources only when Load returned true", 52)
	// registered types
	p := c.Pkg("compiler/sources")
	if p == nil {
		r.Undecided("package", "compiler/sources", "not loaded")
		return
	}
	reg := map[string]bool{}
	var regPos token.Pos
	for _, f := range p.Syntax {
		if c.IsTestFile(f.Pos()) {
			continue
		}
		ast.Inspect(f, func(n ast.Node) bool {
			if ce, ok := n.(*ast.CallExpr); ok {
				if pkg, _, nm := callee(p.TypesInfo, ce); pkg == "encoding/gob" && nm == "Register" && len(ce.Args) == 1 {
					t := p.TypesInfo.TypeOf(ce.Args[0])
					if pt, ok := t.(*types.Pointer); ok {
						if nt, ok := pt.Elem().(*types.Named); ok && nt.Obj().Pkg() != nil && nt.Obj().Pkg().Path() == "go/ast" {
							reg[nt.Obj().Name()] = true
							regPos = ce.Pos()
						}
					}
				}
			}
			return true
		})
	}
	for _, iface := range []string{"Expr", "Stmt", "Decl", "Spec"} {
		for _, t := range astImplementers(c, iface) {
			r.Check(reg[t], "gob-registered:"+iface+":"+t, c.Pos(regPos), fmt.Sprintf("*ast.%s implements ast.%s and can appear in an interface-typed field of a cached file: it must be registered with gob or encoding a package that uses it fails", t, iface))
		}
	}
	// prepareGob is called by both Write and Read before encoding
	w := c.FuncDecl("compiler/sources", "Sources.Write")
	rd := c.FuncDecl("compiler/sources", "Sources.Read")
	if w == nil || rd == nil {
		r.Undecided("Write/Read", "compiler/sources", "not found")
		return
	}
	for _, fd := range []*ast.FuncDecl{w, rd} {
		first := ""
		if len(fd.Body.List) > 0 {
			first = nodeString(c, fd.Body.List[0])
		}
		r.Check(strings.HasPrefix(first, "prepareGob()"), "prepareGob-first:"+ctx.FuncName(fd), c.Pos(fd.Pos()), "types are registered before the first encode/decode call")
	}
	// field sequences
	seq := func(fd *ast.FuncDecl, fn string) []string {
		var out []string
		ast.Inspect(fd.Body, func(n ast.Node) bool {
			ce, ok := n.(*ast.CallExpr)
			if !ok {
				return true
			}
			switch f := ce.Fun.(type) {
			case *ast.Ident:
				if f.Name == fn && len(ce.Args) == 1 {
					a := strings.TrimPrefix(exprStr(ce.Args[0]), "&")
					a = strings.TrimPrefix(a, "s.")
					if a == "files" {
						a = "Files"
					}
					out = append(out, a)
				}
			case *ast.SelectorExpr:
				if (f.Sel.Name == "Write" || f.Sel.Name == "Read") && len(ce.Args) == 1 && exprStr(ce.Args[0]) == fn {
					out = append(out, "FileSet")
				}
			}
			return true
		})
		return out
	}
	ws, rs := seq(w, "encode"), seq(rd, "decode")
	r.Check(len(ws) >= 5 && strings.Join(ws, ",") == strings.Join(rs, ","), "codec:same-fields-same-order", c.Pos(w.Pos()), fmt.Sprintf("Write encodes %v, Read decodes %v", ws, rs))
	// Read rebuilds what prepareFile cleared
	pf := c.FuncDecl("compiler/sources", "prepareFile")
	uf := c.FuncDecl("compiler/sources", "unpackFile")
	if pf != nil && uf != nil {
		cleared := map[string]bool{}
		ast.Inspect(pf.Body, func(n ast.Node) bool {
			if as, ok := n.(*ast.AssignStmt); ok && len(as.Lhs) == 1 && exprStr(as.Rhs[0]) == "nil" {
				if sel, ok := as.Lhs[0].(*ast.SelectorExpr); ok && exprStr(sel.X) == "file" {
					cleared[sel.Sel.Name] = true
				}
			}
			return true
		})
		rebuilt := map[string]bool{}
		ast.Inspect(uf.Body, func(n ast.Node) bool {
			if as, ok := n.(*ast.AssignStmt); ok && len(as.Lhs) == 1 {
				if sel, ok := as.Lhs[0].(*ast.SelectorExpr); ok && exprStr(sel.X) == "file" {
					rebuilt[sel.Sel.Name] = true
				}
			}
			return true
		})
		deprecated := map[string]bool{"Scope": true, "Unresolved": true}
		for f := range cleared {
			if deprecated[f] {
				continue
			}
			r.Check(rebuilt[f], "codec:rebuilt:"+f, c.Pos(uf.Pos()), fmt.Sprintf("ast.File.%s is cleared before encoding and reconstructed after decoding", f))
		}
		// comments: only the groups attached to a node can be reconstructed from the tree. The free-standing
		// ones (a directive separated from its declaration) must travel with the file and be merged back
		{
			fileParam := firstParamName(pf)
			wholesale := cleared["Comments"]
			merges := false
			ufParam := firstParamName(uf)
			ast.Inspect(uf.Body, func(n ast.Node) bool {
				if call, ok := n.(*ast.CallExpr); ok && exprStr(call.Fun) == "append" {
					for _, a := range call.Args[1:] {
						if exprStr(a) == ufParam+".Comments" {
							merges = true
						}
					}
				}
				return true
			})
			_ = fileParam
			r.Check(!wholesale && merges, "codec:free-standing-comments-carried", c.Pos(pf.Pos()), fmt.Sprintf("prepareFile does not drop all comments (cleared wholesale: %v) and unpackFile merges the decoded free-standing groups with the ones attached to nodes (merges: %v)", wholesale, merges))
		}
		r.Check(strings.Contains(nodeString(c, rd.Body), "unpackFile(f)"), "codec:unpack-called", c.Pos(rd.Pos()), "Read reconstructs every decoded file")
		// the reconstruction walk must not prune: comments hang below import specs, fields, declarations ...
		prunes := ""
		ast.Inspect(uf.Body, func(n ast.Node) bool {
			// only the visitor callbacks of the reconstruction walk (ast.Inspect / ast.Walk), not e.g. a sort comparator
			call, isCall := n.(*ast.CallExpr)
			if !isCall || len(call.Args) != 2 {
				return true
			}
			if sel, isSel := call.Fun.(*ast.SelectorExpr); !isSel || exprStr(sel.X) != "ast" || (sel.Sel.Name != "Inspect" && sel.Sel.Name != "Walk") {
				return true
			}
			fl, ok := call.Args[1].(*ast.FuncLit)
			if !ok {
				return true
			}
			ast.Inspect(fl.Body, func(m ast.Node) bool {
				if rs, isRet := m.(*ast.ReturnStmt); isRet && len(rs.Results) == 1 && exprStr(rs.Results[0]) != "true" {
					// pruning below a comment group (or comment) is harmless: nothing collected lives there
					harmless := false
					for _, cd := range enclosingConds(fl.Body, rs.Pos()) {
						if cd == "case *ast.CommentGroup" || cd == "case *ast.Comment" || strings.HasPrefix(cd, "n.(*ast.CommentGroup)") {
							harmless = true
						}
					}
					if !harmless {
						prunes = c.Pos(rs.Pos())
					}
				}
				return true
			})
			return false
		})
		r.Check(prunes == "", "codec:rebuild-walk-never-prunes", c.Pos(uf.Pos()), "the walk that re-collects imports and comment groups visits the whole file (a pruned subtree loses the comments below it, e.g. a //go:linkname or doc comment on an import spec) "+prunes)
	}
	// caller
	if fd := c.FuncDecl("build", "Session.loadPackages"); fd != nil || true {
		var host *ast.FuncDecl
		for _, f := range c.AllFuncDecls("build") {
			if f.Body != nil && strings.Contains(nodeString(c, f.Body), "buildCache.Load(") {
				host = f
			}
		}
		if host == nil {
			r.Undecided("caller", "build/build.go", "no caller of buildCache.Load found")
			return
		}
		ok := false
		ast.Inspect(host.Body, func(n ast.Node) bool {
			is, isIf := n.(*ast.IfStmt)
			if !isIf {
				return true
			}
			cond := exprStr(is.Cond)
			if strings.Contains(cond, "buildCache.Load(") {
				// the loaded object
				ce := is.Cond.(*ast.CallExpr)
				objName := exprStr(ce.Args[0])
				// every other use of objName in host is inside is.Body (or its declaration)
				uses, inside := 0, 0
				ast.Inspect(host.Body, func(m ast.Node) bool {
					if id, isId := m.(*ast.Ident); isId && id.Name == objName {
						uses++
						if is.Body.Pos() <= id.Pos() && id.End() <= is.Body.End() {
							inside++
						}
					}
					return true
				})
				// uses = declaration + Load argument + uses inside the body
				ok = uses-inside == 2 && inside >= 1
			}
			return true
		})
		r.Check(ok, "caller:uses-only-on-hit", c.Pos(host.Pos()), "the Sources object handed to Load is used only inside `if buildCache.Load(...) { ... }`: a failed or partial load is discarded")
	}
}

// enclosingIfStmtsWithInit lists if statements whose Init or Cond contains node.
func enclosingIfStmtsWithInit(root ast.Node, node ast.Node) []*ast.IfStmt {
	var out []*ast.IfStmt
	ast.Inspect(root, func(n ast.Node) bool {
		if is, ok := n.(*ast.IfStmt); ok {
			in := func(x ast.Node) bool {
				return x != nil && !reflect.ValueOf(x).IsNil() && x.Pos() <= node.Pos() && node.End() <= x.End()
			}
			if (is.Init != nil && in(is.Init)) || in(is.Cond) {
				out = append(out, is)
			}
		}
		return true
	})
	return out
}

func hasReturn(n ast.Node) bool {
	found := false
	ast.Inspect(n, func(x ast.Node) bool {
		if _, ok := x.(*ast.ReturnStmt); ok {
			found = true
		}
		return true
	})
	return found
}
