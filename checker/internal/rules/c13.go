package rules

import (
	"fmt"
	"go/ast"
	"go/printer"
	"go/token"
	"go/types"
	"regexp"
	"sort"
	"strings"

	"verif/checker/internal/core"
	"verif/checker/internal/ctx"
)

func init() {
	register(&Property{
		ID:          "C13",
		Explanation: "Decided (narrow: the overlays target the Go 1.20 standard library and cannot be type-checked in this sandbox): (atomic) within the sync/atomic overlay every operation family (Swap, CompareAndSwap, Add, Load, Store) has bodies that are identical modulo the operand type name, and no function of the overlay contains a yield point (channel operation, select, go statement, call into another package other than js) — the stated reason the plain read-modify-write sequences are atomic; (math) a function that merely delegates to JavaScript's Math passes its own parameters in order to the method spelled like the lower-cased Go name (listed exceptions), and the bit-pattern pairs Float32bits/frombits and Float64bits/frombits use the same buffer views and word indices in both directions; (nosync) every exported method of the nosync types exists with the identical signature on the sync type of the same name, no nosync function contains a yield point or imports sync. (bits) Mul32/Add32/Div32 of the math/bits overlay are, statement by statement, the 64-bit algorithms of GOROOT's math/bits under the width substitution 64→32, 63→31, 32→16; (returns) overlay functions that adapt the GOROOT function of the same name (unicode.to) return the same expression lists as it; (typestate) for nosync.Mutex, RWMutex, WaitGroup and Once the transition function derived from the method bodies over their finite state (booleans, counters explored up to 3) is bisimilar, from the zero value, to the specified automaton of the sync type on every uncontended operation — including a panicking f in Once.Do — and panics on every contended or fatal one. NOT decided: any value equality of math, math/bits, unicode, strconv etc. with the upstream implementations (special cases, bit patterns) — which is most of the property; nosync.Pool and nosync.Map (unbounded state); re-entrant use of Once. The claim is deliberately narrow.",
		Assumptions: []string{"goroutines are cooperative: without a yield point no other goroutine can observe an intermediate state"},
		Rules:       []RuleFunc{ruleC13Atomic, ruleC13Math, ruleC13Nosync, ruleC13Typestate, ruleC13Bits, ruleC13Returns, ruleC13Ldexp, ruleC13Signbit, ruleC13PoolNil, ruleC13Modf, ruleC13MapPresence, ruleC13ValueCAS, ruleC13PanicMessages},
	})
}

func printNode(fset *token.FileSet, n ast.Node) string {
	var sb strings.Builder
	(&printer.Config{Mode: printer.RawFormat}).Fprint(&sb, fset, n)
	return sb.String()
}

// yieldPoints lists constructs in body at which a goroutine could be descheduled.
func yieldPoints(body ast.Node, localFuncs map[string]bool, allowedPkgs map[string]bool) []string {
	var out []string
	ast.Inspect(body, func(n ast.Node) bool {
		switch x := n.(type) {
		case *ast.SendStmt:
			out = append(out, "channel send")
		case *ast.SelectStmt:
			out = append(out, "select")
		case *ast.GoStmt:
			out = append(out, "go statement")
		case *ast.UnaryExpr:
			if x.Op == token.ARROW {
				out = append(out, "channel receive")
			}
		case *ast.RangeStmt:
			// range over a channel cannot be recognised without types; flagged only if the operand is made by make(chan ...)
		case *ast.CallExpr:
			switch f := x.Fun.(type) {
			case *ast.SelectorExpr:
				if id, ok := f.X.(*ast.Ident); ok {
					// package-qualified call
					if !allowedPkgs[id.Name] && id.Obj == nil && isLikelyPackage(id.Name) {
						out = append(out, "call "+id.Name+"."+f.Sel.Name)
					}
				}
			}
		}
		return true
	})
	return out
}

func isLikelyPackage(name string) bool {
	switch name {
	case "runtime", "time", "sync", "os", "syscall", "reflect", "fmt":
		return true
	}
	return false
}

func ruleC13Atomic(c *ctx.Ctx, r *core.Reporter) {
	r.Begin("C13.atomic", "F-SIB", "each sync/atomic operation family has structurally identical bodies modulo the type name; no function of the overlay contains a yield point", 30)
	nat := c.Natives()
	files := nat.PkgFiles("sync/atomic")
	if len(files) == 0 {
		r.Undecided("overlay", nativesRootRel+"/sync/atomic", "no files")
		return
	}
	typeNames := []string{"Int32", "Int64", "Uint32", "Uint64", "Uintptr", "Pointer"}
	families := map[string]map[string]*ast.FuncDecl{}
	famRe := regexp.MustCompile(`^(Swap|CompareAndSwap|Add|Load|Store)(Int32|Int64|Uint32|Uint64|Uintptr|Pointer)$`)
	nfun := 0
	for _, f := range files {
		for _, d := range f.AST.Decls {
			fd, ok := d.(*ast.FuncDecl)
			if !ok || fd.Body == nil {
				continue
			}
			nfun++
			// yield points
			yp := yieldPoints(fd.Body, nil, map[string]bool{"js": true, "unsafe": true})
			name := fd.Name.Name
			if fd.Recv != nil {
				name = "(recv)." + name
			}
			r.Check(len(yp) == 0, "no-yield:"+name, nat.Pos(c, fd.Pos()), fmt.Sprintf("atomic.%s contains no point at which another goroutine could run (found: %v)", name, yp))
			if fd.Recv == nil {
				if m := famRe.FindStringSubmatch(fd.Name.Name); m != nil {
					if families[m[1]] == nil {
						families[m[1]] = map[string]*ast.FuncDecl{}
					}
					families[m[1]][m[2]] = fd
				}
			}
		}
	}
	r.Count("sync/atomic overlay functions", nfun)
	goType := map[string]string{"Int32": "int32", "Int64": "int64", "Uint32": "uint32", "Uint64": "uint64", "Uintptr": "uintptr", "Pointer": "unsafe.Pointer"}
	for _, fam := range []string{"Swap", "CompareAndSwap", "Add", "Load", "Store"} {
		members := families[fam]
		if len(members) < 2 {
			r.Undecided("family:"+fam, nativesRootRel+"/sync/atomic", fmt.Sprintf("family %s has %d members", fam, len(members)))
			continue
		}
		// normalise: print the whole function, replace its own type name and Go type by placeholders
		norm := map[string]string{}
		for _, tn := range typeNames {
			fd := members[tn]
			if fd == nil {
				continue
			}
			s := printNode(nat.Fset, fd)
			s = strings.ReplaceAll(s, fam+tn, fam+"§")
			s = regexp.MustCompile(`\b`+regexp.QuoteMeta(goType[tn])+`\b`).ReplaceAllString(s, "τ")
			norm[tn] = squash(s)
		}
		// reference: the most common normal form
		count := map[string]int{}
		for _, v := range norm {
			count[v]++
		}
		ref, best := "", 0
		for v, n := range count {
			if n > best {
				ref, best = v, n
			}
		}
		for _, tn := range typeNames {
			if _, ok := norm[tn]; !ok {
				continue
			}
			// Pointer variants legitimately differ (unsafe.Pointer has no arithmetic); compare only non-pointer members strictly
			same := norm[tn] == ref
			if tn == "Pointer" && !same {
				r.Info("family:"+fam+":Pointer", nat.Pos(c, members[tn].Pos()), "the unsafe.Pointer variant has its own body (not compared)")
				continue
			}
			r.Check(same, "family:"+fam+":"+tn, nat.Pos(c, members[tn].Pos()), fmt.Sprintf("atomic.%s%s has the same body as its siblings modulo the operand type", fam, tn))
		}
	}
}

func ruleC13Math(c *ctx.Ctx, r *core.Reporter) {
	r.Begin("C13.math", "F-TABLE", "pure delegations to JavaScript Math use the lower-cased Go name and pass the parameters in order; the bit-pattern conversions are mutually inverse in their use of the shared buffer", 30)
	nat := c.Natives()
	files := nat.PkgFiles("math")
	if len(files) == 0 {
		r.Undecided("overlay", nativesRootRel+"/math", "no files")
		return
	}
	exceptions := map[string]string{
		"Log10": "log10", "Log1p": "log1p", "Log2": "log2", "Expm1": "expm1", "Atan2": "atan2",
	}
	n := 0
	funcs := map[string]*ast.FuncDecl{}
	for _, f := range files {
		for _, d := range f.AST.Decls {
			fd, ok := d.(*ast.FuncDecl)
			if !ok || fd.Body == nil || fd.Recv != nil {
				continue
			}
			funcs[fd.Name.Name] = fd
			// pure delegation: single statement `return math.Call("name", params...).Float()`
			if len(fd.Body.List) != 1 {
				continue
			}
			rs, ok := fd.Body.List[0].(*ast.ReturnStmt)
			if !ok || len(rs.Results) != 1 {
				continue
			}
			outer, ok := rs.Results[0].(*ast.CallExpr)
			if !ok {
				continue
			}
			osel, ok := outer.Fun.(*ast.SelectorExpr)
			if !ok || osel.Sel.Name != "Float" {
				continue
			}
			inner, ok := osel.X.(*ast.CallExpr)
			if !ok {
				continue
			}
			isel, ok := inner.Fun.(*ast.SelectorExpr)
			if !ok || isel.Sel.Name != "Call" || exprStr(isel.X) != "math" || len(inner.Args) < 1 {
				continue
			}
			lit, ok := inner.Args[0].(*ast.BasicLit)
			if !ok {
				continue
			}
			n++
			jsName := strings.Trim(lit.Value, `"`)
			want := strings.ToLower(fd.Name.Name)
			if e, ok := exceptions[fd.Name.Name]; ok {
				want = e
			}
			var params []string
			for _, p := range fd.Type.Params.List {
				for _, nm := range p.Names {
					params = append(params, nm.Name)
				}
			}
			var args []string
			for _, a := range inner.Args[1:] {
				args = append(args, exprStr(a))
			}
			if fd.Name.Name == "Exp2" {
				// 2**x has no Math method of its own: reviewed special form Math.pow(2, x)
				r.Check(jsName == "pow" && strings.Join(args, ",") == "2,"+params[0], "delegate-special:Exp2", nat.Pos(c, fd.Pos()), "math.Exp2(x) is Math.pow(2, x): "+jsName+"("+strings.Join(args, ",")+")")
				continue
			}
			r.Check(jsName == want, "delegate-name:"+fd.Name.Name, nat.Pos(c, fd.Pos()), fmt.Sprintf("math.%s delegates to Math.%s (expected Math.%s)", fd.Name.Name, jsName, want))
			r.Check(strings.Join(args, ",") == strings.Join(params, ","), "delegate-args:"+fd.Name.Name, nat.Pos(c, fd.Pos()), fmt.Sprintf("math.%s passes its parameters (%s) in order: %s", fd.Name.Name, strings.Join(params, ","), strings.Join(args, ",")))
		}
	}
	r.Count("pure Math delegations", n)
	// `math` is js.Global.Get("Math")
	mathVar := false
	for _, f := range files {
		ast.Inspect(f.AST, func(x ast.Node) bool {
			if vs, ok := x.(*ast.ValueSpec); ok {
				for i, nm := range vs.Names {
					if nm.Name == "math" && i < len(vs.Values) && squash(exprStr(vs.Values[i])) == `js.Global.Get("Math")` {
						mathVar = true
					}
				}
			}
			return true
		})
	}
	// no function of the math overlay squeezes a float64 through a 32-bit integer: int(x), int32(x),
	// uint32(x) of a floating-point operand wrap beyond 2^31 (the bit-pattern helpers convert integers only)
	{
		narrow := 0
		sites := []string{}
		for _, f := range nat.PkgFiles("math") {
			if f.Test {
				continue
			}
			for _, d := range f.AST.Decls {
				fd, ok := d.(*ast.FuncDecl)
				if !ok || fd.Body == nil {
					continue
				}
				floats := map[string]bool{}
				for _, fl := range fd.Type.Params.List {
					if id, ok := fl.Type.(*ast.Ident); ok && (id.Name == "float64" || id.Name == "float32") {
						for _, nm := range fl.Names {
							floats[nm.Name] = true
						}
					}
				}
				ast.Inspect(fd.Body, func(n ast.Node) bool {
					call, ok := n.(*ast.CallExpr)
					if !ok || len(call.Args) != 1 {
						return true
					}
					if id, ok := call.Fun.(*ast.Ident); ok && (id.Name == "int" || id.Name == "int32" || id.Name == "uint32" || id.Name == "uint") {
						if a, ok := ast.Unparen(call.Args[0]).(*ast.Ident); ok && floats[a.Name] {
							narrow++
							sites = append(sites, fd.Name.Name+": "+printNode(nat.Fset, call))
						}
					}
					return true
				})
			}
		}
		r.Check(narrow == 0, "no-32-bit-detour", nativesRootRel+"/math/math.go", fmt.Sprintf("no floating-point parameter is converted to a 32-bit integer type on the way to a floating-point result (%v)", sites))
	}
	r.Check(mathVar, "delegate:math-object", nativesRootRel+"/math/math.go", "the delegation target `math` is JavaScript's global Math object")
	// bit-pattern pairs
	idx := func(fd *ast.FuncDecl, arr string) []string {
		var out []string
		ast.Inspect(fd.Body, func(x ast.Node) bool {
			if ix, ok := x.(*ast.IndexExpr); ok && exprStr(ix.X) == "buf."+arr {
				out = append(out, exprStr(ix.Index))
			}
			return true
		})
		sort.Strings(out)
		return out
	}
	for _, pair := range [][2]string{{"Float32bits", "Float32frombits"}, {"Float64bits", "Float64frombits"}} {
		a, b := funcs[pair[0]], funcs[pair[1]]
		if a == nil || b == nil {
			r.Undecided("bits:"+pair[0], nativesRootRel+"/math/math.go", "pair not found")
			continue
		}
		for _, arr := range []string{"uint32array", "float32array", "float64array"} {
			ia, ib := idx(a, arr), idx(b, arr)
			r.Check(strings.Join(ia, ",") == strings.Join(ib, ","), "bits:"+pair[0]+":"+arr, nat.Pos(c, a.Pos()), fmt.Sprintf("%s and %s touch buf.%s at the same indices (%v vs %v)", pair[0], pair[1], arr, ia, ib))
		}
	}
	// 64-bit: the high word is index 1 on both sides
	if a, b := funcs["Float64bits"], funcs["Float64frombits"]; a != nil && b != nil {
		sa, sb := squash(printNode(nat.Fset, a.Body)), squash(printNode(nat.Fset, b.Body))
		r.Check(strings.Contains(sa, "uint64(buf.uint32array[1])<<32+uint64(buf.uint32array[0])") && strings.Contains(sb, "buf.uint32array[0]=uint32(b)") && strings.Contains(sb, "buf.uint32array[1]=uint32(b>>32)"), "bits:Float64:word-order", nat.Pos(c, a.Pos()), "both directions put bits 32..63 into word 1 and bits 0..31 into word 0 (little-endian view)")
	}
}

func ruleC13Nosync(c *ctx.Ctx, r *core.Reporter) {
	r.Begin("C13.nosync", "F-SIB", "every exported method of a nosync type exists on the sync type of the same name with an identical signature; nosync has no yield points and does not import sync", 20)
	np := c.Pkg("nosync")
	sp := c.All["sync"]
	if np == nil || sp == nil {
		r.Undecided("packages", "nosync", "nosync or sync not loaded")
		return
	}
	for _, imp := range np.Types.Imports() {
		if imp.Path() == "sync" || strings.HasPrefix(imp.Path(), "sync/") {
			r.Violation("imports:"+imp.Path(), "nosync", "nosync imports "+imp.Path())
		}
	}
	r.OK("imports:no-sync", "nosync", "nosync does not import sync")
	scope := np.Types.Scope()
	for _, name := range scope.Names() {
		tn, ok := scope.Lookup(name).(*types.TypeName)
		if !ok || !tn.Exported() {
			continue
		}
		so, ok := sp.Types.Scope().Lookup(name).(*types.TypeName)
		if !ok {
			r.Violation("type:"+name, "nosync", "nosync."+name+" has no counterpart in sync")
			continue
		}
		nms := types.NewMethodSet(types.NewPointer(tn.Type()))
		sms := types.NewMethodSet(types.NewPointer(so.Type()))
		for i := 0; i < nms.Len(); i++ {
			m := nms.At(i).Obj()
			if !m.Exported() {
				continue
			}
			sm := sms.Lookup(nil, m.Name())
			if sm == nil {
				r.Violation("method:"+name+"."+m.Name(), c.Pos(m.Pos()), fmt.Sprintf("nosync.%s.%s does not exist on sync.%s", name, m.Name(), name))
				continue
			}
			a := types.TypeString(m.Type().(*types.Signature), func(*types.Package) string { return "" })
			b := types.TypeString(sm.Obj().Type().(*types.Signature), func(*types.Package) string { return "" })
			// strip receivers
			r.Check(sigNoRecv(m.Type().(*types.Signature)) == sigNoRecv(sm.Obj().Type().(*types.Signature)), "method:"+name+"."+m.Name(), c.Pos(m.Pos()), fmt.Sprintf("nosync.%s.%s has the signature of sync.%s.%s (%s vs %s)", name, m.Name(), name, m.Name(), a, b))
		}
		// exported fields (Pool.New)
		if st, ok := tn.Type().Underlying().(*types.Struct); ok {
			if sst, ok := so.Type().Underlying().(*types.Struct); ok {
				for i := 0; i < st.NumFields(); i++ {
					f := st.Field(i)
					if !f.Exported() {
						continue
					}
					found := false
					for j := 0; j < sst.NumFields(); j++ {
						if sst.Field(j).Name() == f.Name() && types.Identical(sst.Field(j).Type(), f.Type()) {
							found = true
						}
					}
					r.Check(found, "field:"+name+"."+f.Name(), c.Pos(f.Pos()), fmt.Sprintf("exported field nosync.%s.%s exists with the same type on sync.%s", name, f.Name(), name))
				}
			}
		}
	}
	// yield points (typed)
	info := np.TypesInfo
	for _, fd := range c.AllFuncDecls("nosync") {
		if fd.Body == nil {
			continue
		}
		var yp []string
		ast.Inspect(fd.Body, func(n ast.Node) bool {
			switch x := n.(type) {
			case *ast.SendStmt:
				yp = append(yp, "send")
			case *ast.SelectStmt:
				yp = append(yp, "select")
			case *ast.GoStmt:
				yp = append(yp, "go")
			case *ast.UnaryExpr:
				if x.Op == token.ARROW {
					yp = append(yp, "receive")
				}
			case *ast.RangeStmt:
				if _, isChan := info.TypeOf(x.X).Underlying().(*types.Chan); isChan {
					yp = append(yp, "range over channel")
				}
			case *ast.CallExpr:
				if pkg, _, nm := callee(info, x); pkg == "time" || pkg == "runtime" {
					yp = append(yp, pkg+"."+nm)
				}
			}
			return true
		})
		r.Check(len(yp) == 0, "no-yield:"+ctx.FuncName(fd), c.Pos(fd.Pos()), fmt.Sprintf("nosync.%s never blocks (contended use panics instead): %v", ctx.FuncName(fd), yp))
	}
	// contended Lock panics
	if fd := c.FuncDecl("nosync", "Mutex.Lock"); fd != nil {
		r.Check(containsCallTo(fd.Body, "panic"), "contended:Mutex.Lock-panics", c.Pos(fd.Pos()), "locking a locked nosync.Mutex panics instead of blocking")
	}
}

func sigNoRecv(s *types.Signature) string {
	// parameter and result names are not part of the signature's identity
	anon := func(t *types.Tuple) *types.Tuple {
		vs := make([]*types.Var, t.Len())
		for i := 0; i < t.Len(); i++ {
			vs[i] = types.NewVar(0, nil, "", t.At(i).Type())
		}
		return types.NewTuple(vs...)
	}
	return types.TypeString(types.NewSignatureType(nil, nil, nil, anon(s.Params()), anon(s.Results()), s.Variadic()), func(*types.Package) string { return "" })
}
