package rules

import (
	"fmt"
	"go/ast"
	"go/constant"
	"go/token"
	"go/types"
	"sort"
	"strings"

	"verif/checker/internal/core"
	"verif/checker/internal/ctx"
	"verif/checker/internal/tmpl"
)

func init() {
	register(&Property{
		ID:          "C06",
		Explanation: "Decided: (coerce) fixNumber and $internalize implement the width/signedness table of the Go spec; (apply) in the operator arms of translateExpr every (operator, kind) pair whose mathematical JavaScript result can leave the operand type's range returns an expression coerced for that kind — computed by a finite-domain abstract interpretation of the guards over all (operator, basic kind) pairs; (dispatch) 64-bit and complex operators reach the matching helper; (div0) integer division templates and $div64 carry the divide-by-zero throw; (const) the two-halves helpers contain the radix constants; operator-switch totality. NOT decided: any numeric value (carries, rounding, shift counts, constant splitting).",
		Assumptions: []string{"which operators can overflow which kinds is arithmetic knowledge frozen in the checker with reasons", "JavaScript bitwise operators yield signed 32-bit results"},
		Rules:       []RuleFunc{ruleC06Coerce, ruleC06Apply, ruleC06Dispatch, ruleC06Div0, ruleC06Const, ruleC06Carry, ruleCompoundAssign, ruleC06RemZero, ruleC06Float32From64, ruleC06ExactConstants, ruleNegativeShift, ruleOperandOrder, ruleTotal("C06.exh", 5, "translateExpr/BinaryOp", "translateExpr/UnaryOp", "fixNumber", "filter.Assign")},
	})
}

// ---------------------------------------------------------------------------
// coercion recognition on templates

type coercion struct {
	all   bool // kind-dependent fixNumber
	s32   bool // >> 0, | 0, $imul(...)
	u32   bool // >>> 0
	zero  bool // literal 0
	w8s   bool
	w8u   bool
	w16s  bool
	w16u  bool
	f32   bool
	none  bool
	descr string
}

// tailCoercion recognises the coercion applied at the end of a token sequence (ignoring closing parens).
func tailCoercion(toks []tmpl.Token) coercion {
	var t []tmpl.Token
	for _, k := range toks {
		if k.Kind != tmpl.TComment {
			t = append(t, k)
		}
	}
	// strip trailing )
	for len(t) > 0 && isPunct(&t[len(t)-1], ")") {
		t = t[:len(t)-1]
	}
	n := len(t)
	txt := func(i int) string {
		if i < 0 || i >= n {
			return ""
		}
		return t[i].Text
	}
	switch {
	case n >= 4 && txt(n-4) == "<<" && txt(n-3) == "24" && txt(n-2) == ">>" && txt(n-1) == "24":
		return coercion{w8s: true, descr: "<< 24 >> 24"}
	case n >= 4 && txt(n-4) == "<<" && txt(n-3) == "24" && txt(n-2) == ">>>" && txt(n-1) == "24":
		return coercion{w8u: true, descr: "<< 24 >>> 24"}
	case n >= 2 && txt(n-2) == "&" && (txt(n-1) == "255" || strings.EqualFold(txt(n-1), "0xff")):
		return coercion{w8u: true, descr: "& 255"}
	case n >= 4 && txt(n-4) == "<<" && txt(n-3) == "16" && txt(n-2) == ">>" && txt(n-1) == "16":
		return coercion{w16s: true, descr: "<< 16 >> 16"}
	case n >= 4 && txt(n-4) == "<<" && txt(n-3) == "16" && txt(n-2) == ">>>" && txt(n-1) == "16":
		return coercion{w16u: true, descr: "<< 16 >>> 16"}
	case n >= 2 && txt(n-2) == "&" && (txt(n-1) == "65535" || strings.EqualFold(txt(n-1), "0xffff")):
		return coercion{w16u: true, descr: "& 65535"}
	case n >= 2 && (txt(n-2) == ">>" || txt(n-2) == "|") && txt(n-1) == "0":
		return coercion{s32: true, descr: txt(n-2) + " 0"}
	case n >= 2 && txt(n-2) == ">>>" && txt(n-1) == "0":
		return coercion{u32: true, descr: ">>> 0"}
	case n == 1 && txt(0) == "0":
		return coercion{zero: true, descr: "literal 0"}
	}
	// $imul(a, b) as the whole expression
	if n >= 1 {
		i := 0
		for i < n && isPunct(&t[i], "(") {
			i++
		}
		if txt(i) == "$imul" {
			return coercion{s32: true, descr: "$imul"}
		}
		if txt(i) == "$fround" {
			return coercion{f32: true, descr: "$fround"}
		}
	}
	return coercion{none: true, descr: "none"}
}

func (co coercion) adequate(k types.BasicKind) bool {
	if co.all || co.zero {
		return true
	}
	switch k {
	case types.Int8:
		return co.w8s
	case types.Uint8:
		return co.w8u
	case types.Int16:
		return co.w16s
	case types.Uint16:
		return co.w16u
	case types.Int32, types.Int, types.UntypedInt, types.UntypedRune:
		return co.s32
	case types.Uint32, types.Uint, types.Uintptr:
		return co.u32
	case types.Float32:
		return co.f32
	case types.Float64, types.UntypedFloat:
		return true
	}
	return false
}

// templateOfCall finds the corpus template that is the format argument of call.
func templateOfCall(c *ctx.Ctx, call *ast.CallExpr) *tmpl.Template {
	for _, t := range corpus(c).Templates {
		if t.Call == call && t.Role == tmpl.RoleSink {
			return t
		}
	}
	return nil
}

// ---------------------------------------------------------------------------
// C06.coerce

type coerceWant struct {
	fn   func(coercion) bool
	text string
}

var coerceTable = map[string]coerceWant{
	"Int8":    {func(c coercion) bool { return c.w8s }, "sign-extend from 8 bits (<< 24 >> 24)"},
	"Uint8":   {func(c coercion) bool { return c.w8u }, "zero-extend from 8 bits (<< 24 >>> 24 or & 255)"},
	"Int16":   {func(c coercion) bool { return c.w16s }, "sign-extend from 16 bits (<< 16 >> 16)"},
	"Uint16":  {func(c coercion) bool { return c.w16u }, "zero-extend from 16 bits (<< 16 >>> 16 or & 65535)"},
	"Int32":   {func(c coercion) bool { return c.s32 }, "signed 32-bit (>> 0)"},
	"Int":     {func(c coercion) bool { return c.s32 }, "signed 32-bit (>> 0); int is documented as 32 bits"},
	"Uint32":  {func(c coercion) bool { return c.u32 }, "unsigned 32-bit (>>> 0)"},
	"Uint":    {func(c coercion) bool { return c.u32 }, "unsigned 32-bit (>>> 0); uint is documented as 32 bits"},
	"Uintptr": {func(c coercion) bool { return c.u32 }, "unsigned 32-bit (>>> 0); uintptr is documented as 32 bits"},
	"Float32": {func(c coercion) bool { return c.f32 }, "round to single precision ($fround)"},
}

func ruleC06Coerce(c *ctx.Ctx, r *core.Reporter) {
	r.Begin("C06.coerce", "F-TABLE", "fixNumber maps every sized numeric kind to a coercion of the right width and signedness; $internalize's integer arms implement the same table", 18)
	fd := c.FuncDecl("compiler", "funcContext.fixNumber")
	if fd == nil {
		r.Undecided("fixNumber", "compiler/expressions.go", "not found")
		return
	}
	info := c.Pkg("compiler").TypesInfo
	seen := map[string]bool{}
	ast.Inspect(fd.Body, func(n ast.Node) bool {
		cc, ok := n.(*ast.CaseClause)
		if !ok || cc.List == nil {
			return true
		}
		var co coercion
		co.none = true
		passThrough := false
		for _, st := range cc.Body {
			rs, ok := st.(*ast.ReturnStmt)
			if !ok || len(rs.Results) != 1 {
				continue
			}
			if ce, ok := rs.Results[0].(*ast.CallExpr); ok {
				if t := templateOfCall(c, ce); t != nil {
					co = tailCoercion(t.Tokens)
				}
			} else if id, ok := rs.Results[0].(*ast.Ident); ok && id.Name == firstParamName(fd) {
				passThrough = true
			}
		}
		for _, l := range cc.List {
			tv := info.Types[l]
			if tv.Value == nil {
				continue
			}
			v, _ := constant.Int64Val(tv.Value)
			name := title(kindName(types.BasicKind(v)))
			if types.BasicKind(v) == types.UntypedInt {
				name = "Int"
			}
			if types.BasicKind(v) == types.Float64 {
				r.Check(passThrough, "fixNumber:Float64", c.Pos(cc.Pos()), "float64 needs no coercion (value returned unchanged)")
				seen["Float64"] = true
				continue
			}
			want, ok := coerceTable[name]
			if !ok {
				continue
			}
			seen[kindName(types.BasicKind(v))] = true
			r.Check(want.fn(co), "fixNumber:"+kindName(types.BasicKind(v)), c.Pos(cc.Pos()), fmt.Sprintf("%s needs %s; arm applies %q", kindName(types.BasicKind(v)), want.text, co.descr))
		}
		return true
	})
	for _, k := range []string{"int8", "uint8", "int16", "uint16", "int32", "int", "uint32", "uint", "uintptr", "float32"} {
		if !seen[k] {
			r.Violation("fixNumber:"+k, c.Pos(fd.Pos()), "fixNumber has no arm for "+k)
		}
	}
	// sibling: $internalize integer arms
	if !needPrelude(c, r) {
		return
	}
	fn := c.PreludeFunc("$internalize")
	if fn == nil {
		r.Undecided("$internalize", "compiler/prelude/jsmapping.js", "not found")
		return
	}
	arms := kindSwitchArms(fn, "t")
	if arms == nil {
		r.Undecided("$internalize:switch", fn.Pos(), "switch (t.kind) not found")
		return
	}
	for _, k := range []string{"Int8", "Uint8", "Int16", "Uint16", "Int32", "Uint32", "Uintptr"} {
		arm := arms["$kind"+k]
		if arm == nil {
			r.Violation("$internalize:"+k, fn.Pos(), "$internalize has no arm for $kind"+k)
			continue
		}
		ret := firstReturn(arm)
		co := jsTailCoercion(ret)
		r.Check(coerceTable[k].fn(co), "$internalize:"+k, arm.Pos(), fmt.Sprintf("$kind%s needs %s; arm returns %q", k, coerceTable[k].text, strings.TrimSpace(ret.Src())))
	}
	for _, k := range []string{"Int", "Uint"} {
		if arm := arms["$kind"+k]; arm != nil {
			ret := firstReturn(arm)
			if co := jsTailCoercion(ret); !coerceTable[k].fn(co) {
				r.Info("$internalize:"+k, arm.Pos(), fmt.Sprintf("$kind%s arm returns %q without a 32-bit wrap (the compile-time fast path internalize() does wrap); only out-of-range JavaScript numbers are affected, which the property excludes", k, strings.TrimSpace(ret.Src())))
			}
		}
	}
}

func title(s string) string {
	if s == "" {
		return s
	}
	return strings.ToUpper(s[:1]) + s[1:]
}

// kindSwitchArms returns, for the first `switch (<v>.kind)` directly in fn,
// label -> first statement node list holder (the SwitchCase node) including fallthrough sharing.
func kindSwitchArms(fn *ctx.JSNode, v string) map[string]*ctx.JSNode {
	var sw *ctx.JSNode
	fn.N("body").Walk(func(n *ctx.JSNode) bool {
		if sw != nil {
			return false
		}
		if n != fn && n.IsFunc() {
			return false
		}
		if n.Is("SwitchStatement") {
			d := n.N("discriminant")
			if d.Is("MemberExpression") && d.MemberName() == "kind" && (v == "" || d.N("object").IdentName() == v) {
				sw = n
				return false
			}
		}
		return true
	})
	if sw == nil {
		return nil
	}
	return switchArms(sw)
}

// switchArms maps every case label (source text; "default") to the SwitchCase
// whose consequent runs for it (following empty fall-through cases).
func switchArms(sw *ctx.JSNode) map[string]*ctx.JSNode {
	out := map[string]*ctx.JSNode{}
	cases := sw.L("cases")
	for i, cs := range cases {
		label := "default"
		if t := cs.N("test"); t != nil {
			label = strings.TrimSpace(t.Src())
		}
		j := i
		for j < len(cases) && len(cases[j].L("consequent")) == 0 {
			j++
		}
		if j < len(cases) {
			out[label] = cases[j]
		}
	}
	return out
}

func firstReturn(n *ctx.JSNode) *ctx.JSNode {
	var ret *ctx.JSNode
	for _, st := range n.L("consequent") {
		st.Walk(func(x *ctx.JSNode) bool {
			if ret != nil {
				return false
			}
			if x.IsFunc() {
				return false
			}
			if x.Is("ReturnStatement") {
				ret = x.N("argument")
				return false
			}
			return true
		})
		if ret != nil {
			break
		}
	}
	return ret
}

func jsTailCoercion(e *ctx.JSNode) coercion {
	if e == nil {
		return coercion{none: true, descr: "no return"}
	}
	for e.Is("ParenthesizedExpression") {
		e = e.N("expression")
	}
	if !e.Is("BinaryExpression") {
		return coercion{none: true, descr: "none"}
	}
	op := e.S("operator")
	rv, rok := e.N("right").NumValue()
	l := e.N("left")
	for l.Is("ParenthesizedExpression") {
		l = l.N("expression")
	}
	if !rok {
		return coercion{none: true, descr: "none"}
	}
	inner := func(wantOp string, wantV float64) bool {
		if !l.Is("BinaryExpression") || l.S("operator") != wantOp {
			return false
		}
		v, ok := l.N("right").NumValue()
		return ok && v == wantV
	}
	switch {
	case op == ">>" && rv == 24 && inner("<<", 24):
		return coercion{w8s: true, descr: "<< 24 >> 24"}
	case op == ">>>" && rv == 24 && inner("<<", 24):
		return coercion{w8u: true, descr: "<< 24 >>> 24"}
	case op == "&" && rv == 255:
		return coercion{w8u: true, descr: "& 255"}
	case op == ">>" && rv == 16 && inner("<<", 16):
		return coercion{w16s: true, descr: "<< 16 >> 16"}
	case op == ">>>" && rv == 16 && inner("<<", 16):
		return coercion{w16u: true, descr: "<< 16 >>> 16"}
	case op == "&" && rv == 65535:
		return coercion{w16u: true, descr: "& 65535"}
	case (op == ">>" || op == "|") && rv == 0:
		return coercion{s32: true, descr: op + " 0"}
	case op == ">>>" && rv == 0:
		return coercion{u32: true, descr: ">>> 0"}
	}
	return coercion{none: true, descr: "none"}
}

// ---------------------------------------------------------------------------
// C06.apply

// needsCoercion: can the mathematical JavaScript result of op on operands of
// kind k leave k's range? Frozen arithmetic knowledge, one reason per entry.
func needsCoercion(op token.Token, unary bool, k types.BasicKind) (bool, string) {
	info := types.Typ[k].Info()
	isInt := info&types.IsInteger != 0
	isUns := info&types.IsUnsigned != 0
	is32 := k == types.Int32 || k == types.Int || k == types.Uint32 || k == types.Uint || k == types.Uintptr
	isF32 := k == types.Float32
	if unary {
		switch op {
		case token.SUB:
			if isInt {
				return true, "-x leaves the range for unsigned x != 0 and for the smallest signed value"
			}
		case token.XOR:
			if isInt && isUns {
				return true, "~x is negative in JavaScript for every unsigned x"
			}
		}
		return false, ""
	}
	switch op {
	case token.ADD, token.SUB, token.MUL:
		if isInt {
			return true, "the exact sum/difference/product can exceed the operand width"
		}
		if isF32 {
			return true, "the double-precision result must be rounded to single precision"
		}
	case token.QUO:
		if isInt && !isUns {
			return true, "MinInt / -1 does not fit a signed type"
		}
		if isF32 {
			return true, "the double-precision quotient must be rounded to single precision"
		}
	case token.SHL:
		if isInt {
			return true, "bits shifted beyond the operand width must be discarded"
		}
	case token.AND, token.OR, token.XOR, token.AND_NOT:
		if isInt && isUns && is32 {
			return true, "JavaScript bitwise operators return a signed 32-bit value, negative when bit 31 is set"
		}
	}
	return false, ""
}

// classifyReturn determines the coercion applied by a returned expression.
func classifyReturn(c *ctx.Ctx, ke *kindEval, fnBody *ast.BlockStmt, e ast.Expr) (coercion, map[string]coercion) {
	info := ke.info
	switch x := e.(type) {
	case *ast.Ident:
		// resolve `quo := fc.formatExpr(...)`
		var def ast.Expr
		ast.Inspect(fnBody, func(n ast.Node) bool {
			if as, ok := n.(*ast.AssignStmt); ok && len(as.Lhs) == 1 && len(as.Rhs) == 1 {
				if id, ok := as.Lhs[0].(*ast.Ident); ok && info.ObjectOf(id) == info.ObjectOf(x) && as.Pos() < x.Pos() {
					def = as.Rhs[0]
				}
			}
			return true
		})
		if def != nil {
			return classifyReturn(c, ke, fnBody, def)
		}
	case *ast.CallExpr:
		_, _, name := callee(info, x)
		switch name {
		case "fixNumber":
			return coercion{all: true, descr: "fixNumber"}, nil
		case "formatExpr", "formatParenExpr":
			t := templateOfCall(c, x)
			if t == nil {
				// non-constant format: rangeCheck(...) etc.
				return coercion{none: true, descr: "non-constant template"}, nil
			}
			co := tailCoercion(t.Tokens)
			if !co.none {
				return co, nil
			}
			// `... ? ⟨v⟩ ⟨shift⟩ 0 : ...` with a shift operator chosen in a Go variable
			toks := t.Tokens
			for i := 0; i+1 < len(toks); i++ {
				if toks[i].Kind == tmpl.THole && toks[i+1].Kind == tmpl.TNum && toks[i+1].Text == "0" {
					h := t.Holes[toks[i].Holes[0]]
					args := t.FmtArgs()
					if h.Verb == 's' && h.Index >= 0 && h.Index < len(args) {
						if id, ok := args[h.Index].(*ast.Ident); ok {
							vals := stringVarValues(info, fnBody, id)
							by := map[string]coercion{}
							for v := range vals {
								switch v {
								case ">>":
									by[v] = coercion{s32: true, descr: ">> 0"}
								case ">>>":
									by[v] = coercion{u32: true, descr: ">>> 0"}
								default:
									by[v] = coercion{none: true, descr: v + " 0"}
								}
							}
							return coercion{none: true, descr: "shift chosen by variable " + id.Name}, by
						}
					}
				}
			}
			return co, nil
		case "translateExpr":
			return coercion{none: true, descr: "operand passed through"}, nil
		}
	}
	return coercion{none: true, descr: "unrecognised: " + exprStr(e)}, nil
}

// stringVarValues collects the constant strings assigned to a variable, with the guard of each assignment.
func stringVarValues(info *types.Info, body *ast.BlockStmt, id *ast.Ident) map[string]ast.Expr {
	out := map[string]ast.Expr{}
	obj := info.ObjectOf(id)
	var guards []ast.Expr
	var visit func(n ast.Node)
	visit = func(n ast.Node) {
		switch x := n.(type) {
		case *ast.IfStmt:
			guards = append(guards, x.Cond)
			visit(x.Body)
			guards = guards[:len(guards)-1]
			if x.Else != nil {
				visit(x.Else)
			}
			return
		case *ast.AssignStmt:
			if len(x.Lhs) == 1 && len(x.Rhs) == 1 {
				if l, ok := x.Lhs[0].(*ast.Ident); ok && info.ObjectOf(l) == obj {
					if tv, ok := info.Types[x.Rhs[0]]; ok && tv.Value != nil && tv.Value.Kind() == constant.String {
						var g ast.Expr
						if len(guards) > 0 {
							g = guards[len(guards)-1]
						}
						out[constant.StringVal(tv.Value)] = g
					}
				}
			}
		}
		ast.Inspect(n, func(m ast.Node) bool {
			if m == n || m == nil {
				return true
			}
			switch m.(type) {
			case *ast.IfStmt, *ast.AssignStmt:
				visit(m)
				return false
			}
			return true
		})
	}
	visit(body)
	return out
}

func ruleC06Apply(c *ctx.Ctx, r *core.Reporter) {
	r.Begin("C06.apply", "F-TABLE", "for every (operator, non-64-bit numeric kind) pair whose JavaScript result can leave the type's range, the arm of translateExpr reached by that pair returns an expression coerced for that kind (fixNumber, or a fixed 32-bit coercion only under a guard restricting the kind to the matching 32-bit kinds)", 60)
	fd := c.FuncDecl("compiler", "funcContext.translateExpr")
	if fd == nil {
		r.Undecided("translateExpr", "compiler/expressions.go", "not found")
		return
	}
	// shifts by a constant count that reaches the width of the (at most 32-bit) operand: the result is 0,
	// except for the arithmetic right shift of a signed operand, which fills with the sign bit
	{
		ok := false
		for _, m := range findGoPattern(fd.Body, `if µi >= 32 { µµbody }`) {
			is := m.Node.(*ast.IfStmt)
			for _, m2 := range findGoPattern(is.Body, `if µe.Op == token.SHR && !isUnsigned(µb) { µµinner }`) {
				inner := m2.Node.(*ast.IfStmt)
				for _, t := range templatesIn(c, inner.Body) {
					if strings.Contains(squash(t.Text), ">>31") {
						ok = true
					}
				}
			}
		}
		r.Check(ok, "shift:oversized-constant-signed-shr-sign-fills", c.Pos(fd.Pos()), "x >> c with a constant c >= 32 and a signed x is compiled as x >> 31 (-1 for a negative x), not as the literal 0")
	}
	ke := newKindEval(c)
	// locate the BinaryExpr arm's numeric block: if basic, isBasic := ...; isBasic && isNumeric(basic) { ... }
	var numericIf *ast.IfStmt
	var unarySwitch *ast.SwitchStmt
	ast.Inspect(fd.Body, func(n ast.Node) bool {
		switch x := n.(type) {
		case *ast.IfStmt:
			if numericIf == nil && x.Init != nil && strings.Contains(exprStr(x.Cond), "isNumeric(basic)") {
				numericIf = x
			}
		case *ast.CaseClause:
			if len(x.List) == 1 && exprStr(x.List[0]) == "*ast.UnaryExpr" {
				// the second switch on e.Op (after `basic := ...`)
				cnt := 0
				for _, st := range x.Body {
					if sw, ok := st.(*ast.SwitchStmt); ok && sw.Tag != nil && exprStr(sw.Tag) == "e.Op" {
						cnt++
						if cnt == 2 {
							unarySwitch = sw
						}
					}
				}
			}
		}
		return true
	})
	if numericIf == nil || unarySwitch == nil {
		r.Undecided("anchors", c.Pos(fd.Pos()), fmt.Sprintf("numeric operator block found=%v, unary operator switch found=%v", numericIf != nil, unarySwitch != nil))
		return
	}
	smallKinds := []types.BasicKind{types.Int, types.Int8, types.Int16, types.Int32, types.Uint, types.Uint8, types.Uint16, types.Uint32, types.Uintptr, types.Float32, types.Float64}
	evalSites := func(list []ast.Stmt, ops []token.Token, kinds []types.BasicKind, unary bool) {
		start := pairSet{}
		for _, o := range ops {
			for _, k := range kinds {
				start[okPair{o, k}] = true
			}
		}
		var sites []retSite
		ke.flow(list, start, &sites)
		// pair -> adequate?
		type res struct {
			ok    bool
			descr string
			site  string
			seen  bool
		}
		results := map[okPair]*res{}
		for _, s := range sites {
			co, byVar := classifyReturn(c, ke, fd.Body, s.expr)
			for p := range s.pairs {
				need, _ := needsCoercion(p.op, unary, p.kind)
				if !need {
					continue
				}
				ok := co.adequate(p.kind)
				descr := co.descr
				if byVar != nil {
					// the shift operator is chosen by a guarded assignment: evaluate the guard for this pair
					ok = false
					vals := stringVarValuesFor(ke, fd.Body, s.expr, p)
					descr = "shift operator(s) " + strings.Join(vals, "/") + " 0"
					if len(vals) == 1 {
						ok = byVar[vals[0]].adequate(p.kind)
					}
				}
				rr := results[p]
				if rr == nil {
					rr = &res{ok: true}
					results[p] = rr
				}
				rr.seen = true
				if !ok {
					rr.ok = false
					rr.descr = descr
					rr.site = c.Pos(s.ret.Pos())
				} else if rr.ok {
					rr.descr = descr
					rr.site = c.Pos(s.ret.Pos())
				}
			}
		}
		for _, o := range ops {
			for _, k := range kinds {
				need, why := needsCoercion(o, unary, k)
				if !need {
					continue
				}
				p := okPair{o, k}
				key := fmt.Sprintf("apply:%s%s:%s", ternary(unary, "unary", ""), o, kindName(k))
				rr := results[p]
				if rr == nil || !rr.seen {
					r.Undecided(key, c.Pos(fd.Pos()), fmt.Sprintf("no return statement of the operator arms is reached by (%s, %s): the arm structure is not understood", o, kindName(k)))
					continue
				}
				r.Check(rr.ok, key, rr.site, fmt.Sprintf("%s%s on %s: %s; the returned expression applies: %s", ternary(unary, "unary ", ""), o, kindName(k), why, rr.descr))
			}
		}
	}
	// binary: the statements of the numeric block after the 64-bit and complex sub-blocks are part of the same list
	evalSites(numericIf.Body.List, binaryOps, smallKinds, false)
	evalSites([]ast.Stmt{unarySwitch}, []token.Token{token.ADD, token.SUB, token.XOR, token.NOT}, smallKinds, true)

	// conversions: every integer conversion target goes through fixNumber
	tc := c.FuncDecl("compiler", "funcContext.translateConversion")
	if tc != nil {
		var intCase *ast.CaseClause
		ast.Inspect(tc.Body, func(n ast.Node) bool {
			if cc, ok := n.(*ast.CaseClause); ok && len(cc.List) == 1 && exprStr(cc.List[0]) == "isInteger(t)" {
				intCase = cc
			}
			return true
		})
		if intCase == nil {
			r.Undecided("conv:int", c.Pos(tc.Pos()), "integer arm of translateConversion not found")
		} else {
			// inner switch: arms not for 64-bit targets must return fixNumber(...) unless the source is unsafe.Pointer
			ast.Inspect(intCase, func(n ast.Node) bool {
				cc, ok := n.(*ast.CaseClause)
				if !ok || cc == intCase {
					return true
				}
				lab := "default"
				if cc.List != nil {
					lab = exprStr(cc.List[0])
				}
				if lab == "is64Bit(t)" || strings.Contains(lab, "UnsafePointer") {
					return false
				}
				for _, st := range cc.Body {
					ast.Inspect(st, func(m ast.Node) bool {
						if rs, ok := m.(*ast.ReturnStmt); ok && len(rs.Results) == 1 {
							co, _ := classifyReturn(c, ke, tc.Body, rs.Results[0])
							r.Check(co.all, "conv:int:"+lab, c.Pos(rs.Pos()), "conversion to a non-64-bit integer type ("+lab+") returns through fixNumber: "+co.descr)
						}
						return true
					})
				}
				return false
			})
		}
		// conversion to a floating-point type: when the destination is float32, every source that is not
		// itself a float32 (float64 and all integer kinds) is rounded to single precision with $fround; the
		// only way around the rounding is the test "the source is already float32"
		{
			var arm *ast.CaseClause
			ast.Inspect(tc.Body, func(n ast.Node) bool {
				if cc, ok := n.(*ast.CaseClause); ok && arm == nil && len(cc.List) == 1 && hasGoPatternExpr(cc.List[0], `isFloat(µt)`) {
					arm = cc
				}
				return true
			})
			if arm == nil {
				r.Violation("conv:to-float32-rounds", c.Pos(tc.Pos()), "translateConversion has no arm for floating-point destinations")
			} else {
				roundsAllButFloat32 := false
				for _, m := range findGoPattern(&ast.BlockStmt{List: arm.Body}, `if µt.Kind() == types.Float32 && µsrc.Underlying().(*types.Basic).Kind() != types.Float32 { µµbody }`) {
					is := m.Node.(*ast.IfStmt)
					for _, ce := range findCalls(ke.info, is.Body, modPath("compiler"), "funcContext.formatExpr") {
						if t := templateOfCall(c, ce); t != nil && strings.HasPrefix(t.Text, "$fround(") {
							roundsAllButFloat32 = true
						}
					}
				}
				r.Check(roundsAllButFloat32, "conv:to-float32-rounds", c.Pos(arm.Pos()), "a conversion to float32 goes through $fround unless the source already is a float32 (an integer above 2^24 is not representable either)")
			}
		}
	}
}

// stringVarValuesFor returns the constant values the shift variable of the
// template behind expr can hold for pair p (assignment guards evaluated on p).
func stringVarValuesFor(ke *kindEval, body *ast.BlockStmt, expr ast.Expr, p okPair) []string {
	// find the variable
	var call *ast.CallExpr
	switch x := expr.(type) {
	case *ast.CallExpr:
		call = x
	case *ast.Ident:
		ast.Inspect(body, func(n ast.Node) bool {
			if as, ok := n.(*ast.AssignStmt); ok && len(as.Lhs) == 1 && len(as.Rhs) == 1 {
				if id, ok := as.Lhs[0].(*ast.Ident); ok && ke.info.ObjectOf(id) == ke.info.ObjectOf(x) {
					if ce, ok := as.Rhs[0].(*ast.CallExpr); ok {
						call = ce
					}
				}
			}
			return true
		})
	}
	if call == nil {
		return nil
	}
	var id *ast.Ident
	for _, a := range call.Args {
		if i, ok := a.(*ast.Ident); ok {
			if b, ok := ke.info.TypeOf(i).(*types.Basic); ok && b.Kind() == types.String {
				id = i
			}
		}
	}
	if id == nil {
		return nil
	}
	vals := stringVarValues(ke.info, body, id)
	// unguarded value is the default; a guarded value replaces it when its guard holds
	def := ""
	var out []string
	overridden := false
	for v, g := range vals {
		if g == nil {
			def = v
		}
	}
	for v, g := range vals {
		if g == nil {
			continue
		}
		switch ke.evalBool(g, "basic", p) {
		case triTrue:
			out = append(out, v)
			overridden = true
		case triUnknown:
			out = append(out, v)
		}
	}
	if !overridden && def != "" {
		out = append(out, def)
	}
	sort.Strings(out)
	return out
}

// ---------------------------------------------------------------------------
// C06.dispatch

func ruleC06Dispatch(c *ctx.Ctx, r *core.Reporter) {
	r.Begin("C06.dispatch", "F-TABLE", "64-bit and complex operators reach the matching prelude helper with the matching mode flag", 8)
	want := []struct{ path, prefix, descr string }{
		{"_.Op:token.MUL", "$mul64(", "64-bit * uses $mul64"},
		{"_.Op:token.QUO", "$div64(⟨0⟩, ⟨1⟩, false)", "64-bit / uses $div64 with returnRemainder=false"},
		{"_.Op:token.REM", "$div64(⟨0⟩, ⟨1⟩, true)", "64-bit % uses $div64 with returnRemainder=true"},
		{"_.Op:token.SHL", "$shiftLeft64(", "64-bit << uses $shiftLeft64"},
		{"_.Op:token.SHR", "$shiftRight⟨0⟩(", "64-bit >> uses $shiftRightInt64/$shiftRightUint64 selected by the operand type"},
	}
	// templates of translateExpr whose case path is BinaryExpr / e.Op:X and which sit in the first (64-bit) operator switch
	var cands []*tmpl.Template
	for _, t := range usableTemplates(c) {
		if t.Func == "funcContext.translateExpr" && t.Role == tmpl.RoleSink && len(t.CasePath) == 2 && t.CasePath[0] == "type:*ast.BinaryExpr" {
			cands = append(cands, t)
		}
	}
	for _, w := range want {
		found := ""
		for _, t := range cands {
			if t.CasePath[1] == w.path && strings.HasPrefix(t.Text, w.prefix) {
				found = c.Pos(t.Pos)
			}
		}
		r.Check(found != "", "dispatch64:"+w.path, "compiler/expressions.go:translateExpr", w.descr+" (template at "+found+")")
	}
	// the SHR helper suffix comes from toJavaScriptType(basic)
	for _, t := range cands {
		if t.CasePath[1] == "_.Op:token.SHR" && strings.HasPrefix(t.Text, "$shiftRight⟨0⟩(") {
			args := t.FmtArgs()
			ok := len(args) > 0 && exprStr(args[0]) == "toJavaScriptType(basic)"
			r.Check(ok, "dispatch64:SHR-suffix", c.Pos(t.Pos), "the signedness suffix of $shiftRight is toJavaScriptType(basic)")
		}
	}
	// complex QUO
	found := ""
	for _, t := range cands {
		if t.CasePath[1] == "_.Op:token.QUO" && strings.HasPrefix(t.Text, "$divComplex(") {
			found = c.Pos(t.Pos)
		}
	}
	r.Check(found != "", "dispatchComplex:QUO", "compiler/expressions.go:translateExpr", "complex / uses $divComplex ("+found+")")
	// comparison templates of 64-bit operands use both halves
	for _, op := range []string{"token.EQL", "token.LSS", "token.LEQ", "token.GTR", "token.GEQ"} {
		ok := false
		site := ""
		for _, t := range cands {
			if t.CasePath[1] == "_.Op:"+op {
				nh, nl := 0, 0
				for _, h := range t.Holes {
					if h.Verb == 'h' {
						nh++
					}
					if h.Verb == 'l' {
						nl++
					}
				}
				if nh >= 2 && nl >= 2 {
					ok = true
					site = c.Pos(t.Pos)
				}
			}
		}
		r.Check(ok, "cmp64:"+op, "compiler/expressions.go:translateExpr", "64-bit comparison "+op+" compares both the high and the low halves of both operands ("+site+")")
	}
}

// ---------------------------------------------------------------------------
// C06.div0

func ruleC06Div0(c *ctx.Ctx, r *core.Reporter) {
	r.Begin("C06.div0", "F-MUST", "integer division and remainder templates contain the divide-by-zero throw; $div64 throws before using the divisor", 3)
	n := 0
	for _, t := range usableTemplates(c) {
		if t.Func != "funcContext.translateExpr" || t.Role != tmpl.RoleSink || len(t.CasePath) < 2 {
			continue
		}
		last := t.CasePath[len(t.CasePath)-1]
		if last != "_.Op:token.QUO" && last != "_.Op:token.REM" {
			continue
		}
		// the integer templates of the small-kind switch: contain `/` or `%` applied to two holes
		isSmall := false
		for i, tk := range t.Tokens {
			if tk.Kind == tmpl.TPunct && (tk.Text == "/" || tk.Text == "%") && i > 0 && i+1 < len(t.Tokens) && t.Tokens[i-1].Kind == tmpl.THole && t.Tokens[i+1].Kind == tmpl.THole {
				isSmall = true
			}
		}
		if !isSmall {
			continue
		}
		// float templates: `⟨⟩ / ⟨⟩` only; integer templates are the ones with a temporary (_q / _r)
		isInt := strings.Contains(t.Text, "===")
		if last == "_.Op:token.REM" {
			isInt = true
		}
		if !isInt {
			continue
		}
		n++
		ok := strings.Contains(t.Text, `$throwRuntimeError("integer divide by zero")`)
		r.Check(ok, "div0:"+last, c.Pos(t.Pos), "integer "+last+" template throws the runtime error for a zero divisor: "+ternary(ok, "present", t.Text))
	}
	if n < 2 {
		r.Undecided("div0:templates", "compiler/expressions.go", fmt.Sprintf("only %d integer division/remainder templates found", n))
	}
	if !needPrelude(c, r) {
		return
	}
	fn := c.PreludeFunc("$div64")
	if fn == nil {
		r.Undecided("$div64", "compiler/prelude/numeric.js", "not found")
		return
	}
	body := fn.N("body").L("body")
	ok := false
	if len(body) > 0 && body[0].Is("IfStatement") {
		test := body[0].N("test").Src()
		cons := body[0].N("consequent").Src()
		ok = strings.Contains(test, "y.$high === 0") && strings.Contains(test, "y.$low === 0") && strings.Contains(cons, "$throwRuntimeError") && strings.Contains(cons, "integer divide by zero")
	}
	r.Check(ok, "div0:$div64", fn.Pos(), "the first statement of $div64 throws when both halves of the divisor are zero")
}

// ---------------------------------------------------------------------------
// C06.const

func jsNumbers(fn *ctx.JSNode) map[float64]int {
	out := map[float64]int{}
	fn.Walk(func(n *ctx.JSNode) bool {
		if v, ok := n.NumValue(); ok {
			out[v]++
		}
		return true
	})
	return out
}

func ruleC06Const(c *ctx.Ctx, r *core.Reporter) {
	r.Begin("C06.const", "F-CONST", "the helpers implementing the two-halves 64-bit representation contain, by value, the radix and width constants of that representation; the compiler's constant splitting uses shift 32 and mask 2^32-1", 12)
	if !needPrelude(c, r) {
		return
	}
	type wantC struct {
		fn     string
		consts []float64
		why    string
	}
	for _, w := range []wantC{
		{"$flatten64", []float64{4294967296}, "value = high * 2^32 + low"},
		{"$shiftLeft64", []float64{0, 32, 64}, "shift counts are split at 32 and saturate at 64"},
		{"$shiftRightInt64", []float64{0, 32, 64, 31, 4294967295}, "arithmetic shift: split at 32, sign fill (>> 31, -1/0xFFFFFFFF) from 64"},
		{"$shiftRightUint64", []float64{0, 32, 64}, "logical shift: split at 32, zero from 64"},
		{"$mul64", []float64{16, 65535}, "schoolbook multiplication on 16-bit limbs"},
		{"$div64", []float64{4294967296, 2147483648, 31, 1}, "long division: borrow radix 2^32, top-bit test 2^31, single-bit shifts"},
	} {
		fn := c.PreludeFunc(w.fn)
		if fn == nil {
			r.Undecided("const:"+w.fn, "compiler/prelude/numeric.js", "function not found")
			continue
		}
		nums := jsNumbers(fn)
		var missing []string
		for _, k := range w.consts {
			if nums[k] == 0 {
				missing = append(missing, fmt.Sprint(int64(k)))
			}
		}
		r.Check(len(missing) == 0, "const:"+w.fn, fn.Pos(), fmt.Sprintf("%s (%s): missing constants %v", w.fn, w.why, missing))
	}
	// $newType constructors of the 64-bit kinds normalise with 4294967296 and >> 0 / >>> 0
	nt := c.PreludeFunc("$newType")
	if nt != nil {
		arms := switchArmsByDiscriminant(nt, "kind")
		for _, k := range []string{"$kindInt64", "$kindUint64"} {
			arm := arms[k]
			if arm == nil {
				r.Violation("const:$newType:"+k, nt.Pos(), "no constructor arm for "+k)
				continue
			}
			nums := map[float64]int{}
			for _, st := range arm.L("consequent") {
				for v, n := range jsNumbers(st) {
					nums[v] += n
				}
			}
			src := ""
			for _, st := range arm.L("consequent") {
				src += st.Src()
			}
			wantOp := ">> 0"
			if k == "$kindUint64" {
				wantOp = ">>> 0"
			}
			ok := nums[4294967296] > 0 && strings.Contains(src, "this.$high") && strings.Contains(src, "this.$low = low >>> 0") && strings.Contains(src, ") "+wantOp+";")
			r.Check(ok, "const:$newType:"+k, arm.Pos(), fmt.Sprintf("the %s constructor carries overflow of the low half with radix 4294967296, wraps $low with >>> 0 and $high with %s", k, wantOp))
			// rounding agreement (F-SIB): `low >>> 0` (ToUint32) truncates toward zero, so the carry into the high
			// word must be computed from low truncated toward zero as well
			var div *ctx.JSNode
			for _, st := range arm.L("consequent") {
				st.Walk(func(n *ctx.JSNode) bool {
					if n.Is("BinaryExpression") && n.S("operator") == "/" {
						if v, ok := n.N("right").NumValue(); ok && v == 4294967296 && div == nil {
							div = n
						}
					}
					return true
				})
			}
			if div == nil {
				r.Info("round:$newType:"+k, arm.Pos(), "no division by 4294967296 found in the constructor (carry computed differently; not judged)")
			} else {
				num := squash(div.N("left").Src())
				lowName := "low"
				switch num {
				case "Math.trunc(" + lowName + ")":
					r.OK("round:$newType:"+k, div.Pos(), "the carry is floor(trunc(low) / 2^32): same rounding direction as `low >>> 0`")
				case "Math.ceil(" + lowName + ")":
					r.Violation("round:$newType:"+k, div.Pos(), "the carry is computed from Math.ceil(low) but the low word is `low >>> 0`, which truncates toward zero: for a positive fractional low just below a multiple of 2^32 (e.g. 4294967295.5) ceil carries 1 while the low word stays 4294967295 — the value is off by 2^32")
				case "Math.floor(" + lowName + ")", lowName:
					r.Violation("round:$newType:"+k, div.Pos(), "the carry is computed from "+num+" (rounding toward -inf) but the low word is `low >>> 0`, which truncates toward zero: for a negative fractional low (e.g. -0.5) the carry is -1 while the low word is 0 — the value is off by 2^32")
				default:
					r.Info("round:$newType:"+k, div.Pos(), "carry numerator "+num+" is not a form the checker knows (not judged)")
				}
			}
		}
	}
	// compiler constant splitting: d>>32 and d&(1<<32-1) on both paths
	info := c.Pkg("compiler").TypesInfo
	for _, fnName := range []string{"funcContext.translateExpr", "funcContext.formatExprInternal"} {
		fd := c.FuncDecl("compiler", fnName)
		if fd == nil {
			continue
		}
		shifts, masks, badShift, badMask := 0, 0, "", ""
		ast.Inspect(fd.Body, func(n ast.Node) bool {
			be, ok := n.(*ast.BinaryExpr)
			if !ok {
				return true
			}
			// only expressions over the uint64/int64 constant value `d`
			if !strings.Contains(exprStr(be.X), "d") {
				return true
			}
			xt := info.TypeOf(be.X)
			if xt == nil {
				return true
			}
			if b, ok := xt.Underlying().(*types.Basic); !ok || (b.Kind() != types.Int64 && b.Kind() != types.Uint64) {
				return true
			}
			if tv, ok := info.Types[be.Y]; ok && tv.Value != nil {
				v, exact := constant.Uint64Val(constant.ToInt(tv.Value))
				switch be.Op {
				case token.SHR:
					shifts++
					if !exact || v != 32 {
						badShift = fmt.Sprintf("%s at %s", exprStr(be), c.Pos(be.Pos()))
					}
				case token.AND:
					masks++
					if !exact || v != 1<<32-1 {
						badMask = fmt.Sprintf("%s at %s", exprStr(be), c.Pos(be.Pos()))
					}
				}
			}
			return true
		})
		r.Check(shifts >= 2 && badShift == "", "split:"+fnName+":high", c.Pos(fd.Pos()), fmt.Sprintf("high half of a 64-bit constant is d >> 32 (%d sites) %s", shifts, badShift))
		r.Check(masks >= 1 && badMask == "", "split:"+fnName+":low", c.Pos(fd.Pos()), fmt.Sprintf("low half of a 64-bit constant is d & (1<<32 - 1) (%d sites) %s", masks, badMask))
	}
}

// switchArmsByDiscriminant: the first switch in fn whose discriminant is the identifier name.
func switchArmsByDiscriminant(fn *ctx.JSNode, name string) map[string]*ctx.JSNode {
	var sw *ctx.JSNode
	fn.N("body").Walk(func(n *ctx.JSNode) bool {
		if sw != nil {
			return false
		}
		if n.Is("SwitchStatement") && n.N("discriminant").IdentName() == name {
			sw = n
			return false
		}
		return true
	})
	if sw == nil {
		return nil
	}
	return switchArms(sw)
}

// firstParamName returns the name of the first parameter of fd ("" if none).
func firstParamName(fd *ast.FuncDecl) string {
	if fd == nil || len(fd.Type.Params.List) == 0 || len(fd.Type.Params.List[0].Names) == 0 {
		return ""
	}
	return fd.Type.Params.List[0].Names[0].Name
}

// hasGoPatternExpr matches a single expression against an expression pattern.
func hasGoPatternExpr(e ast.Expr, pat string) bool {
	p := compileGoPattern(pat)
	return p.expr != nil && matchExprPat(p.expr, e, patEnv{})
}
