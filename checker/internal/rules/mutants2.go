package rules

import "strings"

// Second part of the mutant catalogue (pipeline properties). Same conventions as mutants.go.

func init() {
	const info = "compiler/internal/analysis/info.go"
	const expr = "compiler/expressions.go"
	const funcs = "compiler/functions.go"
	addMutants(
		// C02
		Mutant{ID: "send-not-blocking", Property: "C02", File: info, Old: "\tcase *ast.SendStmt:\n\t\t// Sending into a channel is blocking.\n\t\tfi.markBlocking(fi.visitorStack)\n\t\treturn fi", New: "\tcase *ast.SendStmt:\n\t\t// Sending into a channel is blocking.\n\t\treturn fi", Rule: "C02.sources", Note: "channel send no longer marks the function blocking"},
		Mutant{ID: "recv-only-flattened", Property: "C02", File: info, Old: "\t\t\t// Receiving from a channel is blocking.\n\t\t\tfi.markBlocking(fi.visitorStack)", New: "\t\t\t// Receiving from a channel is blocking.\n\t\t\tfi.markFlattened(fi.visitorStack)", Rule: "C02.sources", Note: "channel receive only flattens"},
		Mutant{ID: "fixpoint-single-pass", Property: "C02", File: info, Old: "\t\t\tif !info.propagateFunctionBlocking() {\n\t\t\t\tdone = false\n\t\t\t}", New: "\t\t\tinfo.propagateFunctionBlocking()", Rule: "C02.fixpoint", Note: "cross-package propagation runs once instead of to a fixpoint"},
		Mutant{ID: "blocking-not-flattened", Property: "C02", File: info, Old: "\t\tfi.Blocking[n] = true\n\t\tfi.Flattened[n] = true\n\t}\n}\n\nfunc (fi *FuncInfo) markFlattened", New: "\t\tfi.Blocking[n] = true\n\t}\n}\n\nfunc (fi *FuncInfo) markFlattened", Rule: "C02.flatten", Note: "blocking nodes are not flattened"},
		Mutant{ID: "resume-case-shared", Property: "C02", File: expr, Old: "\t\tresumeCase := fc.caseCounter\n\t\tfc.caseCounter++\n\t\treturnVar := \"$r\"", New: "\t\tresumeCase := fc.caseCounter\n\t\treturnVar := \"$r\"", Rule: "C02.protocol", Note: "two blocking calls share one resume case"},
		Mutant{ID: "frame-drops-r", Property: "C02", File: funcs, Old: "var $f = {$blk: %s, $c: true, $r, %s};", New: "var $f = {$blk: %s, $c: true, %s};", Rule: "C02.protocol", Note: "the pending call result is not saved in the frame"},
	)
	const collect = "compiler/internal/typeparams/collect.go"
	const utils = "compiler/utils.go"
	const decls = "compiler/decls.go"
	const selector = "compiler/internal/dce/selector.go"
	const comp = "compiler/compiler.go"
	const linkname = "compiler/linkname/linkname.go"
	const jsmap = "compiler/prelude/jsmapping.js"
	const buildgo = "build/build.go"
	const mutex = "nosync/mutex.go"
	const atomicgo = "compiler/natives/src/sync/atomic/atomic.go"
	const mathgo = "compiler/natives/src/math/math.go"
	const bctx = "build/context.go"
	const hint = "internal/sourcemapx/hint.go"
	const cache = "build/cache/cache.go"
	const ser = "compiler/sources/serializer.go"
	addMutants(
		// C04
		Mutant{ID: "finish-single-pass", Property: "C04", File: collect, Old: "\tfor !c.Instances.allExhausted() {\n\t\t// Process packages", New: "\tif !c.Instances.allExhausted() {\n\t\t// Process packages", Rule: "C04.collect", Note: "instance propagation runs once instead of to exhaustion"},
		Mutant{ID: "typeof-no-subst", Property: "C04", File: utils, Old: "\t\t\ttyp = inst.Type\n\t\t}\n\t}\n\treturn fc.typeResolver.Substitute(typ)", New: "\t\t\ttyp = inst.Type\n\t\t}\n\t}\n\treturn typ", Rule: "C04.subst", Note: "typeOf returns types in terms of type parameters"},
		Mutant{ID: "selection-no-subst", Property: "C04", File: utils, Old: "\t\treturn fc.typeResolver.SubstituteSelection(sel), true", New: "\t\treturn sel, true", Rule: "C04.subst", Note: "selections in generic code keep type parameters"},
		Mutant{ID: "propagate-skip-named", Property: "C04", File: collect, Old: "\t\tcase *types.Named:\n\t\t\tc.scanNamed(inst, typ, info)\n\t\t}\n\t}\n}", New: "\t\tcase *types.Named:\n\t\t}\n\t}\n}", Rule: "C04.collect", Note: "instances used inside generic types are never discovered"},
		Mutant{ID: "map-ignores-nest", Property: "C04", File: "compiler/internal/typeparams/map.go", Old: "\treturn candidate != nil &&\n\t\tcandidate.key.TNest.Equal(key.TNest) &&\n\t\tcandidate.key.TArgs.Equal(key.TArgs)", New: "\treturn candidate != nil &&\n\t\tcandidate.key.TArgs.Equal(key.TArgs)", Rule: "C04.identity", Note: "instances nested in different generic functions are identified"},
		// C05
		Mutant{ID: "init-not-alive", Property: "C05", File: decls, Old: "\t\t\td.Dce().SetAsAlive() // init() function is always reachable.", New: "\t\t\t_ = d // init() function is always reachable.", Rule: "C05.roots", Note: "init functions can be eliminated"},
		Mutant{ID: "import-not-alive", Property: "C05", File: decls, Old: "fc.translateStmt(fc.importInitializer(importedPkg.Path()), nil) }),\n\t}\n\td.Dce().SetAsAlive()\n\treturn d", New: "fc.translateStmt(fc.importInitializer(importedPkg.Path()), nil) }),\n\t}\n\treturn d", Rule: "C05.roots", Note: "import declarations (and the imported package's init) can be eliminated"},
		Mutant{ID: "alive-either-filter", Property: "C05", File: selector, Old: "if info.objectFilter == `` && info.methodFilter == `` {", New: "if info.objectFilter == `` || info.methodFilter == `` {", Rule: "C05.names", Note: "a method becomes alive when either its type or its name is used"},
		Mutant{ID: "linkname-impl-not-root", Property: "C05", File: selector, Old: "\tif implementsLink {\n\t\ts.pendingDecls = append(s.pendingDecls, decl)\n\t}", New: "\t_ = implementsLink", Rule: "C05.roots", Note: "linkname implementations are not roots"},
		Mutant{ID: "effects-no-slice", Property: "C05", File: "compiler/internal/analysis/sideeffect.go", Old: "\tcase *ast.SliceExpr:\n\t\t// Slicing may panic when the bounds are out of range.\n\t\tv.hasSideEffect = true\n\t\treturn nil\n", New: "", Rule: "C05.roots", Note: "a slicing initialiser is considered free of effects"},
		// C10
		Mutant{ID: "deps-pre-order", Property: "C10", File: comp, Old: "\t\tfor _, imp := range dep.Imports {\n\t\t\tif err := collectDependencies(imp); err != nil {\n\t\t\t\treturn err\n\t\t\t}\n\t\t}\n\t\tdeps = append(deps, dep)\n\t\tpaths[dep.ImportPath] = true\n\t\treturn nil", New: "\t\tdeps = append(deps, dep)\n\t\tpaths[dep.ImportPath] = true\n\t\tfor _, imp := range dep.Imports {\n\t\t\tif err := collectDependencies(imp); err != nil {\n\t\t\t\treturn err\n\t\t\t}\n\t\t}\n\t\treturn nil", Rule: "C10.order", Note: "a package is linked before its dependencies"},
		Mutant{ID: "runtime-not-first", Property: "C10", File: comp, Old: "\tif err := collectDependencies(\"runtime\"); err != nil {\n\t\treturn nil, err\n\t}\n\tfor _, imp := range archive.Imports {\n\t\tif err := collectDependencies(imp); err != nil {\n\t\t\treturn nil, err\n\t\t}\n\t}\n", New: "\tfor _, imp := range archive.Imports {\n\t\tif err := collectDependencies(imp); err != nil {\n\t\t\treturn nil, err\n\t\t}\n\t}\n\tif err := collectDependencies(\"runtime\"); err != nil {\n\t\treturn nil, err\n\t}\n", Rule: "C10.order", Note: "runtime is no longer linked first"},
		Mutant{ID: "linkname-errors-dropped", Property: "C10", File: linkname, Old: "\t\t\tif err := processComment(c); err != nil {\n\t\t\t\terrs = append(errs, errorAt(err, fset, c.Pos()))\n\t\t\t}", New: "\t\t\t_ = processComment(c)", Rule: "C10.linkname", Note: "invalid linkname directives are silently ignored"},
		Mutant{ID: "linkname-nonfunc-accepted", Property: "C10", File: linkname, Old: "\t\t\treturn fmt.Errorf(\"gopherjs: //go:linkname is only supported for functions, got %T\", node)", New: "\t\t\treturn nil", Rule: "C10.linkname", Note: "linkname on a variable is accepted"},
		// C11
		Mutant{ID: "high-range-wide", Property: "C11", File: jsmap, Old: "if (0xD800 <= h && h <= 0xDBFF) {", New: "if (0xD800 <= h && h <= 0xDFFF) {", Rule: "C11.utf16", Note: "a lone low surrogate is treated as the start of a pair"},
		Mutant{ID: "pair-radix", Property: "C11", File: jsmap, Old: "var c = (h - 0xD800) * 0x400 + l - 0xDC00 + 0x10000;", New: "var c = (h - 0xD800) * 0x3FF + l - 0xDC00 + 0x10000;", Rule: "C11.utf16", Note: "surrogate pairs composed with the wrong radix"},
		Mutant{ID: "pair-low-base", Property: "C11", File: jsmap, Old: "var l = (c - 0x10000) % 0x400 + 0xDC00;", New: "var l = (c - 0x10000) % 0x400 + 0xD800;", Rule: "C11.utf16", Note: "low surrogate emitted in the high range"},
		Mutant{ID: "wrapper-not-cached", Property: "C11", File: jsmap, Old: "    if (v.$externalizeWrapper === undefined) {", New: "    if (v.$externalizeWrapper === undefined || true) {", Rule: "C11.misc", Note: "a Go function externalises to a new JavaScript function each time"},
		Mutant{ID: "ext-int64-passthrough", Property: "C11", File: jsmap, Old: "        case $kindFloat64:\n            return v;\n        case $kindInt64:\n        case $kindUint64:\n            return $flatten64(v);", New: "        case $kindFloat64:\n        case $kindInt64:\n            return v;\n        case $kindUint64:\n            return $flatten64(v);", Rule: "C11.kinds", Note: "int64 handed to JavaScript as the internal two-word object"},
		// C12
		Mutant{ID: "keep-original-prefix", Property: "C12", File: buildgo, Old: "d.Name.Name = \"_gopherjs_original_\" + d.Name.Name", New: "d.Name.Name = \"_gopherjs_orig_\" + d.Name.Name", Rule: "C12.directives", Note: "keep-original uses an undocumented prefix"},
		Mutant{ID: "purge-methods-no-flag", Property: "C12", File: buildgo, Old: "\t\t\t\tif info, ok := overrides[recvKey]; ok && info.purgeMethods {\n\t\t\t\t\tanyChange = true\n\t\t\t\t\tfile.Decls[i] = nil", New: "\t\t\t\tif info, ok := overrides[recvKey]; ok && info.purgeMethods {\n\t\t\t\t\tfile.Decls[i] = nil", Rule: "C12.finalize", Note: "a purged method leaves a nil declaration behind"},
		Mutant{ID: "embed-directive-dropped", Property: "C12", File: buildgo, Old: "\t\t`embed`:  `//go:embed `,\n", New: "", Rule: "C12.imports", Note: "an embed import used only by a directive is pruned"},
		Mutant{ID: "squeeze-values-forgotten", Property: "C12", File: buildgo, Old: "\t\t\t\t\t\ts.Values = astutil.Squeeze(s.Values)\n", New: "", Rule: "C12.finalize", Note: "removed values stay as nil entries"},
		Mutant{ID: "resign-no-flag", Property: "C12", File: buildgo, Old: "\t\t\tif info, ok := overrides[astutil.FuncKey(d)]; ok {\n\t\t\t\tanyChange = true\n\t\t\t\tremoveFunc := true", New: "\t\t\tif info, ok := overrides[astutil.FuncKey(d)]; ok {\n\t\t\t\tanyChange = anyChange || !info.keepOriginal && info.overrideSignature == nil\n\t\t\t\tremoveFunc := true", Rule: "C12.finalize", Note: "a re-signed function does not trigger import pruning"},
		// C13
		Mutant{ID: "mutex-unlock-silent", Property: "C13", File: mutex, Old: "\tif !m.locked {\n\t\tpanic(\"nosync: unlock of unlocked mutex\")\n\t}\n\tm.locked = false", New: "\tm.locked = false", Rule: "C13.typestate", Note: "unlocking an unlocked mutex is accepted"},
		Mutant{ID: "rwmutex-lock-ignores-readers", Property: "C13", File: mutex, Old: "if rw.readLockCounter != 0 || rw.writeLocked {", New: "if rw.writeLocked {", Rule: "C13.typestate", Note: "write lock granted while readers hold the lock"},
		Mutant{ID: "waitgroup-wait-silent", Property: "C13", File: mutex, Old: "\tif wg.counter != 0 {\n\t\tpanic(\"sync: WaitGroup counter not zero\")\n\t}\n", New: "", Rule: "C13.typestate", Note: "Wait returns while the counter is not zero"},
		Mutant{ID: "waitgroup-done-adds", Property: "C13", File: mutex, Old: "\twg.Add(-1)", New: "\twg.Add(1)", Rule: "C13.typestate", Note: "Done increments"},
		Mutant{ID: "rwmutex-runlock-unchecked", Property: "C13", File: mutex, Old: "\tif rw.readLockCounter == 0 {\n\t\tpanic(\"nosync: unlock of unlocked mutex\")\n\t}\n", New: "", Rule: "C13.typestate", Note: "RUnlock of an unlocked RWMutex drives the counter negative"},
		Mutant{ID: "atomic-swap64-returns-new", Property: "C13", File: atomicgo, Old: "func SwapInt64(addr *int64, new int64) int64 {\n\told := *addr\n\t*addr = new\n\treturn old\n}", New: "func SwapInt64(addr *int64, new int64) int64 {\n\told := *addr\n\t*addr = new\n\t_ = old\n\treturn new\n}", Rule: "C13.atomic", Note: "one member of the Swap family returns the new value"},
		Mutant{ID: "math-ceil-floor", Property: "C13", File: mathgo, Old: "return math.Call(\"ceil\", x).Float()", New: "return math.Call(\"floor\", x).Float()", Rule: "C13.math", Note: "Ceil delegates to Math.floor"},
		// C16
		Mutant{ID: "minify-not-recorded", Property: "C16", File: utils, Old: "\tn := fc.allVars[name]\n\tfc.allVars[name] = n + 1\n\tvarName := name", New: "\tn := fc.allVars[name]\n\tvarName := name", Rule: "C16.names", Note: "allocated names are not recorded as taken"},
		Mutant{ID: "minify-same-alphabet", Property: "C16", File: utils, Old: "\t\t\t\toffset = int('A')", New: "\t\t\t\toffset = int('a')", Rule: "C16.names", Note: "package-level and local short names share an alphabet"},
		Mutant{ID: "drop-minus-guard", Property: "C16", File: utils, Old: " && !(previous == '-' && b[1] == '-') {", New: " {", Rule: "C16.space", Note: "`a - -b` becomes `a--b`"},
		Mutant{ID: "needsspace-no-dollar", Property: "C16", File: utils, Old: "|| c == '_' || c == '$' || c == '\\b'", New: "|| c == '_' || c == '\\b'", Rule: "C16.space", Note: "`var $x` becomes `var$x`"},
		// C18
		Mutant{ID: "cgo-enabled", Property: "C18", File: bctx, Old: "CgoEnabled:    false, // CGo", New: "CgoEnabled:    true, // CGo", Rule: "C18.config", Note: "cgo files are selected"},
		Mutant{ID: "drop-default-tags", Property: "C18", File: bctx, Old: "BuildTags:     append(append([]string{}, e.BuildTags...), defaultBuildTags...),", New: "BuildTags:     append([]string{}, e.BuildTags...),", Rule: "C18.config", Note: "netgo/purego/math_big_pure_go/gopherjs tags are not set"},
		Mutant{ID: "user-tags-dropped", Property: "C18", File: bctx, Old: "BuildTags:     append(append([]string{}, e.BuildTags...), defaultBuildTags...),", New: "BuildTags:     append([]string{}, defaultBuildTags...),", Rule: "C18.config", Note: "user build tags do not reach file selection"},
		Mutant{ID: "goarch-host", Property: "C18", File: bctx, Old: "\t\t\tGOARCH:        e.GOARCH,\n", New: "\t\t\tGOARCH:        build.Default.GOARCH,\n", Rule: "C18.config", Note: "file selection uses the host architecture"},
		// C19
		Mutant{ID: "hint-size-little-endian", Property: "C19", File: hint, Old: "encoded = binary.BigEndian.AppendUint16(encoded", New: "encoded = binary.LittleEndian.AppendUint16(encoded", Rule: "C19.codec", Note: "hint length written little-endian, read big-endian"},
		Mutant{ID: "flags-swapped", Property: "C19", File: hint, Old: "\tcase token.Pos:\n\t\tpayload.WriteByte(1)\n\tcase Identifier:\n\t\tpayload.WriteByte(2)", New: "\tcase token.Pos:\n\t\tpayload.WriteByte(2)\n\tcase Identifier:\n\t\tpayload.WriteByte(1)", Rule: "C19.codec", Note: "type flags disagree between Pack and Unpack"},
		Mutant{ID: "minify-drops-hint", Property: "C19", File: utils, Old: "\t\t\t_, length := sourcemapx.ReadHint(b)\n\t\t\tout = append(out, b[:length]...)\n\t\t\tb = b[length:]", New: "\t\t\t_, length := sourcemapx.ReadHint(b)\n\t\t\tb = b[length:]", Rule: "C19.codec", Note: "minification deletes source-map hints"},
		// C20
		Mutant{ID: "key-drops-gopath", Property: "C20", File: cache, Old: "\t\tGOPATH:    bc.GOPATH,\n", New: "", Rule: "C20.key", Note: "GOPATH no longer part of the cache key"},
		Mutant{ID: "temp-other-directory", Property: "C20", File: cache, Old: "f, err := os.CreateTemp(filepath.Dir(path), filepath.Base(path))", New: "f, err := os.CreateTemp(\"\", filepath.Base(path))", Rule: "C20.atomic", Note: "temporary file on another file system: rename is not atomic"},
		Mutant{ID: "stale-inverted", Property: "C20", File: cache, Old: "if srcModTime.After(buildTime) {", New: "if buildTime.After(srcModTime) {", Rule: "C20.stale", Note: "fresh archives rejected, stale ones accepted"},
		Mutant{ID: "store-skip-cleanup", Property: "C20", File: cache, Old: "\t\tos.Remove(f.Name())\n", New: "", Rule: "C20.atomic", Note: "half-written temporary file left behind"},
		Mutant{ID: "gob-unregister-typespec", Property: "C20", File: ser, Old: "\t\tgob.Register(&ast.TypeSpec{})\n", New: "", Rule: "C20.codec", Note: "type specifications cannot be decoded"},
	)
	// Negative controls: behaviour-preserving edits on which the whole check must stay silent.
	addMutants(
		Mutant{ID: "ctl-mutex-eq-true", Property: "C13", File: mutex, Silent: true, Old: "func (m *Mutex) Lock() {\n\tif m.locked {", New: "func (m *Mutex) Lock() {\n\tif m.locked == true {", Note: "condition spelled differently"},
		Mutant{ID: "ctl-once-defer-order", Property: "C13", File: "nosync/once.go", Silent: true, Old: "\t\to.doing = false\n\t\to.done = true\n", New: "\t\to.done = true\n\t\to.doing = false\n", Note: "independent stores reordered"},
		Mutant{ID: "ctl-waitgroup-done-inline", Property: "C13", File: mutex, Silent: true, Old: "\twg.Add(-1)", New: "\twg.counter--\n\tif wg.counter < 0 {\n\t\tpanic(\"sync: negative WaitGroup counter\")\n\t}", Note: "Done written out instead of delegating to Add"},
		Mutant{ID: "ctl-high-test-respelled", Property: "C11", File: jsmap, Silent: true, Old: "if (0xD800 <= h && h <= 0xDBFF) {", New: "if (h >= 0xD800 && h < 0xDC00) {", Note: "same range test spelled differently"},
		Mutant{ID: "ctl-pair-respelled", Property: "C11", File: jsmap, Silent: true, Old: "var c = (h - 0xD800) * 0x400 + l - 0xDC00 + 0x10000;", New: "var c = 0x10000 + (h - 0xD800) * 1024 + (l - 0xDC00);", Note: "same composition spelled differently"},
		Mutant{ID: "ctl-needsspace-reordered", Property: "C16", File: utils, Silent: true, Old: "return (c >= 'a' && c <= 'z') || (c >= 'A' && c <= 'Z') || (c >= '0' && c <= '9') || c == '_' || c == '$' || c == '\\b'", New: "return c == '_' || c == '$' || c == '\\b' || (c >= '0' && c <= '9') || (c >= 'A' && c <= 'Z') || (c >= 'a' && c <= 'z')", Note: "clauses reordered"},
		Mutant{ID: "ctl-store-extra-log", Property: "C20", File: cache, Silent: true, Old: "\tstart := time.Now()\n\tpath := cachedPath(bc.packageKey(importPath))\n\tif err := os.MkdirAll", New: "\tstart := time.Now()\n\tpath := cachedPath(bc.packageKey(importPath))\n\tlog.Infof(\"Storing %q.\", importPath)\n\tif err := os.MkdirAll", Note: "an extra log line"},
		Mutant{ID: "ctl-finish-renamed-local", Property: "C04", File: collect, Silent: true, Old: "\t\tpkgPaths := make([]string, 0, len(*c.Instances))\n\t\tfor pkgPath := range *c.Instances {\n\t\t\tpkgPaths = append(pkgPaths, pkgPath)\n\t\t}\n\t\tsort.Strings(pkgPaths)\n\t\tfor _, pkgPath := range pkgPaths {", New: "\t\tpaths := make([]string, 0, len(*c.Instances))\n\t\tfor pkgPath := range *c.Instances {\n\t\t\tpaths = append(paths, pkgPath)\n\t\t}\n\t\tsort.Strings(paths)\n\t\tfor _, pkgPath := range paths {", Note: "local variable renamed"},
		Mutant{ID: "ctl-finish-renamed-local-c17", Property: "C17", File: collect, Silent: true, Old: "\t\tpkgPaths := make([]string, 0, len(*c.Instances))\n\t\tfor pkgPath := range *c.Instances {\n\t\t\tpkgPaths = append(pkgPaths, pkgPath)\n\t\t}\n\t\tsort.Strings(pkgPaths)\n\t\tfor _, pkgPath := range pkgPaths {", New: "\t\tpaths := make([]string, 0, len(*c.Instances))\n\t\tfor pkgPath := range *c.Instances {\n\t\t\tpaths = append(paths, pkgPath)\n\t\t}\n\t\tsort.Strings(paths)\n\t\tfor _, pkgPath := range paths {", Note: "local variable renamed"},
		Mutant{ID: "ctl-alive-blocks-swapped", Property: "C05", File: selector, Silent: true, Old: "\t\t\t\t\tif info.objectFilter == dep {\n\t\t\t\t\t\tinfo.objectFilter = ``\n\t\t\t\t\t}\n\t\t\t\t\tif info.methodFilter == dep {\n\t\t\t\t\t\tinfo.methodFilter = ``\n\t\t\t\t\t}", New: "\t\t\t\t\tif info.methodFilter == dep {\n\t\t\t\t\t\tinfo.methodFilter = ``\n\t\t\t\t\t}\n\t\t\t\t\tif info.objectFilter == dep {\n\t\t\t\t\t\tinfo.objectFilter = ``\n\t\t\t\t\t}", Note: "independent blocks swapped"},
		Mutant{ID: "ctl-context-fields-reordered", Property: "C18", File: bctx, Silent: true, Old: "\t\t\tGOROOT:        e.GOROOT,\n\t\t\tGOPATH:        e.GOPATH,\n\t\t\tGOOS:          e.GOOS,\n\t\t\tGOARCH:        e.GOARCH,\n", New: "\t\t\tGOOS:          e.GOOS,\n\t\t\tGOARCH:        e.GOARCH,\n\t\t\tGOROOT:        e.GOROOT,\n\t\t\tGOPATH:        e.GOPATH,\n", Note: "composite literal fields reordered"},
		Mutant{ID: "ctl-deps-renamed-local", Property: "C10", File: comp, Silent: true, Old: "\t\tdep, err := importPkg(path)\n\t\tif err != nil {\n\t\t\treturn err\n\t\t}\n\t\tfor _, imp := range dep.Imports {\n\t\t\tif err := collectDependencies(imp); err != nil {\n\t\t\t\treturn err\n\t\t\t}\n\t\t}\n\t\tdeps = append(deps, dep)\n\t\tpaths[dep.ImportPath] = true", New: "\t\td, err := importPkg(path)\n\t\tif err != nil {\n\t\t\treturn err\n\t\t}\n\t\tfor _, imp := range d.Imports {\n\t\t\tif err := collectDependencies(imp); err != nil {\n\t\t\t\treturn err\n\t\t\t}\n\t\t}\n\t\tdeps = append(deps, d)\n\t\tpaths[d.ImportPath] = true", Note: "local variable renamed"},
		Mutant{ID: "ctl-propagate-renamed-local", Property: "C02", File: info, Silent: true, Old: "\tdone := false\n\tfor !done {\n\t\tdone = true\n\t\tfor _, info := range allInfo {\n\t\t\tif !info.propagateFunctionBlocking() {\n\t\t\t\tdone = false\n\t\t\t}\n\t\t}\n\t}", New: "\tstable := false\n\tfor !stable {\n\t\tstable = true\n\t\tfor _, info := range allInfo {\n\t\t\tif !info.propagateFunctionBlocking() {\n\t\t\t\tstable = false\n\t\t\t}\n\t\t}\n\t}", Note: "local variable renamed"},
		Mutant{ID: "ctl-augment-comment", Property: "C12", File: buildgo, Silent: true, Old: "\t\t\t\tanyChange = true\n\t\t\t\tremoveFunc := true", New: "\t\t\t\t// the file needs a clean-up pass\n\t\t\t\tanyChange = true\n\t\t\t\tremoveFunc := true", Note: "a comment added"},
		Mutant{ID: "ctl-hint-writer-two-writes", Property: "C19", File: hint, Silent: true, Old: "\tencoded := []byte{HintMagic}\n\tencoded = binary.BigEndian.AppendUint16(encoded, uint16(len(h.Payload)))", New: "\tencoded := make([]byte, 0, 3+len(h.Payload))\n\tencoded = append(encoded, HintMagic)\n\tencoded = binary.BigEndian.AppendUint16(encoded, uint16(len(h.Payload)))", Note: "buffer preallocated"},
		Mutant{ID: "ctl-whitespace-out-prealloc", Property: "C16", File: utils, Silent: true, Old: "\tvar out []byte\n\tvar previous byte\n\tfor len(b) > 0 {", New: "\tout := make([]byte, 0, len(b))\n\tvar previous byte\n\tfor len(b) > 0 {", Note: "output buffer preallocated"},
	)
	// Negative controls of the second kind: a local identifier renamed inside an anchored function.
	rn := func(prop, file, fn, from, to string) Mutant {
		return Mutant{ID: "ctl-rename-" + strings.ReplaceAll(fn, ".", "-") + "-" + from, Property: prop, File: file, Silent: true, Rename: &Rename{fn, from, to}, Note: "local `" + from + "` renamed to `" + to + "` in " + fn}
	}
	addMutants(
		rn("C07", "compiler/statements.go", "funcContext.translateAssign", "rhsExpr", "value"),
		rn("C07", "compiler/statements.go", "funcContext.translateAssign", "lhsType", "dstType"),
		rn("C15", "compiler/statements.go", "funcContext.translateAssign", "keyVar", "kv"),
		rn("C16", "compiler/utils.go", "removeWhitespace", "previous", "prev"),
		rn("C19", "compiler/utils.go", "removeWhitespace", "previous", "prev"),
		rn("C16", "compiler/utils.go", "funcContext.newVariable", "varName", "result"),
		rn("C20", "build/cache/cache.go", "BuildCache.Store", "path", "file"),
		rn("C20", "build/cache/cache.go", "BuildCache.Load", "path", "file"),
		rn("C20", "build/cache/cache.go", "BuildCache.commonKey", "ck", "key"),
		rn("C12", "build/build.go", "augmentOriginalFile", "anyChange", "changed"),
		rn("C12", "build/build.go", "augmentOriginalFile", "removeFunc", "drop"),
		rn("C12", "build/build.go", "pruneImports", "unused", "candidates"),
		rn("C10", "compiler/decls.go", "funcContext.funcDecls", "mainFunc", "entry"),
		rn("C10", "compiler/compiler.go", "WritePkgCode", "filteredDecls", "alive"),
		rn("C05", "compiler/compiler.go", "WritePkgCode", "filteredDecls", "alive"),
		rn("C19", "internal/sourcemapx/hint.go", "ReadHint", "size", "n"),
		rn("C19", "internal/sourcemapx/filter.go", "Filter.Write", "hint", "h"),
		rn("C04", "compiler/internal/typeparams/collect.go", "visitor.addInstance", "tArgs", "args"),
		rn("C05", "compiler/internal/dce/selector.go", "Selector.AliveDecls", "infos", "waiting"),
		rn("C05", "compiler/internal/dce/selector.go", "Selector.AliveDecls", "dceSelection", "live"),
		rn("C02", "compiler/internal/analysis/info.go", "FuncInfo.markBlocking", "stack", "path"),
		rn("C02", "compiler/statements.go", "funcContext.translateStmt", "rVal", "retVal"),
		rn("C02", "compiler/expressions.go", "funcContext.translateCall", "resumeCase", "label"),
		rn("C08", "compiler/functions.go", "funcContext.translateFunctionBody", "deferSuffix", "tail"),
		rn("C17", "compiler/decls.go", "funcContext.importDecls", "importedPaths", "paths"),
		rn("C18", "build/context.go", "embedFiles", "embed", "e2"),
		rn("C01", "compiler/package.go", "Compile", "rootCtx", "root"),
		rn("C06", "compiler/expressions.go", "funcContext.fixNumber", "value", "v"),
		rn("C14", "compiler/expressions.go", "funcContext.translateConversion", "exprType", "srcType"),
		rn("C09", "compiler/decls.go", "funcContext.methodListEntry", "pkgPath", "pp"),
		rn("C11", "compiler/expressions.go", "funcContext.internalize", "u", "und"),
		rn("C03", "compiler/statements.go", "funcContext.translateStmt", "channels", "chans"),
		rn("C13", "nosync/mutex.go", "WaitGroup.Add", "delta", "d"),
		rn("C02", "compiler/functions.go", "funcContext.translateFunctionBody", "localVars", "vars"),
		rn("C02", "compiler/internal/analysis/info.go", "Info.propagateFunctionBlocking", "caller", "fn"),
		rn("C02", "compiler/utils.go", "funcContext.handleEscapingVars", "obj", "v"),
		rn("C04", "compiler/decls.go", "funcContext.funcDecls", "inst", "in"),
		rn("C04", "compiler/internal/typeparams/map.go", "InstanceMap.Set", "key", "k"),
		rn("C04", "compiler/utils.go", "funcContext.typeOf", "typ", "ty"),
		rn("C05", "compiler/decls.go", "funcContext.newVarDecl", "init", "in"),
		rn("C03", "compiler/expressions.go", "funcContext.translateBuiltin", "name", "builtin"),
	)
}
