package rules

// Small intra-function analyses on the acorn AST of the prelude.

import (
	"strings"

	"verif/checker/internal/ctx"
)

// containsNode reports whether sub is inside n.
func containsNode(n, sub *ctx.JSNode) bool {
	for x := sub; x != nil; x = x.Parent {
		if x == n {
			return true
		}
	}
	return false
}

// unparen strips ParenthesizedExpression (acorn does not produce them by default, kept for safety).
func unparen(n *ctx.JSNode) *ctx.JSNode {
	for n.Is("ParenthesizedExpression") {
		n = n.N("expression")
	}
	return n
}

// localInits maps variable names declared in fn (not nested functions' own
// declarations) to their initialiser / assigned expressions.
func localInits(fn *ctx.JSNode) map[string][]*ctx.JSNode {
	out := map[string][]*ctx.JSNode{}
	fn.Walk(func(n *ctx.JSNode) bool {
		switch n.Type {
		case "VariableDeclarator":
			if id := n.N("id"); id.Is("Identifier") && n.N("init") != nil {
				out[id.S("name")] = append(out[id.S("name")], n.N("init"))
			}
		case "AssignmentExpression":
			if l := n.N("left"); l.Is("Identifier") {
				out[l.S("name")] = append(out[l.S("name")], n.N("right"))
			}
		}
		return true
	})
	return out
}

// exprMentions reports whether expression e (following local variable
// initialisers up to depth) mentions a sub-expression satisfying pred.
func exprMentions(e *ctx.JSNode, inits map[string][]*ctx.JSNode, pred func(*ctx.JSNode) bool, depth int) *ctx.JSNode {
	var found *ctx.JSNode
	seen := map[string]bool{}
	var rec func(x *ctx.JSNode, d int)
	rec = func(x *ctx.JSNode, d int) {
		if x == nil || found != nil {
			return
		}
		x.Walk(func(n *ctx.JSNode) bool {
			if found != nil {
				return false
			}
			if pred(n) {
				found = n
				return false
			}
			if n.Is("Identifier") && n.IsRefIdent() && d > 0 {
				nm := n.S("name")
				if !seen[nm] {
					seen[nm] = true
					for _, in := range inits[nm] {
						rec(in, d-1)
					}
				}
			}
			return true
		})
	}
	rec(e, depth)
	return found
}

// isStringMember: x.string (the display name of a type)
func isStringMember(n *ctx.JSNode) bool {
	return n.Is("MemberExpression") && !n.B("computed") && n.MemberName() == "string"
}

// identsIn collects referenced identifier names in e, following local initialisers.
func identsIn(e *ctx.JSNode, inits map[string][]*ctx.JSNode, depth int) map[string]bool {
	out := map[string]bool{}
	var rec func(x *ctx.JSNode, d int)
	rec = func(x *ctx.JSNode, d int) {
		if x == nil {
			return
		}
		x.Walk(func(n *ctx.JSNode) bool {
			if n.Is("Identifier") && n.IsRefIdent() {
				nm := n.S("name")
				if !out[nm] {
					out[nm] = true
					if d > 0 {
						for _, in := range inits[nm] {
							rec(in, d-1)
						}
					}
				}
			}
			return true
		})
	}
	rec(e, depth)
	return out
}

// memberNamesOn collects property names read as <ident>.<name> inside e for the given identifier.
func memberNamesOn(e *ctx.JSNode, ident string) map[string]bool {
	out := map[string]bool{}
	e.Walk(func(n *ctx.JSNode) bool {
		if n.Is("MemberExpression") && n.N("object").IdentName() == ident {
			if nm := n.MemberName(); nm != "" {
				out[nm] = true
			}
		}
		return true
	})
	return out
}

// calleeName renders the callee of a call: "$f", "x.push", "a.b.c".
func jsCalleeName(call *ctx.JSNode) string {
	return strings.ReplaceAll(call.N("callee").Src(), " ", "")
}

// funcParams returns the simple parameter names of a function node.
func funcParams(fn *ctx.JSNode) []string {
	var out []string
	for _, p := range fn.L("params") {
		switch p.Type {
		case "Identifier":
			out = append(out, p.S("name"))
		case "AssignmentPattern":
			out = append(out, p.N("left").IdentName())
		case "RestElement":
			out = append(out, "..."+p.N("argument").IdentName())
		}
	}
	return out
}

// allFuncs lists every function node of the prelude with its file.
func allPreludeFuncs(c *ctx.Ctx) []*ctx.JSNode {
	var out []*ctx.JSNode
	for _, f := range c.PreludeList() {
		f.AST.Walk(func(n *ctx.JSNode) bool {
			if n.IsFunc() {
				out = append(out, n)
			}
			return true
		})
	}
	return out
}

// squash removes all whitespace.
func squash(s string) string {
	var sb strings.Builder
	for _, r := range s {
		if r == ' ' || r == '\t' || r == '\n' || r == '\r' {
			continue
		}
		sb.WriteRune(r)
	}
	return sb.String()
}

// isThrowIf: `if (<test>) { ... $throwRuntimeError(...) ... }` with test satisfying pred.
func isThrowIf(st *ctx.JSNode, pred func(test *ctx.JSNode) bool) bool {
	if !st.Is("IfStatement") || !pred(st.N("test")) {
		return false
	}
	found := false
	st.N("consequent").Walk(func(n *ctx.JSNode) bool {
		if n.Is("CallExpression") && n.N("callee").IdentName() == "$throwRuntimeError" {
			found = true
		}
		return !found
	})
	return found
}

// isMemberOf: e is <ident>.<prop>
func isMemberOf(e *ctx.JSNode, ident, prop string) bool {
	return e.Is("MemberExpression") && e.MemberName() == prop && e.N("object").IdentName() == ident
}
