package rules

import (
	"encoding/json"
	"fmt"
	"os"
	"path/filepath"
	"regexp"
	"strconv"
	"strings"

	"verif/checker/internal/ctx"
)

// Seeded changes (DESIGN §8) double as self-validation mutants: every
// /verif/seeded/<name>/patch.diff is applied through the in-memory overlay in
// the thorough tier and the rule recorded in meta.json is expected to fire.

type seedMeta struct {
	Property string `json:"property"`
	CaughtBy string `json:"caught_by"`
	Breaks   string `json:"breaks"`
}

// LoadSeedMutants registers one mutant per stored seeded change.
func LoadSeedMutants(verif string) {
	dirs, _ := filepath.Glob(filepath.Join(verif, "seeded", "*", "meta.json"))
	for _, mf := range dirs {
		b, err := os.ReadFile(mf)
		if err != nil {
			continue
		}
		var m seedMeta
		if json.Unmarshal(b, &m) != nil || m.Property == "" {
			continue
		}
		name := filepath.Base(filepath.Dir(mf))
		rule := strings.Fields(m.CaughtBy + " ?")[0]
		addMutants(Mutant{ID: "seed-" + name, Property: m.Property, Patch: filepath.Join(filepath.Dir(mf), "patch.diff"), File: "seeded/" + name + "/patch.diff", Rule: rule, Note: "seeded change " + name})
	}
}

var hunkRe = regexp.MustCompile(`^@@ -(\d+)(?:,(\d+))? \+(\d+)(?:,(\d+))? @@`)

// applyPatchOverlay applies a unified diff (git format, text files) to the files of the repository
// and stores the results in the overlay. Context and removed lines must match exactly at the stated
// position or, failing that, at the nearest position where they do.
func applyPatchOverlay(c *ctx.Ctx, patchFile string) error {
	pb, err := os.ReadFile(patchFile)
	if err != nil {
		return err
	}
	lines := strings.Split(string(pb), "\n")
	var cur string
	var fileLines []string
	offset := 0
	flush := func() {
		if cur != "" {
			c.Overlay[filepath.Join(c.Repo, cur)] = []byte(strings.Join(fileLines, "\n"))
		}
	}
	for i := 0; i < len(lines); i++ {
		l := lines[i]
		switch {
		case strings.HasPrefix(l, "--- "):
			continue
		case strings.HasPrefix(l, "+++ "):
			flush()
			p := strings.TrimPrefix(l, "+++ ")
			p = strings.TrimPrefix(p, "b/")
			if p == "/dev/null" {
				return fmt.Errorf("patch deletes a file: not supported")
			}
			cur = p
			offset = 0
			b, err := c.ReadFile(cur)
			if err != nil {
				return fmt.Errorf("patch target %s: %v", cur, err)
			}
			fileLines = strings.Split(string(b), "\n")
		case strings.HasPrefix(l, "@@ "):
			m := hunkRe.FindStringSubmatch(l)
			if m == nil || cur == "" {
				return fmt.Errorf("malformed hunk header %q", l)
			}
			start, _ := strconv.Atoi(m[1])
			var oldL, newL []string
			j := i + 1
			for ; j < len(lines); j++ {
				h := lines[j]
				if strings.HasPrefix(h, "@@ ") || strings.HasPrefix(h, "diff ") || strings.HasPrefix(h, "--- ") {
					break
				}
				if h == "" && j == len(lines)-1 {
					break
				}
				switch {
				case strings.HasPrefix(h, "-"):
					oldL = append(oldL, h[1:])
				case strings.HasPrefix(h, "+"):
					newL = append(newL, h[1:])
				case strings.HasPrefix(h, " "):
					oldL = append(oldL, h[1:])
					newL = append(newL, h[1:])
				case h == "":
					oldL = append(oldL, "")
					newL = append(newL, "")
				case strings.HasPrefix(h, `\`):
					// "\ No newline at end of file"
				}
			}
			i = j - 1
			at := -1
			matches := func(pos int) bool {
				if pos < 0 || pos+len(oldL) > len(fileLines) {
					return false
				}
				for k, ol := range oldL {
					if fileLines[pos+k] != ol {
						return false
					}
				}
				return true
			}
			want := start - 1 + offset
			for d := 0; d < len(fileLines) && at < 0; d++ {
				if matches(want + d) {
					at = want + d
				} else if matches(want - d) {
					at = want - d
				}
			}
			if at < 0 {
				return fmt.Errorf("hunk at %s:%d does not apply (the repository was edited; self-test skipped)", cur, start)
			}
			out := append([]string{}, fileLines[:at]...)
			out = append(out, newL...)
			out = append(out, fileLines[at+len(oldL):]...)
			fileLines = out
			offset += len(newL) - len(oldL)
		}
	}
	flush()
	if cur == "" {
		return fmt.Errorf("no file in patch %s", patchFile)
	}
	return nil
}
