package rules

import (
	"fmt"
	"go/ast"
	"go/token"
	"go/types"
	"strings"

	"verif/checker/internal/core"
	"verif/checker/internal/ctx"
	"verif/checker/internal/tmpl"
)

func init() {
	register(&Property{
		ID:          "C02",
		Explanation: "Decided: (sources) every suspension source recognised by the blocking analysis — send, receive, range over a channel, select without default, call through a function variable / interface method / computed callee, bodiless function — reaches markBlocking (or the callee registration that the fixpoint later resolves) on the path selected by its guard, and deferred calls are recorded wherever a call is; (fixpoint) PropagateAnalysis iterates function blocking to a fixpoint over all packages and then propagates return/continue blocking for every function, IsBlocking is conservative; (protocol) translateCall's blocking arm emits the complete resume protocol and blocking functions save/restore through $restore and the $f frame; (frame) every JS local is appended to localVars and both the restore destructuring and the saved frame are built from localVars; (flatten) Blocking implies Flattened for the whole visitor stack and the translator consults Flattened/Blocking in every construct that has a resumable form. NOT decided: that a flattened function computes what its direct form computes; escape boxing; ancestor-closure of the visitor stack bookkeeping for every AST.",
		Assumptions: []string{"go/ast.Walk calls Visit(nil) after the children of a node whose visitor was non-nil"},
		Rules:       []RuleFunc{ruleC02Sources, ruleC02Fixpoint, ruleC02Protocol, ruleC02Frame, ruleC02Flatten, ruleC02Escape, ruleC02ArgOrder, ruleC02LabelledBranch, ruleLabelNamespace, ruleC02EscapingScope, ruleBlockingOnlyGrows, ruleC02DeferredSuspendFirst, ruleDeferredAfterRecovery, ruleC02LazyDispatch},
	})
}

const analysisPkg = "compiler/internal/analysis"

// armOf finds the case clause with the given single label inside fd (first match).
func armOf(fd *ast.FuncDecl, label string) *ast.CaseClause {
	var out *ast.CaseClause
	ast.Inspect(fd.Body, func(n ast.Node) bool {
		if cc, ok := n.(*ast.CaseClause); ok && out == nil {
			for _, l := range cc.List {
				if exprStr(l) == label {
					out = cc
				}
			}
		}
		return out == nil
	})
	return out
}

// callsNamed returns calls in n whose callee's last name is name.
func callsNamed(n ast.Node, name string) []*ast.CallExpr {
	var out []*ast.CallExpr
	ast.Inspect(n, func(x ast.Node) bool {
		if ce, ok := x.(*ast.CallExpr); ok {
			switch f := ce.Fun.(type) {
			case *ast.Ident:
				if f.Name == name {
					out = append(out, ce)
				}
			case *ast.SelectorExpr:
				if f.Sel.Name == name {
					out = append(out, ce)
				}
			}
		}
		return true
	})
	return out
}

// enclosingConds returns the rendered conditions (if / case labels) enclosing pos within root.
func enclosingConds(root ast.Node, pos token.Pos) []string {
	var out []string
	ast.Inspect(root, func(n ast.Node) bool {
		if n == nil || !(n.Pos() <= pos && pos < n.End()) {
			return n == root
		}
		switch x := n.(type) {
		case *ast.IfStmt:
			if x.Body.Pos() <= pos && pos < x.Body.End() {
				c := exprStr(x.Cond)
				if x.Init != nil {
					if as, ok := x.Init.(*ast.AssignStmt); ok && len(as.Rhs) == 1 {
						c = exprStr(as.Rhs[0]) + "; " + c
					}
				}
				out = append(out, c)
			}
		case *ast.CaseClause:
			var ls []string
			for _, l := range x.List {
				ls = append(ls, exprStr(l))
			}
			out = append(out, "case "+strings.Join(ls, ","))
		}
		return true
	})
	return out
}

func ruleC02Sources(c *ctx.Ctx, r *core.Reporter) {
	r.Begin("C02.sources", "F-MUST", "each suspension source reaches markBlocking (or callee registration) on the path selected by its guard; deferred calls are recorded wherever a call may block", 14)
	visit := c.FuncDecl(analysisPkg, "FuncInfo.Visit")
	vce := c.FuncDecl(analysisPkg, "FuncInfo.visitCallExpr")
	ctn := c.FuncDecl(analysisPkg, "FuncInfo.callToNamedFunc")
	nfi := c.FuncDecl(analysisPkg, "Info.newFuncInfo")
	if visit == nil || vce == nil || ctn == nil || nfi == nil {
		r.Undecided("anchors", analysisPkg, "Visit / visitCallExpr / callToNamedFunc / newFuncInfo not found")
		return
	}
	type want struct {
		id    string
		fd    *ast.FuncDecl
		label string
		cond  string // substring that one enclosing condition must contain ("" = unconditional within the arm)
		what  string
	}
	for _, w := range []want{
		{"send", visit, "*ast.SendStmt", "", "a send statement marks the function blocking"},
		{"recv", visit, "*ast.UnaryExpr", "token.ARROW", "a receive expression marks the function blocking"},
		{"range-chan", visit, "*ast.RangeStmt", "(*types.Chan)", "range over a channel marks the function blocking"},
		{"select", visit, "*ast.SelectStmt", "", "a select statement without default marks the function blocking"},
		{"call:index", vce, "*ast.IndexExpr", "", "calling the result of an index expression (function from a map/slice) is conservatively blocking"},
		{"call:computed", vce, "default", "", "calling the result of an arbitrary expression is conservatively blocking"},
		{"call:interface", ctn, "*types.Func", "(*types.Interface)", "a call through an interface method is conservatively blocking"},
		{"call:func-var", ctn, "*types.Var", "", "a call through a function-typed variable is conservatively blocking"},
	} {
		var arm *ast.CaseClause
		if w.label == "default" {
			ast.Inspect(w.fd.Body, func(n ast.Node) bool {
				if cc, ok := n.(*ast.CaseClause); ok && cc.List == nil {
					// the outermost switch's default (last one found at depth 1 is fine: take the last)
					arm = cc
				}
				return true
			})
		} else {
			arm = armOf(w.fd, w.label)
		}
		if arm == nil {
			r.Undecided("source:"+w.id, c.Pos(w.fd.Pos()), "arm "+w.label+" not found")
			continue
		}
		calls := callsNamed(arm, "markBlocking")
		ok := false
		for _, ce := range calls {
			conds := enclosingConds(arm, ce.Pos())
			if w.cond == "" {
				ok = true
			}
			for _, cd := range conds {
				if w.cond != "" && strings.Contains(cd, w.cond) {
					ok = true
				}
			}
		}
		r.Check(ok, "source:"+w.id, c.Pos(arm.Pos()), fmt.Sprintf("%s (markBlocking under %q in arm %s of %s)", w.what, w.cond, w.label, ctx.FuncName(w.fd)))
	}
	// a generic function is analysed once per instance: a decision that depends on the type of an expression
	// has to be taken on the substituted type (for a type parameter, Underlying() is the constraint interface)
	{
		ap := c.Pkg(analysisPkg)
		n := 0
		for _, fd := range c.AllFuncDecls(analysisPkg) {
			if fd.Body == nil || fd.Recv == nil || c.IsTestFile(fd.Pos()) || !strings.HasPrefix(ctx.FuncName(fd), "FuncInfo.") {
				continue
			}
			ast.Inspect(fd.Body, func(x ast.Node) bool {
				call, ok := x.(*ast.CallExpr)
				if !ok {
					return true
				}
				if _, _, nm := callee(ap.TypesInfo, call); nm != "TypeOf" {
					return true
				}
				n++
				// the TypeOf call must be the argument of <resolver>.Substitute(...)
				wrapped := false
				ast.Inspect(fd.Body, func(y ast.Node) bool {
					if outer, ok := y.(*ast.CallExpr); ok && len(outer.Args) == 1 && outer.Args[0] == ast.Expr(call) {
						if _, _, on := callee(ap.TypesInfo, outer); on == "Substitute" {
							wrapped = true
						}
					}
					return true
				})
				r.Check(wrapped, fmt.Sprintf("instance-type:%s#%d", ctx.FuncName(fd), n), c.Pos(call.Pos()), fmt.Sprintf("`%s` is substituted with the instance's type arguments before it decides anything (a range over a value of type parameter type C ~chan T is a range over a channel)", exprStr(call)))
				return true
			})
		}
		r.Check(n >= 1, "instance-type:sites", analysisPkg, fmt.Sprintf("%d expression-type reads in the per-instance visitor", n))
	}
	// select: the only early return without marking is under `Comm == nil`
	if arm := armOf(visit, "*ast.SelectStmt"); arm != nil {
		ok := true
		mb := callsNamed(arm, "markBlocking")
		ast.Inspect(arm, func(n ast.Node) bool {
			if rs, isRet := n.(*ast.ReturnStmt); isRet && len(mb) > 0 && rs.Pos() < mb[0].Pos() {
				conds := enclosingConds(arm, rs.Pos())
				has := false
				for _, cd := range conds {
					if strings.Contains(cd, ".Comm == nil") {
						has = true
					}
				}
				if !has {
					ok = false
				}
			}
			return true
		})
		r.Check(ok, "source:select:only-default-escapes", c.Pos(arm.Pos()), "the only return that precedes markBlocking in the select arm is guarded by `Comm == nil` (a default clause exists)")
	}
	// named callees are registered for the fixpoint
	if arm := armOf(ctn, "*types.Func"); arm != nil {
		src := nodeString(c, arm)
		r.Check(strings.Contains(src, "fi.instCallees.Set(callee, paths)") && strings.Contains(src, "fi.visitorStack.copy()"), "source:call:named-registered", c.Pos(arm.Pos()), "a call to a named function records the call site (a copy of the visitor stack) under the callee instance, to be resolved by the fixpoint")
	}
	// direct calls of function literals are registered
	if arm := armOf(vce, "*ast.FuncLit"); arm != nil {
		r.Check(strings.Contains(nodeString(c, arm), "fi.literalFuncCallees[f] = fi.visitorStack.copy()"), "source:call:literal-registered", c.Pos(arm.Pos()), "a directly called function literal records its call site for the fixpoint")
	}
	// bodiless functions are blocking
	ok := false
	ast.Inspect(nfi.Body, func(n ast.Node) bool {
		if is, isIf := n.(*ast.IfStmt); isIf && strings.Contains(exprStr(is.Cond), ".Body == nil") {
			if strings.Contains(nodeString(c, is.Body), ".Blocking[n] = true") {
				ok = true
			}
		}
		return true
	})
	r.Check(ok, "source:bodiless", c.Pos(nfi.Pos()), "a function declaration without body (linkname target) is conservatively blocking")
	// defer bookkeeping: every markBlocking in the call analysis is followed by the deferredCall record
	for _, fd := range []*ast.FuncDecl{vce, ctn} {
		for i, ce := range callsNamed(fd, "markBlocking") {
			// the statement list containing the call: next statement is `if deferredCall { fi.deferStmts = append(...newBlockingDefer()) }`
			okDefer := false
			ast.Inspect(fd.Body, func(n ast.Node) bool {
				var list []ast.Stmt
				switch x := n.(type) {
				case *ast.BlockStmt:
					list = x.List
				case *ast.CaseClause:
					list = x.Body
				}
				for j, st := range list {
					if es, isEs := st.(*ast.ExprStmt); isEs && es.X == ast.Expr(ce) && j+1 < len(list) {
						if is, isIf := list[j+1].(*ast.IfStmt); isIf && exprStr(is.Cond) == "deferredCall" && strings.Contains(nodeString(c, is.Body), "newBlockingDefer()") {
							okDefer = true
						}
					}
				}
				return true
			})
			r.Check(okDefer, fmt.Sprintf("defer-recorded:%s#%d", ctx.FuncName(fd), i), c.Pos(ce.Pos()), "a conservatively blocking call that is deferred is recorded as a blocking defer (so that return statements after it become resumable)")
		}
	}
	// named/literal deferred callees recorded too
	r.Check(strings.Contains(nodeString(c, ctn.Body), "newInstDefer(callee)"), "defer-recorded:named", c.Pos(ctn.Pos()), "a deferred call of a named function is recorded with its instance")
	r.Check(strings.Contains(nodeString(c, vce.Body), "newLitDefer(f, fi.typeArgs)"), "defer-recorded:literal", c.Pos(vce.Pos()), "a deferred function literal is recorded")
	if arm := armOf(visit, "*ast.DeferStmt"); arm != nil {
		src := nodeString(c, arm)
		r.Check(strings.Contains(src, "fi.HasDefer = true") && strings.Contains(src, "fi.visitCallExpr(n.Call, true)"), "defer:arm", c.Pos(arm.Pos()), "a defer statement sets HasDefer and analyses its call as deferred")
	}
	// return statements are captured with the defers seen so far
	if arm := armOf(visit, "*ast.ReturnStmt"); arm != nil {
		r.Check(strings.Contains(nodeString(c, arm), "newReturnStmt(fi.visitorStack, fi.deferStmts)"), "return:captured", c.Pos(arm.Pos()), "every return statement is captured with the list of defers that precede it")
	}
}

func ruleC02Fixpoint(c *ctx.Ctx, r *core.Reporter) {
	r.Begin("C02.fixpoint", "F-MUST", "function blocking is propagated to a fixpoint over all packages before control-statement blocking is derived; the analysis runs after every Analyze and before any Compile; IsBlocking is conservative", 7)
	pa := c.FuncDecl(analysisPkg, "PropagateAnalysis")
	if pa == nil {
		r.Undecided("PropagateAnalysis", analysisPkg, "not found")
		return
	}
	// structure: for !done { done = true; for range allInfo { if !propagateFunctionBlocking() { done = false } } } ; for range allInfo { propagateControlStatementBlocking() }
	var loop *ast.ForStmt
	var loopIdx, ctrlIdx = -1, -1
	for i, st := range pa.Body.List {
		if fs, ok := st.(*ast.ForStmt); ok && fs.Cond != nil && loop == nil {
			if len(callsNamed(fs, "propagateFunctionBlocking")) > 0 {
				loop, loopIdx = fs, i
			}
		}
		if len(callsNamed(st, "propagateControlStatementBlocking")) > 0 && ctrlIdx < 0 {
			ctrlIdx = i
		}
	}
	okLoop := false
	if loop != nil {
		// loop until done; done reset to true at the start of each round and cleared when any package reports more work
		okLoop = isFlagFixpoint(loop, "propagateFunctionBlocking")
		// every package is visited in each round
		rangesAll := false
		ast.Inspect(loop.Body, func(n ast.Node) bool {
			if rs, ok := n.(*ast.RangeStmt); ok && exprStr(rs.X) == pa.Type.Params.List[0].Names[0].Name {
				rangesAll = true
			}
			return true
		})
		okLoop = okLoop && rangesAll
	}
	r.Check(okLoop, "fixpoint:loop", c.Pos(pa.Pos()), "PropagateAnalysis repeats propagateFunctionBlocking over all packages until a full round reports no change")
	r.Check(loopIdx >= 0 && ctrlIdx > loopIdx, "fixpoint:control-after", c.Pos(pa.Pos()), "return/continue blocking is derived only after the function-blocking fixpoint")
	if pc := c.FuncDecl(analysisPkg, "Info.propagateControlStatementBlocking"); pc != nil {
		src := nodeString(c, pc.Body)
		ok := strings.Contains(src, "range info.allInfos") && strings.Contains(src, ".propagateReturnBlocking()") && strings.Contains(src, ".propagateContinueBlocking()")
		r.Check(ok, "fixpoint:return+continue", c.Pos(pc.Pos()), "for every function both propagateReturnBlocking and propagateContinueBlocking run")
	}
	if pf := c.FuncDecl(analysisPkg, "Info.propagateFunctionBlocking"); pf != nil {
		src := nodeString(c, pf.Body)
		ok := strings.Contains(src, "range info.allInfos") && strings.Contains(src, "caller.instCallees.Iterate(") && strings.Contains(src, "range caller.literalFuncCallees") && strings.Count(src, "done = false") >= 2 && strings.Count(src, "caller.markBlocking(") >= 2
		r.Check(ok, "fixpoint:step", c.Pos(pf.Pos()), "one round visits every function, marks the recorded call sites of every callee that became blocking (named and literal) and reports that more rounds are needed")
	}
	// newFuncInfo registers every function in allInfos
	if nfi := c.FuncDecl(analysisPkg, "Info.newFuncInfo"); nfi != nil {
		r.Check(strings.Contains(nodeString(c, nfi.Body), "info.allInfos = append(info.allInfos, funcInfo)"), "fixpoint:all-registered", c.Pos(nfi.Pos()), "every FuncInfo is registered in allInfos (the set the fixpoint iterates)")
	}
	// IsBlocking conservative
	if ib := c.FuncDecl(analysisPkg, "FuncInfo.IsBlocking"); ib != nil {
		src := squash(nodeString(c, ib.Body))
		r.Check(strings.Contains(src, "fi==nil||len(fi.Blocking)!=0"), "conservative:FuncInfo.IsBlocking", c.Pos(ib.Pos()), "an unknown function (nil info) is treated as blocking")
	}
	if ib := c.FuncDecl(analysisPkg, "Info.IsBlocking"); ib != nil {
		// last statement panics (unknown instance) rather than returning false
		n := len(ib.Body.List)
		last := ""
		if n > 0 {
			last = nodeString(c, ib.Body.List[n-1])
		}
		r.Check(strings.HasPrefix(last, "panic("), "conservative:Info.IsBlocking", c.Pos(ib.Pos()), "an instance missing from the analysis is a compiler error, never silently non-blocking")
	}
	// PrepareAllSources: PropagateAnalysis after Analyze
	if fd := c.FuncDecl("compiler", "PrepareAllSources"); fd != nil {
		order := callOrder(c.Pkg("compiler").TypesInfo, fd, []string{"Analyze", "PropagateAnalysis"})
		ai, ok1 := order["Analyze"]
		pi, ok2 := order["PropagateAnalysis"]
		r.Check(ok1 && ok2 && ai < pi, "pipeline:analyze<propagate", c.Pos(fd.Pos()), "PropagateAnalysis runs after the loop that analyses every package")
	}
	// build: prepare (which propagates) precedes compile
	if fd := c.FuncDecl("build", "Session.prepareAndCompilePackages"); fd != nil {
		order := callOrder(c.Pkg("build").TypesInfo, fd, []string{"PrepareAllSources", "compilePackage"})
		a, ok1 := order["PrepareAllSources"]
		b, ok2 := order["compilePackage"]
		r.Check(ok1 && ok2 && a < b, "pipeline:prepare<compile", c.Pos(fd.Pos()), "the session prepares (analyses and propagates) all sources before compiling any package")
	} else {
		r.Info("pipeline:prepare<compile", "build/build.go", "Session.prepareAndCompilePackages not found (not judged)")
	}
}

func ruleC02Protocol(c *ctx.Ctx, r *core.Reporter) {
	r.Begin("C02.protocol", "F-LINK", "translateCall's blocking arm emits the complete resume protocol; blocking functions restore their frame through $restore and save it in $f; the program and package $init use the same protocol", 8)
	tc := c.FuncDecl("compiler", "funcContext.translateCall")
	if tc == nil {
		r.Undecided("translateCall", "compiler/expressions.go", "not found")
		return
	}
	var blk *ast.IfStmt
	ast.Inspect(tc.Body, func(n ast.Node) bool {
		if is, ok := n.(*ast.IfStmt); ok && exprStr(is.Cond) == "fc.Blocking[e]" {
			blk = is
		}
		return true
	})
	if blk == nil {
		r.Violation("translateCall:blocking-arm", c.Pos(tc.Pos()), "translateCall does not consult fc.Blocking[e]")
		return
	}
	var proto *tmpl.Template
	for _, t := range templatesIn(c, blk.Body) {
		if t.Role == tmpl.RoleSink && strings.Contains(t.Text, "$blk") {
			proto = t
		}
	}
	if proto == nil {
		r.Violation("translateCall:protocol", c.Pos(blk.Pos()), "no resume-protocol template in the blocking arm")
		return
	}
	s := squash(proto.Text)
	for _, w := range []struct{ id, frag, what string }{
		{"assign-result", "⟨0⟩=⟨1⟩(⟨2⟩);", "the call result is stored"},
		{"set-state", "$s=⟨3⟩;case⟨4⟩:", "the resume point is recorded in $s and a case label with the same number follows"},
		{"resume", "if($c){$c=false;⟨5⟩=⟨6⟩.$blk();}", "on resumption ($c) the continuation of the callee is called"},
		{"suspend", ".$blk!==undefined){breaks;}", "if the callee returned a continuation the function leaves the state machine to save its frame"},
	} {
		r.Check(strings.Contains(s, w.frag), "protocol:"+w.id, c.Pos(proto.Pos), w.what)
	}
	// the state number is the same argument for `$s =` and `case`
	okSame := false
	for i, tk := range proto.Tokens {
		if tk.Kind == tmpl.TIdent && tk.Text == "$s" && i+5 < len(proto.Tokens) {
			a := proto.Tokens[i+2]
			for j := i + 3; j < len(proto.Tokens) && j < i+8; j++ {
				if proto.Tokens[j].Kind == tmpl.TIdent && proto.Tokens[j].Text == "case" && j+1 < len(proto.Tokens) {
					b := proto.Tokens[j+1]
					if a.Kind == tmpl.THole && b.Kind == tmpl.THole && proto.Holes[a.Holes[0]].Index == proto.Holes[b.Holes[0]].Index {
						okSame = true
					}
				}
			}
		}
	}
	r.Check(okSame, "protocol:same-case-number", c.Pos(proto.Pos), "`$s = N` and `case N:` use the same format argument")
	// the case counter is advanced for every blocking call
	_ = nodeString
	r.Check(hasGoPattern(blk, `µcase := µfc.caseCounter; µfc.caseCounter++`), "protocol:fresh-case", c.Pos(blk.Pos()), "each blocking call takes a fresh case number")
	// a return whose deferred calls may suspend is replayed on resumption (`case N: return v`): whatever it
	// returns must have been computed once, before the deferred calls ran, and saved in the frame
	if ts := c.FuncDecl("compiler", "funcContext.translateStmt"); ts != nil {
		if arm := armOf(ts, "*ast.ReturnStmt"); arm != nil {
			ms := findGoPattern(arm, `if µv != "" { µt := µfc.newLocalVariable(µ_); µfc.Printf("%s =%s;", µt, µv); µv = " " + µt }`)
			replay := findGoPattern(arm, `µfc.Printf("$s = %[1]d; case %[1]d: return%[2]s;", µn, µv)`)
			ok := len(ms) == 1 && len(replay) == 1 && ms[0].Env["µv"] == replay[0].Env["µv"] && ms[0].Node.Pos() < replay[0].Node.Pos()
			r.Check(ok, "return:replay-reads-saved-temp", c.Pos(arm.Pos()), "a blocking return stores every non-empty result expression in a fresh frame variable — unconditionally — and the replayed `case N: return` reads that variable (a deferred call that suspends may have changed anything the expression mentions)")
			// between the save and the replay nothing reassigns the spliced value
			if ok {
				n := 0
				ast.Inspect(arm, func(x ast.Node) bool {
					if as, isAs := x.(*ast.AssignStmt); isAs && as.Pos() > ms[0].Node.End() && as.Pos() < replay[0].Node.Pos() {
						for _, l := range as.Lhs {
							if exprStr(l) == ms[0].Env["µv"] {
								n++
							}
						}
					}
					return true
				})
				r.Check(n == 0, "return:replay-not-overwritten", c.Pos(arm.Pos()), "the saved value is not replaced between the save and the replayed return")
			}
		} else {
			r.Undecided("return:replay-reads-saved-temp", c.Pos(ts.Pos()), "no *ast.ReturnStmt arm")
		}
	}
	// function frame
	fb := c.FuncDecl("compiler", "funcContext.translateFunctionBody")
	if fb != nil {
		var restore, save *tmpl.Template
		for _, t := range templatesIn(c, fb.Body) {
			if strings.Contains(t.Text, "$restore(this,") {
				restore = t
			}
			if strings.Contains(t.Text, "var $f = {$blk:") {
				save = t
			}
		}
		r.Check(restore != nil && strings.Contains(restore.Text, "$c} = $restore(this, {"), "frame:restore-template", c.Pos(fb.Pos()), "blocking functions start with `var {<locals>, $c} = $restore(this, {<params>})`")
		r.Check(save != nil && strings.Contains(squash(save.Text), "$c:true,$r,"), "frame:save-template", c.Pos(fb.Pos()), "blocking functions end with `var $f = {$blk: <self>, $c: true, $r, <locals>}; return $f;`")
	}
	if needPrelude(c, r) {
		if rs := c.PreludeFunc("$restore"); rs != nil && len(funcParams(rs)) == 2 {
			p := funcParams(rs)
			s := squash(rs.Src())
			r.Check(strings.Contains(s, p[0]+".$blk!==undefined){return"+p[0]+";}return"+p[1]), "frame:$restore", rs.Pos(), "$restore returns the saved frame when `this` is one, otherwise the fresh parameters")
		}
	}
}

func ruleC02Frame(c *ctx.Ctx, r *core.Reporter) {
	r.Begin("C02.frame", "F-KEY", "every JavaScript local a function declares is recorded in localVars, and both the restore list and the saved frame are built from localVars (plus the protocol variables)", 7)
	nv := c.FuncDecl("compiler", "funcContext.newVariable")
	if nv == nil {
		r.Undecided("newVariable", "compiler/utils.go", "not found")
		return
	}
	// every return of newVariable that is not inside `if pkgLevel` is preceded by the append to localVars
	var appendPos token.Pos
	ast.Inspect(nv.Body, func(n ast.Node) bool {
		if as, ok := n.(*ast.AssignStmt); ok && len(as.Lhs) == 1 && exprStr(as.Lhs[0]) == "fc.localVars" && strings.HasPrefix(exprStr(as.Rhs[0]), "append(fc.localVars, ") {
			appendPos = as.Pos()
		}
		return true
	})
	ok := appendPos != token.NoPos
	ast.Inspect(nv.Body, func(n ast.Node) bool {
		if rs, isRet := n.(*ast.ReturnStmt); isRet {
			conds := enclosingConds(nv.Body, rs.Pos())
			inPkgLevel := false
			for _, cd := range conds {
				if cd == "pkgLevel" {
					inPkgLevel = true
				}
			}
			if !inPkgLevel && !(appendPos != token.NoPos && appendPos < rs.Pos()) {
				ok = false
			}
		}
		return true
	})
	r.Check(ok, "newVariable:records-locals", c.Pos(nv.Pos()), "every non-package-level name returned by newVariable has been appended to fc.localVars")
	fb := c.FuncDecl("compiler", "funcContext.translateFunctionBody")
	if fb == nil {
		r.Undecided("translateFunctionBody", "compiler/functions.go", "not found")
		return
	}
	src := nodeString(c, fb.Body)
	// restore list: copy of fc.localVars + $r, minus funcRef only
	r.Check(strings.Contains(src, "localVars := append([]string{}, fc.localVars...)"), "restore:from-localVars", c.Pos(fb.Pos()), "the restore list starts as a copy of fc.localVars")
	r.Check(strings.Contains(src, `localVars = append(localVars, "$r")`), "restore:$r", c.Pos(fb.Pos()), "the restore list includes $r")
	nRemove := strings.Count(src, "removeMatching(localVars,")
	r.Check(nRemove == 1 && strings.Contains(src, "removeMatching(localVars, fc.funcRef.Name)"), "restore:only-funcRef-removed", c.Pos(fb.Pos()), "the only name removed from the restore list is the function's own reference")
	// the templates take those lists
	var restore, save *tmpl.Template
	for _, t := range templatesIn(c, fb.Body) {
		if strings.Contains(t.Text, "$restore(this,") {
			restore = t
		}
		if strings.Contains(t.Text, "var $f = {$blk:") {
			save = t
		}
	}
	if restore != nil {
		a := restore.FmtArgs()
		r.Check(len(a) == 2 && exprStr(a[0]) == `strings.Join(localVars, ", ")` && exprStr(a[1]) == `strings.Join(args, ", ")`, "restore:args", c.Pos(restore.Pos), "the destructuring restores exactly the restore list; the fallback object holds the parameters")
	}
	if save != nil {
		a := save.FmtArgs()
		r.Check(len(a) == 2 && exprStr(a[1]) == `strings.Join(fc.localVars, ", ")`, "save:args", c.Pos(save.Pos), "the saved frame holds every name of fc.localVars")
	}
	// $s and $deferred are added to localVars before the frame is rendered
	iS := strings.Index(src, `fc.localVars = append(fc.localVars, "$s")`)
	iD := strings.Index(src, `fc.localVars = append(fc.localVars, "$deferred")`)
	iF := strings.Index(src, "saveContext :=")
	r.Check(iS >= 0 && iD >= 0 && iF > iS && iF > iD, "frame:protocol-vars", c.Pos(fb.Pos()), "$s (state) and $deferred (pending defers) are part of localVars before the frame is built, so they survive suspension")
}

func ruleC02Flatten(c *ctx.Ctx, r *core.Reporter) {
	r.Begin("C02.flatten", "F-WHO", "Blocking implies Flattened for every node of the visitor stack; the translator consults Flattened/Blocking in every construct that has a resumable form", 14)
	mb := c.FuncDecl(analysisPkg, "FuncInfo.markBlocking")
	if mb == nil {
		r.Undecided("markBlocking", analysisPkg, "not found")
		return
	}
	_ = squash
	r.Check(func() bool {
		// for _, n := range <the parameter> { fi.Blocking[n] = true; fi.Flattened[n] = true } (either order)
		param := ""
		if ps := mb.Type.Params.List; len(ps) == 1 && len(ps[0].Names) == 1 {
			param = ps[0].Names[0].Name
		}
		for _, p := range []string{`for _, µn := range µs { µfi.Blocking[µn] = true; µfi.Flattened[µn] = true }`, `for _, µn := range µs { µfi.Flattened[µn] = true; µfi.Blocking[µn] = true }`} {
			for _, m := range findGoPattern(mb.Body, p) {
				if m.Env["µs"] == param && param != "" {
					return true
				}
			}
		}
		return false
	}(), "markBlocking:both-maps-whole-stack", c.Pos(mb.Pos()), "markBlocking sets Blocking and Flattened for every node of the given stack")
	// writers of Blocking in package analysis
	p := c.Pkg(analysisPkg)
	for _, fd := range c.AllFuncDecls(analysisPkg) {
		if fd.Body == nil {
			continue
		}
		ast.Inspect(fd.Body, func(n ast.Node) bool {
			as, ok := n.(*ast.AssignStmt)
			if !ok || len(as.Lhs) != 1 {
				return true
			}
			ix, ok := as.Lhs[0].(*ast.IndexExpr)
			if !ok {
				return true
			}
			sel, ok := ix.X.(*ast.SelectorExpr)
			if !ok || sel.Sel.Name != "Blocking" {
				return true
			}
			fn := ctx.FuncName(fd)
			okw := fn == "FuncInfo.markBlocking" || (fn == "Info.newFuncInfo" && strings.Contains(exprStr(as.Lhs[0]), "[n]"))
			r.Check(okw, "blocking-writer:"+fn, c.Pos(as.Pos()), "Blocking is written only by markBlocking (which also flattens) and for the bodiless function declaration itself")
			return true
		})
	}
	_ = p
	// translator consults
	type use struct{ fn, label, expr, what string }
	for _, u := range []use{
		{"funcContext.translateStmt", "*ast.IfStmt", "fc.Flattened[s]", "if statements"},
		{"funcContext.translateStmt", "*ast.SwitchStmt", "fc.Flattened[s]", "switch statements"},
		{"funcContext.translateStmt", "*ast.TypeSwitchStmt", "fc.Flattened[s]", "type switches"},
		{"funcContext.translateStmt", "*ast.ForStmt", "fc.Flattened[s]", "for loops"},
		{"funcContext.translateStmt", "*ast.RangeStmt", "fc.Flattened[s]", "range loops"},
		{"funcContext.translateStmt", "*ast.SelectStmt", "fc.Flattened[clause]", "select clauses"},
		{"funcContext.translateStmt", "*ast.ReturnStmt", "fc.Blocking[s]", "return statements (blocking deferred calls)"},
		{"funcContext.translateStmt", "*ast.LabeledStmt", "fc.GotoLabel[label]", "goto labels"},
		{"funcContext.translateExpr", "token.LAND", "fc.Blocking[e.Y]", "&& with a blocking right operand"},
		{"funcContext.translateExpr", "token.LOR", "fc.Blocking[e.Y]", "|| with a blocking right operand"},
	} {
		fd := c.FuncDecl("compiler", u.fn)
		if fd == nil {
			r.Undecided("consults:"+u.label, "compiler", u.fn+" not found")
			continue
		}
		arm := armOf(fd, u.label)
		ok := arm != nil && strings.Contains(nodeString(c, arm), u.expr)
		site := c.Pos(fd.Pos())
		if arm != nil {
			site = c.Pos(arm.Pos())
		}
		r.Check(ok, "consults:"+u.label, site, fmt.Sprintf("the translation of %s consults %s to choose the resumable form", u.what, u.expr))
	}
	if ta := c.FuncDecl("compiler", "funcContext.translateArgs"); ta != nil {
		r.Check(strings.Contains(nodeString(c, ta.Body), "fc.Blocking[argExprs[i]]"), "consults:args", c.Pos(ta.Pos()), "argument evaluation order is preserved with temporaries when a later argument blocks")
	}
	// range arms pass the flag for every range kind
	if ts := c.FuncDecl("compiler", "funcContext.translateStmt"); ts != nil {
		if arm := armOf(ts, "*ast.RangeStmt"); arm != nil {
			n := strings.Count(nodeString(c, arm), "label, fc.Flattened[s])")
			r.Check(n >= 3, "consults:range-all-kinds", c.Pos(arm.Pos()), fmt.Sprintf("string, map and array/slice range loops all pass fc.Flattened[s] (%d calls); the channel form is rewritten to a flattened for loop", n))
			r.Check(strings.Contains(nodeString(c, arm), "fc.Flattened[forStmt] = true"), "consults:range-chan-flattened", c.Pos(arm.Pos()), "the synthetic loop for range over a channel is marked flattened")
		}
	}
	// blocking writers in package compiler: synthetic nodes only
	allowed := map[string]string{"funcContext.importInitializer": "import initialiser", "funcContext.callInitFunc": "init call", "funcContext.callMainFunc": "main call", "funcContext.translateStmt": "send / select", "funcContext.translateExpr": "receive"}
	for _, fd := range c.AllFuncDecls("compiler") {
		if fd.Body == nil {
			continue
		}
		ast.Inspect(fd.Body, func(n ast.Node) bool {
			as, ok := n.(*ast.AssignStmt)
			if !ok || len(as.Lhs) != 1 {
				return true
			}
			if ix, ok := as.Lhs[0].(*ast.IndexExpr); ok && exprStr(ix.X) == "fc.Blocking" {
				fn := ctx.FuncName(fd)
				if _, ok := allowed[fn]; !ok {
					r.Info("blocking-writer:compiler:"+fn, c.Pos(as.Pos()), "fc.Blocking is written outside the reviewed synthetic-node sites (not judged)")
				}
			}
			return true
		})
	}
	// importInitializer marks its synthetic call blocking and flattened
	if ii := c.FuncDecl("compiler", "funcContext.importInitializer"); ii != nil {
		r.Check(importInitWaits(ii), "import-init:blocking+flattened", c.Pos(ii.Pos()), "the call of an imported package's $init is blocking and flattened — unconditionally: whether that package's initialisation suspends is not known when the importer is compiled (packages are compiled in import-path order, and init functions and transitive imports are marked later), and an importer that does not wait is overtaken")
	}
}

var _ = types.Typ

// ---------------------------------------------------------------------------
// C02.escape: variables captured across a suspension point are boxed per loop iteration / function activation

func ruleC02Escape(c *ctx.Ctx, r *core.Reporter) {
	r.Begin("C02.escape", "F-MUST", "captured variables are boxed where their scope is (re)entered: every loop body and every blocking function body calls handleEscapingVars, and the escape search stops at function literals and at loop *bodies* only, so that loop-header variables are found from the enclosing scope", 7)
	v := c.FuncDecl(analysisPkg, "escapeAnalysis.Visit")
	if v == nil {
		r.Undecided("escapeAnalysis.Visit", analysisPkg, "not found")
		return
	}
	// bottom scopes: exactly Scopes[n.Type] for FuncLit and Scopes[n.Body] for loops
	var keys []string
	ast.Inspect(v.Body, func(n ast.Node) bool {
		as, ok := n.(*ast.AssignStmt)
		if !ok || len(as.Lhs) != 1 {
			return true
		}
		if ix, ok := as.Lhs[0].(*ast.IndexExpr); ok && strings.HasSuffix(exprStr(ix.X), ".bottomScopes") {
			conds := enclosingConds(v.Body, as.Pos())
			lab := ""
			for _, cd := range conds {
				if strings.HasPrefix(cd, "case ") {
					lab = cd
				}
			}
			inner := exprStr(ix.Index)
			keys = append(keys, lab+" -> "+inner)
			switch {
			case strings.Contains(lab, "*ast.FuncLit"):
				r.Check(strings.HasSuffix(inner, ".Scopes[n.Type]"), "bottom:FuncLit", c.Pos(as.Pos()), "a function literal cuts off the search at the scope of its signature (parameters and everything inside are the literal's own): "+inner)
			case strings.Contains(lab, "*ast.ForStmt") || strings.Contains(lab, "*ast.RangeStmt"):
				for _, k := range strings.Split(strings.TrimPrefix(lab, "case "), ",") {
					r.Check(strings.HasSuffix(inner, ".Scopes[n.Body]"), "bottom:"+k, c.Pos(as.Pos()), fmt.Sprintf("a loop cuts off the search at the scope of its BODY (%s): variables of the loop header live in the loop statement's own scope and are boxed by the enclosing analysis, variables of the body are boxed when the loop body is translated", inner))
				}
			default:
				r.Violation("bottom:other:"+lab, c.Pos(as.Pos()), "an additional construct cuts off the escape search: "+lab+" -> "+inner)
			}
		}
		return true
	})
	if len(keys) < 3 {
		r.Undecided("bottom:arms", c.Pos(v.Pos()), fmt.Sprintf("expected bottom scopes for FuncLit, ForStmt and RangeStmt; found %v", keys))
	}
	// address-of identifiers and function literals start a collector
	_ = squash
	r.Check(hasGoPattern(v.Body, `if µn.Op == token.AND { if _, µok := astutil.RemoveParens(µn.X).(*ast.Ident); µok { return &escapingObjectCollector{µv} } }`), "collect:address-of", c.Pos(v.Pos()), "taking the address of a variable — &x as well as &(x), which the translator treats alike — marks it as escaping")
	if arm := armOf(v, "*ast.FuncLit"); arm != nil {
		r.Check(strings.Contains(nodeString(c, arm), "return &escapingObjectCollector{v}"), "collect:closure", c.Pos(arm.Pos()), "every variable referenced inside a function literal is examined")
	}
	// collector walks scopes upward to topScope
	if col := c.FuncDecl(analysisPkg, "escapingObjectCollector.Visit"); col != nil {
		s := squash(nodeString(c, col.Body))
		r.Check(strings.Contains(s, "fors:=obj.Parent();s!=nil;s=s.Parent(){ifs==v.analysis.topScope{") && strings.Contains(s, "ifv.analysis.bottomScopes[s]{break}"), "collect:scope-walk", c.Pos(col.Pos()), "a referenced variable escapes iff its declaring scope is reached from the analysed node's scope without crossing a bottom scope")
	}
	// users
	if fd := c.FuncDecl("compiler", "funcContext.translateLoopingStmt"); fd != nil {
		s := squash(nodeString(c, fd.Body))
		iH := strings.Index(s, "fc.handleEscapingVars(body)")
		iB := strings.Index(s, "fc.translateStmtList(body.List)")
		r.Check(iH >= 0 && iB > iH && strings.Contains(s, "prevEV:=fc.pkgCtx.escapingVars") && strings.Contains(s, "fc.pkgCtx.escapingVars=prevEV"), "use:loop-body", c.Pos(fd.Pos()), "each loop iteration re-boxes the body's captured variables before the body runs and the set is restored afterwards")
	}
	if fd := c.FuncDecl("compiler", "funcContext.translateFunctionBody"); fd != nil {
		s := squash(nodeString(c, fd.Body))
		r.Check(strings.Contains(s, "iffc.IsBlocking(){fc.pkgCtx.Scopes[body]=fc.pkgCtx.Scopes[typ]fc.handleEscapingVars(body)}"), "use:blocking-function", c.Pos(fd.Pos()), "a blocking function boxes its captured parameters and locals on entry (they must survive suspension together with the closures that captured them)")
	}
	if fd := c.FuncDecl("compiler", "funcContext.handleEscapingVars"); fd != nil {
		s := squash(nodeString(c, fd.Body))
		r.Check(strings.Contains(s, "analysis.EscapingObjects(n,fc.pkgCtx.Info.Info)") && strings.Contains(s, "fc.pkgCtx.escapingVars[obj]=true") && strings.Contains(s, `fc.Printf("%s=[%s];",name,name)`), "use:boxing", c.Pos(fd.Pos()), "every escaping object is recorded and boxed as `name = [name]`")
	}
}

// isFlagFixpoint recognises `for !F { F = true; … if !X.step() { F = false } … }`: the loop runs
// until one full round in which every call of step reported "nothing left to do". The flag may have
// any name; it must be set at the start of each round and cleared only (and always) under the
// negated result of step.
func isFlagFixpoint(loop *ast.ForStmt, step string) bool {
	neg, ok := loop.Cond.(*ast.UnaryExpr)
	if !ok || neg.Op != token.NOT {
		return false
	}
	flagID, ok := neg.X.(*ast.Ident)
	if !ok || len(loop.Body.List) == 0 {
		return false
	}
	flag := flagID.Name
	isSet := func(st ast.Stmt, val string) bool {
		as, ok := st.(*ast.AssignStmt)
		return ok && as.Tok == token.ASSIGN && len(as.Lhs) == 1 && exprStr(as.Lhs[0]) == flag && exprStr(as.Rhs[0]) == val
	}
	if !isSet(loop.Body.List[0], "true") {
		return false
	}
	cleared, stray, unchecked := 0, 0, 0
	guarded := map[ast.Stmt]bool{}
	ast.Inspect(loop.Body, func(n ast.Node) bool {
		if is, ok := n.(*ast.IfStmt); ok {
			if u, ok := is.Cond.(*ast.UnaryExpr); ok && u.Op == token.NOT {
				if call, ok := u.X.(*ast.CallExpr); ok {
					if sel, ok := call.Fun.(*ast.SelectorExpr); ok && sel.Sel.Name == step {
						for _, st := range is.Body.List {
							if isSet(st, "false") {
								cleared++
								guarded[st] = true
							}
						}
						if cleared == 0 {
							unchecked++
						}
					}
				}
			}
		}
		return true
	})
	ast.Inspect(loop.Body, func(n ast.Node) bool {
		if st, ok := n.(ast.Stmt); ok && st != loop.Body.List[0] && !guarded[st] {
			if as, ok := st.(*ast.AssignStmt); ok {
				for _, l := range as.Lhs {
					if exprStr(l) == flag {
						stray++
					}
				}
			}
		}
		return true
	})
	// every call of step is one whose result is tested
	calls := len(callsNamed(loop.Body, step))
	return cleared >= 1 && stray == 0 && unchecked == 0 && calls == cleared
}

// importInitWaits: importInitializer builds a call expression and marks it in both Blocking and Flattened
// of the function context, outside of any condition.
func importInitWaits(ii *ast.FuncDecl) bool {
	okB, okF := false, false
	for _, m := range findGoPattern(ii.Body, `µfc.Blocking[µcall] = true`) {
		if len(enclosingIfs(ii.Body, m.Node.Pos())) == 0 {
			okB = true
		}
	}
	for _, m := range findGoPattern(ii.Body, `µfc.Flattened[µcall] = true`) {
		if len(enclosingIfs(ii.Body, m.Node.Pos())) == 0 {
			okF = true
		}
	}
	return okB && okF
}
